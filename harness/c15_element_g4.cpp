#define C15_GROUP 4
#include "c15_element.cpp"
