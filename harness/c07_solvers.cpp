// C07 (V) trace recorder: real FEAT solvers x preconditioners on seeded systems.
//
// Every solver class is wrapped by Logged<S> (derived in this harness), which overrides the virtual protected
// functions _set_initial_defect / _set_new_defect / _update_defect / _calc_def_norm, forwards to the real
// implementation and logs one event per call: the state of the convergence-control machine after the call, the
// returned Status and the OUTCOMES of the floating point comparisons recomputed here from the doubles the solver
// produced and the configured tolerances (finite / diverged / converged / stagnation step / initially tiny).
// The events contain only integers, booleans and strings; spec/Trace_SolverCtl.tla re-runs the machine of
// spec/SolverCtl.tla on them and judges the returned status, the iteration count and the projections computed
// here with code that shares nothing with the solvers (long double dense algebra):
//   rhsSame       right hand side bitwise unchanged
//   resOk         ||b - A x|| (long double, filtered) <= certified threshold + drift bound     (only judged on success)
//   defInitOk     first logged defect = ||b - A x0|| (correct) resp. ||b|| (apply) up to rounding
//   sameAsPrev    result / status / iteration count bitwise equal to the previous solve of the same inputs
//   solUnchanged  solution vector bitwise unchanged (start = exact solution of an integer system)
//   errOk         ||x - x_ref|| <= 2 ||A^-1||_F * certified residual   (x_ref = long double Gaussian elimination)
#include "vharness.hpp"
#include <kernel/lafem/dense_vector.hpp>
#include <kernel/lafem/sparse_matrix_csr.hpp>
#include <kernel/lafem/unit_filter.hpp>
#include <kernel/solver/pcg.hpp>
#include <kernel/solver/pcr.hpp>
#include <kernel/solver/bicgstab.hpp>
#include <kernel/solver/bicgstabl.hpp>
#include <kernel/solver/fgmres.hpp>
#include <kernel/solver/gmres.hpp>
#include <kernel/solver/richardson.hpp>
#include <kernel/solver/rgcr.hpp>
#include <kernel/solver/idrs.hpp>
#include <kernel/solver/pcgnr.hpp>
#include <kernel/solver/pmr.hpp>
#include <kernel/solver/pipepcg.hpp>
#include <kernel/solver/gropppcg.hpp>
#include <kernel/solver/rbicgstab.hpp>
#include <kernel/lafem/vector_mirror.hpp>
#include <kernel/global/gate.hpp>
#include <kernel/global/vector.hpp>
#include <kernel/global/matrix.hpp>
#include <kernel/global/filter.hpp>
#include <kernel/solver/chebyshev.hpp>
#include <kernel/solver/jacobi_precond.hpp>
#include <kernel/solver/sor_precond.hpp>
#include <kernel/solver/ssor_precond.hpp>
#include <kernel/solver/ilu_precond.hpp>
#include <cmath>
#include <functional>
#include <cstring>
#include <limits>

using namespace FEAT;
typedef double DT;
typedef Index IT;
typedef LAFEM::SparseMatrixCSR<DT, IT> MatT;
typedef LAFEM::DenseVector<DT, IT> VecT;
typedef LAFEM::UnitFilter<DT, IT> FilT;
typedef Solver::Status St;
typedef long double LD;
// PipePCG, GroppPCG and RBiCGStab need the asynchronous reductions of Global::Vector: they run on the global
// containers of a single-process gate (no neighbours), all other solvers on the plain LAFEM containers
typedef LAFEM::VectorMirror<DT, IT> MirT;
typedef Global::Gate<VecT, MirT> GateT;
typedef Global::Vector<VecT, MirT> GVecT;
typedef Global::Matrix<MatT, MirT, MirT> GMatT;
typedef Global::Filter<FilT, MirT> GFilT;
static GateT* g_gate = nullptr;

template<class VT> struct VOps;
template<> struct VOps<VecT>
{
  static VecT make(const std::vector<double>& v) { VecT r(Index(v.size())); for(Index i = 0; i < r.size(); ++i) r(i, v[i]); return r; }
  static std::vector<double> read(const VecT& v) { std::vector<double> r(v.size()); for(Index i = 0; i < v.size(); ++i) r[i] = v(i); return r; }
  static double norm(const VecT& v) { return v.size() > 0 ? double(v.norm2()) : 0.0; }
};
template<> struct VOps<GVecT>
{
  static GVecT make(const std::vector<double>& v) { return GVecT(g_gate, VOps<VecT>::make(v)); }
  static std::vector<double> read(const GVecT& v) { return VOps<VecT>::read(v.local()); }
  static double norm(const GVecT& v) { return VOps<VecT>::norm(v.local()); }
};

static const char* stname(St s)
{
  switch(s)
  {
  case St::undefined: return "undefined";
  case St::progress: return "progress";
  case St::success: return "success";
  case St::aborted: return "aborted";
  case St::diverged: return "diverged";
  case St::max_iter: return "max_iter";
  case St::stagnated: return "stagnated";
  }
  return "unknown";
}

// ------------------------------------------------------------------------------------------------------------
// event log of the current solve
// ------------------------------------------------------------------------------------------------------------
struct SolveLog
{
  vj::Value ev = vj::Value::array();   // events for TLC (ints / bools / strings only)
  vj::Value dv = vj::Value::array();   // logged defect norms (diagnostics, not read by TLC)
  double xmax = 0.0;                   // max_j ||x_j|| over the iterates that were visible
};
static SolveLog* g_log = nullptr;

template<class S>
class Logged : public S
{
public:
  using S::S;
  typedef typename S::VectorType VT;
  long ncalc = 0;

  vj::Value cfg_json() const
  {
    vj::Value c = vj::Value::object();
    c["tol_rel"] = this->_tol_rel; c["tol_abs"] = this->_tol_abs; c["tol_abs_low"] = this->_tol_abs_low;
    c["div_rel"] = this->_div_rel; c["div_abs"] = this->_div_abs; c["stag_rate"] = this->_stag_rate;
    return c;
  }
  bool skip_flag() const { return this->_skip_def_calc; }
  Index num_stag() const { return this->_num_stag_iter; }
  Index min_stag() const { return this->_min_stag_iter; }

protected:
  virtual DT _calc_def_norm(const VT& d, const VT& x) override { ++ncalc; return S::_calc_def_norm(d, x); }

  virtual St _set_initial_defect(const VT& d, const VT& x) override
  {
    St st = S::_set_initial_defect(d, x);
    if(g_log)
    {
      const double di = this->_def_init;
      vj::Value e = vj::Value::object();
      e["k"] = "init"; e["st"] = stname(st); e["ni"] = (long long)this->_num_iter; e["ns"] = (long long)this->_num_stag_iter;
      e["ni0"] = 0; e["calc"] = true; e["upd"] = false;
      e["fin"] = bool(std::isfinite(di));
      e["tinyLow"] = bool(di < this->_tol_abs_low);
      e["tinyEps"] = bool(di <= std::numeric_limits<DT>::epsilon() * std::numeric_limits<DT>::epsilon());
      e["div"] = false; e["conv"] = false; e["stag"] = false;
      e["same"] = bool(this->_def_cur == di && this->_def_prev == di);
      g_log->ev.push(e); g_log->dv.push(vj::Value(di));
      { double xn = VOps<VT>::norm(x); if(std::isfinite(xn)) g_log->xmax = std::max(g_log->xmax, xn); }
    }
    return st;
  }

  void log_step(bool upd, Index ni0, long nc0, St st)
  {
    const double dc = this->_def_cur, dp = this->_def_prev, di = this->_def_init;
    vj::Value e = vj::Value::object();
    e["k"] = "step"; e["st"] = stname(st); e["ni0"] = (long long)ni0; e["ni"] = (long long)this->_num_iter;
    e["ns"] = (long long)this->_num_stag_iter; e["calc"] = bool(upd || ncalc > nc0); e["upd"] = upd;
    e["fin"] = bool(std::isfinite(dc));
    // the documented criteria, recomputed from the logged doubles
    e["div"] = bool((dc > this->_div_abs) || (dc > (this->_div_rel * di)));
    e["conv"] = bool((dc <= this->_tol_abs) && ((dc <= (this->_tol_rel * di)) || (dc <= this->_tol_abs_low)));
    e["stag"] = bool(dc >= this->_stag_rate * dp);
    e["tinyLow"] = false; e["tinyEps"] = false; e["same"] = true;
    g_log->ev.push(e); g_log->dv.push(vj::Value(dc));
  }

  virtual St _set_new_defect(const VT& d, const VT& x) override
  {
    const Index ni0 = this->_num_iter; const long nc0 = ncalc;
    St st = S::_set_new_defect(d, x);
    if(g_log)
    {
      log_step(false, ni0, nc0, st);
      { double xn = VOps<VT>::norm(x); if(std::isfinite(xn)) g_log->xmax = std::max(g_log->xmax, xn); }
    }
    return st;
  }

  virtual St _update_defect(const DT n) override
  {
    const Index ni0 = this->_num_iter; const long nc0 = ncalc;
    St st = S::_update_defect(n);
    if(g_log) log_step(true, ni0, nc0, st);
    return st;
  }
};

// preconditioner proxy: records failures, can inject one
template<class VT>
class PrecProxy : public Solver::SolverBase<VT>
{
public:
  std::shared_ptr<Solver::SolverBase<VT>> p;
  long calls = 0, fail_at = -1;
  bool failed = false;
  explicit PrecProxy(std::shared_ptr<Solver::SolverBase<VT>> q) : p(q) {}
  virtual String name() const override { return "Proxy"; }
  virtual void init_symbolic() override { if(p) p->init_symbolic(); }
  virtual void init_numeric() override { if(p) p->init_numeric(); }
  virtual void done_numeric() override { if(p) p->done_numeric(); }
  virtual void done_symbolic() override { if(p) p->done_symbolic(); }
  virtual St apply(VT& cor, const VT& def) override
  {
    ++calls;
    if(calls == fail_at) { failed = true; cor.format(); return St::aborted; }
    St s;
    if(p) s = p->apply(cor, def); else { cor.copy(def); s = St::success; }
    if(!Solver::status_success(s)) failed = true;
    return s;
  }
};

// ------------------------------------------------------------------------------------------------------------
// seeded systems
// ------------------------------------------------------------------------------------------------------------
struct Rng
{
  std::uint64_t s;
  explicit Rng(std::uint64_t seed) : s(seed * 0x9E3779B97F4A7C15ull + 0x1234567ull) {}
  std::uint64_t next() { std::uint64_t z = (s += 0x9E3779B97F4A7C15ull); z = (z ^ (z >> 30)) * 0xBF58476D1CE4E5B9ull; z = (z ^ (z >> 27)) * 0x94D049BB133111EBull; return z ^ (z >> 31); }
  double uni() { return double(next() >> 11) / 9007199254740992.0; }       // [0,1)
  double sym() { return 2.0 * uni() - 1.0; }
  long range(long a, long b) { return a + long(next() % std::uint64_t(b - a + 1)); }
};

struct System
{
  Index n = 0;
  std::vector<double> a;       // dense n x n, the operator as the solver sees it (unit rows only if filter_mat was applied)
  std::vector<double> af;      // the matrix of the filtered system: a with unit rows at the filtered dofs
  std::vector<char> pat;       // sparsity pattern
  std::vector<Index> fidx;     // filtered dofs
  std::vector<double> fval;
  MatT mat;
  FilT fil;
  double normF = 0.0;
};

// kinds: "spd"  symmetric, strictly diagonally dominant, positive diagonal (M-matrix like, off-diagonals <= 0)
//        "spdg" symmetric positive definite with off-diagonals of both signs
//        "nsym" nonsymmetric, strictly row diagonally dominant, positive diagonal
//        "ispd" / "insym" the same with small integer entries (exact arithmetic scenarios)
//        "near1" I + small nonsymmetric perturbation (unpreconditioned Richardson converges)
//        "one" the 1x1 matrix [2]; "sid" the scaled identity 2 I; "diagev" diag(1,2,4,1,2,4,...): exact data for the
//        scenario "breakdown" (right hand side = 4 e_k, an exact eigenvector: the Krylov space is exhausted after
//        one step and every quantity of the first step is exact in floating point)
// raw = true: the constraints of the unit filter are NOT built into the matrix rows (filter_mat is not applied); the
// solvers then have to impose them through filter_def / filter_cor alone
static void make_system(System& S, const std::string& kind, Index n, std::uint64_t seed, double delta, double dens, int nfilter, bool raw)
{
  Rng r(seed);
  S.n = n; S.a.assign(n * n, 0.0); S.pat.assign(n * n, 0);
  const bool integer = (kind == "ispd" || kind == "insym");
  const bool symm = (kind == "spd" || kind == "spdg" || kind == "ispd");
  const bool diagonal = (kind == "one" || kind == "sid" || kind == "diagev");
  for(Index i = 0; i < n; ++i)
    for(Index j = 0; j < n; ++j)
    {
      if(i == j || diagonal) continue;
      if(symm && j < i) continue;
      bool band = (j == i + 1 || i == j + 1);
      if(!(band || r.uni() < dens)) continue;
      double v;
      if(integer) v = (kind == "ispd") ? -1.0 : double(r.range(-2, 1) == 0 ? 1 : r.range(-2, -1));
      else if(kind == "spd") v = -(0.1 + 0.9 * r.uni());
      else if(kind == "near1") v = 0.4 * r.sym() / double(n);
      else v = r.sym();
      S.a[i * n + j] = v; S.pat[i * n + j] = 1;
      if(symm) { S.a[j * n + i] = v; S.pat[j * n + i] = 1; }
    }
  for(Index i = 0; i < n; ++i)
  {
    double s = 0.0;
    for(Index j = 0; j < n; ++j) if(j != i) s += std::fabs(S.a[i * n + j]);
    double d;
    if(integer) d = s + 1.0 + double(r.range(0, 2));
    else if(kind == "near1") d = 1.0;
    else if(kind == "one" || kind == "sid") d = 2.0;
    else if(kind == "diagev") d = double(1 << (i % 3));
    else d = s * (1.0 + delta) + delta;
    S.a[i * n + i] = d; S.pat[i * n + i] = 1;
  }
  // unit filter on a few dofs
  S.fil = FilT(n);
  for(int k = 0; k < nfilter && Index(k) < n; ++k)
  {
    Index idx = Index(r.range(0, long(n) - 1));
    bool dup = false; for(Index q : S.fidx) dup = dup || (q == idx);
    if(dup) continue;
    double v = integer ? double(r.range(-2, 2)) : r.sym();
    S.fidx.push_back(idx); S.fval.push_back(v);
    S.fil.add(idx, v);
  }
  // CSR
  Index nnz = 0; for(char c : S.pat) nnz += (c ? 1 : 0);
  LAFEM::DenseVector<IT, IT> rp(n + 1), ci(nnz); VecT va(nnz);
  Index p = 0;
  for(Index i = 0; i < n; ++i)
  {
    rp(i, p);
    for(Index j = 0; j < n; ++j) if(S.pat[i * n + j]) { ci(p, j); va(p, S.a[i * n + j]); ++p; }
  }
  rp(n, p);
  S.mat = MatT(n, n, ci, va, rp);
  S.af = S.a;
  for(Index q : S.fidx) { for(Index j = 0; j < n; ++j) S.af[q * n + j] = (j == q ? 1.0 : 0.0); }
  if(!S.fidx.empty() && !raw)
  {
    S.fil.filter_mat(S.mat);
    S.a = S.af;
  }
  double f = 0.0; for(double v : S.a) f += v * v; S.normF = std::sqrt(f);
}

static VecT to_vec(const std::vector<double>& v) { VecT r(Index(v.size())); for(Index i = 0; i < r.size(); ++i) r(i, v[i]); return r; }
static std::vector<double> from_vec(const VecT& v) { std::vector<double> r(v.size()); for(Index i = 0; i < v.size(); ++i) r[i] = v(i); return r; }
// bitwise equality, except that any NaN equals any NaN (the payload / sign of a NaN is not a result)
static bool same_values(const std::vector<double>& x, const std::vector<double>& y)
{
  if(x.size() != y.size()) return false;
  for(std::size_t i = 0; i < x.size(); ++i)
  {
    if(std::isnan(x[i]) && std::isnan(y[i])) continue;
    if(std::memcmp(&x[i], &y[i], sizeof(double)) != 0) return false;
  }
  return true;
}
static bool bitwise_equal(const std::vector<double>& x, const std::vector<double>& y)
{
  return x.size() == y.size() && (x.empty() || std::memcmp(x.data(), y.data(), x.size() * sizeof(double)) == 0);
}
static LD norm_ld(const std::vector<LD>& v) { LD s = 0; for(LD t : v) s += t * t; return std::sqrt(s); }

// filtered residual b - A x in long double
static std::vector<LD> residual_ld(const System& S, const std::vector<double>& x, const std::vector<double>& b)
{
  std::vector<LD> r(S.n);
  for(Index i = 0; i < S.n; ++i)
  {
    LD s = LD(b[i]);
    for(Index j = 0; j < S.n; ++j) if(S.a[i * S.n + j] != 0.0) s -= LD(S.a[i * S.n + j]) * LD(x[j]);
    r[i] = s;
  }
  for(Index q : S.fidx) r[q] = 0;
  return r;
}

// dense inverse in long double (Gauss-Jordan, partial pivoting); returns false if singular
static bool inverse_ld(const System& S, std::vector<LD>& inv)
{
  const Index n = S.n; std::vector<LD> m(n * n); inv.assign(n * n, 0);
  for(Index i = 0; i < n * n; ++i) m[i] = LD(S.af[i]);
  for(Index i = 0; i < n; ++i) inv[i * n + i] = 1;
  for(Index c = 0; c < n; ++c)
  {
    Index piv = c; for(Index i = c + 1; i < n; ++i) if(std::fabs(m[i * n + c]) > std::fabs(m[piv * n + c])) piv = i;
    if(m[piv * n + c] == 0) return false;
    if(piv != c) for(Index j = 0; j < n; ++j) { std::swap(m[piv * n + j], m[c * n + j]); std::swap(inv[piv * n + j], inv[c * n + j]); }
    LD d = m[c * n + c];
    for(Index j = 0; j < n; ++j) { m[c * n + j] /= d; inv[c * n + j] /= d; }
    for(Index i = 0; i < n; ++i) if(i != c)
    {
      LD f = m[i * n + c]; if(f == 0) continue;
      for(Index j = 0; j < n; ++j) { m[i * n + j] -= f * m[c * n + j]; inv[i * n + j] -= f * inv[c * n + j]; }
    }
  }
  return true;
}

// ------------------------------------------------------------------------------------------------------------
// solver construction
// ------------------------------------------------------------------------------------------------------------
template<class VT>
struct Built
{
  std::shared_ptr<Solver::IterativeSolver<VT>> solver;
  std::shared_ptr<PrecProxy<VT>> proxy;
  std::function<vj::Value()> cfg;
  std::function<bool()> skip;
  std::function<long long()> min_stag;
  bool inner = false, half = false, breakdown = false, recomputes = false, pipelined = false, updsolver = false;
};

template<class S, class... Args>
static void mk(Built<typename S::VectorType>& b, Args&&... args)
{
  auto s = std::make_shared<Logged<S>>(std::forward<Args>(args)...);
  b.solver = s;
  b.cfg = [s]() { return s->cfg_json(); };
  b.skip = [s]() { return s->skip_flag(); };
  b.min_stag = [s]() { return (long long)s->min_stag(); };
}

static bool build(Built<VecT>& b, const std::string& sname, const std::string& pname, const System& S, double omega_prec)
{
  std::shared_ptr<Solver::SolverBase<VecT>> prec;
  if(pname == "jacobi") prec = Solver::new_jacobi_precond(S.mat, S.fil, omega_prec);
  else if(pname == "sor") prec = Solver::new_sor_precond(PreferredBackend::generic, S.mat, S.fil, omega_prec);
  else if(pname == "ssor") prec = Solver::new_ssor_precond(PreferredBackend::generic, S.mat, S.fil, omega_prec);
  else if(pname == "ilu") prec = Solver::new_ilu_precond(PreferredBackend::generic, S.mat, S.fil, 0);
  else if(pname != "none") return false;
  std::shared_ptr<Solver::SolverBase<VecT>> px;
  if(prec) { b.proxy = std::make_shared<PrecProxy<VecT>>(prec); px = b.proxy; }
  if(sname == "PCG") mk<Solver::PCG<MatT, FilT>>(b, S.mat, S.fil, px);
  else if(sname == "PCR") mk<Solver::PCR<MatT, FilT>>(b, S.mat, S.fil, px);
  else if(sname == "BiCGStab") { mk<Solver::BiCGStab<MatT, FilT>>(b, S.mat, S.fil, px, Solver::BiCGStabPreconVariant::left); b.half = true; b.breakdown = true; }
  else if(sname == "BiCGStabR") { mk<Solver::BiCGStab<MatT, FilT>>(b, S.mat, S.fil, px, Solver::BiCGStabPreconVariant::right); b.half = true; b.breakdown = true; }
  else if(sname == "BiCGStabL") { mk<Solver::BiCGStabL<MatT, FilT>>(b, S.mat, S.fil, 2, px, Solver::BiCGStabLPreconVariant::left); b.recomputes = true; }
  else if(sname == "FGMRES") { mk<Solver::FGMRES<MatT, FilT>>(b, S.mat, S.fil, Index(4), DT(0), px); b.inner = true; b.recomputes = true; }
  else if(sname == "GMRES") { mk<Solver::GMRES<MatT, FilT>>(b, S.mat, S.fil, Index(4), DT(0), px); b.inner = true; b.recomputes = true; }
  else if(sname == "Richardson") { mk<Solver::Richardson<MatT, FilT>>(b, S.mat, S.fil, DT(1), px); b.recomputes = true; }
  else if(sname == "RichardsonDiv") { mk<Solver::Richardson<MatT, FilT>>(b, S.mat, S.fil, DT(2.5), px); b.recomputes = true; }
  else if(sname == "RGCR") mk<Solver::RGCR<MatT, FilT>>(b, S.mat, S.fil, px);
  else if(sname == "IDRS")
  {
    auto s = std::make_shared<Logged<Solver::IDRS<MatT, FilT>>>(S.mat, S.fil, Index(3), px);
    s->reset_shadow_space(false);   // deterministic shadow space (seed = rank) instead of the time-seeded default
    b.solver = s; b.cfg = [s]() { return s->cfg_json(); }; b.skip = [s]() { return s->skip_flag(); };
    b.min_stag = [s]() { return (long long)s->min_stag(); };
  }
  else if(sname == "PCGNR") mk<Solver::PCGNR<MatT, FilT>>(b, S.mat, S.fil, px, px);
  else if(sname == "PMR") mk<Solver::PMR<MatT, FilT>>(b, S.mat, S.fil, px);
  else if(sname == "Chebyshev") { if(px) return false; mk<Solver::Chebyshev<MatT, FilT>>(b, S.mat, S.fil, DT(0.03), DT(1.1)); b.recomputes = true; }
  else return false;
  return true;
}


// the three solvers that need Global::Vector (asynchronous dot products); preconditioners: none, Jacobi
struct GlobalSystem
{
  GateT gate;
  GMatT mat;
  GFilT fil;
  explicit GlobalSystem(const System& S) : gate(Dist::Comm::world()), mat(&gate, &gate, S.mat.clone()), fil(S.fil.clone())
  {
    gate.compile(VecT(S.n, DT(1)));
  }
};
static bool build_global(Built<GVecT>& b, const std::string& sname, const std::string& pname, GlobalSystem& G, double omega_prec)
{
  std::shared_ptr<Solver::SolverBase<GVecT>> prec;
  if(pname == "jacobi") prec = Solver::new_jacobi_precond(G.mat, G.fil, omega_prec);
  else if(pname != "none") return false;
  std::shared_ptr<Solver::SolverBase<GVecT>> px;
  if(prec) { b.proxy = std::make_shared<PrecProxy<GVecT>>(prec); px = b.proxy; }
  if(sname == "PipePCG") { mk<Solver::PipePCG<GMatT, GFilT>>(b, G.mat, G.fil, px); b.pipelined = true; b.updsolver = true; }
  else if(sname == "GroppPCG") { mk<Solver::GroppPCG<GMatT, GFilT>>(b, G.mat, G.fil, px); b.pipelined = true; b.updsolver = true; }
  else if(sname == "RBiCGStab") { mk<Solver::RBiCGStab<GMatT, GFilT>>(b, G.mat, G.fil, px); b.half = true; b.updsolver = true; }
  else return false;
  return true;
}

// ------------------------------------------------------------------------------------------------------------
// one solve = one trace record
// ------------------------------------------------------------------------------------------------------------
struct Prev { bool have = false; std::vector<double> x; std::string st; long long ni = -1; };

template<class VT>
static vj::Value one_solve(const vj::Value& c, Built<VT>& B, const System& S, const std::string& mode, const std::vector<double>& x0,
                           const std::vector<double>& b, const std::vector<LD>* inv, const std::vector<double>* xexact, Prev& prev,
                           const std::string& tag, vj::Value& diag)
{
  const Index n = S.n;
  auto& sol = *B.solver;
  VT vb = VOps<VT>::make(b), vx = VOps<VT>::make(x0);
  SolveLog log; g_log = &log;
  if(B.proxy) { B.proxy->failed = false; }
  St ret = (mode == "apply") ? sol.apply(vx, vb) : sol.correct(vx, vb);
  g_log = nullptr;
  std::vector<double> x = VOps<VT>::read(vx), b2 = VOps<VT>::read(vb);

  vj::Value T = vj::Value::object();
  T["solver"] = c["solver"].as_str(); T["prec"] = c["prec"].as_str(); T["scen"] = c["scen"].as_str(); T["tag"] = tag;
  T["mkind"] = c["mkind"].as_str(); T["mode"] = mode;
  T["minIter"] = (long long)sol.get_min_iter(); T["maxIter"] = (long long)sol.get_max_iter(); T["minStag"] = B.min_stag();
  T["skip"] = B.skip(); T["inner"] = B.inner; T["half"] = B.half; T["breakdown"] = B.breakdown;
  T["ev"] = log.ev;
  T["ret"] = stname(ret); T["getst"] = stname(sol.get_status()); T["retNi"] = (long long)sol.get_num_iter();
  T["precFail"] = bool(B.proxy && B.proxy->failed);
  T["precInject"] = bool(B.proxy && B.proxy->fail_at > 0);

  // comparison outcomes on the final defect (needed to judge the half-step exits of BiCGStab / RBiCGStab)
  vj::Value cfg = B.cfg();
  const double df = sol.get_def_final(), di = sol.get_def_initial();
  const double tol_rel = cfg["tol_rel"].as_real(), tol_abs = cfg["tol_abs"].as_real(), tol_low = cfg["tol_abs_low"].as_real();
  T["finF"] = bool(std::isfinite(df));
  T["convF"] = bool((df <= tol_abs) && ((df <= (tol_rel * di)) || (df <= tol_low)));
  T["divF"] = bool((df > cfg["div_abs"].as_real()) || (df > (cfg["div_rel"].as_real() * di)));

  // ---- projections ------------------------------------------------------------------------------------------
  T["rhsSame"] = bitwise_equal(b, b2);
  bool xfin = true; for(double v : x) xfin = xfin && std::isfinite(v);
  T["solFinite"] = xfin;
  const double eps = std::numeric_limits<double>::epsilon();
  double xn = 0, bn = 0, x0n = 0;
  for(double v : x) xn += v * v; xn = std::sqrt(xn);
  for(double v : b) bn += v * v; bn = std::sqrt(bn);
  if(mode == "correct") { for(double v : x0) x0n += v * v; x0n = std::sqrt(x0n); }
  // initial defect: ||b - A x0|| for correct, ||b|| (filtered) for apply
  {
    std::vector<double> z(n, 0.0);
    std::vector<LD> r0 = residual_ld(S, mode == "correct" ? x0 : z, b);
    if(mode == "apply") for(std::size_t k = 0; k < S.fidx.size(); ++k) r0[S.fidx[k]] = 0;
    LD d0 = norm_ld(r0);
    double bound = 16.0 * double(n + 2) * eps * (S.normF * x0n + bn) + 1e-300;
    bool have_init = log.ev.size() > 0;
    T["defInitOk"] = bool(!have_init || (std::isfinite(di) && std::fabs(double(LD(di) - d0)) <= bound));
    diag["def_init"] = di; diag["def_init_ref"] = double(d0);
  }
  // true residual on success
  double thr = 0, res = 0, drift = 0;
  {
    std::vector<LD> r = residual_ld(S, x, b);
    res = double(norm_ld(r));
    double cert = std::min(tol_abs, std::max(tol_rel * di, std::max(tol_low, eps * eps)));
    double xm = std::max(std::max(log.xmax, xn), x0n);
    if(xexact) { double t = 0; for(double v : *xexact) t += v * v; xm = std::max(xm, std::sqrt(t)); }
    double k = double(sol.get_num_iter() + 2);
    // recomputing solvers: rounding of one residual evaluation; recurrence solvers: accumulated local errors of k updates;
    // pipelined variants: additional amplification factor (documented residual gap of pipelined CG)
    // (a recomputing solver that skipped the last norm calculation is certified by its recurrence value only)
    bool lastcalc = log.ev.size() > 0 && log.ev[log.ev.size() - 1]["calc"].as_bool();
    double C = (B.recomputes && lastcalc) ? 16.0 : (B.pipelined ? 64.0 * k * 1000.0 : 64.0 * k);
    drift = C * double(n + 2) * eps * (S.normF * xm + bn);
    thr = cert + drift;
    T["resOk"] = bool(xfin && res <= thr);
    diag["res"] = res; diag["cert"] = cert; diag["drift"] = drift;
    // error against the dense reference solution
    bool errOk = true; double err = 0, ebound = 0;
    if(inv)
    {
      std::vector<LD> xr(n, 0); LD invF = 0;
      // consistent right hand side of the filtered system: filtered rows carry the prescribed value
      std::vector<double> bf = b; for(std::size_t q = 0; q < S.fidx.size(); ++q) bf[S.fidx[q]] = (mode == "apply") ? 0.0 : S.fval[q];
      for(Index i = 0; i < n; ++i) for(Index j = 0; j < n; ++j) { xr[i] += (*inv)[i * n + j] * LD(bf[j]); invF += (*inv)[i * n + j] * (*inv)[i * n + j]; }
      invF = std::sqrt(invF);
      LD e = 0, xrn = 0; for(Index i = 0; i < n; ++i) { e += (LD(x[i]) - xr[i]) * (LD(x[i]) - xr[i]); xrn += xr[i] * xr[i]; }
      err = double(std::sqrt(e)); ebound = 2.0 * double(invF) * thr + 1e-12 * double(std::sqrt(xrn)) + 1e-300;
      errOk = xfin && err <= ebound;
      diag["err"] = err; diag["err_bound"] = ebound;
    }
    T["errOk"] = errOk;
  }
  T["solUnchanged"] = bitwise_equal(x, x0);
  { bool z = true; for(double v : x) z = z && (v == 0.0); T["solZero"] = z; }
  T["raw"] = bool(c.has("rawmat") && c["rawmat"].as_bool() && !S.fidx.empty());
  T["delta10"] = (long long)std::llround(c["delta"].as_real() * 10.0); T["nfilter"] = (long long)S.fidx.size(); T["n"] = (long long)n;
  bool same = true;
  if(prev.have) same = same_values(x, prev.x) && prev.st == stname(ret) && prev.ni == (long long)sol.get_num_iter();
  T["sameAsPrev"] = same; T["havePrev"] = prev.have;
  prev.have = true; prev.x = x; prev.st = stname(ret); prev.ni = (long long)sol.get_num_iter();
  diag["defs"] = log.dv; diag["xnorm"] = xn; diag["status"] = stname(ret); diag["iters"] = (long long)sol.get_num_iter();
  diag["def_final"] = df;
  return T;
}

template<class VT>
static void configure(Solver::IterativeSolver<VT>& s, const vj::Value& g)
{
  if(g.has("tol_rel")) s.set_tol_rel(g["tol_rel"].as_real());
  if(g.has("tol_abs")) s.set_tol_abs(g["tol_abs"].as_real());
  if(g.has("tol_abs_low")) s.set_tol_abs_low(g["tol_abs_low"].as_real());
  if(g.has("div_rel")) s.set_div_rel(g["div_rel"].as_real());
  if(g.has("div_abs")) s.set_div_abs(g["div_abs"].as_real());
  if(g.has("stag_rate")) s.set_stag_rate(g["stag_rate"].as_real());
  if(g.has("min_stag")) s.set_min_stag_iter(Index(g["min_stag"].as_int()));
  if(g.has("min_iter")) s.set_min_iter(Index(g["min_iter"].as_int()));
  if(g.has("max_iter")) s.set_max_iter(Index(g["max_iter"].as_int()));
  if(g.has("skip")) s.skip_defect_calc(g["skip"].as_bool());
  s.set_plot_mode(Solver::PlotMode::none);
}

template<class VT> vj::Value run_scenarios(const vj::Value& c, Built<VT>& B, const System& S, MatT& live, const std::function<bool(Built<VT>&)>& rebuild);

vj::Value run_case(const vj::Value& c)
{
  const std::string sname = c["solver"].as_str(), pname = c["prec"].as_str(), scen = c["scen"].as_str(), mkind = c["mkind"].as_str();
  const Index n = Index(c["n"].as_int());
  const std::uint64_t seed = std::uint64_t(c["seed"].as_int());
  System S;
  make_system(S, mkind, n, seed, c["delta"].as_real(), c["dens"].as_real(), (int)c["nfilter"].as_int(), c.has("rawmat") && c["rawmat"].as_bool());
  const double omega = c.has("omega") ? c["omega"].as_real() : 1.0;
  if(sname == "PipePCG" || sname == "GroppPCG" || sname == "RBiCGStab")
  {
    GlobalSystem G(S); g_gate = &G.gate;
    Built<GVecT> B;
    if(!build_global(B, sname, pname, G, omega)) { vj::Value r = vh::ok(); r["skip"] = true; return r; }
    std::function<bool(Built<GVecT>&)> rebuild = [&](Built<GVecT>& b2) { return build_global(b2, sname, pname, G, omega); };
    vj::Value res = run_scenarios<GVecT>(c, B, S, G.mat.local(), rebuild);
    B = Built<GVecT>();      // the solver refers to the global containers: destroy it first
    g_gate = nullptr;
    return res;
  }
  Built<VecT> B;
  if(!build(B, sname, pname, S, omega)) { vj::Value r = vh::ok(); r["skip"] = true; return r; }
  std::function<bool(Built<VecT>&)> rebuild = [&](Built<VecT>& b2) { return build(b2, sname, pname, S, omega); };
  return run_scenarios<VecT>(c, B, S, S.mat, rebuild);
}

// second set of values on the same pattern (not a multiple of the first): every off-diagonal entry is scaled by an
// entry-specific factor in [0.5, 1.5) (symmetric kinds: symmetric factors), the diagonal is recomputed with the same
// dominance rule; rows that carry the unit rows of the filter stay unit rows
static void updated_values(const System& S, const std::string& kind, double delta, bool raw, System& U)
{
  const Index n = S.n;
  const bool symm = (kind == "spd" || kind == "spdg" || kind == "ispd");
  U.n = n; U.a = S.a; U.fidx = S.fidx; U.fval = S.fval; U.pat = S.pat;
  std::vector<char> unitrow(n, 0);
  if(!raw) for(Index q : S.fidx) unitrow[q] = 1;
  for(Index i = 0; i < n; ++i)
  {
    if(unitrow[i]) continue;
    double sum = 0.0;
    for(Index j = 0; j < n; ++j)
    {
      if(j == i || !S.pat[i * n + j]) continue;
      Index lo = symm ? std::min(i, j) : i, hi = symm ? std::max(i, j) : j;
      Rng h(std::uint64_t(lo) * 7919u + std::uint64_t(hi) * 104729u + 13u);
      U.a[i * n + j] = S.a[i * n + j] * (0.5 + h.uni());
      sum += std::fabs(U.a[i * n + j]);
    }
    U.a[i * n + i] = sum * (1.0 + delta) + delta + 0.25;
  }
  U.af = U.a;
  for(Index q : U.fidx) for(Index j = 0; j < n; ++j) U.af[q * n + j] = (j == q ? 1.0 : 0.0);
  double f = 0.0; for(double v : U.a) f += v * v; U.normF = std::sqrt(f);
}
// write the values of the dense description into the live CSR matrix (same pattern)
static void write_values(MatT& m, const System& U)
{
  DT* v = m.val(); Index p = 0;
  for(Index i = 0; i < U.n; ++i) for(Index j = 0; j < U.n; ++j) if(U.pat[i * U.n + j]) v[p++] = U.a[i * U.n + j];
}

template<class VT>
vj::Value run_scenarios(const vj::Value& c, Built<VT>& B, const System& S, MatT& live, const std::function<bool(Built<VT>&)>& rebuild)
{
  const std::string scen = c["scen"].as_str(), mkind = c["mkind"].as_str();
  const Index n = S.n;
  const std::uint64_t seed = std::uint64_t(c["seed"].as_int());
  configure(*B.solver, c["cfg"]);
  if(B.proxy && c.has("fail_at")) B.proxy->fail_at = long(c["fail_at"].as_int());

  Rng r(seed ^ 0xABCDEFull);
  const bool integer = (mkind == "ispd" || mkind == "insym");
  std::vector<double> b(n), x0(n), xex(n), garbage1(n), garbage2(n);
  for(Index i = 0; i < n; ++i)
  {
    xex[i] = integer ? double(r.range(-3, 3)) : r.sym();
    x0[i] = integer ? double(r.range(-2, 2)) : r.sym();
    b[i] = r.sym();
    garbage1[i] = 1e3 * r.sym();
    garbage2[i] = (i % 3 == 0) ? std::numeric_limits<double>::quiet_NaN() : -7.5e8 * r.uni();
  }
  for(std::size_t q = 0; q < S.fidx.size(); ++q) xex[S.fidx[q]] = S.fval[q];
  if(scen == "breakdown")
  {
    // exact eigenvector right hand side 4 e_k, zero start vector
    const Index k = Index(seed % std::uint64_t(n));
    for(Index i = 0; i < n; ++i) { b[i] = (i == k) ? 4.0 : 0.0; x0[i] = 0.0; }
  }
  const bool exact_rhs = (scen == "exact");
  if((exact_rhs || integer) && scen != "breakdown")
  {
    // b := A * x_exact  (integers: exact)
    for(Index i = 0; i < n; ++i) { double s = 0; for(Index j = 0; j < n; ++j) s += S.a[i * n + j] * xex[j]; b[i] = s; }
  }
  // the solvers expect a filtered right hand side and (for correct) a filtered start vector
  // (apply is the preconditioner interface: its input is a defect, i.e. zero at the filtered dofs)
  std::vector<double> bdef;
  { VecT vb = to_vec(b); S.fil.filter_rhs(vb); b = from_vec(vb); VecT vx = to_vec(x0); S.fil.filter_sol(vx); x0 = from_vec(vx);
    VecT vd = to_vec(b); S.fil.filter_def(vd); bdef = from_vec(vd); }

  std::vector<LD> inv; bool have_inv = inverse_ld(S, inv);
  vj::Value traces = vj::Value::array(), diags = vj::Value::array();
  auto run = [&](const std::string& mode, const std::vector<double>& start, const std::vector<double>& rhs, Prev& prev, const std::string& tag, const std::vector<double>* xe)
  {
    vj::Value d = vj::Value::object(); d["tag"] = tag;
    vj::Value T = one_solve(c, B, S, mode, start, (mode == "apply" && &rhs == &b) ? bdef : rhs, have_inv ? &inv : nullptr, xe, prev, tag, d);
    traces.push(T); diags.push(d);
  };

  B.solver->init();
  if(scen == "basic" || scen == "converge" || scen == "lucky" || scen == "breakdown" || scen == "smooth" || scen == "precfail")
  {
    const std::string mode = c["mode"].as_str();
    Prev p;
    // 1st solve, 2nd solve on the same object with other garbage in the output vector (apply) / same start (correct),
    // then done(); init(); and a 3rd solve: all three must agree bitwise
    run(mode, mode == "apply" ? garbage1 : x0, b, p, "first", nullptr);
    if(scen != "precfail")
    {
      run(mode, mode == "apply" ? garbage2 : x0, b, p, "again", nullptr);
      B.solver->done();
      B.solver->init();
      run(mode, mode == "apply" ? garbage1 : x0, b, p, "reinit", nullptr);
      // the other entry point on the same object afterwards (sequence (apply|correct)*)
      Prev q;
      run(mode == "apply" ? "correct" : "apply", mode == "apply" ? x0 : garbage2, b, q, "other", nullptr);
    }
  }
  else if(scen == "update")
  {
    // history: [init_symbolic; init_numeric] solve; values updated in place; done_numeric; init_numeric; solve; a fresh
    // solver object on the new values; done; init; solve; values back; done; init; solve
    const std::string mode = c["mode"].as_str();
    const bool raw = c.has("rawmat") && c["rawmat"].as_bool();
    System U; updated_values(S, mkind, c["delta"].as_real(), raw, U);
    std::vector<LD> inv2; bool have_inv2 = inverse_ld(U, inv2);
    auto runx = [&](Built<VT>& Bx, const System& Sx, const std::vector<LD>* ix, Prev& prev, const std::string& tag)
    {
      vj::Value d = vj::Value::object(); d["tag"] = tag;
      vj::Value T = one_solve(c, Bx, Sx, mode, mode == "apply" ? garbage1 : x0, mode == "apply" ? bdef : b, ix, nullptr, prev, tag, d);
      traces.push(T); diags.push(d);
    };
    Prev p1; runx(B, S, have_inv ? &inv : nullptr, p1, "upd_first");
    write_values(live, U);
    B.solver->done_numeric();
    B.solver->init_numeric();
    Prev p2; runx(B, U, have_inv2 ? &inv2 : nullptr, p2, "upd_numeric");
    {
      Built<VT> F;
      if(rebuild(F))
      {
        configure(*F.solver, c["cfg"]);
        F.solver->init();
        runx(F, U, have_inv2 ? &inv2 : nullptr, p2, "upd_fresh");      // must be bitwise equal to upd_numeric
        F.solver->done();
      }
    }
    B.solver->done(); B.solver->init();
    runx(B, U, have_inv2 ? &inv2 : nullptr, p2, "upd_reinit");
    write_values(live, S);
    B.solver->done(); B.solver->init();
    runx(B, S, have_inv ? &inv : nullptr, p1, "upd_full");              // the first system again: bitwise equal to upd_first
  }
  else if(scen == "exact")
  {
    // integer system: start = exact solution -> residual exactly zero -> success with 0 iterations, vector untouched
    Prev p;
    run("correct", xex, b, p, "exact_start", &xex);
    // zero right hand side: apply must return the zero vector immediately
    Prev q; std::vector<double> zero(n, 0.0);
    run("apply", garbage1, zero, q, "zero_rhs", nullptr);
    // and the object is still usable afterwards
    Prev s; run("correct", x0, b, s, "after", &xex);
  }
  B.solver->done();
  vj::Value res = vh::ok();
  res["traces"] = traces; res["diag"] = diags; res["normF"] = S.normF;
  return res;
}

int main(int argc, char** argv) { return vh::main_loop(argc, argv); }
