// C16 harness, 3D hexahedral meshes, special routes: Burgers assemblers and jobs, voxel assemblers, blocked operators
// (see common/vasm16.hpp, vasm16_special.hpp)
#define C16_VOXEL 1
#include "vasm16_special.hpp"
vj::Value run_case(const vj::Value& c) { return va::run_special_case<FEAT::Shape::Hypercube<3>>(c); }
int main(int argc, char** argv) { return vh::main_loop(argc, argv); }
