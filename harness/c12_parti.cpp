// C12 harness (direction V): partitions a base mesh (explicit cell->rank assignment enumerated by TLC from
// spec/PartitionGen.tla, Parti2Lvl, PartiIterative, or a manual partition stored in a mesh file), extracts the patch of
// EVERY rank from one base RootMeshNode with RootMeshNode::extract_patch(comm_ranks, elems_at_rank, rank) (serially; the
// call leaves the patch mesh-part in the base node), refines base node and all patch nodes jointly 0..2 times and dumps,
// per level: the base mesh with its patch mesh-parts (patch -> base maps), every patch mesh with its split mesh parts,
// its communication ranks and its halos (patch-local target sets).  TLC judges the dump against spec/Partition.tla.
// "compact":1 (decompositions into MANY small patches, spec/PartitionGenMany.tla): level 0 is dumped in full, the refined
// levels only with what the cover / closure / neighbour / halo clauses read (entity counts, the cell -> sub-entity index
// sets of the base mesh, the patch -> base maps, entity counts of the patch meshes, comm ranks, halos), so that TLC can
// judge a 64..144-patch decomposition after two joint refinements in a few seconds (spec/PartitionManyCheck.tla).
#include "vmesh.hpp"
#include <kernel/geometry/parti_2lvl.hpp>
#include <kernel/geometry/parti_iterative.hpp>
#include <kernel/util/dist.hpp>
#include <kernel/util/random.hpp>

using namespace vm;

static void put_graph(FILE* f, const Adjacency::Graph& g)
{
  std::fputc('[', f);
  for(Index r(0); r < g.get_num_nodes_domain(); ++r)
  {
    std::fputs(r ? ",[" : "[", f);
    bool first = true;
    for(auto it = g.image_begin(r); it != g.image_end(r); ++it) { std::fprintf(f, first ? "%llu" : ",%llu", (unsigned long long)*it); first = false; }
    std::fputc(']', f);
  }
  std::fputc(']', f);
}

// compact level: {"n":[..],"idx":{"i<dim><e>": e < dim},"parts":[{"name":..,"t":[..]}..]}
template<class Mesh_>
void put_level_compact(FILE* f, const Mesh_& m, const std::vector<std::pair<std::string, const Geometry::MeshPart<Mesh_>*>>& parts)
{
  constexpr int dim = Mesh_::shape_dim;
  std::fputs("{\"n\":[", f);
  for(int d(0); d <= dim; ++d) std::fprintf(f, d ? ",%llu" : "%llu", (unsigned long long)m.get_num_entities(d));
  std::fputs("],\"idx\":{", f);
  if constexpr (dim == 2)
  {
    std::fputs("\"i20\":", f); put_index_set(f, m.template get_index_set<2, 0>());
    std::fputs(",\"i21\":", f); put_index_set(f, m.template get_index_set<2, 1>());
  }
  else
  {
    std::fputs("\"i30\":", f); put_index_set(f, m.template get_index_set<3, 0>());
    std::fputs(",\"i31\":", f); put_index_set(f, m.template get_index_set<3, 1>());
    std::fputs(",\"i32\":", f); put_index_set(f, m.template get_index_set<3, 2>());
  }
  std::fputs("},\"parts\":[", f);
  bool first = true;
  for(const auto& np : parts)
  {
    if(!first) std::fputc(',', f);
    first = false;
    std::fputs("{\"name\":", f); put_str(f, np.first);
    std::fputs(",\"t\":", f); put_tsh<dim>(f, np.second->get_target_set_holder());
    std::fputc('}', f);
  }
  std::fputs("]}", f);
}

template<class Shape_> vj::Value run_parti(const vj::Value& c)
{
  typedef MeshT<Shape_> MeshType;
  typedef Geometry::MeshPart<MeshType> PartType;
  typedef Geometry::RootMeshNode<MeshType> NodeType;
  typedef std::vector<std::pair<std::string, const PartType*>> PartList;
  constexpr int dim = Shape_::dimension;
  const int L = (int)c.get_int("nref", 1);
  const vj::Value& src = c["src"];
  const vj::Value& pa = c["parti"];
  const std::string kind = pa["kind"].as_str();
  const long long maxcells = c.get_int("maxcells", 4000);
  const bool compact = c.get_int("compact", 0) != 0;

  Geometry::MeshAtlas<MeshType> atlas;
  Geometry::PartitionSet pset;
  std::unique_ptr<NodeType> base;
  if(src.has("file"))
  {
    try { base = build_file<Shape_>(src["file"].as_str(), atlas, &pset); }
    catch(const std::exception& e) { vj::Value r = vh::ok(); r["skip"] = true; r["why"] = std::string("mesh file cannot be loaded standalone: ") + e.what(); return r; }
  }
  else if(src.has("raw")) base = NodeType::make_unique(build_raw<Shape_>(src["raw"]));
  else base = NodeType::make_unique(build_factory<Shape_>(src));
  if(c.get_int("fileparts", 1) == 0)
    for(const auto& nm : base->get_mesh_part_names(true)) base->remove_mesh_part(nm);
  if(c.get_int("bndpart", 0) != 0)
  {
    Geometry::BoundaryFactory<MeshType> bf(*base->get_mesh());
    base->add_mesh_part("vbnd", bf.make_unique());
  }

  // snap to a dyadic grid (coordinates are only compared for equality by the specification)
  const int q = Fam<Shape_>::cube ? dim : (dim == 3 ? 2 : 1);
  int pre = 0;                       // refinements before the partitioning
  Adjacency::Graph graph;
  bool success = true; long long plevel = 0; long long nreq = pa.get_int("n", 0);
  const Index ncoarse = base->get_mesh()->get_num_elements();

  if(kind == "2lvl")
  {
    Geometry::Parti2Lvl<MeshType> p2(*base->get_mesh(), Index(nreq));
    success = p2.success();
    if(success) { plevel = (long long)p2.parti_level(); pre = int(plevel); graph = p2.build_elems_at_rank(); }
  }
  else if(kind == "file")
  {
    const Geometry::Partition* part = pset.find_partition(int(nreq), pa.get_str("name", ""));
    success = (part != nullptr);
    if(success) { plevel = part->get_level(); pre = int(plevel); graph = part->get_patches().clone(); }
  }
  else if(kind == "iter" || kind == "iterseed")
  {
    // documented usage: refine until the mesh has at least num_patches cells
    Index ne = ncoarse; const Index fac = Index(Geometry::Intern::StandardRefinementTraits<Shape_, dim>::count);
    while(ne < Index(nreq)) { ne *= fac; ++pre; }
  }
  else if(kind == "explicit")
    pre = int(c.get_int("prerefine", 0));     // assignments of the cells of the k times refined mesh (2-level numbering)
  {
    long long fine = (long long)ncoarse;
    for(int l(0); l < pre + L; ++l) fine *= (long long)Geometry::Intern::StandardRefinementTraits<Shape_, dim>::count;
    if(success && fine > maxcells) { vj::Value r = vh::ok(); r["skip"] = true; r["why"] = "too many cells"; return r; }
  }
  const std::string out = c["out"].as_str();
  if(!success)
  {
    FILE* f = std::fopen(out.c_str(), "w");
    if(!f) throw std::runtime_error("cannot write " + out);
    std::fputs("{\"id\":", f); put_str(f, c["id"].as_str());
    std::fprintf(f, ",\"fam\":\"%s\",\"dim\":%d,\"K\":0,\"nranks\":0,\"assign\":[],\"levels\":[],\"parti\":{\"kind\":\"%s\",\"n\":%lld,\"success\":false,\"level\":0,\"ncoarse\":%llu}}\n",
      Fam<Shape_>::name(), dim, kind.c_str(), nreq, (unsigned long long)ncoarse);
    std::fclose(f);
    vj::Value r = vh::ok(); r["success"] = false; return r;
  }
  {
    const double ma = std::max(1.0, max_abs_coord(*base->get_mesh()));
    int G = int(std::floor(std::log2(4194304.0 / ma))) - q * (L + pre);
    if(G > 30) G = 30;
    if(G < 3) { vj::Value r = vh::ok(); r["skip"] = true; r["why"] = "coordinates too large for the integer domain"; return r; }
    snap(*base->get_mesh(), G);
    if(!distinct_vertices(*base->get_mesh())) { vj::Value r = vh::ok(); r["skip"] = true; r["why"] = "snapping merges vertices"; return r; }
  }
  for(int l(0); l < pre; ++l) base = base->refine_unique(Geometry::AdaptMode::none);
  MeshType& bmesh = *base->get_mesh();
  if(kind == "iter")
  {
    Dist::Comm comm(Dist::Comm::world());
    Geometry::PartiIterative<MeshType> pi(bmesh, comm, Index(nreq), pa.get_int("tinit_ms", 0) * 1e-3, pa.get_int("tmut_ms", 0) * 1e-3);
    graph = pi.build_elems_at_rank();
  }
  else if(kind == "iterseed")
  {
    // the partitioning step of PartiIterative (one PartiIterativeIndividual = random centres + nearest-centre assignment,
    // optionally mutated), driven by an explicitly seeded Random: PartiIterative itself seeds from time(), which makes
    // its runs irreproducible; the graph is assembled exactly as PartiIterative::build_elems_at_rank does
    Random rng((Random::SeedType)pa.get_int("seed", 1));
    bmesh.fill_neighbors();
    Geometry::Intern::PartiIterativeIndividual<Shape_, dim, double> indi(bmesh, rng, Index(nreq));
    for(long long m(0); m < pa.get_int("mutations", 0); ++m) indi.mutate(bmesh, rng, 5);
    const Index ne = bmesh.get_num_elements();
    graph = Adjacency::Graph(Index(nreq), ne, ne);
    Index* ptr = graph.get_domain_ptr(); Index* idx = graph.get_image_idx();
    Index k = 0; ptr[0] = 0;
    for(Index r(0); r < Index(nreq); ++r)
    {
      for(auto cell : indi._cells_per_patch.at(r)) { if(k < ne) idx[k] = cell; ++k; }
      ptr[r + 1] = std::min(k, ne);
    }
    if(k != ne) { std::string w = "PartiIterativeIndividual assigned " + std::to_string(k) + " of " + std::to_string(ne) + " cells"; return vh::bad(w); }
  }
  else if(kind == "explicit")
  {
    const auto ranks = pa["ranks"].int_rows();
    Index tot = 0; for(const auto& r : ranks) tot += Index(r.size());
    graph = Adjacency::Graph(Index(ranks.size()), bmesh.get_num_elements(), tot);
    Index* ptr = graph.get_domain_ptr(); Index* idx = graph.get_image_idx();
    Index k = 0; ptr[0] = 0;
    for(std::size_t r(0); r < ranks.size(); ++r) { for(long long e : ranks[r]) idx[k++] = Index(e); ptr[r + 1] = k; }
    nreq = (long long)ranks.size();
  }
  const Index nranks = graph.get_num_nodes_domain();
  bool any_empty = false;
  for(Index r(0); r < nranks; ++r) if(graph.degree(r) == 0) any_empty = true;
  const bool dims_ok = (graph.get_num_nodes_image() == bmesh.get_num_elements());

  // file parts of the base node (split into the patches by extract_patch)
  std::vector<std::string> fnames;
  for(const auto& nm : base->get_mesh_part_names(true)) fnames.push_back(nm);

  // ---- extraction ----
  std::vector<std::unique_ptr<NodeType>> patches(nranks);
  std::vector<std::vector<int>> comm(nranks);
  if(!any_empty && dims_ok)
    for(Index r(0); r < nranks; ++r)
      patches[r] = base->extract_patch(comm[r], graph, int(r));

  // ---- dump ----
  FILE* f = std::fopen(out.c_str(), "w");
  if(!f) throw std::runtime_error("cannot write " + out);
  std::vector<std::unique_ptr<NodeType>> keep;
  bool exact = true;
  int K = -1;
  // the scale: determined on the finest level, so refine first, dump afterwards
  std::vector<std::unique_ptr<NodeType>> bases; std::vector<std::vector<std::unique_ptr<NodeType>>> plev;
  bases.push_back(std::move(base)); plev.push_back(std::move(patches));
  if(!any_empty && dims_ok)
    for(int l(0); l < L; ++l)
    {
      bases.push_back(bases.back()->refine_unique(Geometry::AdaptMode::none));
      std::vector<std::unique_ptr<NodeType>> np(nranks);
      for(Index r(0); r < nranks; ++r) np[r] = plev.back()[r]->refine_unique(Geometry::AdaptMode::none);
      plev.push_back(std::move(np));
    }
  K = min_scale(*bases.back()->get_mesh(), 40);
  if(K < 0) { std::fclose(f); return vh::bad("refined coordinates are not exact dyadic averages of the coarse ones"); }

  std::fputs("{\"id\":", f); put_str(f, c["id"].as_str());
  std::fprintf(f, ",\"fam\":\"%s\",\"dim\":%d,\"K\":%d,\"nranks\":%llu,\"assign\":", Fam<Shape_>::name(), dim, K, (unsigned long long)nranks);
  put_graph(f, graph);
  std::fprintf(f, ",\"parti\":{\"kind\":\"%s\",\"n\":%lld,\"success\":true,\"level\":%lld,\"ncoarse\":%llu,\"ncells\":%llu,\"graph_cells\":%llu},\"levels\":[",
    kind.c_str(), nreq, plevel, (unsigned long long)ncoarse, (unsigned long long)bmesh.get_num_elements(), (unsigned long long)graph.get_num_nodes_image());
  if(!any_empty && dims_ok)
    for(std::size_t l(0); l < bases.size(); ++l)
    {
      if(l) std::fputc(',', f);
      const NodeType& b = *bases[l];
      PartList bp;
      for(Index r(0); r < nranks; ++r) bp.emplace_back("p" + std::to_string(r), b.get_patch(int(r)));
      for(const auto& nm : fnames) bp.emplace_back(nm, b.find_mesh_part(nm));
      for(const auto& x : bp) if(x.second == nullptr) { std::fclose(f); return vh::bad("mesh part " + x.first + " missing on level " + std::to_string(l)); }
      std::fputs("{\"base\":", f);
      if(compact && l > 0) put_level_compact(f, *b.get_mesh(), bp);
      else exact = put_level(f, *b.get_mesh(), K, bp, false) && exact;
      std::fputs(",\"patches\":[", f);
      for(Index r(0); r < nranks; ++r)
      {
        if(r) std::fputc(',', f);
        const NodeType& p = *plev[l][r];
        PartList pp;
        for(const auto& nm : fnames) pp.emplace_back(nm, p.find_mesh_part(nm));
        std::fprintf(f, "{\"rank\":%llu,\"mesh\":", (unsigned long long)r);
        if(compact && l > 0)
        {
          std::fputs("{\"n\":[", f);
          for(int d(0); d <= dim; ++d) std::fprintf(f, d ? ",%llu" : "%llu", (unsigned long long)p.get_mesh()->get_num_entities(d));
          std::fputs("]}", f);
        }
        else exact = put_level(f, *p.get_mesh(), K, pp, false) && exact;
        std::fputs(",\"comm\":[", f);
        for(std::size_t i(0); i < comm[r].size(); ++i) std::fprintf(f, i ? ",%d" : "%d", comm[r][i]);
        std::fputs("],\"halos\":[", f);
        bool first = true;
        for(const auto& h : p.get_halo_map())
        {
          if(!first) std::fputc(',', f);
          first = false;
          std::fprintf(f, "{\"rank\":%d,\"t\":", h.first);
          if(h.second) put_tsh<dim>(f, h.second->get_target_set_holder()); else std::fputs("null", f);
          std::fputc('}', f);
        }
        std::fputs("]}", f);
      }
      std::fputs("]}", f);
    }
  std::fputs("]}\n", f);
  std::fclose(f);
  if(!exact) return vh::bad("a coordinate left the integer domain at scale 2^K");
  vj::Value r = vh::ok();
  r["success"] = true; r["nranks"] = (long long)nranks; r["cells"] = (long long)bases.back()->get_mesh()->get_num_elements();
  return r;
}

vj::Value run_case(const vj::Value& c)
{
  const std::string fam = c["fam"].as_str(); const int dim = (int)c["dim"].as_int();
  if(fam == "simplex" && dim == 2) return run_parti<Shape::Simplex<2>>(c);
  if(fam == "simplex" && dim == 3) return run_parti<Shape::Simplex<3>>(c);
  if(fam == "hypercube" && dim == 2) return run_parti<Shape::Hypercube<2>>(c);
  if(fam == "hypercube" && dim == 3) return run_parti<Shape::Hypercube<3>>(c);
  return vh::bad("unsupported shape");
}

int main(int argc, char** argv) { return vh::main_loop(argc, argv); }
