#define C15_LINE_GROUP 2
#include "c15_line.cpp"
