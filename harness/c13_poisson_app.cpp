// C13: the repository's own discretise-and-solve application (PCG preconditioned by a multigrid V-cycle with damped
// Jacobi smoothing - an algorithm whose iterates do not depend on the decomposition), built with MPI so that the same
// run can be repeated on 1..n processes; checks/C13.py compares the printed defect/error norms with the one-process run.
#include <applications/poisson_simple_scalar.cpp>
