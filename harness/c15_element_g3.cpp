#define C15_GROUP 3
#include "c15_element.cpp"
