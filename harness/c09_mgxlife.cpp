// C09 (G, life-cycle of the transfer operators): replays the histories of spec/MGCycleXferGen.tla
//
//     build  ( clone | convert | move | compile | accessor operation )*   then   prol / rest / trunc  and  MultiGrid::apply
//
// on the REAL LAFEM::Transfer<SparseMatrixCSR<double,Index>> ("lafem") and Global::Transfer over it ("global": no coarse
// muxer, "global-muxer": this process is child and parent of the coarse muxer), one transfer object per level, and hands
// the resulting objects to the real Solver::MultiGrid.
//
// A case {"kind","N","build","ops":[...],"slots":{"p","r","t"},"direct":[{"prol","rest","trunc"}...],"apps":[{"cyc","peak",
// "calls","cor"}...],"data":{...}} carries the level data over Z_p (p = 32003) and every expected value as computed by TLC:
//   slots    which matrix (P / R / T / E = empty) each slot of the object holds after the history,
//   direct   prol / rest / trunc of the object applied to the test vector of the level,
//   apps     call sequence and correction of the documented cycle with the ORIGINAL operators (spec/MGCycle.tla, Apply).
// The harness only projects: the matrices hold the residues 0..p-1 as doubles, all products are exact integer arithmetic
// in double precision (every intermediate value is an integer far below 2^53; checked), and the result is reduced modulo
// p before the comparison.  In the multigrid runs the (mock) system filters and the (mock) smoothers / coarse solver are
// the Z_p maps of the specification and REDUCE their output modulo p, the system matrices and the transfer operators
// are real LAFEM / Global objects - between two reductions there are at most two matrix products, so the real
// MultiGrid computes exactly the Z_p cycle.  Anything non-integral or too large is reported as "inexact" (it does not
// occur on the unchanged tree; uninitialised values or temporaries of a broken implementation show up this way).
// Every disagreement of a case is collected: "what" is the first aspect, "all" lists all of them.
#include "vharness.hpp"
#include <kernel/lafem/dense_vector.hpp>
#include <kernel/lafem/sparse_matrix_csr.hpp>
#include <kernel/lafem/transfer.hpp>
#include <kernel/lafem/vector_mirror.hpp>
#include <kernel/global/gate.hpp>
#include <kernel/global/vector.hpp>
#include <kernel/global/matrix.hpp>
#include <kernel/global/muxer.hpp>
#include <kernel/global/transfer.hpp>
#include <kernel/solver/multigrid.hpp>
#include <kernel/util/dist.hpp>
#include <cmath>
#include <deque>
#include <memory>

using namespace FEAT;

namespace
{
  const long long P = 32003;
  inline long long md(long long x) { x %= P; return x < 0 ? x + P : x; }

  bool g_inexact = false;
  std::vector<long long> g_log;   // smoother / coarse solver calls: kind*16 + level

  // projection of an (exactly integral) double onto Z_p
  inline long long to_mod(double x)
  {
    if(!(std::fabs(x) < 1.0e15) || x != std::floor(x)) { g_inexact = true; return 0; }
    return md((long long)x);
  }

  typedef std::vector<std::vector<long long>> Rows;
  typedef std::vector<long long> IVec;

  typedef LAFEM::SparseMatrixCSR<double, Index> LMat;
  typedef LAFEM::DenseVector<double, Index> LVec;
  typedef LAFEM::Transfer<LMat> LTra;
  typedef LAFEM::Transfer<LAFEM::SparseMatrixCSR<double, unsigned int>> LTraI;
  typedef LAFEM::Transfer<LAFEM::SparseMatrixCSR<float, unsigned int>> LTraF;
  typedef LAFEM::VectorMirror<double, Index> Mirror;
  typedef Global::Vector<LVec, Mirror> GVec;
  typedef Global::Matrix<LMat, Mirror, Mirror> GMat;
  typedef Global::Muxer<LVec, Mirror> GMux;
  typedef Global::Transfer<LTra, Mirror> GTra;
  typedef Global::Transfer<LTraI, LAFEM::VectorMirror<double, unsigned int>> GTraI;
  typedef Global::Transfer<LTraF, LAFEM::VectorMirror<float, unsigned int>> GTraF;

  inline LVec& loc(LVec& v) { return v; }
  inline const LVec& loc(const LVec& v) { return v; }
  inline LVec& loc(GVec& v) { return v.local(); }
  inline const LVec& loc(const GVec& v) { return v.local(); }

  // dense m x n matrix of residues as a CSR matrix with full pattern
  LMat dense_csr(const Rows& a)
  {
    const Index m = Index(a.size()), n = Index(a.at(0).size());
    LAFEM::DenseVector<Index, Index> rp(m + 1), ci(m * n);
    LVec va(m * n);
    for(Index i = 0; i <= m; ++i) rp(i, i * n);
    for(Index i = 0; i < m; ++i) for(Index j = 0; j < n; ++j) { ci(i * n + j, j); va(i * n + j, double(a[i][j])); }
    return LMat(m, n, ci, va, rp);
  }
  // the slot holds exactly the matrix `a` (or is empty if a == nullptr)
  bool holds(const LMat& s, const Rows* a)
  {
    if(a == nullptr) return s.rows() == 0 && s.columns() == 0 && s.used_elements() == 0;
    const Index m = Index(a->size()), n = Index(a->at(0).size());
    if(s.rows() != m || s.columns() != n || s.used_elements() != m * n) return false;
    for(Index i = 0; i <= m; ++i) if(s.row_ptr()[i] != i * n) return false;
    for(Index i = 0; i < m; ++i) for(Index j = 0; j < n; ++j) if(s.col_ind()[i * n + j] != j || s.val()[i * n + j] != double((*a)[i][j])) return false;
    return true;
  }

  struct FiltData { int kind = 0; IVec p, d; };
  void apply_filter(IVec& v, const FiltData& f, bool cor)
  {
    if(f.kind == 0) return;
    const IVec& a = cor ? f.d : f.p;   // functional
    const IVec& b = cor ? f.p : f.d;   // direction
    long long s = 0; for(std::size_t i = 0; i < v.size(); ++i) s = md(s + v[i] * a[i]);
    for(std::size_t i = 0; i < v.size(); ++i) v[i] = md(v[i] - s * b[i]);
  }

  // system filter of a level: the specification's projection pair, evaluated modulo p (reduces the vector)
  template<class Vec>
  struct ModFilter
  {
    FiltData f; Index n = 0;
    void run(LVec& v, bool cor) const
    {
      XASSERTM(v.size() == n, "ModFilter: wrong level vector");
      IVec e(n); for(Index i = 0; i < n; ++i) e[i] = to_mod(v(i));
      apply_filter(e, f, cor);
      for(Index i = 0; i < n; ++i) v(i, double(e[i]));
    }
    void filter_def(Vec& v) const { run(loc(v), false); }
    void filter_cor(Vec& v) const { run(loc(v), true); }
    void filter_rhs(Vec& v) const { filter_def(v); }
    void filter_sol(Vec& v) const { filter_cor(v); }
  };

  // smoother / coarse solver: the specification's matrix, evaluated modulo p
  template<class Vec>
  struct ModSolver : public Solver::SolverBase<Vec>
  {
    int kind, level; Rows s;
    ModSolver(int k, int l, const Rows& ss) : kind(k), level(l), s(ss) {}
    virtual String name() const override { return "ModSolver"; }
    virtual Solver::Status apply(Vec& cor, const Vec& def) override
    {
      g_log.push_back(kind * 16 + level);
      const LVec& d = loc(def); LVec& c = loc(cor);
      XASSERTM(d.size() == Index(s.at(0).size()) && c.size() == Index(s.size()), "ModSolver: wrong level vector");
      IVec x(d.size()); for(Index i = 0; i < d.size(); ++i) x[i] = to_mod(d(i));
      for(Index i = 0; i < c.size(); ++i) { long long y = 0; for(std::size_t j = 0; j < x.size(); ++j) y = md(y + s[i][j] * x[j]); c(i, double(y)); }
      return Solver::Status::success;
    }
  };

  struct LevelMats { Rows P, R, T; };
  struct Ctx { GMux* mux = nullptr; };

  // ---- the two families of transfer objects ------------------------------------------------------------------------
  struct LK
  {
    typedef LTra Tra; typedef LTraI TraI; typedef LTraF TraF; typedef LVec Vec; typedef LMat SysMat;
    static Tra* make3(Ctx&, LMat&& p, LMat&& r, LMat&& t) { return new Tra(std::move(p), std::move(r), std::move(t)); }
    static Tra* make2(Ctx&, LMat&& p, LMat&& r) { return new Tra(std::move(p), std::move(r)); }
    static Tra* make0(Ctx&) { return new Tra(); }
    template<class A, class B> static void conv(Ctx&, A& to, const B& from) { to.convert(from); }
    static Vec vec(Index n) { return LVec(n); }
    static SysMat sysmat(LMat&& a) { return std::move(a); }
  };
  struct GK
  {
    typedef GTra Tra; typedef GTraI TraI; typedef GTraF TraF; typedef GVec Vec; typedef GMat SysMat;
    static Tra* make3(Ctx& cx, LMat&& p, LMat&& r, LMat&& t) { return new Tra(cx.mux, std::move(p), std::move(r), std::move(t)); }
    static Tra* make2(Ctx& cx, LMat&& p, LMat&& r) { return new Tra(cx.mux, std::move(p), std::move(r)); }
    // as Control::ScalarBasicSystemLevel does: muxer only, the matrices are filled through the accessors afterwards
    static Tra* make0(Ctx& cx) { return new Tra(cx.mux); }
    template<class B> static void conv(Ctx& cx, GTra& to, const B& from) { to.convert(cx.mux, from); }
    static void conv(Ctx&, GTraI& to, const GTra& from) { to.convert(static_cast<GTraI::MuxerType*>(nullptr), from); }
    static void conv(Ctx&, GTraF& to, const GTra& from) { to.convert(static_cast<GTraF::MuxerType*>(nullptr), from); }
    static Vec vec(Index n) { return GVec(nullptr, LVec(n)); }
    static SysMat sysmat(LMat&& a) { return GMat(nullptr, nullptr, std::move(a)); }
  };

  template<class K>
  typename K::Tra* build(Ctx& cx, const std::string& b, const LevelMats& lm)
  {
    if(b == "ctor3") return K::make3(cx, dense_csr(lm.P), dense_csr(lm.R), dense_csr(lm.T));
    if(b == "ctor2") return K::make2(cx, dense_csr(lm.P), dense_csr(lm.R));
    if(b == "default") return K::make0(cx);
    return nullptr;
  }

  // one life-cycle operation on the current object of a level; the object it was made from is DESTROYED afterwards
  template<class K>
  bool do_op(Ctx& cx, std::unique_ptr<typename K::Tra>& cur, const std::string& op, const LevelMats& lm)
  {
    typedef typename K::Tra Tra;
    std::unique_ptr<Tra> n;
    if(op == "clone-default") n.reset(new Tra(cur->clone()));
    else if(op == "clone-shallow") n.reset(new Tra(cur->clone(LAFEM::CloneMode::Shallow)));
    else if(op == "clone-weak") n.reset(new Tra(cur->clone(LAFEM::CloneMode::Weak)));
    else if(op == "clone-deep") n.reset(new Tra(cur->clone(LAFEM::CloneMode::Deep)));
    else if(op == "clone-layout")
    {
      // layout clone: same structure, new value arrays; the values are copied slot by slot afterwards
      n.reset(new Tra(cur->clone(LAFEM::CloneMode::Layout)));
      if(cur->get_mat_prol().used_elements() > 0) n->get_mat_prol().copy(cur->get_mat_prol());
      if(cur->get_mat_rest().used_elements() > 0) n->get_mat_rest().copy(cur->get_mat_rest());
      if(cur->get_mat_trunc().used_elements() > 0) n->get_mat_trunc().copy(cur->get_mat_trunc());
    }
    else if(op == "convert") { n.reset(new Tra()); K::conv(cx, *n, *cur); }
    else if(op == "convert-index") { typename K::TraI tmp; K::conv(cx, tmp, *cur); n.reset(new Tra()); K::conv(cx, *n, tmp); }
    else if(op == "convert-float") { typename K::TraF tmp; K::conv(cx, tmp, *cur); n.reset(new Tra()); K::conv(cx, *n, tmp); }
    else if(op == "convert-self") { K::conv(cx, *cur, *cur); return true; }
    else if(op == "move-ctor") n.reset(new Tra(std::move(*cur)));
    else if(op == "move-assign")
    {
      // the target held other matrices before (restriction and truncation exchanged)
      n.reset(K::make3(cx, dense_csr(lm.P), dense_csr(lm.T), dense_csr(lm.R)));
      *n = std::move(*cur);
    }
    else if(op == "move-self") { Tra& self = *cur; *cur = std::move(self); return true; }
    else if(op == "compile") { cur->compile(); return true; }
    else if(op == "swap-rt")
    {
      LMat tmp = std::move(cur->get_mat_rest());
      cur->get_mat_rest() = std::move(cur->get_mat_trunc());
      cur->get_mat_trunc() = std::move(tmp);
      return true;
    }
    else if(op == "fill")
    {
      if(cur->get_mat_prol().rows() == 0) cur->get_mat_prol() = dense_csr(lm.P);
      if(cur->get_mat_rest().rows() == 0) cur->get_mat_rest() = dense_csr(lm.R);
      if(cur->get_mat_trunc().rows() == 0) cur->get_mat_trunc() = dense_csr(lm.T);
      cur->compile();
      return true;
    }
    else return false;
    cur = std::move(n);   // destroys the source object
    return true;
  }

  IVec project(const LVec& v) { IVec r(v.size()); for(Index i = 0; i < v.size(); ++i) r[i] = to_mod(v(i)); return r; }
  vj::Value ivec(const IVec& v) { vj::Value a = vj::Value::array(); for(auto x : v) a.push(x); return a; }
  template<class Vec> void set_vec(Vec& v, const IVec& x) { for(std::size_t i = 0; i < x.size(); ++i) loc(v)(Index(i), double(x[i])); }

  // every disagreement of a case is collected (the first one is reported in detail, "all" lists the aspects): a change
  // of the code is usually visible in the slots, in the direct operations AND in the multigrid corrections
  struct Fails
  {
    vj::Value first; vj::Value all = vj::Value::array(); bool any = false;
    void add(const std::string& what, const vj::Value& r)
    {
      if(!any) { first = r; first["what"] = what; any = true; }
      all.push(what);
    }
    vj::Value result() { if(!any) return vh::ok(); first["all"] = all; return first; }
  };

  template<class K>
  vj::Value run_kind(const vj::Value& c, bool with_muxer)
  {
    typedef typename K::Tra Tra; typedef typename K::Vec Vec; typedef typename K::SysMat SysMat;
    Fails fails; bool usable = true;
    const vj::Value& data = c["data"];
    const std::size_t N = std::size_t(c["N"].as_int());
    if(data["p"].as_int() != P || std::size_t(data["N"].as_int()) != N) return vh::bad("machinery: data record does not fit the case");
    IVec dims = data["dims"].ints();
    const std::string bld = c["build"].as_str();
    std::vector<std::string> ops; for(std::size_t q = 0; q < c["ops"].size(); ++q) ops.push_back(c["ops"][q].as_str());

    Dist::Comm comm = Dist::Comm::world();
    std::deque<GMux> mux(N);
    std::vector<LevelMats> lms(N);
    std::vector<std::unique_ptr<Tra>> tra(N);
    const std::string sp = c["slots"]["p"].as_str(), sr = c["slots"]["r"].as_str(), st = c["slots"]["t"].as_str();

    for(std::size_t l = 0; l + 1 < N; ++l)
    {
      lms[l].P = data["Pm"][l].int_rows(); lms[l].R = data["Rm"][l].int_rows(); lms[l].T = data["Tm"][l].int_rows();
      Ctx cx;
      if(with_muxer)
      {
        const Index nc = Index(dims[l + 1]);
        mux[l].set_parent(&comm, 0, Mirror::make_identity(nc));
        mux[l].push_child(Mirror::make_identity(nc));
        mux[l].compile(LVec(nc));
        if(!mux[l].is_child() || !mux[l].is_parent() || mux[l].is_ghost()) return vh::bad("machinery: unexpected muxer state");
        cx.mux = &mux[l];
      }
      tra[l].reset(build<K>(cx, bld, lms[l]));
      if(!tra[l]) return vh::bad("machinery: unknown build " + bld);
      for(const std::string& op : ops)
        if(!do_op<K>(cx, tra[l], op, lms[l])) return vh::bad("machinery: unknown operation " + op);

      // ---- the slots of the resulting object ----
      const Tra& t = *tra[l];
      auto mat_of = [&](const std::string& s) -> const Rows* { return s == "P" ? &lms[l].P : (s == "R" ? &lms[l].R : (s == "T" ? &lms[l].T : nullptr)); };
      const char* nm[3] = {"prol", "rest", "trunc"};
      const LMat* sl[3] = {&t.get_mat_prol(), &t.get_mat_rest(), &t.get_mat_trunc()};
      const std::string* ex[3] = {&sp, &sr, &st};
      for(int k = 0; k < 3; ++k)
        if(!holds(*sl[k], mat_of(*ex[k])))
        {
          std::string got = holds(*sl[k], nullptr) ? "E" : (holds(*sl[k], &lms[l].P) ? "P" : (holds(*sl[k], &lms[l].R) ? "R" : (holds(*sl[k], &lms[l].T) ? "T" : "?")));
          fails.add(std::string("slot-") + nm[k], vh::bad(std::string("level ") + stringify(l) + ": get_mat_" + nm[k] + "() of the resulting object holds " + got + ", the specification says " + *ex[k], *ex[k], got));
          if(got == "E") usable = false;   // applying an empty matrix is an assertion failure, not a wrong result
        }
      if(K::Tra::is_global != std::is_same<K, GK>::value || t.is_ghost()) return vh::bad("machinery: wrong transfer class");

      // ---- prol / rest / trunc of the resulting object ----
      const vj::Value& dx = c["direct"][l];
      Vec xf = K::vec(Index(dims[l])), xc = K::vec(Index(dims[l + 1])), yf = K::vec(Index(dims[l])), yc = K::vec(Index(dims[l + 1]));
      set_vec(xf, data["x"][l].ints()); set_vec(xc, data["x"][l + 1].ints());
      if(sp != "E" && !holds(t.get_mat_prol(), nullptr))
      {
        loc(yf).format(77.0); t.prol(yf, xc);
        if(project(loc(yf)) != dx["prol"].ints()) fails.add("prol", vh::bad("level " + stringify(l) + ": prol() of the resulting object differs from the specification", dx["prol"], ivec(project(loc(yf)))));
      }
      if(sr != "E" && !holds(t.get_mat_rest(), nullptr))
      {
        loc(yc).format(77.0); t.rest(xf, yc);
        if(project(loc(yc)) != dx["rest"].ints()) fails.add("rest", vh::bad("level " + stringify(l) + ": rest() of the resulting object differs from the specification", dx["rest"], ivec(project(loc(yc)))));
      }
      if(st != "E" && !holds(t.get_mat_trunc(), nullptr))
      {
        loc(yc).format(77.0); t.trunc(xf, yc);
        if(project(loc(yc)) != dx["trunc"].ints()) fails.add("trunc", vh::bad("level " + stringify(l) + ": trunc() of the resulting object differs from the specification", dx["trunc"], ivec(project(loc(yc)))));
      }
      if(project(loc(xf)) != data["x"][l].ints() || project(loc(xc)) != data["x"][l + 1].ints()) return vh::bad("level " + stringify(l) + ": a transfer operation modified its input vector");
    }
    // (never seen on the unchanged tree: the slots hold residues and the vectors small integers; garbage in a temporary
    //  or an uninitialised value array of the implementation shows up here)
    if(g_inexact) fails.add("inexact", vh::bad("a direct transfer operation produced a non-integral or huge value where the specification predicts residues"));

    // ---- multigrid through the resulting objects ----
    const vj::Value& apps = c["apps"];
    if(apps.size() == 0 || !usable) return fails.result();
    std::deque<SysMat> mats; std::vector<ModFilter<Vec>> fils(N);
    for(std::size_t l = 0; l < N; ++l)
    {
      mats.push_back(K::sysmat(dense_csr(data["A"][l].int_rows())));
      const std::string fk = data["fkind"][l].as_str();
      fils[l].n = Index(dims[l]); fils[l].f.kind = fk == "none" ? 0 : (fk == "unit" ? 1 : 2);
      fils[l].f.p = data["fp"][l].ints(); fils[l].f.d = data["fd"][l].ints();
    }
    for(std::size_t a = 0; a < apps.size(); ++a)
    {
      const vj::Value& ap = apps[a];
      const int cyc = int(ap["cyc"].as_int()); const bool peak = ap["peak"].as_bool();
      auto hier = std::make_shared<Solver::MultiGridHierarchy<SysMat, ModFilter<Vec>, Tra>>(N);
      for(std::size_t l = 0; l + 1 < N; ++l)
      {
        std::shared_ptr<Solver::SolverBase<Vec>> s1 = std::make_shared<ModSolver<Vec>>(1, int(l), data["Spre"][l].int_rows());
        std::shared_ptr<Solver::SolverBase<Vec>> s2 = std::make_shared<ModSolver<Vec>>(2, int(l), data["Spost"][l].int_rows());
        std::shared_ptr<Solver::SolverBase<Vec>> s3; if(peak) s3 = std::make_shared<ModSolver<Vec>>(3, int(l), data["Speak"][l].int_rows());
        hier->push_level(mats[l], fils[l], *tra[l], s1, s2, s3);
      }
      std::shared_ptr<Solver::SolverBase<Vec>> cs = std::make_shared<ModSolver<Vec>>(4, int(N - 1), data["C"][N - 1].int_rows());
      hier->push_level(mats[N - 1], fils[N - 1], cs);
      auto mg = Solver::new_multigrid(hier, cyc == 0 ? Solver::MultiGridCycle::V : (cyc == 1 ? Solver::MultiGridCycle::F : Solver::MultiGridCycle::W));
      hier->init(); mg->init();
      Vec vd = K::vec(Index(dims[0])), vc = K::vec(Index(dims[0]));
      set_vec(vd, data["defect"].ints()); loc(vc).format(55.0);
      g_log.clear(); g_inexact = false;
      Solver::Status stt = mg->apply(vc, vd);
      IVec got = project(loc(vc));
      mg->done(); hier->done();
      const std::string at = "application " + stringify(a) + " (cycle " + stringify(cyc) + ")";
      if(stt != Solver::Status::success) fails.add("status", vh::bad(at + ": status is not success"));
      if(g_inexact) fails.add("inexact", vh::bad(at + ": a non-integral or huge value reached a filter / smoother where the specification predicts residues"));
      if(g_log != ap["calls"].ints()) fails.add("calls", vh::bad(at + ": smoother / coarse solver calls differ from the documented cycle", ap["calls"], ivec(g_log)));
      if(got != ap["cor"].ints()) fails.add("cor", vh::bad(at + ": correction differs from the documented cycle with the original operators", ap["cor"], ivec(got)));
    }
    return fails.result();
  }
}

vj::Value run_case(const vj::Value& c)
{
  g_inexact = false; g_log.clear();
  const std::string kind = c["kind"].as_str();
  if(kind == "lafem") return run_kind<LK>(c, false);
  if(kind == "global") return run_kind<GK>(c, false);
  if(kind == "global-muxer") return run_kind<GK>(c, true);
  return vh::bad("machinery: unknown kind " + kind);
}

int main(int argc, char** argv) { return vh::main_loop(argc, argv); }
