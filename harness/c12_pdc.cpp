// C12 harness, MPI route: the real control layer Control::Domain::PartiDomainControl on N MPI ranks.
//
//   mpirun -np <N> c12_pdc --cases FILE [--start K] [--timeout S]          (all ranks read FILE; rank 0 journals B k / R k)
//
// A case = one configuration of the domain control:
//   {"id","nr":N,"dim":2|3,"nx","ny","nz"   structured hypercube base mesh with INTEGER vertex coordinates 0..nx x 0..ny (x 0..nz)
//    "levels":["3:4","2:2","1:1","0"]        exactly what an application passes on from --level (set_desired_levels(deque<String>))
//    "args":["--parti-type","naive",...]     command line as parsed by PartiDomainControl::parse_args (SimpleArgParser)
//    "mode":"types"                          partitioning decided by the real a-priori/a-posteriori partitioners (2level, naive, genetic)
//           "extern"                         the base layer uses an extern partition ("owner" grouped to the base layer's patches) found through
//                                            the real _check_parti_extern; deeper layers use the real partitioners
//           "explicit"                       every layer's elements-at-rank graph is prescribed by "owner" (hook: the virtual
//                                            _check_parti is overridden and files each cell of the parent node under the child that owns
//                                            the base cell it descends from); everything else - layers, sibling/parent/progeny
//                                            communicators, ancestry, extract_patch, patch mesh parts, _split_basemesh_halos, refinement,
//                                            virtual levels - is the unchanged code
//    "owner":[world rank per base cell, cell (i,j,k) at i + nx*(j + ny*k)], "multi":true|false (support_multi_layered), "out":path}
// Every rank dumps what it holds after create() into <out>.r<rank> (one JSON object): per layer it participates in the layer
// communicator rank/size, sibling communicator rank/size, neighbour ranks, and per level of that layer the patch mesh (integer
// coordinates at scale 2^K, index sets, the split mesh part "bnd"), the halos (neighbour rank -> target sets) and - on parent
// processes - the patch mesh parts of all children; plus the ancestry (progeny group/child/first/count, partition level/info).
// checks/C12.py concatenates the rank files; TLC judges them with spec/PartitionDist.tla (cross-rank invariants).
#include "vmesh.hpp"
#include "vmpi.hpp"
#include <kernel/util/simple_arg_parser.hpp>
#include <control/domain/parti_domain_control.hpp>

using namespace vm;

template<class Shape_> struct Pdc : public Control::Domain::PartiDomainControl<Control::Domain::DomainLevel<MeshT<Shape_>>>
{
  typedef MeshT<Shape_> MeshType;
  typedef Control::Domain::DomainLevel<MeshType> LevelT;
  typedef Control::Domain::PartiDomainControl<LevelT> Base;
  typedef typename Base::Ancestor Ancestor;
  typedef typename Base::MeshNodeType MeshNodeType;
  static constexpr int dim = Shape_::dimension;

  bool explicit_mode = false;
  std::vector<long long> owner;      // world rank per base cell
  long long gn[3] = {1, 1, 1};

  Pdc(const Dist::Comm& c, bool multi) : Base(c, multi) {}

  const std::deque<std::shared_ptr<Control::Domain::DomainLayer>>& layers() const { return this->_layers; }
  const std::deque<std::deque<std::shared_ptr<LevelT>>>& layer_levels() const { return this->_layer_levels; }
  Geometry::PartitionSet& parti_set() { return this->_parti_set; }

  // base cell (grid index) that contains the cell c of mesh m
  long long base_cell_of(const MeshType& m, Index c) const
  {
    const auto& vs = m.get_vertex_set();
    const auto& is = m.template get_index_set<dim, 0>();
    long long g[3] = {0, 0, 0};
    for(int k(0); k < dim; ++k)
    {
      double lo = double(vs[is[c][0]][k]);
      for(int j(1); j < is.get_num_indices(); ++j) lo = std::min(lo, double(vs[is[c][j]][k]));
      g[k] = (long long)std::floor(lo);
      if(g[k] < 0 || g[k] >= gn[k]) throw std::runtime_error("cell outside the grid");
    }
    return g[0] + gn[0] * (g[1] + gn[1] * g[2]);
  }

#ifdef FEAT_HAVE_MPI
  virtual bool _check_parti(Ancestor& ancestor, const MeshNodeType& mesh_node, bool is_base_layer) override
  {
    if(!explicit_mode) return Base::_check_parti(ancestor, mesh_node, is_base_layer);
    // the children of this layer: layer ranks progeny_group .. progeny_group + num_parts - 1; layer rank of the owner of a cell =
    // world rank / (world size / num_procs)
    const MeshType& m = *mesh_node.get_mesh();
    const Index ne = m.get_num_elements();
    const int stride = this->_comm.size() / ancestor.num_procs;
    std::vector<std::vector<Index>> cells((std::size_t)ancestor.num_parts);
    for(Index c(0); c < ne; ++c)
    {
      const long long child = owner.at(std::size_t(base_cell_of(m, c))) / stride - ancestor.progeny_group;
      if(child < 0 || child >= ancestor.num_parts) throw std::runtime_error("explicit owner map is not hierarchical");
      cells[std::size_t(child)].push_back(c);
    }
    Adjacency::Graph g(Index(ancestor.num_parts), ne, ne);
    Index* ptr = g.get_domain_ptr(); Index* idx = g.get_image_idx();
    Index k = 0; ptr[0] = 0;
    for(std::size_t r(0); r < cells.size(); ++r) { for(Index e : cells[r]) idx[k++] = e; ptr[r + 1] = k; }
    ancestor.parti_apriori = true;
    ancestor.parti_found = true;
    ancestor.parti_info = "explicit partition";
    ancestor.parti_level = 0;
    ancestor.parti_graph = std::move(g);
    return true;
  }
#endif
};

template<class Shape_> std::string run_pdc(const vj::Value& c, const Dist::Comm& comm)
{
  typedef MeshT<Shape_> MeshType;
  typedef Geometry::MeshPart<MeshType> PartType;
  typedef Geometry::RootMeshNode<MeshType> NodeType;
  typedef std::vector<std::pair<std::string, const PartType*>> PartList;
  constexpr int dim = Shape_::dimension;
  const int me = comm.rank(), nr = comm.size();
  const long long nx = c.get_int("nx", 1), ny = c.get_int("ny", 1), nz = (dim == 3 ? c.get_int("nz", 1) : 1);
  const std::string mode = c.get_str("mode", "types");
  const std::string out = c["out"].as_str() + ".r" + std::to_string(me);
  std::remove(out.c_str());

  // ---- base mesh: structured, integer coordinates ----
  std::unique_ptr<NodeType> base;
  {
    Geometry::StructUnitCubeFactory<MeshType> fac{Index(nx), Index(ny), Index(nz)};
    auto mesh = fac.make_unique();
    auto& vs = mesh->get_vertex_set();
    const long long n[3] = {nx, ny, nz};
    for(Index i(0); i < vs.get_num_vertices(); ++i)
      for(int k(0); k < dim; ++k) vs[i][k] = std::round(double(vs[i][k]) * double(n[k]));
    base = NodeType::make_unique(std::move(mesh));
    Geometry::BoundaryFactory<MeshType> bf(*base->get_mesh());
    base->add_mesh_part("bnd", bf.make_unique());
  }

  Pdc<Shape_> domain(comm, c.has("multi") ? c["multi"].as_bool() : true);
  domain.gn[0] = nx; domain.gn[1] = ny; domain.gn[2] = nz;
  domain.set_adapt_mode(Geometry::AdaptMode::none);
  if(c.has("owner")) domain.owner = c["owner"].ints();
  domain.explicit_mode = (mode == "explicit");

  // ---- command line ----
  {
    std::vector<std::string> av; av.push_back("c12_pdc");
    if(c.has("args")) for(std::size_t i(0); i < c["args"].size(); ++i) av.push_back(c["args"][i].as_str());
    std::vector<const char*> argv; for(const auto& s : av) argv.push_back(s.c_str());
    SimpleArgParser args(int(argv.size()), argv.data());
    Control::Domain::add_supported_pdc_args(args);
    if(!domain.parse_args(args)) return "rank " + std::to_string(me) + ": parse_args refuses the command line";
  }
  {
    std::deque<String> lv;
    for(std::size_t i(0); i < c["levels"].size(); ++i) lv.push_back(String(c["levels"][i].as_str()));
    domain.set_desired_levels(lv);
  }
  if(mode == "extern")
  {
    // the patches of the base layer (the layer partitioned out of the one-process layer): its rank count is the last count > 1
    long long np = nr;
    for(std::size_t i(1); i < c["levels"].size(); ++i)
    {
      const std::string s = c["levels"][i].as_str();
      const std::size_t p = s.find(':');
      if(p != std::string::npos) { long long q = std::atoll(s.c_str() + p + 1); if(q > 1) np = q; }
    }
    if(!(c.has("multi") ? c["multi"].as_bool() : true)) np = nr;
    const long long stride = nr / np;
    const Index ne = base->get_mesh()->get_num_elements();
    std::vector<std::vector<Index>> cells((std::size_t)np);
    for(Index e(0); e < ne; ++e) cells.at(std::size_t(domain.owner.at(std::size_t(domain.base_cell_of(*base->get_mesh(), e))) / stride)).push_back(e);
    Adjacency::Graph g(Index(np), ne, ne);
    Index* ptr = g.get_domain_ptr(); Index* idx = g.get_image_idx();
    Index k = 0; ptr[0] = 0;
    for(std::size_t r(0); r < cells.size(); ++r) { for(Index e : cells[r]) idx[k++] = e; ptr[r + 1] = k; }
    domain.parti_set().add_partition(Geometry::Partition(std::move(g), "verif", 1, 0));
  }

  // ---- the code under test ----
  domain.create(std::move(base));

  // ---- dump ----
  const int K = domain.max_level_index();
  FILE* f = std::fopen(out.c_str(), "w");
  if(!f) return "rank " + std::to_string(me) + ": cannot write " + out;
  bool exact = true;
  std::fprintf(f, "{\"rank\":%d,\"K\":%d,\"desired\":", me, K); put_str(f, domain.format_desired_levels());
  std::fputs(",\"chosen\":", f); put_str(f, domain.format_chosen_levels());
  std::fputs(",\"chosen_levels\":[", f);
  {
    bool first = true;
    for(const auto& p : domain.get_chosen_levels()) { std::fprintf(f, first ? "[%d,%d]" : ",[%d,%d]", p.first, p.second); first = false; }
  }
  std::fprintf(f, "],\"nglobal_layers\":%llu,\"ancestry\":[", (unsigned long long)domain.num_global_layers());
  {
    bool first = true;
    for(const auto& a : domain.get_ancestry())
    {
      if(!first) std::fputc(',', f);
      first = false;
      std::fprintf(f, "{\"layer\":%d,\"layer_p\":%d,\"num_procs\":%d,\"num_parts\":%d,\"group\":%d,\"child\":%d,\"first\":%d,\"count\":%d,"
        "\"pcomm_rank\":%d,\"pcomm_size\":%d,\"parti_level\":%d,\"apriori\":%s,\"found\":%s,\"info\":",
        a.layer, a.layer_p, a.num_procs, a.num_parts, a.progeny_group, a.progeny_child, a.progeny_first, a.progeny_count,
        a.progeny_comm.is_null() ? -1 : a.progeny_comm.rank(), a.progeny_comm.is_null() ? 0 : a.progeny_comm.size(),
        a.parti_level, a.parti_apriori ? "true" : "false", a.parti_found ? "true" : "false");
      put_str(f, a.parti_info);
      std::fputc('}', f);
    }
  }
  std::fputs("],\"layers\":[", f);
  const auto& layers = domain.layers();
  const auto& laylev = domain.layer_levels();
  for(std::size_t li(0); li < layers.size(); ++li)
  {
    if(li) std::fputc(',', f);
    const auto& L = *layers[li];
    const Dist::Comm* sc = L.sibling_comm_ptr();
    const bool has_sib = (sc != nullptr) && !sc->is_null();
    std::fprintf(f, "{\"layer\":%d,\"crank\":%d,\"csize\":%d,\"sibrank\":%d,\"sibsize\":%d,\"parent_rank\":%d,\"nbrs\":[",
      L.get_layer_index(), L.comm().rank(), L.comm().size(), has_sib ? sc->rank() : -1, has_sib ? sc->size() : 0, L.get_parent_rank());
    {
      const auto& nb = L.get_neighbor_ranks();
      for(std::size_t i(0); i < nb.size(); ++i) std::fprintf(f, i ? ",%d" : "%d", nb[i]);
    }
    std::fputs("],\"levels\":[", f);
    const auto& lv = laylev.at(li);
    for(std::size_t k(0); k < lv.size(); ++k)
    {
      if(k) std::fputc(',', f);
      const NodeType& node = *lv[k]->get_mesh_node();
      PartList pl;
      for(const auto& nm : node.get_mesh_part_names(true)) pl.emplace_back(nm, node.find_mesh_part(nm));
      std::fprintf(f, "{\"lvl\":%d,\"mesh\":", lv[k]->get_level_index());
      exact = put_level(f, *node.get_mesh(), K, pl, false) && exact;
      std::fputs(",\"halos\":[", f);
      bool first = true;
      for(const auto& h : node.get_halo_map())
      {
        if(!h.second) continue;
        if(!first) std::fputc(',', f);
        first = false;
        std::fprintf(f, "{\"rank\":%d,\"t\":", h.first);
        put_tsh<dim>(f, h.second->get_target_set_holder());
        std::fputc('}', f);
      }
      std::fputs("],\"patches\":[", f);
      first = true;
      for(const auto& p : node.get_patch_map())
      {
        if(!p.second) continue;
        if(!first) std::fputc(',', f);
        first = false;
        std::fprintf(f, "{\"rank\":%d,\"t\":", p.first);
        put_tsh<dim>(f, p.second->get_target_set_holder());
        std::fputc('}', f);
      }
      std::fputs("]}", f);
    }
    std::fputs("]}", f);
  }
  std::fputs("]}\n", f);
  std::fclose(f);
  if(!exact) return "rank " + std::to_string(me) + ": a coordinate is not an integer at scale 2^K";
  return "";
}

static std::string run_one(const vj::Value& c, const Dist::Comm& comm)
{
  const int dim = (int)c.get_int("dim", 2);
  if(dim == 2) return run_pdc<Shape::Hypercube<2>>(c, comm);
  if(dim == 3) return run_pdc<Shape::Hypercube<3>>(c, comm);
  return "unsupported dimension";
}

int main(int argc, char** argv) { return vmpi::main_loop(argc, argv, run_one); }
