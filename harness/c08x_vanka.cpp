// C08x replayer, part 2a: Solver::Vanka (kernel/solver/vanka.hpp), all eight VankaTypes, on the four matrix layouts of
// harness/common/vc08x_saddle.hpp (CSR; BCSR 2x2/2x1/1x2; PowerDiag / PowerFull + PowerCol + PowerRow over CSR) with a
// TupleFilter<unit filter on velocity nodes, FilterChain<UnitFilter, MeanFilter> on the pressure>.
// Cases come from spec/PrecondVanka.tla: the block structure, the life-cycle history and the result of every apply()
// predicted by the specification's sweep; all values are dyadic and the local systems lie in the exact domain of
// Math::invert_matrix, so results are compared with ==.  Also checked: the block structure computed by init_symbolic
// (through a deriving probe), returned status, input unchanged, linearity on the implementation's outputs, and that
// init_numeric throws VankaFactorError exactly where the specification says the local Schur complement is singular.
#include "vharness.hpp"
#include "vc08x_saddle.hpp"
#include <kernel/solver/vanka.hpp>

using namespace FEAT;
using vx::DVec; using vx::DMat; using vx::DT; using vx::IT;

template<typename Matrix_, typename Filter_>
class VankaProbe : public Solver::Vanka<Matrix_, Filter_>
{
public:
  typedef Solver::Vanka<Matrix_, Filter_> Base;
  using Base::Base;
  // blocks as (velocity nodes, pressure dofs), 0-based
  std::vector<std::pair<std::vector<long long>, std::vector<long long>>> blocks() const
  {
    std::vector<std::pair<std::vector<long long>, std::vector<long long>>> r;
    for(std::size_t b = 0; b + 1 < this->_block_p_ptr.size(); ++b)
    {
      r.emplace_back();
      for(IT j = this->_block_v_ptr[b]; j < this->_block_v_ptr[b + 1]; ++j) r.back().first.push_back((long long)this->_block_v_idx[j]);
      for(IT j = this->_block_p_ptr[b]; j < this->_block_p_ptr[b + 1]; ++j) r.back().second.push_back((long long)this->_block_p_idx[j]);
    }
    return r;
  }
};

static Solver::VankaType type_of(const std::string& k, bool& ok)
{
  ok = true;
  if(k == "ndm") return Solver::VankaType::nodal_diag_mult;
  if(k == "nfm") return Solver::VankaType::nodal_full_mult;
  if(k == "bdm") return Solver::VankaType::block_diag_mult;
  if(k == "bfm") return Solver::VankaType::block_full_mult;
  if(k == "nda") return Solver::VankaType::nodal_diag_add;
  if(k == "nfa") return Solver::VankaType::nodal_full_add;
  if(k == "bda") return Solver::VankaType::block_diag_add;
  if(k == "bfa") return Solver::VankaType::block_full_add;
  ok = false; return Solver::VankaType::nodal_diag_mult;
}

static std::string ishow(const std::vector<long long>& v) { std::string s = "["; for(std::size_t i = 0; i < v.size(); ++i) s += (i ? "," : "") + std::to_string(v[i]); return s + "]"; }

template<typename Lay_>
static vj::Value run_layout(const vj::Value& c)
{
  typedef typename Lay_::Matrix Matrix; typedef typename Lay_::Vector Vector; typedef typename Lay_::Filter Filter;
  const Index n = Index(c["n"].as_int()), m = Index(c["m"].as_int()), NV = n * Index(Lay_::dim), NN = NV + m;
  const std::string kind = c["kind"].as_str();
  bool okk; const Solver::VankaType vt = type_of(kind, okk);
  if(!okk) return vh::bad("unknown kind " + kind);
  DMat M[2] = { vx::dymat(c["M1"]), vx::dymat(c["M2"]) };
  Matrix mat = Lay_::build(n, m, vx::imat(c["patA"]), vx::imat(c["patB"]), vx::imat(c["patD"]));
  int cur = 0;
  Lay_::set_values(mat, M[0], n, m);
  Filter fil = Lay_::filter(n, m, c["FV"].ints(), c["FP"].ints(), vx::dyvec(c["mp"]), vx::dyvec(c["md"]));
  VankaProbe<Matrix, Filter> vanka(mat, fil, vt, vx::dy(c["om"]), Index(c["iters"].as_int()));
  std::vector<DVec> tests; for(std::size_t k = 0; k < c["tests"].size(); ++k) tests.push_back(vx::dyvec(c["tests"][k]));

  auto fail = [&](std::size_t step, const std::string& op, const std::string& clause, const std::string& why)
  {
    vj::Value r = vh::bad("step " + std::to_string(step) + " (" + op + "): " + why);
    r["clause"] = clause; r["step"] = (long long)step; r["op"] = op;
    return r;
  };
  auto node_of = [&](long long flat) -> long long      // 1-based flat velocity index -> 0-based node
  {
    if(Lay_::dim == 1) return flat - 1;
    if(std::string(Lay_::name()) == "bcsr") return (flat - 1) / 2;
    return (flat - 1) % (long long)n;
  };

  const vj::Value& steps = c["steps"];
  int napply = 0;
  for(std::size_t s = 0; s < steps.size(); ++s)
  {
    const std::string op = steps[s]["op"].as_str();
    if(op == "IS")
    {
      vanka.init_symbolic();
      auto got = vanka.blocks();
      const vj::Value& eb = c["blocks"];
      bool same = (got.size() == eb.size());
      std::string es, gs;
      for(std::size_t b = 0; b < eb.size(); ++b)
      {
        std::vector<long long> ix = eb[b]["idx"].ints(), ev, ep; const std::size_t nv = std::size_t(eb[b]["nv"].as_int());
        for(std::size_t a = 0; a < ix.size(); ++a)
        {
          if(a < nv) { long long v = node_of(ix[a]); if(ev.empty() || ev.back() != v) { if(std::find(ev.begin(), ev.end(), v) == ev.end()) ev.push_back(v); } }
          else ep.push_back(ix[a] - (long long)NV - 1);
        }
        std::sort(ev.begin(), ev.end());
        es += "(" + ishow(ev) + "|" + ishow(ep) + ")";
        if(same && (got[b].first != ev || got[b].second != ep)) same = false;
      }
      for(auto& g : got) gs += "(" + ishow(g.first) + "|" + ishow(g.second) + ")";
      if(!same) return fail(s, op, "block_structure", "blocks (velocity nodes|pressure dofs) " + gs + ", specified " + es);
    }
    else if(op == "IN")
    {
      try { vanka.init_numeric(); }
      catch(const Solver::VankaFactorError&) { return fail(s, op, "unexpected_factor_error", "init_numeric threw VankaFactorError although every local system is regular"); }
    }
    else if(op == "INTHROW")
    {
      bool thrown = false;
      try { vanka.init_numeric(); } catch(const Solver::VankaFactorError&) { thrown = true; }
      if(!thrown) return fail(s, op, "no_factor_error", "a local Schur complement is singular but init_numeric did not throw VankaFactorError");
      return vh::ok();
    }
    else if(op == "DN") vanka.done_numeric();
    else if(op == "DS") vanka.done_symbolic();
    else if(op == "UP") { cur = 1 - cur; Lay_::set_values(mat, M[cur], n, m); }
    else if(op == "AP")
    {
      ++napply;
      const vj::Value& exp = steps[s]["exp"];
      std::vector<DVec> outs;
      for(std::size_t k = 0; k < tests.size(); ++k)
      {
        Vector def = mat.create_vector_r(), cor = mat.create_vector_r();
        DVec garbage(NN); for(Index i = 0; i < NN; ++i) garbage[i] = 1e30 + double(i);
        Lay_::set(def, tests[k], n, m); Lay_::set(cor, garbage, n, m);
        Solver::Status st = vanka.apply(cor, def);
        DVec x = Lay_::get(cor, n, m), d2 = Lay_::get(def, n, m);
        outs.push_back(x);
        if(st != Solver::Status::success) return fail(s, op, "status", "apply returned a status other than success");
        if(!vx::same(d2, tests[k])) return fail(s, op, "input_modified", "input vector modified: " + vx::show(d2));
        bool any = false;
        for(std::size_t a = 0; a < exp[k].size() && !any; ++a) any = vx::same(vx::dyvec(exp[k][a]), x);
        if(!any)
        {
          std::string e; for(std::size_t a = 0; a < exp[k].size(); ++a) e += (a ? " or " : "") + vx::show(vx::dyvec(exp[k][a]));
          // classification: NaN exactly where the specification says "dof in no block, no correction" (additive variants)?
          bool nan = false, nan_unc = false;
          for(double v : x) nan = nan || (v != v);
          if(nan)
          {
            const std::vector<long long> cntv = c["count"].ints();
            nan_unc = true;
            for(Index i = 0; i < NN; ++i) if(cntv[i] == 0 && !(x[i] != x[i])) { const DVec e0 = vx::dyvec(exp[k][0]); if(e0[i] == 0.0 && x[i] != 0.0) nan_unc = false; }
            bool anyunc = false; for(Index i = 0; i < NN; ++i) anyunc = anyunc || (cntv[i] == 0 && (x[i] != x[i]));
            nan_unc = nan_unc && anyunc;
          }
          vj::Value r = fail(s, op, nan_unc ? "result_nan_uncovered" : nan ? "result_nan" : "result",
                             "apply #" + std::to_string(napply) + " rhs " + vx::show(tests[k]) + ": got " + vx::show(x) + " expected " + e);
          r["napply"] = (long long)napply;
          return r;
        }
      }
      const std::size_t T = tests.size();     // P(2g - e1) = 2 P(g) - P(e1) on the implementation's outputs
      for(std::size_t i = 0; i < NN; ++i)
        if(!(outs[T - 1][i] == 2.0 * outs[T - 2][i] - outs[0][i])) return fail(s, op, "linearity", "P(2g - e1) differs from 2 P(g) - P(e1)");
    }
    else return vh::bad("unknown op " + op);
  }
  return vh::ok();
}

vj::Value run_case(const vj::Value& c)
{
  const std::string lay = c["lay"].as_str();
  if(lay == "csr") return run_layout<vx::LayCsr>(c);
  if(lay == "bcsr") return run_layout<vx::LayBcsr>(c);
  if(lay == "pdiag") return run_layout<vx::LayPDiag>(c);
  if(lay == "pfull") return run_layout<vx::LayPFull>(c);
  return vh::bad("unknown layout " + lay);
}

int main(int argc, char** argv) { return vh::main_loop(argc, argv); }
