// C20, finalisation clause under MPI (cases from spec/LifetimeFin.tla): ONE job per process group.
//
//   mpirun -np NR c20_mpifin CASEFILE
//
// Every rank initialises the FEAT runtime, executes the lifetime script the specification gives for ITS rank on real
// containers (held on the heap and deliberately never destroyed by the harness itself: what is left at the end of the script
// is what the process takes into the shutdown), reports the state of its MemoryPool (number of live chunks and the reference
// counter of every array of every container it still holds; hook H1) on stdout as one line
//     C20FIN rank <r> chunks <k> held <json list per container: list of reference counters>
// waits for all other ranks (barrier, so every report is out before any process ends), calls Runtime::finalize(), prints
//     C20FIN rank <r> finalize returned <code>
// and ends with that code as its exit status.  The specification predicts: the report of every rank, which ranks pass
// MemoryPool::finalize (those with an empty pool) and the class of the JOB ("clean": every rank returns 0 and mpirun ends with
// status 0; "leak": a rank whose pool still holds chunks says so and the job ends with a non-zero status).  The harness only
// executes and reports; lib/c20b.py compares with the prediction.
//
// Script operations (module LifetimeFin, operator Apply): the containers a rank holds form a list.
//   createv     append DenseVector<double>(4, value)                          one new chunk
//   createm     append SparseMatrixCSR<double> with 3 entries                 three new chunks
//   share       append a Shallow clone of the last container                  no new chunk, counters + 1
//   weak        append a Weak clone of the last container                     vector: a new chunk; matrix: new value chunk, index arrays shared
//   drop        destroy the last container
//   dropfirst   destroy the first container (out of creation order)
#include "vjson.hpp"
#include <kernel/runtime.hpp>
#include <kernel/util/dist.hpp>
#include <kernel/util/memory_pool.hpp>
#include <kernel/lafem/dense_vector.hpp>
#include <kernel/lafem/sparse_matrix_csr.hpp>
#include <cstdio>
#include <fstream>
#include <iostream>
#include <memory>
#include <sstream>

using namespace FEAT;
using namespace FEAT::LAFEM;

typedef DenseVector<double, Index> DV;
typedef SparseMatrixCSR<double, Index> CSR;

struct Held
{
  virtual ~Held() {}
  virtual Held* clone(CloneMode m) const = 0;
  virtual std::vector<const void*> arrays() const = 0;
};
template<class CT> struct HeldT : Held
{
  CT c;
  explicit HeldT(CT&& x) : c(std::move(x)) {}
  Held* clone(CloneMode m) const override { return new HeldT<CT>(c.clone(m)); }
  std::vector<const void*> arrays() const override
  {
    std::vector<const void*> r;
    for(auto p : c.get_elements()) r.push_back(p);
    for(auto p : c.get_indices()) r.push_back(p);
    return r;
  }
};

static CSR make_csr(double v)
{
  DenseVector<Index, Index> ci(Index(3)), rp(Index(3)); DenseVector<double, Index> va(Index(3), v);
  ci(0, 0); ci(1, 2); ci(2, 1); rp(0, 0); rp(1, 2); rp(2, 3);
  return CSR(Index(2), Index(3), ci, va, rp);
}

int main(int argc, char** argv)
{
  if(argc < 2) { std::fprintf(stderr, "usage: mpirun -np N %s CASEFILE\n", argv[0]); return 2; }
  const std::string file(argv[1]);
  Runtime::initialize(argc, argv);
  const int rank = Dist::Comm::world().rank(), size = Dist::Comm::world().size();
  std::ifstream in(file);
  std::string text((std::istreambuf_iterator<char>(in)), std::istreambuf_iterator<char>());
  if(!in || text.empty()) { std::fprintf(stderr, "C20FIN-MACHINERY cannot read %s\n", file.c_str()); return 2; }
  const vj::Value c = vj::parse(text);
  if((long long)size != c["nr"].as_int()) { std::fprintf(stderr, "C20FIN-MACHINERY started on %d ranks, case wants %lld\n", size, c["nr"].as_int()); return 2; }
  const vj::Value& ops = c["ranks"][std::size_t(rank)]["ops"];

  // what this process holds: on the heap, never freed by the harness
  std::vector<Held*>& held = *new std::vector<Held*>();
  for(std::size_t k = 0; k < ops.size(); ++k)
  {
    const std::string op = ops[k].as_str();
    if(op == "createv") held.push_back(new HeldT<DV>(DV(Index(4), double(k + 1))));
    else if(op == "createm") held.push_back(new HeldT<CSR>(make_csr(double(k + 1))));
    else if(op == "share") held.push_back(held.back()->clone(CloneMode::Shallow));
    else if(op == "weak") held.push_back(held.back()->clone(CloneMode::Weak));
    else if(op == "drop") { delete held.back(); held.pop_back(); }
    else if(op == "dropfirst") { delete held.front(); held.erase(held.begin()); }
    else { std::fprintf(stderr, "C20FIN-MACHINERY unknown operation %s\n", op.c_str()); return 2; }
  }
  {
    std::ostringstream os;
    os << "C20FIN rank " << rank << " chunks " << MemoryPool::verif_num_chunks() << " held [";
    for(std::size_t h = 0; h < held.size(); ++h)
    {
      os << (h ? "," : "") << "[";
      const auto ar = held[h]->arrays();
      for(std::size_t a = 0; a < ar.size(); ++a) os << (a ? "," : "") << MemoryPool::verif_refcount(ar[a]);
      os << "]";
    }
    os << "]\n";
    std::cout << os.str(); std::cout.flush();
  }
  Dist::Comm::world().barrier();
  const int rc = Runtime::finalize();
  std::printf("C20FIN rank %d finalize returned %d\n", rank, rc); std::fflush(stdout);
  return rc;
}
