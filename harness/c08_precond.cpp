// C08 replayer: life-cycle histories generated from spec/Precond.tla are executed on the real preconditioner
// classes (JacobiPrecond, SORPrecond, SSORPrecond, PolynomialPrecond, ILUPrecond, ScalePrecond, DiagonalPrecond,
// MatrixPrecond; SparseMatrixCSR<double>; filter = FilterChain<UnitFilter, MeanFilter, UnitFilter>, i.e. the chain
// unit(F) ; mean(mp, md) ; unit(F2) of the specification, empty members being the identity).  All values are dyadic
// rationals <<m, e>> = m / 2^e and the
// matrices have power-of-two pivots, so every correct floating point evaluation is exact: each apply() result is
// compared with == against the set of results the specification allows in the current life-cycle state.
// Additionally: input vector unchanged, returned Status::success, linearity on the implementation's own outputs,
// the ILU(p) sparsity pattern of Intern::ILUCoreScalar against the specification's level-of-fill pattern, and - for
// the diagnosis of a mismatch - the defining relation evaluated on the implementation's output.
#include "vharness.hpp"
#include <kernel/lafem/dense_vector.hpp>
#include <kernel/lafem/sparse_matrix_csr.hpp>
#include <kernel/lafem/unit_filter.hpp>
#include <kernel/lafem/mean_filter.hpp>
#include <kernel/lafem/filter_chain.hpp>
#include <kernel/solver/jacobi_precond.hpp>
#include <kernel/solver/sor_precond.hpp>
#include <kernel/solver/ssor_precond.hpp>
#include <kernel/solver/ilu_precond.hpp>
#include <kernel/solver/polynomial_precond.hpp>
#include <kernel/solver/scale_precond.hpp>
#include <kernel/solver/diagonal_precond.hpp>
#include <kernel/solver/matrix_precond.hpp>
#include <cmath>
#include <sstream>

using namespace FEAT;
typedef double DT;
typedef Index IT;
typedef LAFEM::SparseMatrixCSR<DT, IT> MatT;
typedef LAFEM::DenseVector<DT, IT> VecT;
typedef LAFEM::UnitFilter<DT, IT> UFilT;
typedef LAFEM::MeanFilter<DT, IT> MFilT;
typedef LAFEM::FilterChain<UFilT, MFilT, UFilT> FilT;

static double dy(const vj::Value& v) { return std::ldexp(double(v[0].as_int()), -int(v[1].as_int())); }
static std::vector<double> dyvec(const vj::Value& v) { std::vector<double> r; for(std::size_t i = 0; i < v.size(); ++i) r.push_back(dy(v[i])); return r; }
static std::vector<std::vector<double>> dymat(const vj::Value& v) { std::vector<std::vector<double>> r; for(std::size_t i = 0; i < v.size(); ++i) r.push_back(dyvec(v[i])); return r; }
static std::string show(const std::vector<double>& v) { std::ostringstream o; o.precision(17); o << "["; for(std::size_t i = 0; i < v.size(); ++i) o << (i ? "," : "") << v[i]; o << "]"; return o.str(); }

// exposes the symbolic ILU(p) pattern
class CoreProbe : public Solver::Intern::ILUCoreScalar<DT, IT>
{
public:
  std::vector<std::vector<int>> pattern() const
  {
    const IT n = this->_n;
    std::vector<std::vector<int>> p(n, std::vector<int>(n, 0));
    for(IT i = 0; i < n; ++i)
    {
      p[i][i] = 1;
      for(IT j = this->_row_ptr_l[i]; j < this->_row_ptr_l[i + 1]; ++j) p[i][this->_col_idx_l[j]] = 1;
      for(IT j = this->_row_ptr_u[i]; j < this->_row_ptr_u[i + 1]; ++j) p[i][this->_col_idx_u[j]] = 1;
    }
    return p;
  }
};

vj::Value run_case(const vj::Value& c)
{
  const Index n = Index(c["n"].as_int());
  const std::string kind = c["kind"].as_str();
  double w = dy(c["w"]);
  const Index m = Index(c["m"].as_int());
  const int p = int(c["p"].as_int());
  std::vector<std::vector<double>> A[2] = { dymat(c["A1"]), dymat(c["A2"]) };
  std::vector<double> dv[2] = { dyvec(c["d1"]), dyvec(c["d2"]) };
  std::vector<std::vector<int>> pat(n, std::vector<int>(n, 0));
  Index nnz = 0;
  for(Index i = 0; i < n; ++i) for(Index j = 0; j < n; ++j) { pat[i][j] = int(c["pat"][i][j].as_int()); nnz += Index(pat[i][j]); }
  std::vector<std::vector<double>> tests; for(std::size_t k = 0; k < c["tests"].size(); ++k) tests.push_back(dyvec(c["tests"][k]));

  // matrix with the pattern of the case and the values A1
  LAFEM::DenseVector<IT, IT> rp(n + 1), ci(nnz); VecT va(nnz);
  {
    Index q = 0;
    for(Index i = 0; i < n; ++i) { rp(i, q); for(Index j = 0; j < n; ++j) if(pat[i][j]) { ci(q, j); va(q, A[0][i][j]); ++q; } }
    rp(n, q);
  }
  MatT mat(n, n, ci, va, rp);
  VecT diag(n); for(Index i = 0; i < n; ++i) diag(i, dv[0][i]);
  // the filter chain  unit(F) ; mean ; unit(F2)
  FilT fil;
  const long long mk = c["mk"].as_int();
  std::vector<char> filtered(n, 0);      // dofs that must vanish in every result: those of the LAST unit filter of the chain
  {
    UFilT u1(n), u2(n);
    for(std::size_t k = 0; k < c["F"].size(); ++k) { Index idx = Index(c["F"][k].as_int() - 1); u1.add(idx, DT(0)); if(mk == 0) filtered[idx] = 1; }
    for(std::size_t k = 0; k < c["F2"].size(); ++k) { Index idx = Index(c["F2"][k].as_int() - 1); u2.add(idx, DT(0)); filtered[idx] = 1; }
    fil.at<0>() = std::move(u1);
    fil.at<2>() = std::move(u2);
    if(mk != 0)
    {
      std::vector<double> mp = dyvec(c["mp"]), md = dyvec(c["md"]);
      VecT vp(n), vd(n);
      for(Index i = 0; i < n; ++i) { vp(i, mp[i]); vd(i, md[i]); }
      fil.at<1>() = MFilT(std::move(vp), std::move(vd));
    }
  }
  int cur = 0;
  auto set_values = [&](int which)
  {
    DT* v = mat.val(); Index q = 0;
    for(Index i = 0; i < n; ++i) for(Index j = 0; j < n; ++j) if(pat[i][j]) v[q++] = A[which][i][j];
    for(Index i = 0; i < n; ++i) diag(i, dv[which][i]);
    cur = which;
  };

  std::shared_ptr<Solver::SolverBase<VecT>> pre;
  if(kind == "jacobi") pre = Solver::new_jacobi_precond(mat, fil, w);
  else if(kind == "sor") pre = Solver::new_sor_precond(PreferredBackend::generic, mat, fil, w);
  else if(kind == "ssor") pre = Solver::new_ssor_precond(PreferredBackend::generic, mat, fil, w);
  else if(kind == "poly") pre = Solver::new_polynomial_precond(mat, fil, m, w);
  else if(kind == "ilu") pre = Solver::new_ilu_precond(PreferredBackend::generic, mat, fil, p);
  else if(kind == "scale") pre = Solver::new_scale_precond(fil, w);
  else if(kind == "diagonal") pre = Solver::new_diagonal_precond(diag, fil);
  else if(kind == "matrix") pre = Solver::new_matrix_precond(mat, fil);
  else return vh::bad("unknown kind " + kind);

  auto fail = [&](std::size_t step, const std::string& op, const std::string& clause, const std::string& why)
  {
    vj::Value r = vh::bad("step " + std::to_string(step) + " (" + op + "): " + why);
    r["clause"] = clause; r["step"] = (long long)step; r["op"] = op;
    return r;
  };

  // ILU(p): symbolic pattern of the implementation against the level-of-fill pattern of the specification
  if(kind == "ilu")
  {
    CoreProbe core; core.set_struct(mat); core.factorize_symbolic(p);
    auto got = core.pattern();
    for(Index i = 0; i < n; ++i) for(Index j = 0; j < n; ++j)
      if(got[i][j] != int(c["ilu1"]["pat"][i][j].as_int()))
        return fail(0, "symbolic", "ilu_pattern", "ILU(" + std::to_string(p) + ") pattern entry (" + std::to_string(i) + "," + std::to_string(j) + ") is " +
                    std::to_string(got[i][j]) + ", level-of-fill definition says " + std::to_string(c["ilu1"]["pat"][i][j].as_int()));
  }

  const vj::Value& steps = c["steps"];
  int napply = 0;
  for(std::size_t s = 0; s < steps.size(); ++s)
  {
    const std::string op = steps[s]["op"].as_str();
    if(op == "IS") pre->init_symbolic();
    else if(op == "IN") pre->init_numeric();
    else if(op == "DN") pre->done_numeric();
    else if(op == "DS") pre->done_symbolic();
    else if(op == "UP") set_values(1 - cur);
    else if(op == "SO")
    {
      // set_omega on the kinds that offer it (no-op step for the others)
      const double w2 = dy(steps[s]["w"]);
      if(kind == "jacobi") dynamic_cast<Solver::JacobiPrecond<MatT, FilT>&>(*pre).set_omega(w2);
      else if(kind == "sor") dynamic_cast<Solver::SORPrecond<MatT, FilT>&>(*pre).set_omega(w2);
      else if(kind == "ssor") dynamic_cast<Solver::SSORPrecond<MatT, FilT>&>(*pre).set_omega(w2);
      else if(kind == "poly") dynamic_cast<Solver::PolynomialPrecond<MatT, FilT>&>(*pre).set_omega(w2);
      else if(kind == "scale") dynamic_cast<Solver::ScalePrecond<VecT, FilT>&>(*pre).set_omega(w2);
      w = w2;
    }
    else if(op == "AP")
    {
      ++napply;
      const vj::Value& exp = steps[s]["exp"];
      std::vector<std::vector<double>> outs;
      for(std::size_t k = 0; k < tests.size(); ++k)
      {
        VecT def(n), cor(n);
        for(Index i = 0; i < n; ++i) { def(i, tests[k][i]); cor(i, 1e30 + double(i)); }   // garbage in the output vector
        Solver::Status st = pre->apply(cor, def);
        std::vector<double> x(n), d2(n);
        for(Index i = 0; i < n; ++i) { x[i] = cor(i); d2[i] = def(i); }
        outs.push_back(x);
        if(st != Solver::Status::success) return fail(s, op, "status", "apply returned a status other than success");
        if(d2 != tests[k]) return fail(s, op, "input_modified", "input vector modified: " + show(d2));
        bool any = false;
        for(std::size_t a = 0; a < exp[k].size() && !any; ++a) any = (dyvec(exp[k][a]) == x);
        if(!any)
        {
          std::string e; for(std::size_t a = 0; a < exp[k].size(); ++a) e += (a ? " or " : "") + show(dyvec(exp[k][a]));
          // diagnosis: defining relation on the implementation's output (unfiltered rows only)
          std::string rel;
          const auto& M = A[cur];
          if((kind == "sor" || kind == "ssor" || kind == "jacobi") && mk == 0 && c["F"].size() == 0u && c["F2"].size() == 0u)
          {
            bool ok = true;
            if(kind == "ssor")
            {
              // (D + wL) D^-1 (D + wU) x = w (2 - w) b
              std::vector<double> t(n), u(n);
              for(Index i = 0; i < n; ++i) { double q = M[i][i] * x[i]; for(Index j = i + 1; j < n; ++j) q += w * M[i][j] * x[j]; t[i] = q / M[i][i]; }
              for(Index i = 0; i < n; ++i) { double q = M[i][i] * t[i]; for(Index j = 0; j < i; ++j) q += w * M[i][j] * t[j]; u[i] = q; }
              for(Index i = 0; i < n; ++i) ok = ok && (u[i] == w * (2.0 - w) * tests[k][i]);
            }
            else
            {
              for(Index i = 0; i < n; ++i)
              {
                double q = M[i][i] * x[i];
                if(kind == "sor") for(Index j = 0; j < i; ++j) q += w * M[i][j] * x[j];
                ok = ok && (q == w * tests[k][i]);
              }
            }
            rel = ok ? "; defining relation holds for the current matrix values" : "; defining relation violated for the current matrix values";
          }
          vj::Value r = fail(s, op, exp[k].size() > 1 ? "stale_result" : "result",
                             "apply #" + std::to_string(napply) + " test vector " + std::to_string(k) + " " + show(tests[k]) + ": got " + show(x) + " expected " + e + rel);
          r["stale"] = bool(exp[k].size() > 1); r["napply"] = (long long)napply;
          return r;
        }
        for(Index i = 0; i < n; ++i) if(filtered[i] && x[i] != 0.0) return fail(s, op, "filter", "filtered dof not zero");
      }
      // linearity on the implementation's outputs: P(2g - e1) = 2 P(g) - P(e1)
      for(Index i = 0; i < n; ++i)
        if(outs[n + 1][i] != 2.0 * outs[n][i] - outs[0][i]) return fail(s, op, "linearity", "P(2g - e1) differs from 2 P(g) - P(e1)");
    }
    else return vh::bad("unknown op " + op);
  }
  return vh::ok();
}

int main(int argc, char** argv) { return vh::main_loop(argc, argv); }
