// C10 harness, second part (direction V): RootMeshNode::refine_unique(AdaptMode) for every mode none / chart / dual /
// chart|dual.  For every step of the chain  node_{l+1} = node_l->refine_unique(mode)  it also produces, from the SAME coarse
// node,  N = refine_unique(none)  and  P = refine_unique(mode without dual)  and dumps all of them; spec/MeshTopo.tla relates
// them (SameTopology, ChartFrame, GraphChartRule, DualRule, DualVolume, and the full refinement relation levels[l] -> N).
// Mesh parts, one halo and one patch mesh part are refined alongside.  Charts: those of a shipped mesh file (atlas), or the
// "graph chart" of the specification (x_b = c + sgn * x_a^2 / 2^s over a coordinate plane: idempotent, exact in dyadic
// arithmetic) attached to a mesh part through the public ChartBase interface.
// The harness decides nothing: coordinates are dumped as integers at scale 2^K (rounded to the grid; the rounding defect in
// units of eps is dumped and bounded by the specification), plus the usual floating point projection of volume / orientation.
#include "vmesh.hpp"
#include "vmesh10.hpp"
#include <set>

using namespace vm;

template<class Mesh_> class GraphChart : public Geometry::Atlas::ChartBase<Mesh_>
{
public:
  typedef Geometry::Atlas::ChartBase<Mesh_> Base;
  typedef typename Base::PartType PartType;
  typedef typename Base::WorldPoint WorldPoint;
  typedef typename Base::CoordType CoordType;
  int a, b, s; double c, sg;
  GraphChart(int a_, int b_, double c_, bool neg, int s_) : a(a_), b(b_), s(s_), c(c_), sg(neg ? -1.0 : 1.0) {}
  void put(WorldPoint& p) const { p[b] = CoordType(c + sg * std::ldexp(double(p[a]) * double(p[a]), -s)); }
  virtual bool can_explicit() const override { return false; }
  virtual bool can_implicit() const override { return true; }
  virtual void adapt(Mesh_& mesh, const PartType& part) const override
  {
    auto& vtx = mesh.get_vertex_set();
    const auto& vt = part.template get_target_set<0>();
    for(Index i(0); i < vt.get_num_entities(); ++i) put(vtx[vt[i]]);
  }
  virtual void adapt(PartType&, const PartType&) const override {}
  virtual void transform(const WorldPoint&, const WorldPoint&, const WorldPoint&) override {}
  virtual WorldPoint map(const WorldPoint& p) const override { return p; }
  virtual WorldPoint project(const WorldPoint& p) const override { WorldPoint q(p); put(q); return q; }
  virtual CoordType dist(const WorldPoint&) const override { return CoordType(0); }
  virtual CoordType dist(const WorldPoint&, WorldPoint& g) const override { g.format(); return CoordType(0); }
  virtual CoordType signed_dist(const WorldPoint&) const override { return CoordType(0); }
  virtual CoordType signed_dist(const WorldPoint&, WorldPoint& g) const override { g.format(); return CoordType(0); }
  virtual String get_type() const override { return "graph"; }
  virtual void write(std::ostream&, const String&) const override {}
};

// smallest K in 0..maxK such that every coordinate * 2^K is an integer up to `tol` units of eps * max(1,|value|); -1 if none.
// `worst` receives the largest defect met (in those units) at the returned K
template<class Mesh_> int tol_scale(const std::vector<const Mesh_*>& ms, int maxK, double tol, double& worst)
{
  int K = 0;
  auto defect = [](double x, int k) { double sx = std::ldexp(x, k); return std::fabs(sx - std::nearbyint(sx)) / (DBL_EPSILON * std::max(1.0, std::fabs(sx))); };
  for(const Mesh_* m : ms)
  {
    const auto& vs = m->get_vertex_set();
    for(Index i(0); i < vs.get_num_vertices(); ++i)
      for(int k(0); k < Mesh_::world_dim; ++k)
      {
        const double x = double(vs[i][k]);
        while(K <= maxK && defect(x, K) > tol) ++K;
        if(K > maxK) return -1;
      }
  }
  worst = 0;
  for(const Mesh_* m : ms)
  {
    const auto& vs = m->get_vertex_set();
    for(Index i(0); i < vs.get_num_vertices(); ++i)
      for(int k(0); k < Mesh_::world_dim; ++k) worst = std::max(worst, defect(double(vs[i][k]), K));
  }
  return K;
}

template<class Mesh_> void put_x(FILE* f, const Mesh_& m, int K, bool& inrange)
{
  const auto& vs = m.get_vertex_set();
  std::fputc('[', f);
  for(Index i(0); i < vs.get_num_vertices(); ++i)
  {
    std::fputs(i ? ",[" : "[", f);
    for(int k(0); k < Mesh_::world_dim; ++k)
    {
      double sx = std::ldexp(double(vs[i][k]), K);
      if(!(std::fabs(sx) < 1073741824.0)) inrange = false;
      std::fprintf(f, k ? ",%lld" : "%lld", (long long)std::llround(sx));
    }
    std::fputc(']', f);
  }
  std::fputc(']', f);
}

template<class Shape_> vj::Value run_adapt(const vj::Value& c)
{
  typedef MeshT<Shape_> MeshType;
  typedef Geometry::MeshPart<MeshType> PartType;
  typedef Geometry::RootMeshNode<MeshType> NodeType;
  typedef std::vector<std::pair<std::string, const PartType*>> PartList;
  constexpr int dim = Shape_::dimension;
  const int L = (int)c.get_int("nref", 1);
  const vj::Value& src = c["src"];
  const std::string mode = c.get_str("mode", "none");
  const bool usechart = (mode == "chart" || mode == "chartdual");
  const bool usedual = (mode == "dual" || mode == "chartdual");
  Geometry::AdaptMode am = Geometry::AdaptMode::none, am_pre = Geometry::AdaptMode::none;
  if(usechart) { am = am | Geometry::AdaptMode::chart; am_pre = Geometry::AdaptMode::chart; }
  if(usedual) am = am | Geometry::AdaptMode::dual;

  Geometry::MeshAtlas<MeshType> atlas;
  std::unique_ptr<NodeType> node;
  if(src.has("file"))
  {
    try { node = build_file<Shape_>(src["file"].as_str(), atlas); }
    catch(const std::exception& e) { vj::Value r = vh::ok(); r["skip"] = true; r["why"] = std::string("mesh file cannot be loaded standalone: ") + e.what(); return r; }
  }
  else if(src.has("raw")) node = NodeType::make_unique(build_raw<Shape_>(src["raw"]));
  else node = NodeType::make_unique(build_factory<Shape_>(src));
  MeshType& mesh0 = *node->get_mesh();

  const long long maxcells = c.get_int("maxcells", 4000);
  long long fine_cells = (long long)mesh0.get_num_elements();
  const long long mult = (!Fam<Shape_>::cube && dim == 3) ? 12 : (1ll << dim);
  for(int l(0); l < L; ++l) fine_cells *= mult;
  if(fine_cells > maxcells) { vj::Value r = vh::ok(); r["skip"] = true; r["why"] = "too many cells"; return r; }

  // ---- snap the input to a dyadic grid (files only have non-dyadic coordinates) ----
  const int q = Fam<Shape_>::cube ? dim : (dim == 3 ? 2 : 1);
  const double ma = std::max(1.0, max_abs_coord(mesh0));
  Index snapped = 0;
  std::vector<double> orig;
  {
    const auto& vs = mesh0.get_vertex_set();
    for(Index i(0); i < vs.get_num_vertices(); ++i) for(int k(0); k < dim; ++k) orig.push_back(double(vs[i][k]));
  }
  // first a coarse grid on which TLC can evaluate volumes in 32-bit integers, then a fine one (topology and the adaption rules only)
  int G = -1;
  const double budgets[2] = {dim == 2 ? 8192.0 : 256.0, 1048576.0};
  const auto s_before = Geo<Shape_>::stats(mesh0);
  for(int b(0); b < 2 && G < 0; ++b)
  {
    int g = int(std::floor(std::log2(budgets[b] / ma))) - q * L;
    if(g > 30) g = 30;
    if(g < 0) continue;
    {
      auto& vs = mesh0.get_vertex_set(); std::size_t j = 0;
      for(Index i(0); i < vs.get_num_vertices(); ++i) for(int k(0); k < dim; ++k) vs[i][k] = orig[j++];
    }
    Index sn = snap(mesh0, g);
    if(sn > 0)
    {
      auto s0 = Geo<Shape_>::stats(mesh0);
      if(!distinct_vertices(mesh0) || (!(s0.minjac_rel > 1e-6L) && s_before.minjac_rel > 1e-6L)) continue;
    }
    G = g; snapped = sn;
  }
  if(G < 0) { vj::Value r = vh::ok(); r["skip"] = true; r["why"] = "no dyadic grid fits this mesh"; return r; }

  // ---- mesh parts, halo, patch, chart ----
  std::vector<std::string> names, chartparts;
  std::vector<std::pair<std::string, int>> halos, patches;     // (dump name, rank)
  std::unique_ptr<GraphChart<MeshType>> gchart;
  if(src.has("file") && c.get_int("fileparts", 1) != 0)
    for(const auto& nm : node->get_mesh_part_names(true))
    {
      names.push_back(nm);
      if(node->find_mesh_part_chart(nm) != nullptr) chartparts.push_back(nm);
    }
  EntityFinder<MeshType> ef(mesh0);
  if(c.has("parts"))
  {
    const vj::Value& ps = c["parts"];
    for(std::size_t i(0); i < ps.size(); ++i)
    {
      const std::string nm = ps[i]["name"].as_str();
      const std::string as = ps[i].get_str("as", "part");
      auto part = make_part10<MeshType>(mesh0, ef, ps[i]);
      if(as == "halo") { const int rk = (int)ps[i].get_int("rank", 0); node->add_halo(rk, std::move(part)); halos.emplace_back(nm, rk); }
      else if(as == "patch") { const int rk = (int)ps[i].get_int("rank", 0); node->add_patch(rk, std::move(part)); patches.emplace_back(nm, rk); }
      else
      {
        if(node->add_mesh_part(nm, std::move(part)) == nullptr) throw std::runtime_error("duplicate part " + nm);
        names.push_back(nm);
      }
    }
  }
  bool has_gchart = false;
  if(c.has("gchart") && c["gchart"].has("a"))
  {
    const vj::Value& g = c["gchart"];
    has_gchart = true;
    gchart.reset(new GraphChart<MeshType>((int)g["a"].as_int() - 1, (int)g["b"].as_int() - 1, double(g["c"].as_int()), g["neg"].as_bool(), (int)g["s"].as_int()));
    vj::Value ps = vj::Value::object();
    ps["name"] = g["part"].as_str(); ps["ents"] = g["ents"]; ps["deduce"] = std::string("top"); ps["topo"] = false;
    const std::string nm = g["part"].as_str();
    if(node->add_mesh_part(nm, make_part<MeshType>(mesh0, ef, ps), "gchart", gchart.get()) == nullptr) throw std::runtime_error("duplicate part " + nm);
    names.push_back(nm); chartparts.push_back(nm);
  }
  auto part_list = [&](const NodeType& nd)
  {
    PartList pl;
    for(const auto& nm : names) pl.emplace_back(nm, nd.find_mesh_part(nm));
    for(const auto& h : halos) pl.emplace_back(h.first, nd.get_halo(h.second));
    for(const auto& p : patches) pl.emplace_back(p.first, nd.get_patch(p.second));
    return pl;
  };

  // ---- the chain and, per step, the two reference refinements of the same coarse node ----
  std::vector<std::unique_ptr<NodeType>> chain, nones, pres;
  const NodeType* cur = node.get();
  for(int l(0); l < L; ++l)
  {
    nones.push_back(cur->refine_unique(Geometry::AdaptMode::none));
    pres.push_back(cur->refine_unique(am_pre));
    chain.push_back(cur->refine_unique(am));
    cur = chain.back().get();
  }

  // ---- scale ----
  const double TOL = 64.0;
  std::vector<const MeshType*> m_all, m_exact, m_pre;
  m_all.push_back(&mesh0); m_exact.push_back(&mesh0); m_pre.push_back(&mesh0);
  for(int l(0); l < L; ++l)
  {
    m_exact.push_back(nones[std::size_t(l)]->get_mesh());
    m_pre.push_back(nones[std::size_t(l)]->get_mesh()); m_pre.push_back(pres[std::size_t(l)]->get_mesh());
    m_all.push_back(nones[std::size_t(l)]->get_mesh()); m_all.push_back(pres[std::size_t(l)]->get_mesh()); m_all.push_back(chain[std::size_t(l)]->get_mesh());
  }
  // cap: magnitudes at scale 2^K stay below 2^14 with the graph chart (its rule squares a coordinate in TLC's 32-bit integers),
  // below 2^22 otherwise
  const int Kcap = int(std::floor(std::log2((has_gchart ? 16384.0 : 4194304.0) / ma)));
  double rdef = 0; bool fixed = false, prefixed = false;
  int K = tol_scale<MeshType>(m_all, Kcap, TOL, rdef);
  if(K < 0)
  {
    double w = 0;
    int Ke = tol_scale<MeshType>(m_exact, Kcap, TOL, w);
    if(Ke < 0) return vh::bad("the unadapted refinements are not exact dyadic averages of their coarse levels (or the chain is not dyadic: fixed point mode needs nref = 1)");
    int Kp = tol_scale<MeshType>(m_pre, Kcap, TOL, w);
    const int base = (Kp >= 0 ? Kp : Ke);
    prefixed = (Kp < 0);
    fixed = true;
    K = std::min(Kcap, base + 8);
    tol_scale<MeshType>(m_exact, K, TOL, rdef);
  }

  // ---- projection (long double) ----
  auto st0 = Geo<Shape_>::stats(mesh0);

  // ---- dump ----
  const std::string out = c["out"].as_str();
  FILE* f = std::fopen(out.c_str(), "w");
  if(!f) throw std::runtime_error("cannot write " + out);
  bool inrange = true;
  std::fputs("{\"id\":", f); put_str(f, c["id"].as_str());
  std::fprintf(f, ",\"fam\":\"%s\",\"dim\":%d,\"K\":%d,\"snapped\":%llu,\"via\":\"adapt\",\"levels\":[", Fam<Shape_>::name(), dim, K, (unsigned long long)snapped);
  {
    // put_level rounds with llround; exactness is judged through rdef / fixed, not through its return value
    put_level(f, mesh0, K, part_list(*node));
    for(int l(0); l < L; ++l) { std::fputc(',', f); put_level(f, *chain[std::size_t(l)]->get_mesh(), K, part_list(*chain[std::size_t(l)])); }
  }
  std::fprintf(f, "],\"adapt\":{\"mode\":\"%s\",\"usechart\":%s,\"usedual\":%s,\"fixed\":%s,\"prefixed\":%s,\"rdef\":%lld,\"chartparts\":[",
    mode.c_str(), usechart ? "true" : "false", usedual ? "true" : "false", fixed ? "true" : "false", prefixed ? "true" : "false",
    (long long)std::ceil(std::min(rdef, 1e9)));
  for(std::size_t i(0); i < chartparts.size(); ++i) { if(i) std::fputc(',', f); put_str(f, chartparts[i]); }
  std::fputs("],\"gchart\":", f);
  if(has_gchart)
  {
    const vj::Value& g = c["gchart"];
    std::fprintf(f, "[{\"a\":%lld,\"b\":%lld,\"c\":%lld,\"neg\":%s,\"s\":%lld}]", g["a"].as_int(), g["b"].as_int(), g["c"].as_int(), g["neg"].as_bool() ? "true" : "false", g["s"].as_int());
  }
  else std::fputs("[]", f);
  std::fputs(",\"none\":[", f);
  for(int l(0); l < L; ++l) { if(l) std::fputc(',', f); put_level(f, *nones[std::size_t(l)]->get_mesh(), K, part_list(*nones[std::size_t(l)])); }
  std::fputs("],\"pre\":[", f);
  for(int l(0); l < L; ++l) { if(l) std::fputc(',', f); put_x(f, *pres[std::size_t(l)]->get_mesh(), K, inrange); }
  // projection abstraction per step: volume(fin) vs volume(pre) [dual moves interior vertices only], volume(fin) vs the
  // coarse level, positive corners of fin
  std::fputs("]},\"proj\":{\"dualvol_ok\":[", f);
  double worst = 0;
  std::vector<typename Geo<Shape_>::Stats> sf, sp, sc;
  sc.push_back(st0);
  for(int l(0); l < L; ++l)
  {
    sf.push_back(Geo<Shape_>::stats(*chain[std::size_t(l)]->get_mesh()));
    sp.push_back(Geo<Shape_>::stats(*pres[std::size_t(l)]->get_mesh()));
    sc.push_back(sf.back());
  }
  for(int l(0); l < L; ++l)
  {
    LD bound = 64 * LD(sf[std::size_t(l)].ncells) * LD(DBL_EPSILON) * sp[std::size_t(l)].absvol;
    LD def = std::fabs(sf[std::size_t(l)].vol - sp[std::size_t(l)].vol);
    if(bound > 0) worst = std::max(worst, double(def / bound));
    std::fprintf(f, l ? ",%s" : "%s", def <= bound ? "true" : "false");
  }
  std::fputs("],\"voldef_ok\":[", f);
  for(int l(0); l < L; ++l)
  {
    LD bound = 64 * LD(sf[std::size_t(l)].ncells) * LD(DBL_EPSILON) * sc[std::size_t(l)].absvol;
    LD def = std::fabs(sf[std::size_t(l)].vol - sc[std::size_t(l)].vol);
    std::fprintf(f, l ? ",%s" : "%s", def <= bound ? "true" : "false");
  }
  std::fputs("],\"orient_pre\":[", f);
  for(int l(0); l <= L; ++l) std::fprintf(f, l ? ",%s" : "%s", sc[std::size_t(l)].minjac_rel > 1e-9L ? "true" : "false");
  std::fputs("],\"orient_fine\":[", f);
  for(int l(0); l <= L; ++l) std::fprintf(f, l ? ",%s" : "%s", sc[std::size_t(l)].mincorner_rel > 0 ? "true" : "false");
  std::fprintf(f, "],\"margin\":%.3e,\"vol\":%.17g}}\n", worst, double(st0.vol));
  std::fclose(f);
  if(!inrange) return vh::bad("a coordinate left the integer domain at scale 2^K");
  vj::Value r = vh::ok();
  r["cells"] = (long long)(chain.empty() ? mesh0.get_num_elements() : chain.back()->get_mesh()->get_num_elements()); r["K"] = K; r["snapped"] = (long long)snapped; r["margin"] = worst;
  r["fixed"] = fixed; r["rdef"] = rdef;
  return r;
}

vj::Value run_case(const vj::Value& c)
{
  const std::string fam = c["fam"].as_str(); const int dim = (int)c["dim"].as_int();
  if(fam == "simplex" && dim == 2) return run_adapt<Shape::Simplex<2>>(c);
  if(fam == "simplex" && dim == 3) return run_adapt<Shape::Simplex<3>>(c);
  if(fam == "hypercube" && dim == 2) return run_adapt<Shape::Hypercube<2>>(c);
  if(fam == "hypercube" && dim == 3) return run_adapt<Shape::Hypercube<3>>(c);
  return vh::bad("unsupported shape");
}

int main(int argc, char** argv) { return vh::main_loop(argc, argv); }
