// C05 extension, replayer for spec/PersistDist.tla: FEAT::DistFileIO (kernel/util/dist_file_io.cpp) on real files.
//
//   serial build:   c05x_dist --cases FILE                       (N = 1)
//   MPI build:      mpirun -np N c05x_dist --cases FILE          (N = 1..4)
//
// A case is one history of collective calls (see the specification).  Every rank keeps the objects a program would
// re-use between the calls (two std::vector<char>, a raw buffer, a BinaryStream).  After every WRITING call rank 0
// (sequence files: every rank its own) reads the produced file with a plain std::ifstream and compares it byte by byte
// with the file the specification predicts - not only the round trip; after every READING call every rank compares
// what it holds with the bytes predicted for THIS rank.  "plant" steps materialise a file of the environment (written
// by a run with another number of processes, truncated, damaged) from the specification's bytes.  A reading call with
// expect = "reject" must be reported by FEAT (XASSERT aborts the program): returning from it is the failure.
// The files live in a fresh directory below $C05X_DIR (default /tmp) which is removed at the end of the case.
#include "vmpi.hpp"
#include <kernel/util/dist_file_io.hpp>
#include <kernel/util/binary_stream.hpp>
#include <filesystem>
#include <fstream>
#include <sstream>

using namespace FEAT;
typedef std::vector<char> Bytes;

static Bytes bytes_of(const vj::Value& a) { Bytes b; for(long long x : a.ints()) b.push_back(char((unsigned char)x)); return b; }
static std::string show(const Bytes& b)
{
  std::string s = "[" + std::to_string(b.size()) + ":";
  for(std::size_t i = 0; i < b.size() && i < 48; ++i) { char t[8]; std::snprintf(t, sizeof(t), " %02x", (unsigned)(unsigned char)b[i]); s += t; }
  return s + (b.size() > 48 ? " ...]" : "]");
}
static bool slurp(const std::string& path, Bytes& out)
{
  std::ifstream is(path, std::ios::in | std::ios::binary); if(!is) return false;
  out.assign(std::istreambuf_iterator<char>(is), std::istreambuf_iterator<char>()); return true;
}
static std::string cmp_file(const std::string& path, const Bytes& exp, const std::string& what)
{
  Bytes got;
  if(!slurp(path, got)) return what + ": file " + path + " does not exist";
  if(got == exp) return "";
  std::size_t k = 0; while(k < got.size() && k < exp.size() && got[k] == exp[k]) ++k;
  return what + ": file differs from the predicted one at byte " + std::to_string(k) + ": got " + show(got) + " expected " + show(exp);
}
static const Bytes JUNK = { char(238), 1, char(238), 2, char(238), 3, char(238) };

static std::string run_case(const vj::Value& c, const Dist::Comm& comm)
{
  const int me = comm.rank(); const std::size_t idx = std::size_t(me);
  vmpi::Fail fail(me);
  // fresh directory, created by rank 0
  char dirbuf[512]; std::memset(dirbuf, 0, sizeof(dirbuf));
  if(me == 0)
  {
    const char* base = std::getenv("C05X_DIR");
    std::string t = std::string(base ? base : "/tmp") + "/c05x_XXXXXX";
    std::strncpy(dirbuf, t.c_str(), sizeof(dirbuf) - 1);
    if(::mkdtemp(dirbuf) == nullptr) dirbuf[0] = 0;
  }
  comm.bcast(dirbuf, sizeof(dirbuf), 0);
  if(dirbuf[0] == 0) return "rank " + std::to_string(me) + ": harness: cannot create a scratch directory";
  const std::string dir(dirbuf);
  auto path = [&](const std::string& f) { return dir + "/" + f; };

  // the objects of this rank, re-used over the history
  Bytes com, buf, raw; BinaryStream bs;
  const vj::Value& steps = c["steps"];
  for(std::size_t s = 0; s < steps.size(); ++s)
  {
    const vj::Value& st = steps[s]; const std::string op = st["op"].as_str();
    const std::string tag = "step " + std::to_string(s + 1) + " " + op;
    const bool reject = st["expect"].as_str() == "reject";
    if(op == "plant")
    {
      if(me == 0) { Bytes b = bytes_of(st["bytes"]); std::ofstream os(path(st["file"].as_str()), std::ios::out | std::ios::binary | std::ios::trunc); os.write(b.data(), std::streamsize(b.size())); }
      comm.barrier();
    }
    else if(op == "wc")
    {
      const Bytes common = bytes_of(st["com"][idx]), data = bytes_of(st["data"][idx]);
      const Bytes common0 = common, data0 = data;
      DistFileIO::write_combined(common, data, String(path(st["file"].as_str())), comm, int(st["root"].as_int()));
      comm.barrier();
      if(common != common0 || data != data0) fail(tag + ": the call modified its input buffers");
      if(me == 0) { std::string w = cmp_file(path(st["file"].as_str()), bytes_of(st["bytes"]), tag); if(!w.empty()) fail(w); }
    }
    else if(op == "rc")
    {
      if(st["pre"].as_bool()) { com = JUNK; buf = JUNK; }
      DistFileIO::read_combined(com, buf, String(path(st["file"].as_str())), comm, int(st["root"].as_int()), st["bcast"].as_bool());
      if(reject) { fail(tag + ": reject: a file that is not a combined file of " + std::to_string(comm.size()) + " processes (" + st["why"].as_str() + ") was read without any report"); }
      else
      {
      const Bytes ec = bytes_of(st["com"][idx]), eb = bytes_of(st["buf"][idx]);
      if(buf != eb) fail(tag + "/buffer: this rank's buffer is " + show(buf) + " expected " + show(eb));
      else if(com != ec) fail(tag + "/common: the common buffer is " + show(com) + " expected " + show(ec));
      }
    }
    else if(op == "wo")
    {
      const Bytes data = bytes_of(st["data"][idx]);
      DistFileIO::write_ordered(data.data(), data.size(), String(path(st["file"].as_str())), comm, st["trunc"].as_bool());
      comm.barrier();
      if(me == 0) { std::string w = cmp_file(path(st["file"].as_str()), bytes_of(st["bytes"]), tag); if(!w.empty()) fail(w); }
    }
    else if(op == "ro")
    {
      const std::size_t n = std::size_t(st["sizes"][idx].as_int());
      raw.assign(n + 3, char(0xCC));
      DistFileIO::read_ordered(raw.data(), n, String(path(st["file"].as_str())), comm);
      const Bytes e = bytes_of(st["raw"][idx]);
      for(std::size_t k = n; k < raw.size(); ++k) if(raw[k] != char(0xCC)) fail(tag + ": wrote behind the buffer");
      raw.resize(n);
      if(raw != e) fail(tag + ": this rank read " + show(raw) + " expected " + show(e));
    }
    else if(op == "ws")
    {
      const Bytes data = bytes_of(st["data"][idx]); const bool bin = st["kind"].as_str() == "bin";
      const String pattern(path(st["file"].as_str()));
      if(bin)
      {
        BinaryStream out; if(!data.empty()) out.write(data.data(), std::streamsize(data.size()));
        DistFileIO::write_sequence(out, pattern, comm, st["trunc"].as_bool());
        if(out.container() != data) fail(tag + ": the call modified the stream");
      }
      else
      {
        std::stringstream out; out << std::string(data.begin(), data.end());
        DistFileIO::write_sequence(out, pattern, comm, st["trunc"].as_bool());
      }
      comm.barrier();
      std::string w = cmp_file(path(st["names"][idx].as_str()), bytes_of(st["files"][idx]), tag + "/" + st["kind"].as_str());
      if(!w.empty()) fail(w);
    }
    else if(op == "rs" || op == "rm")
    {
      const bool bin = st["kind"].as_str() == "bin"; const Bytes e = bytes_of(st["exp"][idx]);
      const String name(path(st["file"].as_str()));
      if(bin)
      {
        if(st["pre"].as_bool()) { bs.clear(); bs.write(JUNK.data(), std::streamsize(JUNK.size())); }
        if(op == "rs") DistFileIO::read_sequence(bs, name, comm); else DistFileIO::read_common(bs, name, comm, int(st["root"].as_int()));
        if(bs.container() != e) fail(tag + "/bin: the stream holds " + show(bs.container()) + " expected " + show(e));
        else if((long long)bs.tellg() != st["pos"].as_int()) fail(tag + "/bin: stream position is " + std::to_string((long long)bs.tellg()) + " expected " + std::to_string(st["pos"].as_int()));
        else
        {
          // and the content is readable through the stream interface
          Bytes t(e.size());
          if(!e.empty()) { bs.read(t.data(), std::streamsize(t.size())); bs.seekg(0); }      // (seeking in an empty stream would set failbit)
          if(t != e || bs.fail()) fail(tag + "/bin: reading the stream gives " + show(t) + " expected " + show(e));
        }
      }
      else
      {
        std::stringstream in;
        if(op == "rs") DistFileIO::read_sequence(in, name, comm); else DistFileIO::read_common(in, name, comm, int(st["root"].as_int()));
        const std::string got = in.str(); Bytes g(got.begin(), got.end());
        if(g != e) fail(tag + "/txt: the stream holds " + show(g) + " expected " + show(e));
      }
    }
    else fail("harness: unknown operation " + op);
    // the history ends on every rank as soon as one rank disagrees (the next call is collective)
    int bad = fail.why.empty() ? 0 : 1, nbad = 0;
    comm.allreduce(&bad, &nbad, std::size_t(1), Dist::op_sum);
    if(nbad > 0) break;
  }
  comm.barrier();
  if(me == 0) { std::error_code ec; std::filesystem::remove_all(dir, ec); }
  return fail.why;
}

int main(int argc, char** argv) { return vmpi::main_loop(argc, argv, &run_case); }
