// C02 replayer: executes histories generated from spec/Convert.tla on real LAFEM containers.
//
// A case is {"ns": N, "steps": [ {op, src, dst, fmt, ty, mode, p, q, k, v, full, grp, gci, exp:[{slot, st}], ...} ]}.
// steps[0] is the seed (slot 1 is built from the predicted projection's raw arrays); every further step is
// one public call.  After EVERY step every slot is projected (dimensions, used_elements, number / sizes /
// contents of the raw arrays, dense expansion through operator()(i,j), pointer identity classes of all
// raw arrays over all slots) and compared with the state the specification predicts; `exp` lists the
// predicted projection of the slots that changed in the step, the others must be unchanged.
#include "vharness.hpp"
#include "vlafem.hpp"
#include <kernel/adjacency/permutation.hpp>
#include <kernel/lafem/vector_mirror.hpp>
#include <kernel/lafem/sparse_matrix_factory.hpp>
#include <memory>
#include <type_traits>

using namespace vl;

// ---- type and format tags -----------------------------------------------------------------------
template<class DT_, class IT_> struct Ty { typedef DT_ DT; typedef IT_ IT; };
struct FCSR   { template<class D, class I> using M = SparseMatrixCSR<D, I>;    static constexpr int BH = 1, BW = 1, id = 0; };
struct FCSCR  { template<class D, class I> using M = SparseMatrixCSCR<D, I>;   static constexpr int BH = 1, BW = 1, id = 1; };
struct FBAND  { template<class D, class I> using M = SparseMatrixBanded<D, I>; static constexpr int BH = 1, BW = 1, id = 2; };
struct FDENSE { template<class D, class I> using M = DenseMatrix<D, I>;        static constexpr int BH = 1, BW = 1, id = 3; };
template<int BH_, int BW_> struct FBCSR { template<class D, class I> using M = SparseMatrixBCSR<D, I, BH_, BW_>; static constexpr int BH = BH_, BW = BW_, id = 4; };

struct Fail { std::string what, why; };   // thrown on a disagreement with the specification

template<class F> void with_ty(const std::string& ty, F&& f)
{
  if(ty == "f64u64") f(Ty<double, std::uint64_t>());
  else if(ty == "f64u32") f(Ty<double, std::uint32_t>());
  else if(ty == "f32u32") f(Ty<float, std::uint32_t>());
  else throw std::runtime_error("unknown type " + ty);
}
template<class F> void with_fam(const std::string& fmt, int bh, int bw, F&& f)
{
  if(fmt == "csr") f(FCSR());
  else if(fmt == "cscr") f(FCSCR());
  else if(fmt == "banded") f(FBAND());
  else if(fmt == "dense") f(FDENSE());
  else if(fmt == "bcsr" && bh == 2 && bw == 2) f(FBCSR<2, 2>());
  else if(fmt == "bcsr" && bh == 2 && bw == 3) f(FBCSR<2, 3>());
  else if(fmt == "bcsr" && bh == 3 && bw == 2) f(FBCSR<3, 2>());
  else throw std::runtime_error("unknown format " + fmt);
}

struct SlotBase
{
  std::string fmt, ty; int bh = 1, bw = 1;
  virtual ~SlotBase() {}
};
template<class MT> struct SlotT : SlotBase { MT a; };

struct World
{
  std::vector<std::unique_ptr<SlotBase>> slots;
  std::vector<vj::Value> exp;     // predicted projection per slot (null = free)
};

template<class F> void with_slot(SlotBase& s, F&& f)
{
  with_fam(s.fmt, s.bh, s.bw, [&](auto fam) {
    with_ty(s.ty, [&](auto ty) {
      typedef decltype(fam) FA; typedef decltype(ty) TY;
      typedef typename FA::template M<typename TY::DT, typename TY::IT> MT;
      f(fam, ty, static_cast<SlotT<MT>&>(s).a);
    });
  });
}

// the container object of slot `dst` if it already has type MT (then the call overwrites a live
// container, as an application would), otherwise a new default-constructed one
template<class FA, class TY>
typename FA::template M<typename TY::DT, typename TY::IT>& target(World& w, int dst, const std::string& fmt, const std::string& ty)
{
  typedef typename FA::template M<typename TY::DT, typename TY::IT> MT;
  SlotBase* b = w.slots[dst].get();
  if(b && b->fmt == fmt && b->ty == ty && b->bh == FA::BH && b->bw == FA::BW) return static_cast<SlotT<MT>&>(*b).a;
  auto* s = new SlotT<MT>(); s->fmt = fmt; s->ty = ty; s->bh = FA::BH; s->bw = FA::BW;
  w.slots[dst].reset(s);
  return s->a;
}

// ---- seed construction -----------------------------------------------------------------------------
template<class FA, class TY>
void build_seed(World& w, int dst, const vj::Value& st)
{
  typedef typename TY::DT DT; typedef typename TY::IT IT;
  typedef typename FA::template M<DT, IT> MT;
  const std::string fmt = st["fmt"].as_str();
  Index m = Index(st["m"].as_int()), n = Index(st["n"].as_int());
  MT& a = target<FA, TY>(w, dst, fmt, st["ty"].as_str());
  auto arr = [&](const char* grp, std::size_t k) { return st[grp][k]["d"].ints(); };
  if constexpr (FA::id == 3)
  {
    a = MT(m, n);
    IVec va = arr("el", 0);
    for(std::size_t k = 0; k < va.size(); ++k) a.elements()[k] = DT(va[k]);
  }
  else if constexpr (FA::id == 2)
  {
    auto vo = make_ivec<IT>(arr("ix", 0)); auto vva = make_vec<DT, IT>(arr("el", 0));
    a = MT(m, n, vva, vo);
  }
  else
  {
    if(st["ix"].size() == 0) { a = MT(m, n); return; }
    IVec ci = arr("ix", 0), rp = arr("ix", 1), va = arr("el", 0);
    if constexpr (FA::id == 0)
    {
      if(ci.empty())
      {
        // allocated but entry-free: the raw-array constructor refuses empty arrays
        a = MT(m, n, Index(0));
        for(std::size_t k = 0; k < rp.size(); ++k) a.row_ptr()[k] = IT(rp[k]);
        return;
      }
    }
    auto vci = make_ivec<IT>(ci); auto vrp = make_ivec<IT>(rp); auto vva = make_vec<DT, IT>(va);
    if constexpr (FA::id == 1) { auto vrn = make_ivec<IT>(arr("ix", 2)); a = MT(m, n, vci, vva, vrp, vrn); }
    else a = MT(m, n, vci, vva, vrp);
  }
}

// ---- projection and comparison ---------------------------------------------------------------------
struct PtrRec { const void* p; long long id; int slot; std::string name; };

static std::string jd(const vj::Value& v) { return vj::dump(v); }

template<class FA, class MT>
void check_slot(int sno, const MT& a, const vj::Value& st, std::vector<PtrRec>& ptrs)
{
  typedef typename MT::DataType DT;
  const std::string tag = "slot " + std::to_string(sno + 1) + " (" + st["fmt"].as_str() + "/" + st["ty"].as_str() + ")";
  Index m = Index(st["m"].as_int()), n = Index(st["n"].as_int());
  if(a.rows() != m || a.columns() != n)
    throw Fail{"dims", tag + ": dimensions " + std::to_string(a.rows()) + "x" + std::to_string(a.columns()) + " expected " + std::to_string(m) + "x" + std::to_string(n)};
  if(a.used_elements() != Index(st["ue"].as_int()))
    throw Fail{"used_elements", tag + ": used_elements " + std::to_string(a.used_elements()) + " expected " + std::to_string(st["ue"].as_int())};
  if(a.size() != m * n)
    throw Fail{"size", tag + ": size() " + std::to_string(a.size()) + " expected " + std::to_string(m * n)};
  const auto& es = a.get_elements(); const auto& ess = a.get_elements_size();
  const auto& is = a.get_indices(); const auto& iss = a.get_indices_size();
  if(es.size() != st["el"].size() || is.size() != st["ix"].size() || ess.size() != es.size() || iss.size() != is.size())
    throw Fail{"arrays", tag + ": number of arrays el=" + std::to_string(es.size()) + " ix=" + std::to_string(is.size()) + " expected el=" + std::to_string(st["el"].size()) + " ix=" + std::to_string(st["ix"].size())};
  for(std::size_t k = 0; k < is.size(); ++k)
  {
    const vj::Value& e = st["ix"][k]; IVec d = e["d"].ints();
    if(iss[k] != d.size()) throw Fail{"arrays", tag + ": index array " + std::to_string(k) + " has length " + std::to_string(iss[k]) + " expected " + std::to_string(d.size())};
    if(iss[k] > 0) ptrs.push_back(PtrRec{(const void*)is[k], e["id"].as_int(), sno, "ix" + std::to_string(k)});
    if(!e["def"].as_bool()) continue;
    IVec g(d.size()); for(std::size_t t = 0; t < d.size(); ++t) g[t] = (long long)is[k][t];
    if(g != d) throw Fail{"index_arrays", tag + ": index array " + std::to_string(k) + " is " + jd(to_json(g)) + " expected " + jd(to_json(d))};
  }
  for(std::size_t k = 0; k < es.size(); ++k)
  {
    const vj::Value& e = st["el"][k]; IVec d = e["d"].ints();
    if(ess[k] != d.size()) throw Fail{"arrays", tag + ": value array " + std::to_string(k) + " has length " + std::to_string(ess[k]) + " expected " + std::to_string(d.size())};
    if(ess[k] > 0) ptrs.push_back(PtrRec{(const void*)es[k], e["id"].as_int(), sno, "el" + std::to_string(k)});
    if(!e["def"].as_bool()) continue;
    for(std::size_t t = 0; t < d.size(); ++t)
      if(double(es[k][t]) != double(d[t]))
      {
        vj::Value g = vj::Value::array(); for(std::size_t u = 0; u < d.size(); ++u) g.push(vj::Value(double(es[k][u])));
        throw Fail{"values", tag + ": value array " + std::to_string(k) + " is " + jd(g) + " expected " + jd(to_json(d))};
      }
  }
  // independent structural validity of the real index arrays (CSR-like formats)
  if constexpr (FA::id == 0 || FA::id == 1 || FA::id == 4)
  {
    bool alldef = true; for(std::size_t k = 0; k < is.size(); ++k) alldef = alldef && st["ix"][k]["def"].as_bool();
    if(is.size() >= 2 && alldef)
    {
      Index nr = iss[1] - 1;
      bool ok = (is[1][0] == 0) && (Index(is[1][nr]) == iss[0]);
      for(Index r = 0; r < nr && ok; ++r)
      {
        ok = is[1][r] <= is[1][r + 1] && Index(is[1][r + 1]) <= iss[0];
        for(Index t = Index(is[1][r]); ok && t < Index(is[1][r + 1]); ++t)
          ok = Index(is[0][t]) < n && (t == Index(is[1][r]) || is[0][t - 1] < is[0][t]);
      }
      if(FA::id != 1 && nr != m) ok = false;
      if constexpr (FA::id == 1)
      {
        // compressed rows: one ascending in-range row number per row pointer interval
        ok = ok && is.size() >= 3 && iss[2] == nr;
        for(Index r = 0; r < nr && ok; ++r) ok = Index(is[2][r]) < m && (r == 0 || is[2][r - 1] < is[2][r]);
      }
      if(!ok) throw Fail{"invalid_layout", tag + ": row pointer / column index / row number arrays are not a valid layout"};
    }
  }
  if constexpr (FA::id == 1)
  {
    Index ur = st["ix"].size() >= 3 ? Index(st["ix"][2]["d"].size()) : Index(0);
    if(a.used_rows() != ur)
      throw Fail{"used_rows", tag + ": used_rows() " + std::to_string(a.used_rows()) + " expected " + std::to_string(ur)};
  }
  // dense expansion through the element accessor
  if(st["def"].as_bool() && (is.size() > 0 || FA::id == 3))
  {
    std::vector<IVec> e = st["dense"].int_rows();
    std::vector<IVec> d(m * FA::BH, IVec(n * FA::BW, 0));
    bool exact = true;
    for(Index i = 0; i < m; ++i) for(Index j = 0; j < n; ++j)
    {
      if constexpr (FA::id == 4)
      {
        auto blk = a(i, j);
        for(int li = 0; li < FA::BH; ++li) for(int lj = 0; lj < FA::BW; ++lj)
        {
          double t = double(blk[li][lj]); long long q = (long long)std::llround(t); if(double(q) != t) exact = false;
          d[i * FA::BH + li][j * FA::BW + lj] = q;
        }
      }
      else
      {
        double t = double(a(i, j)); long long q = (long long)std::llround(t); if(double(q) != t) exact = false;
        d[i][j] = q;
      }
    }
    if(!exact || d != e) throw Fail{"dense", tag + ": represents " + jd(to_json(d)) + (exact ? "" : " (non-integral)") + " expected " + jd(to_json(e))};
  }
  (void)sizeof(DT);
}

static void check_world(World& w)
{
  std::vector<PtrRec> ptrs;
  for(std::size_t s = 0; s < w.slots.size(); ++s)
  {
    const vj::Value& st = w.exp[s];
    bool efree = st.is_null() || st["fmt"].as_str() == "free";
    if(efree) { if(w.slots[s]) throw Fail{"bookkeeping", "slot " + std::to_string(s + 1) + " should be free"}; continue; }
    if(!w.slots[s]) throw Fail{"bookkeeping", "slot " + std::to_string(s + 1) + " is free, expected a container"};
    SlotBase& b = *w.slots[s];
    if(b.fmt != st["fmt"].as_str() || b.ty != st["ty"].as_str() || b.bh != (int)st["bh"].as_int() || b.bw != (int)st["bw"].as_int())
      throw Fail{"type", "slot " + std::to_string(s + 1) + " holds " + b.fmt + "/" + b.ty + " expected " + st["fmt"].as_str() + "/" + st["ty"].as_str()};
    with_slot(b, [&](auto fam, auto, auto& a) { check_slot<decltype(fam)>(int(s), a, st, ptrs); });
  }
  // aliasing: two (non-empty) raw arrays are the same memory iff the specification gives them the same chunk
  for(std::size_t x = 0; x < ptrs.size(); ++x) for(std::size_t y = x + 1; y < ptrs.size(); ++y)
  {
    bool same = ptrs[x].p == ptrs[y].p, esame = ptrs[x].id == ptrs[y].id;
    if(same != esame)
      throw Fail{same ? "alias_unexpected" : "alias_missing",
                 "slot " + std::to_string(ptrs[x].slot + 1) + "." + ptrs[x].name + " and slot " + std::to_string(ptrs[y].slot + 1) + "." + ptrs[y].name +
                 (same ? " share memory but must be independent" : " are independent but must share memory")};
  }
}

// ---- the calls ---------------------------------------------------------------------------------------
static CloneMode clone_mode(const std::string& m)
{
  if(m == "shallow") return CloneMode::Shallow;
  if(m == "layout") return CloneMode::Layout;
  if(m == "weak") return CloneMode::Weak;
  if(m == "deep") return CloneMode::Deep;
  if(m == "allocate") return CloneMode::Allocate;
  throw std::runtime_error("unknown clone mode " + m);
}

template<class FS, class FD, bool same_ty> constexpr bool conv_ok()
{
  if(std::is_same<FS, FD>::value) return true;
  if(FD::id == 0) return ((FS::id == 2 || FS::id == 4) && same_ty) || FS::id == 1;
  if(FD::id == 1) return FS::id == 0 || FS::id == 4;
  if(FD::id == 2) return FS::id == 0;
  return false;
}

template<class FS, class FD, class TS, class TD, class MS>
void do_conv(World& w, int dst, const std::string& fmt, const std::string& ty, const MS& a, bool ctor)
{
  constexpr bool same = std::is_same<TS, TD>::value;
  if constexpr (conv_ok<FS, FD, same>())
  {
    auto& b = target<FD, TD>(w, dst, fmt, ty);
    if(!ctor) { b.convert(a); return; }
    // the converting constructor template <MT_> explicit MT(const MT_&) of csr / cscr / banded
    if constexpr ((FD::id == 0 || FD::id == 1 || FD::id == 2) && !(std::is_same<FS, FD>::value && same))
    {
      typedef typename FD::template M<typename TD::DT, typename TD::IT> MD;
      b = MD(a);
    }
    else throw std::runtime_error("no converting constructor: " + fmt);
  }
  else throw std::runtime_error("no such conversion: " + fmt);
}

static void run_step(World& w, const vj::Value& st)
{
  const std::string op = st["op"].as_str();
  int src = (int)st["src"].as_int() - 1, dst = (int)st["dst"].as_int() - 1;
  if(op == "seed")
  {
    const vj::Value& p = st["exp"][0]["st"];
    with_fam(p["fmt"].as_str(), (int)p["bh"].as_int(), (int)p["bw"].as_int(), [&](auto fam) {
      with_ty(p["ty"].as_str(), [&](auto ty) { build_seed<decltype(fam), decltype(ty)>(w, dst, p); }); });
    return;
  }
  if(!w.slots[src]) throw std::runtime_error("source slot is free");
  SlotBase& S = *w.slots[src];
  const std::string ty = st["ty"].as_str(), fmt = st["fmt"].as_str();
  if(op == "conv")
  {
    with_slot(S, [&](auto fs, auto ts, auto& a) {
      typedef decltype(fs) FS; typedef decltype(ts) TS;
      with_ty(ty, [&](auto td) {
        typedef decltype(td) TD;
        const bool ctor = st.has("ctor") && st["ctor"].as_bool();
        if(fmt == S.fmt) do_conv<FS, FS, TS, TD>(w, dst, fmt, ty, a, ctor);
        else if(fmt == "csr") do_conv<FS, FCSR, TS, TD>(w, dst, fmt, ty, a, ctor);
        else if(fmt == "cscr") do_conv<FS, FCSCR, TS, TD>(w, dst, fmt, ty, a, ctor);
        else if(fmt == "banded") do_conv<FS, FBAND, TS, TD>(w, dst, fmt, ty, a, ctor);
        else throw std::runtime_error("conv target " + fmt);
      });
    });
  }
  else if(op == "clone")
  {
    CloneMode cm = clone_mode(st["mode"].as_str());
    with_slot(S, [&](auto fs, auto, auto& a) {
      const bool byval = st.has("ctor") && st["ctor"].as_bool();
      with_ty(ty, [&](auto td) {
        auto& b = target<decltype(fs), decltype(td)>(w, dst, S.fmt, ty);
        if(!byval) { b.clone(a, cm); return; }
        // the member returning a new container: dst = src.clone(mode)
        if constexpr (std::is_same<typename std::remove_reference<decltype(a)>::type, typename std::remove_reference<decltype(b)>::type>::value) b = a.clone(cm);
        else throw std::runtime_error("clone by value with a different type");
      });
    });
  }
  else if(op == "transp")
  {
    with_slot(S, [&](auto fs, auto ts, auto& a) {
      typedef decltype(fs) FS; typedef decltype(ts) TS;
      if constexpr (FS::id == 0 || FS::id == 3) { auto& b = target<FS, TS>(w, dst, S.fmt, S.ty); b = a.transpose(); }
      else if constexpr (FS::id == 4) { auto& b = target<FBCSR<FS::BW, FS::BH>, TS>(w, dst, S.fmt, S.ty); b = a.transpose(); }
      else throw std::runtime_error("transpose not offered by " + S.fmt);
    });
  }
  else if(op == "transpinto")
  {
    // the member writing into an existing container; dst == src is the self transposition a.transpose(a)
    with_slot(S, [&](auto fs, auto ts, auto& a) {
      typedef decltype(fs) FS; typedef decltype(ts) TS;
      if constexpr (FS::id == 0 || FS::id == 3) { auto& b = target<FS, TS>(w, dst, S.fmt, S.ty); b.transpose(a); }
      else if constexpr (FS::id == 4)
      {
        if constexpr (FS::BH == FS::BW) { auto& b = target<FS, TS>(w, dst, S.fmt, S.ty); b.transpose(a); }
        else { auto& b = target<FBCSR<FS::BW, FS::BH>, TS>(w, dst, S.fmt, S.ty); b.transpose(a); }
      }
      else throw std::runtime_error("transpose not offered by " + S.fmt);
    });
  }
  else if(op == "tinplace")
  {
    with_slot(S, [&](auto fs, auto, auto& a) {
      if constexpr (decltype(fs)::id == 3) a.transpose_inplace();
      else throw std::runtime_error("transpose_inplace not offered by " + S.fmt);
    });
  }
  else if(op == "permute")
  {
    // the permutation objects are built by the route the specification names (constructor type + its argument array)
    auto mkperm = [&](const char* kk, const char* kv, const char* kp) {
      typedef Adjacency::Permutation::ConstrType CT;
      std::string kind = st.has(kk) ? st[kk].as_str() : std::string("");
      if(kind.empty() || kind == "perm")
      {
        IVec p = st[kp].ints(); std::vector<Index> v(p.size());
        for(std::size_t k = 0; k < p.size(); ++k) v[k] = Index(p[k] - 1);
        return Adjacency::Permutation(Index(v.size()), CT::perm, v.data());
      }
      IVec a = st[kv].ints(); std::vector<Index> v(a.size());
      for(std::size_t k = 0; k < a.size(); ++k) v[k] = Index(a[k]);
      if(kind == "inv_perm") return Adjacency::Permutation(Index(v.size()), CT::inv_perm, v.data());
      if(kind == "swap") return Adjacency::Permutation(Index(v.size()), CT::swap, v.data());
      if(kind == "inv_swap") return Adjacency::Permutation(Index(v.size()), CT::inv_swap, v.data());
      if(kind == "inverse") return Adjacency::Permutation(Index(v.size()), CT::perm, v.data()).inverse();
      throw std::runtime_error("unknown permutation route " + kind);
    };
    Adjacency::Permutation pr = mkperm("pk", "pv", "p");
    Adjacency::Permutation pc = mkperm("qk", "qv", "q");
    with_slot(S, [&](auto fs, auto, auto& a) {
      typedef decltype(fs) FS;
      if constexpr (FS::id == 0 || FS::id == 4) a.permute(pr, pc);
      else throw std::runtime_error("permute not offered by " + S.fmt);
    });
  }
  else if(op == "layout")
  {
    with_slot(S, [&](auto fs, auto ts, auto& a) {
      typedef decltype(fs) FS; typedef decltype(ts) TS;
      if constexpr (FS::id != 3)
        with_ty(ty, [&](auto td) {
          typedef decltype(td) TD;
          if constexpr (std::is_same<typename TS::IT, typename TD::IT>::value)
          {
            typedef typename FS::template M<typename TD::DT, typename TD::IT> MD;
            auto lay = a.layout();
            bool fresh = !(w.slots[dst] && w.slots[dst]->fmt == S.fmt && w.slots[dst]->ty == ty && w.slots[dst]->bh == FS::BH && w.slots[dst]->bw == FS::BW);
            auto& b = target<FS, TD>(w, dst, S.fmt, ty);
            if(fresh) b = MD(lay); else b = lay;   // layout constructor / layout assignment operator
          }
          else throw std::runtime_error("layout with a different index type");
        });
      else throw std::runtime_error("dense matrices have no layout");
    });
  }
  else if(op == "graph")
  {
    IVec rp = st["grp"].ints(), ci = st["gci"].ints();
    Index nd = Index(rp.size() - 1);
    // number of image nodes = block columns of the source
    Index ni = Index(w.exp[src]["n"].as_int());
    Adjacency::Graph g = make_graph(nd, ni, rp, ci);
    with_fam(fmt, S.bh, S.bw, [&](auto fd) {
      typedef decltype(fd) FD;
      if constexpr (FD::id != 3)
        with_ty(ty, [&](auto td) {
          typedef decltype(td) TD; typedef typename FD::template M<typename TD::DT, typename TD::IT> MD;
          bool fresh = !(w.slots[dst] && w.slots[dst]->fmt == fmt && w.slots[dst]->ty == ty && w.slots[dst]->bh == FD::BH && w.slots[dst]->bw == FD::BW);
          auto& b = target<FD, TD>(w, dst, fmt, ty);
          if constexpr (FD::id == 0 || FD::id == 4) { if(fresh) b = MD(g); else b.convert(g); }
          else b = MD(g);
        });
      else throw std::runtime_error("no graph constructor for dense");
    });
  }
  else if(op == "mirror")
  {
    // dst = SparseMatrixCSCR(csr, mirror): row selection by a vector mirror
    IVec rows = st["p"].ints();
    with_slot(S, [&](auto fs, auto ts, auto& a) {
      typedef decltype(fs) FS; typedef decltype(ts) TS; typedef typename TS::DT DT; typedef typename TS::IT IT;
      if constexpr (FS::id == 0)
      {
        VectorMirror<DT, IT> mir(a.rows(), Index(rows.size()));
        for(std::size_t k = 0; k < rows.size(); ++k) mir.indices()[k] = IT(rows[k] - 1);
        auto& b = target<FCSCR, TS>(w, dst, "cscr", S.ty);
        b = SparseMatrixCSCR<DT, IT>(a, mir);
      }
      else throw std::runtime_error("mirror constructor needs a csr source");
    });
  }
  else if(op == "alloc")
  {
    // the allocating constructors MT(rows, columns, used_elements[, used_rows]) / DenseMatrix(m, n[, value])
    Index m = Index(w.exp[src]["m"].as_int()), n = Index(w.exp[src]["n"].as_int()), ue = Index(w.exp[src]["ue"].as_int());
    Index ur = Index(st["k"].as_int()); long long v = st["v"].as_int();
    with_fam(fmt, S.bh, S.bw, [&](auto fd) {
      typedef decltype(fd) FD;
      with_ty(ty, [&](auto td) {
        typedef decltype(td) TD; typedef typename FD::template M<typename TD::DT, typename TD::IT> MD;
        auto& b = target<FD, TD>(w, dst, fmt, ty);
        if constexpr (FD::id == 0 || FD::id == 4) b = MD(m, n, ue);
        else if constexpr (FD::id == 1) b = MD(m, n, ue, ur);
        else if constexpr (FD::id == 3) { if(v == 0) b = MD(m, n); else b = MD(m, n, typename TD::DT(double(v))); }
        else throw std::runtime_error("no allocating constructor for " + fmt);
      });
    });
  }
  else if(op == "factory")
  {
    Index m = Index(st["k"].as_int()), n = Index(st["v"].as_int());
    const vj::Value& tri = st["tri"];
    with_ty(ty, [&](auto td) {
      typedef decltype(td) TD; typedef typename TD::DT DT; typedef typename TD::IT IT;
      SparseMatrixFactory<DT, IT> fac(m, n);
      for(std::size_t k = 0; k < tri.size(); ++k)
      {
        IVec t = tri[k].ints();
        fac.add(Index(t[0]), Index(t[1]), DT(double(t[2])));
      }
      if(fac.rows() != m || fac.columns() != n || fac.used_elements() != Index(tri.size()) || fac.size() != m * n)
        throw Fail{"factory", "SparseMatrixFactory reports rows/columns/used_elements/size " + std::to_string(fac.rows()) + "/" + std::to_string(fac.columns()) + "/" +
                   std::to_string(fac.used_elements()) + "/" + std::to_string(fac.size())};
      auto& b = target<FCSR, TD>(w, dst, "csr", ty);
      b = fac.make_csr();
    });
  }
  else if(op == "convrev")
  {
    // src.convert_reverse(dst): values of the csr matrix written back into a csr / bcsr matrix of the same pattern
    if(!w.slots[dst]) throw std::runtime_error("convert_reverse into a free slot");
    SlotBase& D = *w.slots[dst];
    with_slot(S, [&](auto fs, auto ts, auto& a) {
      typedef decltype(fs) FS; typedef decltype(ts) TS;
      if constexpr (FS::id == 0)
        with_slot(D, [&](auto fd, auto td, auto& b) {
          typedef decltype(fd) FD; typedef decltype(td) TD;
          if constexpr ((FD::id == 0 || FD::id == 4) && std::is_same<typename TS::DT, typename TD::DT>::value) a.convert_reverse(b);
          else throw std::runtime_error("convert_reverse target " + D.fmt + "/" + D.ty);
        });
      else throw std::runtime_error("convert_reverse needs a csr source");
    });
  }
  else if(op == "copy")
  {
    bool full = st["full"].as_bool();
    with_slot(S, [&](auto, auto, auto& a) {
      typedef typename std::remove_reference<decltype(a)>::type MT;
      SlotBase* d = w.slots[dst].get();
      if(!d || d->fmt != S.fmt || d->ty != S.ty || d->bh != S.bh || d->bw != S.bw) throw std::runtime_error("copy between different types");
      static_cast<SlotT<MT>&>(*d).a.copy(a, full);
    });
  }
  else if(op == "format")
  {
    with_slot(S, [&](auto, auto ts, auto& a) { a.format(typename decltype(ts)::DT(double(st["v"].as_int()))); });
  }
  else if(op == "poke")
  {
    std::size_t k = std::size_t(st["k"].as_int());
    with_slot(S, [&](auto, auto ts, auto& a) {
      typedef typename decltype(ts)::DT DT;
      // the raw value pointer (val() / elements())
      DT* v = a.get_elements().at(0);
      v[k] = DT(double(st["v"].as_int()));
    });
  }
  else throw std::runtime_error("unknown op " + op);
}

vj::Value run_case(const vj::Value& c)
{
  World w;
  std::size_t ns = std::size_t(c["ns"].as_int());
  w.slots.resize(ns); w.exp.resize(ns);
  const vj::Value& steps = c["steps"];
  for(std::size_t k = 0; k < steps.size(); ++k)
  {
    const vj::Value& st = steps[k];
    try
    {
      run_step(w, st);
      for(std::size_t e = 0; e < st["exp"].size(); ++e) w.exp[std::size_t(st["exp"][e]["slot"].as_int()) - 1] = st["exp"][e]["st"];
      check_world(w);
    }
    catch(const Fail& f)
    {
      vj::Value r = vh::bad("step " + std::to_string(k) + " (" + st["op"].as_str() + "): " + f.why);
      r["step"] = (long long)k; r["what"] = f.what;
      return r;
    }
  }
  return vh::ok();
}

// Replay loop with the protocol of vh::main_loop (B <k> / R <k> <json>), but hardened against silent heap corruption:
// a defective conversion may write past the end of its arrays without failing at once.  All cases are read before the
// first one runs and every temporary of a case is destroyed BEFORE its `R k` line is printed, so that between `R k` and
// `B k+1` nothing touches the heap: a corruption left behind by case k then surfaces inside the journalled window of a
// case (which the check re-runs alone in a fresh process) and never as "died outside a case".
int main(int argc, char** argv)
{
  std::string file; long start = 0, only = -1; unsigned tmo = 20;
  for(int k = 1; k < argc; ++k)
  {
    std::string a(argv[k]);
    if(a == "--cases" && k + 1 < argc) file = argv[++k];
    else if(a == "--start" && k + 1 < argc) start = std::atol(argv[++k]);
    else if(a == "--only" && k + 1 < argc) only = std::atol(argv[++k]);
    else if(a == "--timeout" && k + 1 < argc) tmo = (unsigned)std::atol(argv[++k]);
  }
  if(file.empty()) { std::fprintf(stderr, "usage: %s --cases FILE [--start K] [--only K]\n", argv[0]); return 2; }
  static std::vector<std::pair<long, std::string>> todo;
  {
    std::ifstream in(file);
    if(!in) { std::fprintf(stderr, "cannot open %s\n", file.c_str()); return 2; }
    std::string line; long k = -1;
    while(std::getline(in, line))
    {
      if(line.empty()) continue;
      ++k;
      if(k < start || (only >= 0 && k != only)) continue;
      todo.emplace_back(k, line);
    }
  }
  std::signal(SIGALRM, vh::on_alarm);
  { int ac = 1; char* av[] = { argv[0], nullptr }; char** avp = av; FEAT::Runtime::initialize(ac, avp); }
  static std::string out;
  for(std::size_t t = 0; t < todo.size(); ++t)
  {
    const long k = todo[t].first;
    std::printf("B %ld\n", k); std::fflush(stdout);
    ::alarm(tmo);
    {
      vj::Value res;
      try
      {
        vj::Value c = vj::parse(todo[t].second);
        res = run_case(c);
      }
      catch(const std::exception& e)
      {
        res = vh::bad(std::string("uncaught exception ") + typeid(e).name() + ": " + e.what());
        res["outcome"] = "exception";
      }
      catch(...)
      {
        res = vh::bad("uncaught non-standard exception"); res["outcome"] = "exception";
      }
      out = vj::dump(res);
    }
    ::alarm(0);
    std::printf("R %ld %s\n", k, out.c_str()); std::fflush(stdout);
  }
  std::fflush(stdout);
  ::_exit(0); // skip static destruction / Runtime::finalize (as vh::main_loop does)
}
