// C17 harness: runs the real Assembly::DomainAssembler with worker threads on small meshes and records
// one event per action of spec/ThreadAsm.tla through the FEAT3_VERIF_HOOKS hooks (fence events stamped
// while the fence mutex is held, worker begin/end) and through its own job (prepare / scatter begin+end /
// combine begin+end / throw).  All events are stamped from ONE global atomic counter, so the stamp
// order is a linearisation consistent with the protocol's happens-before.
//
// case:  {"nx","ny","comps" (1|2), "subset":[cells] | "all", "strategy", "maxw", "scatter", "combine", "jobs",
//         "fail": -1 | cell index at which assemble() throws, "seed", "perturb": 0|1, "trace": path}
// result: ok / why; the trace file (ndjson: cfg line + events) is validated by TLC (Trace_ThreadAsm.tla).
#include "vharness.hpp"
#include <kernel/geometry/conformal_mesh.hpp>
#include <kernel/trafo/standard/mapping.hpp>
#include <kernel/assembly/domain_assembler.hpp>
#include <atomic>
#include <chrono>
#include <random>
#include <set>
#include <thread>

using namespace FEAT;

typedef Shape::Hypercube<2> ShapeType;
typedef Geometry::ConformalMesh<ShapeType> MeshType;
typedef Trafo::Standard::Mapping<MeshType> TrafoType;

// ---------------------------------------------------------------------------------------------
// event log
// ---------------------------------------------------------------------------------------------
enum Ev { ev_wbegin, ev_wend, ev_prep, ev_sb, ev_se, ev_cb, ev_ce, ev_throw, ev_open, ev_wait, ev_close, ev_asm, ev_fin };
static const char* ev_names[] = { "wbegin", "wend", "prep", "sb", "se", "cb", "ce", "throw", "open", "wait", "close", "asm", "fin" };
struct Event { int ev; int t; long a; int ok; };
static const std::size_t max_events = std::size_t(1) << 20;
static Event* g_events = nullptr;
static std::atomic<std::size_t> g_nev(0);
static thread_local int tl_tid = 0;          // 0 = master, 1..W = worker my_id
static thread_local std::mt19937* tl_rng = nullptr;
static int g_perturb = 0; static unsigned g_seed = 1;
static const void* g_fence_base = nullptr; static std::size_t g_fence_count = 0; static std::size_t g_fence_stride = 0;

static inline void log_ev(int ev, long a, int ok)
{
  std::size_t k = g_nev.fetch_add(1, std::memory_order_seq_cst);
  if(k < max_events) { g_events[k].ev = ev; g_events[k].t = tl_tid; g_events[k].a = a; g_events[k].ok = ok; }
}

static void perturb()
{
  if(!g_perturb) return;
  if(tl_rng == nullptr) tl_rng = new std::mt19937(g_seed * 7919u + unsigned(tl_tid) * 104729u + 17u);
  unsigned r = (*tl_rng)() % 8u;
  if(r < 3u) std::this_thread::yield();
  else if(r < 5u) std::this_thread::sleep_for(std::chrono::microseconds(1 + (*tl_rng)() % 60u));
}

static long fence_index(const void* f)
{
  if(g_fence_base == nullptr) return -1;
  std::ptrdiff_t d = reinterpret_cast<const char*>(f) - reinterpret_cast<const char*>(g_fence_base);
  if(d < 0 || std::size_t(d) >= g_fence_count * g_fence_stride || (std::size_t(d) % g_fence_stride) != 0) return -1;
  return long(std::size_t(d) / g_fence_stride);
}

static void fence_hook(const void* fence, int kind, bool okay)
{
  switch(kind)
  {
  case Verif::fence_wait_pre: case Verif::fence_open_pre: case Verif::fence_close_pre: perturb(); break;
  case Verif::fence_wait_done: log_ev(ev_wait, fence_index(fence), okay ? 1 : 0); break;
  case Verif::fence_open_done: log_ev(ev_open, fence_index(fence), okay ? 1 : 0); break;
  case Verif::fence_close_done: log_ev(ev_close, fence_index(fence), 0); break;
  }
}

static void worker_hook(std::size_t my_id, std::size_t, int kind)
{
  if(kind == 0) { tl_tid = int(my_id); log_ev(ev_wbegin, long(my_id), 1); }
  else log_ev(ev_wend, long(my_id), kind == 1 ? 1 : 0);
}

// ---------------------------------------------------------------------------------------------
// the job: integer contributions scattered into per-vertex slots (vertex-adjacent cells collide)
// ---------------------------------------------------------------------------------------------
struct JobData
{
  const MeshType* mesh = nullptr;
  std::vector<long> vert_sum;     // scatter target (shared, unsynchronised: protected by the protocol only)
  long combined = 0;              // combine target (protected by the assembler's mutex)
  long fail_cell = -1;
  std::vector<long> pos_of_cell;  // cell index -> position in _element_indices
};

template<bool need_scatter_, bool need_combine_>
class TestJob
{
public:
  JobData& data;
  explicit TestJob(JobData& d) : data(d) {}
  class Task
  {
  public:
    static constexpr bool need_scatter = need_scatter_;
    static constexpr bool need_combine = need_combine_;
    JobData& d; Index cell; long local; long contrib;
    explicit Task(TestJob& job) : d(job.data), cell(0), local(0), contrib(0) {}
    void prepare(Index c) { cell = c; log_ev(ev_prep, d.pos_of_cell.at(c), 1); }
    void assemble()
    {
      perturb();
      if(long(cell) == d.fail_cell) { log_ev(ev_throw, d.pos_of_cell.at(cell), 0); throw std::runtime_error("injected task failure"); }
      contrib = long(cell) + 1;
      local += contrib * 3;
      log_ev(ev_asm, d.pos_of_cell.at(cell), 1);
    }
    void scatter()
    {
      log_ev(ev_sb, d.pos_of_cell.at(cell), 1);
      const auto& idx = d.mesh->template get_index_set<2, 0>();
      for(int j = 0; j < 4; ++j)
      {
        long v = d.vert_sum[idx(cell, j)];   // read - (possible preemption) - write: a real race shows as a lost update
        perturb();
        d.vert_sum[idx(cell, j)] = v + contrib;
      }
      log_ev(ev_se, d.pos_of_cell.at(cell), 1);
    }
    void finish() { log_ev(ev_fin, d.pos_of_cell.at(cell), 1); }
    void combine()
    {
      log_ev(ev_cb, 0, 1);
      long v = d.combined; perturb(); d.combined = v + local;
      log_ev(ev_ce, 0, 1);
    }
  };
};

// access to the protected work-distribution arrays
class ProbeAsm : public Assembly::DomainAssembler<TrafoType>
{
public:
  typedef Assembly::DomainAssembler<TrafoType> Base;
  explicit ProbeAsm(const TrafoType& t) : Base(t) {}
  const std::vector<Index>& elems() const { return this->_element_indices; }
  const std::vector<Index>& layer_elems() const { return this->_layer_elements; }
  const std::vector<Index>& thread_layers() const { return this->_thread_layers; }
  const std::vector<Index>& color_elems() const { return this->_color_elements; }
  const std::vector<ThreadFence>& fences() const { return this->_thread_fences; }
  Assembly::ThreadingStrategy strategy() const { return this->_strategy; }
  // direct drive of the thread-layer balancing with an arbitrary layer structure (WorkDist.tla, G direction)
  std::vector<Index> drive_build_thread_layers(const std::vector<Index>& layer_elements, std::size_t maxw, std::size_t& numw)
  {
    this->_layer_elements = layer_elements;
    this->_element_indices.assign(layer_elements.back(), Index(0));
    this->_thread_layers.clear();
    this->_max_worker_threads = maxw;
    this->_num_worker_threads = 0;
    this->_build_thread_layers();
    numw = this->_num_worker_threads;
    return this->_thread_layers;
  }
};

// nx x ny grid of quads, `comps` disjoint copies side by side
static std::unique_ptr<MeshType> make_mesh(int nx, int ny, int comps)
{
  Index nv = Index(comps * (nx + 1) * (ny + 1)), nc = Index(comps * nx * ny);
  Index ne[3] = { nv, 0, nc };
  std::unique_ptr<MeshType> mesh(new MeshType(ne));
  auto& vs = mesh->get_vertex_set(); auto& vc = mesh->get_index_set<2, 0>();
  for(int c = 0; c < comps; ++c)
  {
    Index vo = Index(c * (nx + 1) * (ny + 1)), co = Index(c * nx * ny);
    for(int j = 0; j <= ny; ++j) for(int i = 0; i <= nx; ++i)
    {
      vs[vo + Index(j * (nx + 1) + i)][0] = double(i + c * (nx + 2));
      vs[vo + Index(j * (nx + 1) + i)][1] = double(j);
    }
    for(int j = 0; j < ny; ++j) for(int i = 0; i < nx; ++i)
    {
      Index k = co + Index(j * nx + i);
      vc(k, 0) = vo + Index(j * (nx + 1) + i); vc(k, 1) = vo + Index(j * (nx + 1) + i + 1);
      vc(k, 2) = vo + Index((j + 1) * (nx + 1) + i); vc(k, 3) = vo + Index((j + 1) * (nx + 1) + i + 1);
    }
  }
  mesh->deduct_topology_from_top();
  return mesh;
}

static vj::Value idx_json(const std::vector<Index>& v) { vj::Value r = vj::Value::array(); for(Index x : v) r.push(vj::Value((long long)x)); return r; }

template<bool SC, bool CO>
vj::Value run_job(const vj::Value& c, ProbeAsm& as, JobData& jd, const std::vector<Index>& elems, int jobs, std::string& why)
{
  typedef TestJob<SC, CO> JobT;
  vj::Value sums = vj::Value::array();
  for(int j = 0; j < jobs; ++j)
  {
    std::fill(jd.vert_sum.begin(), jd.vert_sum.end(), 0L); jd.combined = 0;
    JobT job(jd);
    as.assemble(job);
    // expected (serial definition): every selected cell contributes (cell+1) to each of its 4 vertices, 3(cell+1) to the integral
    if(jd.fail_cell < 0)
    {
      std::vector<long> ev(jd.vert_sum.size(), 0L); long ec = 0;
      const auto& idx = jd.mesh->template get_index_set<2, 0>();
      for(Index cell : elems) { for(int k = 0; k < 4; ++k) ev[idx(cell, k)] += long(cell) + 1; ec += 3 * (long(cell) + 1); }
      if(SC && ev != jd.vert_sum && why.empty()) why = "job " + std::to_string(j) + ": scattered result differs from the serial result";
      if(CO && ec != jd.combined && why.empty()) why = "job " + std::to_string(j) + ": combined integral " + std::to_string(jd.combined) + " differs from the serial value " + std::to_string(ec);
    }
  }
  (void)c;
  return sums;
}

static vj::Value run_btl(const vj::Value& c)
{
  auto mesh = make_mesh(1, 1, 1);
  TrafoType trafo(*mesh);
  ProbeAsm as(trafo);
  std::vector<Index> le; for(long long x : c["le"].ints()) le.push_back(Index(x));
  std::size_t numw = 0;
  std::vector<Index> tl = as.drive_build_thread_layers(le, std::size_t(c["maxw"].as_int()), numw);
  std::vector<Index> exp; for(long long x : c["tl"].ints()) exp.push_back(Index(x));
  // the specification's result is <<>> when multi-threading is disabled (no worker results)
  bool disabled = exp.empty();
  if(disabled)
  {
    if(numw != 0) return vh::bad("expected multi-threading to be disabled, but " + std::to_string(numw) + " workers result");
    return vh::ok();
  }
  if(tl != exp) return vh::bad("thread layers differ from the WorkDist transcription", idx_json(exp), idx_json(tl));
  if(numw + 1 != exp.size()) return vh::bad("number of worker threads " + std::to_string(numw));
  return vh::ok();
}

vj::Value run_case(const vj::Value& c)
{
  if(c.has("op") && c["op"].as_str() == "btl") return run_btl(c);
  if(g_events == nullptr) g_events = new Event[max_events];
  g_nev = 0; tl_tid = 0;
  int nx = (int)c["nx"].as_int(), ny = (int)c["ny"].as_int(), comps = (int)c.get_int("comps", 1);
  std::string strat = c["strategy"].as_str();
  std::size_t maxw = std::size_t(c["maxw"].as_int());
  bool sc = c["scatter"].as_bool(), co = c["combine"].as_bool();
  int jobs = (int)c.get_int("jobs", 1);
  g_perturb = (int)c.get_int("perturb", 1); g_seed = unsigned(c.get_int("seed", 1));
  delete tl_rng; tl_rng = nullptr;

  auto mesh = make_mesh(nx, ny, comps);
  TrafoType trafo(*mesh);
  ProbeAsm as(trafo);
  std::vector<Index> sel;
  if(c["subset"].is_arr()) for(long long x : c["subset"].ints()) sel.push_back(Index(x));
  else for(Index i = 0; i < mesh->get_num_elements(); ++i) sel.push_back(i);
  for(Index x : sel) as.add_element(x);
  as.set_max_worker_threads(maxw);
  Assembly::ThreadingStrategy ts = Assembly::ThreadingStrategy::automatic;
  if(strat == "single") ts = Assembly::ThreadingStrategy::single;
  else if(strat == "layered") ts = Assembly::ThreadingStrategy::layered;
  else if(strat == "layered_sorted") ts = Assembly::ThreadingStrategy::layered_sorted;
  else if(strat == "colored") ts = Assembly::ThreadingStrategy::colored;
  as.set_threading_strategy(ts);
  as.compile();

  const std::vector<Index>& elems = as.elems();
  JobData jd; jd.mesh = mesh.get(); jd.vert_sum.assign(mesh->get_num_entities(0), 0L);
  jd.pos_of_cell.assign(mesh->get_num_elements(), -1L);
  for(std::size_t p = 0; p < elems.size(); ++p) jd.pos_of_cell[elems[p]] = long(p);
  jd.fail_cell = c.get_int("fail", -1);

  // fences for address -> index mapping
  g_fence_count = as.fences().size();
  g_fence_base = g_fence_count ? &as.fences()[0] : nullptr;
  g_fence_stride = sizeof(ThreadFence);
  Verif::fence_hook = &fence_hook; Verif::worker_hook = &worker_hook;

  std::string why;
  if(sc && co) run_job<true, true>(c, as, jd, elems, jobs, why);
  else if(sc) run_job<true, false>(c, as, jd, elems, jobs, why);
  else if(co) run_job<false, true>(c, as, jd, elems, jobs, why);
  else run_job<false, false>(c, as, jd, elems, jobs, why);
  Verif::fence_hook = nullptr; Verif::worker_hook = nullptr;

  // ---- write the trace: configuration line + events ------------------------------------------
  vj::Value cfg = vj::Value::object();
  cfg["ev"] = "cfg";
  std::string rs;
  switch(as.strategy())
  {
    case Assembly::ThreadingStrategy::single: rs = "single"; break;
    case Assembly::ThreadingStrategy::layered: rs = "layered"; break;
    case Assembly::ThreadingStrategy::layered_sorted: rs = "layered"; break;   // same protocol, different element order
    case Assembly::ThreadingStrategy::colored: rs = "colored"; break;
    default: rs = "automatic"; break;
  }
  cfg["strategy"] = rs; cfg["req_strategy"] = strat;
  cfg["W"] = (long long)as.get_num_worker_threads(); cfg["maxw"] = (long long)maxw;
  cfg["scatter"] = sc; cfg["combine"] = co; cfg["jobs"] = jobs; cfg["N"] = (long long)elems.size();
  cfg["le"] = idx_json(as.layer_elems()); cfg["tl"] = idx_json(as.thread_layers()); cfg["ce"] = idx_json(as.color_elems());
  cfg["elems"] = idx_json(elems); cfg["fail"] = (long long)jd.fail_cell; cfg["nfences"] = (long long)g_fence_count;
  {
    // vertex adjacency between positions, from the mesh (independent of the assembler's graphs)
    vj::Value adj = vj::Value::array();
    const auto& idx = mesh->get_index_set<2, 0>();
    for(std::size_t p = 0; p < elems.size(); ++p) for(std::size_t q = 0; q < elems.size(); ++q)
    {
      if(p == q) continue;
      bool sh = false;
      for(int a = 0; a < 4 && !sh; ++a) for(int b = 0; b < 4 && !sh; ++b) sh = (idx(elems[p], a) == idx(elems[q], b));
      if(sh) { vj::Value pr = vj::Value::array(); pr.push(vj::Value((long long)p)); pr.push(vj::Value((long long)q)); adj.push(pr); }
    }
    cfg["adj"] = adj;
  }
  {
    // selected cells as requested (for the partition clause)
    vj::Value s = vj::Value::array(); for(Index x : sel) s.push(vj::Value((long long)x)); cfg["selected"] = s;
  }
  std::size_t nev = std::min(g_nev.load(), max_events);
  std::string tpath = c.get_str("trace", "");
  if(!tpath.empty())
  {
    std::ofstream out(tpath);
    out << vj::dump(cfg) << "\n";
    for(std::size_t k = 0; k < nev; ++k)
    {
      const Event& e = g_events[k];
      out << "{\"ev\":\"" << ev_names[e.ev] << "\",\"t\":" << e.t << ",\"a\":" << e.a << ",\"ok\":" << (e.ok ? "true" : "false") << "}\n";
    }
  }
  vj::Value r = why.empty() ? vh::ok() : vh::bad(why);
  r["W"] = (long long)as.get_num_worker_threads(); r["events"] = (long long)nev; r["strategy"] = rs;
  return r;
}

int main(int argc, char** argv) { return vh::main_loop(argc, argv); }
