#define C15_GROUP 1
#include "c15_element.cpp"
