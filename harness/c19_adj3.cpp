// C19 replayer for nested adjactor expressions (spec/AdjacencyOps.tla, N = 3): (a*b)*c and a*(b*c) over the operand classes
// Graph, index-interval adjactor and StructIndexSet, i.e. CompositeAdjactor iterators as first / second iterator of a
// CompositeAdjactor and as operands of the render constructors.
#include "vc19adj.hpp"
using namespace c19;

template<class A, class B, class C>
static vj::Value run_three(const vj::Value& c, const A& a, const B& b, const C& z)
{
  Fail f;
  const std::string nest = c["nest"].as_str();
  if(!check_operand(a, c["ops"][0], f, "1")) return report(f);
  if(!check_operand(b, c["ops"][1], f, "2")) return report(f);
  if(!check_operand(z, c["ops"][2], f, "3")) return report(f);
  const long long nd = c["nd"].as_int(), ni = c["ni"].as_int();
  const std::vector<IVec> L = c["L"].int_rows();
  if(nest == "left" || nest == "both")
  {
    CompositeAdjactor<A, B> ab(a, b);
    CompositeAdjactor<CompositeAdjactor<A, B>, C> e(ab, z);
    if(!check_iter(e, nd, ni, L, f, "CompositeAdjactor((a*b), c)")) return report(f);
    if(!check_single(e, c, f, "(a*b)*c")) return report(f);
    if(c["eq2"]["left"].as_bool() && !check_double(ab, z, c, f, "(a*b), c")) return report(f);
  }
  if(nest == "right" || nest == "both")
  {
    CompositeAdjactor<B, C> bc(b, z);
    CompositeAdjactor<A, CompositeAdjactor<B, C>> e(a, bc);
    if(!check_iter(e, nd, ni, L, f, "CompositeAdjactor(a, (b*c))")) return report(f);
    if(!check_single(e, c, f, "a*(b*c)")) return report(f);
    if(c["eq2"]["right"].as_bool() && !check_double(a, bc, c, f, "a, (b*c)")) return report(f);
  }
  return vh::ok();
}

vj::Value run_case(const vj::Value& c)
{
  if(c["op"].as_str() != "adjexpr") return vh::bad("unknown op");
  const vj::Value& ops = c["ops"];
  if(ops.size() != 3) return vh::bad("chains of one or two operands are replayed by c19_adj2");
  return with_operand<false>(ops[0], [&](const auto& a) {
    return with_operand<false>(ops[1], [&](const auto& b) {
      return with_operand<false>(ops[2], [&](const auto& z) { return run_three(c, a, b, z); }); }); });
}

int main(int argc, char** argv) { return vh::main_loop(argc, argv); }
