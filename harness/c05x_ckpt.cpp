// C05 extension, replayer for spec/PersistCkptFile.tla: Control::CheckpointControl::save(filename) / load(filename)
// on real files, in a serial program (std build) and collectively under mpirun (mpi build); optionally through
// Global::Vector / Global::Matrix.
//
// phase 1 (default): build this rank's objects from the specification (the real container state must BE the state
//   the specification assumes: "precond"), register them, save("<dir>/<name>.cp"); the file is then read with a plain
//   std::ifstream: rank 0 compares header + size table byte by byte with the predicted bytes and the file length
//   with the predicted total; EVERY rank parses its own section at the predicted offset (identifier order, length
//   words, the container layout of PersistFmt!BinFile).  A FRESH CheckpointControl loads the file, the objects are
//   restored in the given order into fresh objects (registered again), compared with the predicted state, and the
//   fresh control saves a second file that must have the same layout.  If $C05X_KEEP is set the first file is
//   copied there for phase 2.
// phase 2: a fresh PROCESS loads the kept file and restores.
// part "io" (cases of spec/Persist.tla, the registered check replays them through streams): the FILE NAME overloads
//   write_out(mode, filename) / read_from(mode, filename) of DenseVector, DenseVectorBlocked<2>, SparseVector and
//   SparseMatrixCSR in their binary and text modes: the file on disk is compared with the predicted file (binary layout
//   resp. token sequence), the container read back from the file name with the predicted state.
// expect = "reject": save / load (field rejop) with a file name the specification declares invalid must be reported
//   (XASSERT aborts); returning from the call is the failure.
#include "vmpi.hpp"
#include "vlafem.hpp"
#include <kernel/lafem/sparse_vector.hpp>
#include <kernel/global/vector.hpp>
#include <kernel/global/matrix.hpp>
#include <kernel/lafem/vector_mirror.hpp>
#include <control/checkpoint_control.hpp>
#include <filesystem>
#include <fstream>
#include <sstream>

using namespace vl;
static const long long DEN = 4;
// the specification's NegZero (PersistFmt.tla): IEEE -0; binary modes are bit-identical, text modes compared by value
static const long long NEGZERO = 999999937;
template<class DT> DT val_of(long long num) { return num == NEGZERO ? DT(-0.0) : DT(double(num) / double(DEN)); }
typedef std::vector<char> Bytes;

// ---- builders (as in c05_persist.cpp: values = numerator / den) -------------------------------------------------
template<class DT, class IT> DenseVector<DT, IT> dvec(const IVec& num)
{
  DenseVector<DT, IT> r(Index(num.size()));
  for(std::size_t k = 0; k < num.size(); ++k) r(Index(k), val_of<DT>(num[k]));
  return r;
}
static bool is_alloc(const vj::Value& c) { return c.has("alloc") && c["alloc"].as_bool(); }
template<class CT> struct Ops;
template<class DT, class IT> struct Ops<DenseVector<DT, IT>>
{
  static DenseVector<DT, IT> build(const vj::Value& c) { return dvec<DT, IT>(c["rep"]["va"].ints()); }
};
template<class DT, class IT, int BS> struct Ops<DenseVectorBlocked<DT, IT, BS>>
{
  static DenseVectorBlocked<DT, IT, BS> build(const vj::Value& c)
  {
    IVec num = c["rep"]["va"].ints(); DenseVectorBlocked<DT, IT, BS> r(Index(num.size() / BS));
    DT* e = r.template elements<Perspective::pod>();
    for(std::size_t k = 0; k < num.size(); ++k) e[k] = val_of<DT>(num[k]);
    return r;
  }
};
template<class DT, class IT> struct Ops<SparseVector<DT, IT>>
{
  static SparseVector<DT, IT> build(const vj::Value& c)
  {
    IVec idx = c["rep"]["idx"].ints(), va = c["rep"]["va"].ints(); Index m = Index(c["m"].as_int());
    if(idx.empty() && !is_alloc(c)) return SparseVector<DT, IT>(m);
    auto vv = dvec<DT, IT>(va); auto vi = make_ivec<IT>(idx);
    return SparseVector<DT, IT>(m, vv, vi);
  }
};
template<class DT, class IT> struct Ops<SparseMatrixCSR<DT, IT>>
{
  typedef SparseMatrixCSR<DT, IT> CT;
  static CT build(const vj::Value& c)
  {
    const vj::Value& r = c["rep"]; Index m = Index(c["m"].as_int()), n = Index(c["n"].as_int());
    IVec ci = r["ci"].ints();
    if(ci.empty() && is_alloc(c)) { CT a(m, n, Index(0)); for(Index i = 0; i <= m; ++i) a.row_ptr()[i] = IT(0); return a; }
    if(ci.empty()) return CT(m, n);
    auto vci = make_ivec<IT>(ci); auto vrp = make_ivec<IT>(r["rp"].ints()); auto vva = dvec<DT, IT>(r["va"].ints());
    return CT(m, n, vci, vva, vrp);
  }
};

static long long to_num(double x, bool& exact)
{
  if(x == 0.0 && std::signbit(x)) return NEGZERO;       // bit-level view (raw arrays)
  double t = x * double(DEN); long long q = (long long)std::llround(t);
  if(double(q) != t || !(std::fabs(t) < 1e15)) { exact = false; return 987654321; }
  return q;
}
template<class CT> vj::Value state_of(const CT& c, bool& exact)
{
  vj::Value r = vj::Value::object(); vj::Value el = vj::Value::array(), ix = vj::Value::array(), si = vj::Value::array();
  const auto& es = c.get_elements(); const auto& ess = c.get_elements_size();
  for(std::size_t k = 0; k < es.size(); ++k) { vj::Value a = vj::Value::array(); for(Index t = 0; t < ess[k]; ++t) a.push(vj::Value(to_num(double(es[k][t]), exact))); el.push(a); }
  const auto& is = c.get_indices(); const auto& iss = c.get_indices_size();
  for(std::size_t k = 0; k < is.size(); ++k) { vj::Value a = vj::Value::array(); for(Index t = 0; t < iss[k]; ++t) a.push(vj::Value((long long)is[k][t])); ix.push(a); }
  for(Index x : c.get_scalar_index()) si.push(vj::Value((long long)x));
  r["el"] = el; r["ix"] = ix; r["si"] = si;
  return r;
}
static long long to_val(double x, bool& exact) { return x == 0.0 ? 0ll : to_num(x, exact); }    // value-level view (text round trips)
static std::string js(const vj::Value& v) { std::string s = vj::dump(v); if(s.size() > 300) s = s.substr(0, 300) + "..."; return s; }

// ---- the container layout of PersistFmt!BinFile found in a byte range (as in c05_persist.cpp) --------------------
static std::string check_bin(const vj::Value& f, const char* data, std::size_t size, const std::string& tag)
{
  const std::size_t len = std::size_t(f["len"].as_int());
  if(size != len) return tag + ": byte length is " + std::to_string(size) + ", the format prescribes " + std::to_string(len);
  const vj::Value& words = f["words"];
  if(words.size() * 8 > size) return tag + ": shorter than its header";
  for(std::size_t w = 0; w < words.size(); ++w)
  {
    std::uint64_t x; std::memcpy(&x, data + 8 * w, 8);
    long long lo = (long long)(x & 0xFFFFFFFFull), hi = (long long)(x >> 32);
    if(lo != words[w][0].as_int() || hi != words[w][1].as_int()) return tag + ": header word " + std::to_string(w) + " is " + std::to_string(x) + " expected " + std::to_string(words[w][0].as_int()) + "+2^32*" + std::to_string(words[w][1].as_int());
  }
  const int sdt = int(f["sdt"].as_int()), sit = int(f["sit"].as_int());
  for(std::size_t a = 0; a < f["el"].size(); ++a)
  {
    IVec e = f["el"][a].ints(); std::size_t off = std::size_t(f["offEl"][a].as_int());
    if(off + e.size() * std::size_t(sdt) > size) return tag + ": element array " + std::to_string(a) + " does not fit";
    for(std::size_t t = 0; t < e.size(); ++t)
    {
      double x; if(sdt == 8) { double d; std::memcpy(&d, data + off + 8 * t, 8); x = d; } else { float d; std::memcpy(&d, data + off + 4 * t, 4); x = double(d); }
      const bool good = (e[t] == NEGZERO) ? (x == 0.0 && std::signbit(x)) : (x * double(DEN) == double(e[t]) && !(x == 0.0 && std::signbit(x)));
      if(!good) return tag + ": element array " + std::to_string(a) + "[" + std::to_string(t) + "] at byte " + std::to_string(off + std::size_t(sdt) * t) + " is " + std::to_string(x) + " expected " + std::to_string(double(e[t]) / double(DEN));
    }
  }
  for(std::size_t a = 0; a < f["ix"].size(); ++a)
  {
    IVec e = f["ix"][a].ints(); std::size_t off = std::size_t(f["offIx"][a].as_int());
    if(off + e.size() * std::size_t(sit) > size) return tag + ": index array " + std::to_string(a) + " does not fit";
    for(std::size_t t = 0; t < e.size(); ++t)
    {
      long long x; if(sit == 8) { std::uint64_t d; std::memcpy(&d, data + off + 8 * t, 8); x = (long long)d; } else { std::uint32_t d; std::memcpy(&d, data + off + 4 * t, 4); x = (long long)d; }
      if(x != e[t]) return tag + ": index array " + std::to_string(a) + "[" + std::to_string(t) + "] is " + std::to_string(x) + " expected " + std::to_string(e[t]);
    }
  }
  return "";
}
// one rank's section: for every identifier  u64 |id|, id, u64 |data|, data
static std::string check_section(const vj::Value& rk, const char* data, std::size_t size, const std::string& tag)
{
  if((long long)size != rk["size"].as_int()) return tag + ": harness: section size";
  std::size_t p = 0; const vj::Value& ents = rk["entries"];
  for(std::size_t e = 0; e < ents.size(); ++e)
  {
    if(p + 8 > size) return tag + ": section ends before entry " + std::to_string(e);
    std::uint64_t il; std::memcpy(&il, data + p, 8); p += 8;
    const std::string id = ents[e]["id"].as_str();
    if(il != id.size() || p + il + 8 > size || std::string(data + p, std::size_t(il)) != id) return tag + ": entry " + std::to_string(e) + " is not identifier '" + id + "' (entries are stored in identifier order)";
    p += std::size_t(il);
    std::uint64_t dl; std::memcpy(&dl, data + p, 8); p += 8;
    if((long long)dl != ents[e]["len"].as_int() || p + dl > size) return tag + ": entry '" + id + "': data length " + std::to_string(dl) + " expected " + std::to_string(ents[e]["len"].as_int());
    std::string w = check_bin(ents[e]["bin"], data + p, std::size_t(dl), tag + "/entry '" + id + "'"); if(!w.empty()) return w;
    p += std::size_t(dl);
  }
  if(p != size) return tag + ": trailing bytes in the section";
  return "";
}

// ---- text files: header line + token sequence (as in c05_persist.cpp) ---------------------------------------------
static std::string check_text(const vj::Value& f, const std::string& text, const std::string& tag)
{
  std::vector<std::string> lines; { std::istringstream is(text); std::string l; while(std::getline(is, l)) lines.push_back(l); }
  if(!text.empty() && text.back() != '\n') return tag + ": text output does not end with a newline";
  std::size_t p = 0; const std::string hdr = f["hdr"].as_str();
  if(!hdr.empty()) { if(lines.empty() || lines[0] != hdr) return tag + ": header line is '" + (lines.empty() ? std::string() : lines[0]) + "' expected '" + hdr + "'"; p = 1; }
  const vj::Value& ls = f["lines"];
  if(lines.size() - p != ls.size()) return tag + ": " + std::to_string(lines.size() - p) + " lines after the header, expected " + std::to_string(ls.size());
  for(std::size_t q = 0; q < ls.size(); ++q)
  {
    std::istringstream is(lines[p + q]); std::vector<std::string> tok; std::string t; while(is >> t) tok.push_back(t);
    IVec ei = ls[q]["i"].ints(), ex = ls[q]["x"].ints();
    if(tok.size() != ei.size() + ex.size()) return tag + ": line " + std::to_string(p + q) + " '" + lines[p + q] + "' has " + std::to_string(tok.size()) + " tokens, expected " + std::to_string(ei.size() + ex.size());
    for(std::size_t j = 0; j < ei.size(); ++j) { char* end = nullptr; long long v = std::strtoll(tok[j].c_str(), &end, 10); if(*end != 0 || v != ei[j]) return tag + ": line " + std::to_string(p + q) + " '" + lines[p + q] + "': integer token " + std::to_string(j) + " expected " + std::to_string(ei[j]); }
    for(std::size_t j = 0; j < ex.size(); ++j) { char* end = nullptr; double v = std::strtod(tok[ei.size() + j].c_str(), &end); if(*end != 0 || tok[ei.size() + j].empty() || v * double(DEN) != double(ex[j] == NEGZERO ? 0 : ex[j])) return tag + ": line " + std::to_string(p + q) + " '" + lines[p + q] + "': value token expected " + std::to_string(double(ex[j]) / double(DEN)); }
  }
  return "";
}
template<class DT, class IT> vj::Value view_of(const DenseVector<DT, IT>& v, bool& ex)
{ vj::Value r = vj::Value::object(); r["m"] = vj::Value((long long)v.size()); vj::Value a = vj::Value::array(); for(Index i = 0; i < v.size(); ++i) a.push(vj::Value(to_val(double(v(i)), ex))); r["va"] = a; return r; }
template<class DT, class IT, int BS> vj::Value view_of(const DenseVectorBlocked<DT, IT, BS>& v, bool& ex)
{
  vj::Value r = vj::Value::object(); r["m"] = vj::Value((long long)v.size()); vj::Value a = vj::Value::array();
  const DT* e = v.template elements<Perspective::pod>(); Index n = v.template size<Perspective::pod>();
  Index have = v.get_elements_size().empty() ? Index(0) : v.get_elements_size()[0];
  for(Index i = 0; i < have; ++i) a.push(vj::Value(to_val(double(e[i]), ex)));
  if(have != n) ex = false;
  r["va"] = a; return r;
}
template<class DT, class IT> vj::Value view_of(const SparseVector<DT, IT>& v, bool& ex)
{
  vj::Value r = vj::Value::object(); r["m"] = vj::Value((long long)v.size()); vj::Value a = vj::Value::array(), x = vj::Value::array();
  for(Index i = 0; i < v.used_elements(); ++i) { x.push(vj::Value((long long)v.indices()[i])); a.push(vj::Value(to_val(double(v.elements()[i]), ex))); }
  r["used"] = vj::Value((long long)v.used_elements());
  r["idx"] = x; r["va"] = a; return r;
}
template<class DT, class IT> vj::Value view_of(const SparseMatrixCSR<DT, IT>& v, bool& ex)
{
  vj::Value r = vj::Value::object(); r["m"] = vj::Value((long long)v.rows()); r["n"] = vj::Value((long long)v.columns());
  vj::Value rep = vj::Value::object(), rp = vj::Value::array(), ci = vj::Value::array(), va = vj::Value::array();
  if(v.row_ptr() != nullptr) for(Index i = 0; i <= v.rows(); ++i) rp.push(vj::Value((long long)v.row_ptr()[i]));
  else for(Index i = 0; i <= v.rows(); ++i) rp.push(vj::Value(0ll));
  for(Index i = 0; i < v.used_elements(); ++i) { ci.push(vj::Value((long long)v.col_ind()[i])); va.push(vj::Value(to_val(double(v.val()[i]), ex))); }
  r["used"] = vj::Value((long long)v.used_elements());
  rep["rp"] = rp; rep["ci"] = ci; rep["va"] = va; r["rep"] = rep; return r;
}
static FileMode file_mode(const std::string& m)
{
  if(m == "exp") return FileMode::fm_exp; if(m == "mtx" || m == "mtxsym") return FileMode::fm_mtx; if(m == "dv") return FileMode::fm_dv;
  if(m == "dvb") return FileMode::fm_dvb; if(m == "sv") return FileMode::fm_sv; if(m == "csr") return FileMode::fm_csr;
  if(m == "binary") return FileMode::fm_binary;
  throw std::runtime_error("unknown mode " + m);
}
static bool slurp(const std::string& path, std::vector<char>& out);
// mode "mtxsym" = the symmetric MatrixMarket variant write_out(fm_mtx, filename, true) of SparseMatrixCSR
template<class CT> struct NameWriter
{
  static void write(const CT& a, const std::string& mode, const std::string& path)
  {
    if(mode == "mtxsym") throw std::runtime_error("symmetric MatrixMarket output exists for SparseMatrixCSR only");
    a.write_out(file_mode(mode), String(path));
  }
};
template<class DT, class IT> struct NameWriter<SparseMatrixCSR<DT, IT>>
{
  static void write(const SparseMatrixCSR<DT, IT>& a, const std::string& mode, const std::string& path)
  {
    if(mode == "mtxsym") a.write_out(FileMode::fm_mtx, String(path), true); else a.write_out(file_mode(mode), String(path));
  }
};
// write_out(mode, FILE NAME) / read_from(mode, FILE NAME) of one container
template<class CT>
std::string run_iofile(const vj::Value& c, const std::string& dir, const std::string& tag)
{
  const std::string mode = c["mode"].as_str(); const vj::Value& f = c["file"];
  const std::string path = dir + "/container." + mode;
  CT a = Ops<CT>::build(c);
  bool ex = true; vj::Value pre = state_of(a, ex);
  if(!ex || pre != c["arrays"]) return "precond: " + tag + ": container state " + js(pre) + " is not the state the specification assumes " + js(c["arrays"]);
  NameWriter<CT>::write(a, mode, path);
  { bool e2 = true; if(state_of(a, e2) != pre) return tag + ": writing modified the container"; }
  std::vector<char> bytes; if(!slurp(path, bytes)) return tag + "/write: file " + path + " does not exist";
  const bool bin = f["fmt"].as_str() == "bin";
  std::string w = bin ? check_bin(f, bytes.data(), bytes.size(), tag + "/write") : check_text(f, std::string(bytes.begin(), bytes.end()), tag + "/write");
  if(!w.empty()) return w;
  CT b; b.read_from(file_mode(mode), String(path));
  bool e3 = true; vj::Value post = bin ? state_of(b, e3) : view_of(b, e3);
  if(!e3 || post != c["back"]) return tag + "/read: container read back " + js(post) + " expected " + js(c["back"]);
  return "";
}
template<class DT, class IT>
std::string run_iofile_kind(const vj::Value& c, const std::string& dir, const std::string& tag)
{
  const std::string kind = c["kind"].as_str();
  if(kind == "dv") return run_iofile<DenseVector<DT, IT>>(c, dir, tag + "/dv/" + c["mode"].as_str());
  if(kind == "dvb" && c["bh"].as_int() == 2) return run_iofile<DenseVectorBlocked<DT, IT, 2>>(c, dir, tag + "/dvb2/" + c["mode"].as_str());
  if(kind == "sv") return run_iofile<SparseVector<DT, IT>>(c, dir, tag + "/sv/" + c["mode"].as_str());
  if(kind == "csr") return run_iofile<SparseMatrixCSR<DT, IT>>(c, dir, tag + "/csr/" + c["mode"].as_str());
  return "harness: unsupported container kind " + kind;
}

// ---- objects ------------------------------------------------------------------------------------------------------
struct ObjBase
{
  virtual ~ObjBase() {}
  virtual void add_to(Control::CheckpointControl& cp, const std::string& id) = 0;
  virtual void restore_from(Control::CheckpointControl& cp, const std::string& id, bool add) = 0;
  virtual vj::Value state(bool& ex) const = 0;
};
template<class CT> struct Obj : ObjBase
{
  CT obj;
  Obj() {}
  explicit Obj(CT&& o) : obj(std::move(o)) {}
  void add_to(Control::CheckpointControl& cp, const std::string& id) override { cp.add_object(String(id), obj); }
  void restore_from(Control::CheckpointControl& cp, const std::string& id, bool add) override { cp.restore_object(String(id), obj, add); }
  vj::Value state(bool& ex) const override { return state_of(obj, ex); }
};
// the same through the global wrappers (no gate is needed for checkpointing)
template<class DT, class IT> struct GVecObj : ObjBase
{
  typedef DenseVector<DT, IT> LV; typedef Global::Vector<LV, VectorMirror<DT, IT>> GV;
  GV obj;
  GVecObj() : obj(nullptr) {}
  explicit GVecObj(LV&& o) : obj(nullptr, std::move(o)) {}
  void add_to(Control::CheckpointControl& cp, const std::string& id) override { cp.add_object(String(id), obj); }
  void restore_from(Control::CheckpointControl& cp, const std::string& id, bool add) override { cp.restore_object(String(id), obj, add); }
  vj::Value state(bool& ex) const override { return state_of(obj.local(), ex); }
};
template<class DT, class IT> struct GMatObj : ObjBase
{
  typedef SparseMatrixCSR<DT, IT> LM; typedef Global::Matrix<LM, VectorMirror<DT, IT>, VectorMirror<DT, IT>> GM;
  GM obj;
  GMatObj() : obj(nullptr, nullptr) {}
  explicit GMatObj(LM&& o) : obj(nullptr, nullptr, std::move(o)) {}
  void add_to(Control::CheckpointControl& cp, const std::string& id) override { cp.add_object(String(id), obj); }
  void restore_from(Control::CheckpointControl& cp, const std::string& id, bool add) override { cp.restore_object(String(id), obj, add); }
  vj::Value state(bool& ex) const override { return state_of(obj.local(), ex); }
};
template<class DT, class IT>
std::unique_ptr<ObjBase> make_obj(const vj::Value& c, bool fresh, bool wrap)
{
  const std::string kind = c["kind"].as_str();
  typedef DenseVector<DT, IT> T1; typedef SparseMatrixCSR<DT, IT> T2; typedef SparseVector<DT, IT> T3; typedef DenseVectorBlocked<DT, IT, 2> T4;
  if(kind == "dv" && wrap) { if(fresh) return std::unique_ptr<ObjBase>(new GVecObj<DT, IT>()); return std::unique_ptr<ObjBase>(new GVecObj<DT, IT>(Ops<T1>::build(c))); }
  if(kind == "csr" && wrap) { if(fresh) return std::unique_ptr<ObjBase>(new GMatObj<DT, IT>()); return std::unique_ptr<ObjBase>(new GMatObj<DT, IT>(Ops<T2>::build(c))); }
#define C05X_MK(T) { if(fresh) return std::unique_ptr<ObjBase>(new Obj<T>()); return std::unique_ptr<ObjBase>(new Obj<T>(Ops<T>::build(c))); }
  if(kind == "dv") C05X_MK(T1)
  if(kind == "csr") C05X_MK(T2)
  if(kind == "sv") C05X_MK(T3)
  if(kind == "dvb") C05X_MK(T4)
#undef C05X_MK
  throw std::runtime_error("checkpoint palette kind " + kind);
}

static bool slurp(const std::string& path, Bytes& out)
{
  std::ifstream is(path, std::ios::in | std::ios::binary); if(!is) return false;
  out.assign(std::istreambuf_iterator<char>(is), std::istreambuf_iterator<char>()); return true;
}
// the file on disk against the prediction: header + size table exactly (rank 0), this rank's section structurally
static std::string check_file(const vj::Value& c, const std::string& path, int me, const std::string& tag)
{
  Bytes got; if(!slurp(path, got)) return tag + ": file " + path + " does not exist";
  std::vector<long long> hdr = c["hdr"].ints();
  if(me == 0)
  {
    if((long long)got.size() != c["total"].as_int()) return tag + ": file length is " + std::to_string(got.size()) + ", the format prescribes " + std::to_string(c["total"].as_int());
    for(std::size_t k = 0; k < hdr.size(); ++k) if((unsigned char)got[k] != (unsigned char)hdr[k]) return tag + ": header byte " + std::to_string(k) + " (u64 word " + std::to_string(k / 8) + ") is " + std::to_string((unsigned)(unsigned char)got[k]) + " expected " + std::to_string(hdr[k]);
  }
  std::size_t off = hdr.size();
  for(int q = 0; q < me; ++q) off += std::size_t(c["ranks"][std::size_t(q)]["size"].as_int());
  const vj::Value& rk = c["ranks"][std::size_t(me)]; const std::size_t sz = std::size_t(rk["size"].as_int());
  if(off + sz > got.size()) return tag + ": this rank's section [" + std::to_string(off) + ", " + std::to_string(off + sz) + ") lies behind the end of the file (" + std::to_string(got.size()) + " bytes)";
  return check_section(rk, got.data() + off, sz, tag + "/section");
}

template<class DT, class IT>
std::string run_ckfile(const vj::Value& c, const Dist::Comm& comm, const std::string& tag)
{
  const int me = comm.rank(); vmpi::Fail fail(me);
  const vj::Value& rk = c["ranks"][std::size_t(me)]; const vj::Value& objs = rk["objs"]; const vj::Value& fn = c["fname"];
  const bool wrap = c["wrap"].as_bool(); const long long phase = c.get_int("phase", 1);
  const char* keep = std::getenv("C05X_KEEP");
  const std::string keepfile = std::string(keep ? keep : "/tmp") + "/" + c.get_str("key", "k") + ".cp";
  std::map<std::string, const vj::Value*> by_id; for(std::size_t j = 0; j < objs.size(); ++j) by_id[objs[j]["id"].as_str()] = &objs[j];
  auto restore_all = [&](Control::CheckpointControl& cp2, bool add, std::vector<std::unique_ptr<ObjBase>>& into, const std::string& t)
  {
    const vj::Value& rs = c["restore"];
    for(std::size_t j = 0; j < rs.size() && fail.why.empty(); ++j)
    {
      const std::string id = rs[j].as_str(); const vj::Value& o = *by_id[id];
      into.push_back(make_obj<DT, IT>(o["c"], true, wrap));
      into.back()->restore_from(cp2, id, add);
      bool ex = true; vj::Value got = into.back()->state(ex);
      if(!ex || got != o["arrays"]) fail(t + ": object restored for identifier '" + id + "' is " + js(got) + " expected " + js(o["arrays"]));
    }
  };
  if(phase == 2)
  {
    Control::CheckpointControl cp2(comm); std::vector<std::unique_ptr<ObjBase>> fresh;
    cp2.load(String(keepfile));
    restore_all(cp2, false, fresh, tag + "/fresh process");
    return fail.why;
  }
  // scratch directory
  char dirbuf[512]; std::memset(dirbuf, 0, sizeof(dirbuf));
  if(me == 0)
  {
    const char* base = std::getenv("C05X_DIR"); std::string t = std::string(base ? base : "/tmp") + "/c05x_XXXXXX";
    std::strncpy(dirbuf, t.c_str(), sizeof(dirbuf) - 1);
    if(::mkdtemp(dirbuf) == nullptr) dirbuf[0] = 0;
    else if(!fn["dir"].as_str().empty()) { std::error_code ec; std::filesystem::create_directories(std::string(dirbuf) + "/" + fn["dir"].as_str(), ec); }
  }
  comm.bcast(dirbuf, sizeof(dirbuf), 0);
  if(dirbuf[0] == 0) return "rank " + std::to_string(me) + ": harness: cannot create a scratch directory";
  const std::string dir(dirbuf);
  {
    Control::CheckpointControl cp(comm);
    std::vector<std::unique_ptr<ObjBase>> held, fresh;
    for(std::size_t j = 0; j < objs.size(); ++j)
    {
      held.push_back(make_obj<DT, IT>(objs[j]["c"], false, wrap));
      bool ex = true; vj::Value pre = held.back()->state(ex);
      if(!ex || pre != objs[j]["arrays"]) { fail("precond: container state " + js(pre) + " is not the state the specification assumes " + js(objs[j]["arrays"])); break; }
      held.back()->add_to(cp, objs[j]["id"].as_str());
    }
    int bad = fail.why.empty() ? 0 : 1, nbad = 0; comm.allreduce(&bad, &nbad, std::size_t(1), Dist::op_sum);
    if(nbad == 0 && c["expect"].as_str() == "reject")
    {
      const std::string op = c.get_str("rejop", "save");
      if(op == "save") cp.save(String(dir + "/" + fn["arg"].as_str()));
      else { Control::CheckpointControl cp2(comm); cp2.load(String(dir + "/" + fn["arg"].as_str())); }
      fail(tag + "/reject: " + op + "(\"" + fn["arg"].as_str() + "\") was carried out without any report");
    }
    else if(nbad == 0)
    {
      const std::string path = dir + "/" + fn["arg"].as_str(), ondisk = dir + "/" + fn["onDisk"].as_str();
      cp.save(String(path));
      comm.barrier();
      { std::string w = check_file(c, ondisk, me, tag + "/save"); if(!w.empty()) fail(w); }
      for(std::size_t j = 0; j < objs.size() && fail.why.empty(); ++j) { bool ex = true; if(held[j]->state(ex) != objs[j]["arrays"]) fail(tag + ": saving modified a registered object"); }
      bad = fail.why.empty() ? 0 : 1; comm.allreduce(&bad, &nbad, std::size_t(1), Dist::op_sum);
      if(nbad == 0)
      {
        if(me == 0 && keep) { std::error_code ec; std::filesystem::copy_file(ondisk, keepfile, std::filesystem::copy_options::overwrite_existing, ec); if(ec) fail("harness: cannot keep the file for phase 2"); }
        Control::CheckpointControl cp2(comm);
        cp2.load(String(path));
        restore_all(cp2, true, fresh, tag + "/load");
        bad = fail.why.empty() ? 0 : 1; comm.allreduce(&bad, &nbad, std::size_t(1), Dist::op_sum);
        if(nbad == 0)
        {
          // the fresh control now holds the restored objects: a second file with the same layout
          cp2.save(String(dir + "/again.cp"));
          comm.barrier();
          std::string w = check_file(c, dir + "/again.cp", me, tag + "/save again"); if(!w.empty()) fail(w);
        }
      }
    }
  }
  comm.barrier();
  if(me == 0) { std::error_code ec; std::filesystem::remove_all(dir, ec); }
  return fail.why;
}

static std::string run_io_case(const vj::Value& c, const Dist::Comm& comm)
{
  const char* base = std::getenv("C05X_DIR"); std::string t = std::string(base ? base : "/tmp") + "/c05x_XXXXXX";
  std::vector<char> dirbuf(t.begin(), t.end()); dirbuf.push_back(0);
  if(::mkdtemp(dirbuf.data()) == nullptr) return "rank 0: harness: cannot create a scratch directory";
  const std::string dir(dirbuf.data());
  std::string w = (c["cdt"].as_int() == 8) ? run_iofile_kind<double, std::uint64_t>(c, dir, "f64/u64") : run_iofile_kind<float, std::uint32_t>(c, dir, "f32/u32");
  std::error_code ec; std::filesystem::remove_all(dir, ec);
  (void)comm;
  return w.empty() ? w : "rank 0: " + w;
}

static std::string run_case(const vj::Value& c, const Dist::Comm& comm)
{
  if(c["part"].as_str() == "io") return run_io_case(c, comm);
  if(c["cdt"].as_int() == 8) return run_ckfile<double, std::uint64_t>(c, comm, "f64/u64");
  return run_ckfile<float, std::uint32_t>(c, comm, "f32/u32");
}

int main(int argc, char** argv) { return vmpi::main_loop(argc, argv, &run_case); }
