// C06 replayer, life-cycle calls INTO an existing non-empty filter object (behaviours of spec/FiltersInto.tla):
//   1. an object of the filter class is built with the PREVIOUS content t0 (built for nt blocks),
//   2. the into-operation io is called on it with the source f (built for n blocks):
//        clone_into_deep|weak|shallow   target.clone(source, mode)
//        convert_same                   target.convert(source)              (same data/index types)
//        convert_other                  target.convert(source)              (source of the other data/index types)
//        move_assign                    target = std::move(source)
//   3. for clone / convert the SOURCE object is applied once (it still imposes its constraints) and then destroyed,
//   4. target.filter_<op>(v) is called twice and the vector compared bit-exactly with the vectors the specification predicts
//      for the SOURCE's constraints (nothing of t0 may be left over); for a FilterSequence also the number, order and names of
//      the entries, for a SlipFilter also the vertex normal vector are compared with the source.
// Classes: the real atoms NoneFilter(Blocked), UnitFilter(Blocked), SlipFilter, MeanFilter(Blocked) directly; FilterChain (1..3
// parts), FilterSequence, TupleFilter, PowerFilter and TupleFilter<FilterChain,.> over the run-time selected holder VarFilter
// (vc06.hpp; a slot of the target may hold an atom of another kind than the source's slot), and chains of the real classes.
#include "vc06.hpp"
#include <memory>

struct ICtx : public Ctx
{
  std::string io, op; long long den; bool tuple;
  explicit ICtx(const vj::Value& cc) : Ctx(cc), io(cc["io"].as_str()), op(cc["op"].as_str()), den(cc["den"].as_int()), tuple(false) {}
};

// `calls` calls of the behaviour's operation on vec, compared with v1 / v2 of the specification
template<class F, class V>
bool n_calls(ICtx& k, const F& flt, V& vec, int calls, const std::string& tag)
{
  std::vector<IVec> e1 = spec_vec(k.c["v1"], k.tuple), e2 = spec_vec(k.c["v2"], k.tuple);
  for(int call = 1; call <= calls; ++call)
  {
    call_op(flt, k.op, vec);
    std::vector<IVec> got; bool exact = true; read_into(vec, k.den, got, exact);
    const std::vector<IVec>& e = (call == 1) ? e1 : e2;
    if(!exact) return k.fail(tag + ": filter_" + k.op + " call " + std::to_string(call) + ": result off the dyadic grid 1/" + std::to_string(k.den) + ": " + vvs(got));
    if(got != e) return k.fail(tag + ": filter_" + k.op + " call " + std::to_string(call) + ": vector*den = " + vvs(got) + " expected " + vvs(e));
  }
  return true;
}

// mk(TT<D,I>(), record, blocks) builds an object of the class for data/index types D, I;
// mkvec(TT<D,I>()) makes the input vector; structure(target, tag) compares what is observable besides the filter calls.
// CI: the class offers an instantiable in-place clone (capability of the tree)
template<bool CI, class DT, class IT, class MK, class MKV, class ST>
bool with_into(ICtx& k, MK mk, MKV mkvec, ST structure, const std::string& tag0)
{
  const vj::Value& fs = k.c["f"]; const vj::Value& ft = k.c["t0"];
  const vj::Value& ns = k.c["n"]; const vj::Value& nt = k.c["nt"];
  typedef decltype(mk(TT<DT, IT>(), fs, ns)) FT;
  const std::string& io = k.io; const std::string tag = tag0 + "/" + io;
  FT g = mk(TT<DT, IT>(), ft, nt);                 // the target object with its previous content
  bool done = false;
  if(io == "clone_into_deep" || io == "clone_into_weak" || io == "clone_into_shallow")
  {
    if constexpr (CI)
    {
      CloneMode cm = io == "clone_into_deep" ? CloneMode::Deep : (io == "clone_into_weak" ? CloneMode::Weak : CloneMode::Shallow);
      std::unique_ptr<FT> src(new FT(mk(TT<DT, IT>(), fs, ns)));
      g.clone(*src, cm);
      auto v = mkvec(TT<DT, IT>());
      if(!n_calls(k, *src, v, 1, tag + "/the source after the call")) return false;
      src.reset();
      done = true;
    }
  }
  else if(io == "convert_same")
  {
    if constexpr (LcCaps<FT>::conv_same)
    {
      std::unique_ptr<FT> src(new FT(mk(TT<DT, IT>(), fs, ns)));
      g.convert(*src);
      auto v = mkvec(TT<DT, IT>());
      if(!n_calls(k, *src, v, 1, tag + "/the source after the call")) return false;
      src.reset();
      done = true;
    }
  }
  else if(io == "convert_other")
  {
    if constexpr (LcCaps<FT>::conv_other)
    {
      typedef typename OtherT<DT, IT>::Type O;
      typedef decltype(mk(O(), fs, ns)) FO;
      std::unique_ptr<FO> src(new FO(mk(O(), fs, ns)));
      g.convert(*src);
      src.reset();
      done = true;
    }
  }
  else if(io == "move_assign")
  {
    FT src = mk(TT<DT, IT>(), fs, ns);
    g = std::move(src);
    done = true;
  }
  if(!done) return k.fail("into-operation " + io + " is not offered by this class");
  if(!structure(g, tag)) return false;
  auto v = mkvec(TT<DT, IT>());
  return n_calls(k, g, v, 2, tag);
}

static Index blocks(const vj::Value& n) { return Index(n.as_int()); }
static auto no_structure = [](const auto&, const std::string&) { return true; };

template<class D, class I, int BS>
FilterSequence<VarFilter<D, I, BS>> build_seq(const vj::Value& f, Index nb, int mode)
{
  typedef VarFilter<D, I, BS> VF;
  const vj::Value& fs = f["fs"]; const vj::Value& names = f["names"];
  if(mode == 0)
  {
    FilterSequence<VF> sq;
    for(std::size_t j = 0; j < fs.size(); ++j) sq.push_back(std::make_pair(String(names[j].as_str()), build_var<D, I, BS>(fs[j], nb, mode)));
    return sq;
  }
  std::deque<String> ids; for(std::size_t j = 0; j < fs.size(); ++j) ids.push_back(String(names[j].as_str()));
  FilterSequence<VF> s2(ids);
  for(std::size_t j = fs.size(); j-- > 0;) s2.find_or_add(String(names[j].as_str())) = build_var<D, I, BS>(fs[j], nb, mode);
  return s2;
}

template<class DT, class IT, int BS>
bool run_flat(ICtx& k, int mode, const std::string& tag)
{
  const vj::Value& f = k.c["f"]; const std::string kind = f["kind"].as_str();
  IVec v0 = k.c["v0"].ints(); const long long den = k.den;
  auto mkvec = [&](auto t) { typedef decltype(t) T; return VecOf<typename T::DT, typename T::IT, BS>::make(v0, den); };
  // the previous content is built by the other construction route than the source
  auto md = [&](const vj::Value& fj) { return (&fj == &k.c["t0"]) ? 1 - mode : mode; };
  if(kind == "chain")
  {
    const std::size_t len = f["fs"].size();
    if(k.c["t0"]["fs"].size() != len) return k.fail("harness: chain lengths of target and source differ");
    if(len == 1)
      return with_into<cap_chain_clone_into, DT, IT>(k, [&](auto t, const vj::Value& fj, const vj::Value& nj) { typedef decltype(t) T; typedef typename T::DT D; typedef typename T::IT I; typedef VarFilter<D, I, BS> VF;
        FilterChain<VF> ch; ch.template at<0>() = build_var<D, I, BS>(fj["fs"][0], blocks(nj), md(fj)); return ch; }, mkvec, no_structure, tag + "/chain1");
    if(len == 2)
      return with_into<cap_chain_clone_into, DT, IT>(k, [&](auto t, const vj::Value& fj, const vj::Value& nj) { typedef decltype(t) T; typedef typename T::DT D; typedef typename T::IT I; typedef VarFilter<D, I, BS> VF;
        return FilterChain<VF, VF>(build_var<D, I, BS>(fj["fs"][0], blocks(nj), md(fj)), build_var<D, I, BS>(fj["fs"][1], blocks(nj), md(fj))); }, mkvec, no_structure, tag + "/chain2");
    if(len == 3)
      return with_into<cap_chain_clone_into, DT, IT>(k, [&](auto t, const vj::Value& fj, const vj::Value& nj) { typedef decltype(t) T; typedef typename T::DT D; typedef typename T::IT I; typedef VarFilter<D, I, BS> VF;
        FilterChain<VF, VF, VF> ch; ch.template at<0>() = build_var<D, I, BS>(fj["fs"][0], blocks(nj), md(fj)); ch.template at<1>() = build_var<D, I, BS>(fj["fs"][1], blocks(nj), md(fj));
        ch.template at<2>() = build_var<D, I, BS>(fj["fs"][2], blocks(nj), md(fj)); return ch; }, mkvec, no_structure, tag + "/chain3");
    return k.fail("unsupported chain length");
  }
  if(kind == "seq")
  {
    // the entries of the target after the call: as many as the source has, in its order, with its names
    auto structure = [&](const auto& g, const std::string& t)
    {
      const vj::Value& names = f["names"];
      if(g.size() != names.size()) return k.fail(t + ": the sequence has " + std::to_string(g.size()) + " entries, the source has " + std::to_string(names.size()));
      for(std::size_t j = 0; j < names.size(); ++j)
        if(std::string(g.at(j).first) != names[j].as_str()) return k.fail(t + ": entry " + std::to_string(j) + " is named '" + std::string(g.at(j).first) + "', in the source '" + names[j].as_str() + "'");
      return true;
    };
    return with_into<cap_seq_clone_into, DT, IT>(k, [&](auto t, const vj::Value& fj, const vj::Value& nj) { typedef decltype(t) T;
      return build_seq<typename T::DT, typename T::IT, BS>(fj, blocks(nj), md(fj)); }, mkvec, structure, tag + "/seq");
  }
  if(kind == "none")
  {
    if constexpr (BS == 1) return with_into<true, DT, IT>(k, [&](auto t, const vj::Value&, const vj::Value&) { typedef decltype(t) T; return NoneFilter<typename T::DT, typename T::IT>(); }, mkvec, no_structure, tag + "/none");
    else return with_into<true, DT, IT>(k, [&](auto t, const vj::Value&, const vj::Value&) { typedef decltype(t) T; return NoneFilterBlocked<typename T::DT, typename T::IT, BS>(); }, mkvec, no_structure, tag + "/none");
  }
  if(kind == "unit")
  {
    // the filter vector of the target: size and number of entries of the source's
    auto structure = [&](const auto& g, const std::string& t)
    {
      const Index used = Index(f["idx"].size());
      if(g.used_elements() != used) return k.fail(t + ": the unit filter has " + std::to_string(g.used_elements()) + " entries, the source has " + std::to_string(used));
      return true;
    };
    if constexpr (BS == 1) return with_into<true, DT, IT>(k, [&](auto t, const vj::Value& fj, const vj::Value& nj) { typedef decltype(t) T; return build_unit1<typename T::DT, typename T::IT>(fj, blocks(nj), md(fj)); }, mkvec, structure, tag + "/unit");
    else return with_into<true, DT, IT>(k, [&](auto t, const vj::Value& fj, const vj::Value& nj) { typedef decltype(t) T; return build_unitb<typename T::DT, typename T::IT, BS>(fj, blocks(nj), md(fj)); }, mkvec, structure, tag + "/unit");
  }
  if(kind == "mean")
  {
    if constexpr (BS == 1) return with_into<true, DT, IT>(k, [&](auto t, const vj::Value& fj, const vj::Value&) { typedef decltype(t) T; return build_mean1<typename T::DT, typename T::IT>(fj, md(fj)); }, mkvec, no_structure, tag + "/mean");
    else return with_into<true, DT, IT>(k, [&](auto t, const vj::Value& fj, const vj::Value&) { typedef decltype(t) T; return build_meanb<typename T::DT, typename T::IT, BS>(fj, md(fj)); }, mkvec, no_structure, tag + "/mean");
  }
  if(kind == "slip")
  {
    if constexpr (BS > 1)
    {
      // the source is always built with its vertex normal vector (route 0 when it has no index: the default constructed object has none)
      auto structure = [&](const SlipFilter<DT, IT, BS>& g, const std::string& t) { return (mode == 1 && f["idx"].size() == 0) || slip_nu_is(k, g, f, t); };
      return with_into<true, DT, IT>(k, [&](auto t, const vj::Value& fj, const vj::Value& nj) { typedef decltype(t) T; return build_slip<typename T::DT, typename T::IT, BS>(fj, blocks(nj), md(fj)); }, mkvec, structure, tag + "/slip");
    }
  }
  return k.fail("unknown filter kind " + kind);
}

// chains of the real classes: when the kinds of the previous content and of the source both match the class
template<class DT, class IT, int BS>
bool run_real_pairs(ICtx& k, int mode, const std::string& tag)
{
  const vj::Value& f = k.c["f"]; const vj::Value& t0 = k.c["t0"];
  if(f["kind"].as_str() != "chain" || f["fs"].size() != 2) return true;
  const std::string k0 = f["fs"][0]["kind"].as_str(), k1 = f["fs"][1]["kind"].as_str();
  if(t0["fs"][0]["kind"].as_str() != k0 || t0["fs"][1]["kind"].as_str() != k1) return true;
  IVec v0 = k.c["v0"].ints(); const long long den = k.den;
  auto mkvec = [&](auto t) { typedef decltype(t) T; return VecOf<typename T::DT, typename T::IT, BS>::make(v0, den); };
  auto md = [&](const vj::Value& fj) { return (&fj == &k.c["t0"]) ? 1 - mode : mode; };
  if constexpr (BS == 1)
  {
    if(k0 == "unit" && k1 == "mean") return with_into<cap_chain_clone_into, DT, IT>(k, [&](auto t, const vj::Value& fj, const vj::Value& nj) { typedef decltype(t) T; typedef typename T::DT D; typedef typename T::IT I;
      return FilterChain<UnitFilter<D, I>, MeanFilter<D, I>>(build_unit1<D, I>(fj["fs"][0], blocks(nj), md(fj)), build_mean1<D, I>(fj["fs"][1], md(fj))); }, mkvec, no_structure, tag + "/real<unit,mean>");
    if(k0 == "mean" && k1 == "unit") return with_into<cap_chain_clone_into, DT, IT>(k, [&](auto t, const vj::Value& fj, const vj::Value& nj) { typedef decltype(t) T; typedef typename T::DT D; typedef typename T::IT I;
      return FilterChain<MeanFilter<D, I>, UnitFilter<D, I>>(build_mean1<D, I>(fj["fs"][0], md(fj)), build_unit1<D, I>(fj["fs"][1], blocks(nj), md(fj))); }, mkvec, no_structure, tag + "/real<mean,unit>");
    if(k0 == "unit" && k1 == "unit") return with_into<cap_chain_clone_into, DT, IT>(k, [&](auto t, const vj::Value& fj, const vj::Value& nj) { typedef decltype(t) T; typedef typename T::DT D; typedef typename T::IT I;
      return FilterChain<UnitFilter<D, I>, UnitFilter<D, I>>(build_unit1<D, I>(fj["fs"][0], blocks(nj), md(fj)), build_unit1<D, I>(fj["fs"][1], blocks(nj), md(fj))); }, mkvec, no_structure, tag + "/real<unit,unit>");
  }
  else
  {
    if(k0 == "slip" && k1 == "unit") return with_into<cap_chain_clone_into, DT, IT>(k, [&](auto t, const vj::Value& fj, const vj::Value& nj) { typedef decltype(t) T; typedef typename T::DT D; typedef typename T::IT I;
      return FilterChain<SlipFilter<D, I, BS>, UnitFilterBlocked<D, I, BS>>(build_slip<D, I, BS>(fj["fs"][0], blocks(nj), md(fj)), build_unitb<D, I, BS>(fj["fs"][1], blocks(nj), md(fj))); }, mkvec, no_structure, tag + "/real<slip,unit>");
    if(k0 == "unit" && k1 == "slip") return with_into<cap_chain_clone_into, DT, IT>(k, [&](auto t, const vj::Value& fj, const vj::Value& nj) { typedef decltype(t) T; typedef typename T::DT D; typedef typename T::IT I;
      return FilterChain<UnitFilterBlocked<D, I, BS>, SlipFilter<D, I, BS>>(build_unitb<D, I, BS>(fj["fs"][0], blocks(nj), md(fj)), build_slip<D, I, BS>(fj["fs"][1], blocks(nj), md(fj))); }, mkvec, no_structure, tag + "/real<unit,slip>");
  }
  return true;
}

// a sequence of the real UnitFilter (the boundary-condition sequences of the applications), when every entry on both sides is one
template<class DT, class IT>
bool run_real_seq(ICtx& k, int mode, const std::string& tag)
{
  const vj::Value& f = k.c["f"]; const vj::Value& t0 = k.c["t0"];
  if(f["kind"].as_str() != "seq") return true;
  for(std::size_t j = 0; j < f["fs"].size(); ++j) if(f["fs"][j]["kind"].as_str() != "unit") return true;
  for(std::size_t j = 0; j < t0["fs"].size(); ++j) if(t0["fs"][j]["kind"].as_str() != "unit") return true;
  IVec v0 = k.c["v0"].ints(); const long long den = k.den;
  auto mkvec = [&](auto t) { typedef decltype(t) T; return VecOf<typename T::DT, typename T::IT, 1>::make(v0, den); };
  auto md = [&](const vj::Value& fj) { return (&fj == &k.c["t0"]) ? 1 - mode : mode; };
  auto structure = [&](const auto& g, const std::string& t)
  {
    const vj::Value& names = f["names"];
    if(g.size() != names.size()) return k.fail(t + ": the sequence has " + std::to_string(g.size()) + " entries, the source has " + std::to_string(names.size()));
    for(std::size_t j = 0; j < names.size(); ++j)
      if(std::string(g.at(j).first) != names[j].as_str()) return k.fail(t + ": entry " + std::to_string(j) + " is named '" + std::string(g.at(j).first) + "', in the source '" + names[j].as_str() + "'");
    return true;
  };
  return with_into<cap_seq_clone_into, DT, IT>(k, [&](auto t, const vj::Value& fj, const vj::Value& nj) { typedef decltype(t) T; typedef typename T::DT D; typedef typename T::IT I;
    FilterSequence<UnitFilter<D, I>> sq;
    for(std::size_t j = 0; j < fj["fs"].size(); ++j) sq.push_back(std::make_pair(String(fj["names"][j].as_str()), build_unit1<D, I>(fj["fs"][j], blocks(nj), md(fj))));
    return sq; }, mkvec, structure, tag + "/real seq<unit>");
}

template<class DT, class IT, int BS>
bool run_tuple(ICtx& k, int mode, const std::string& tag)
{
  const std::string fam = k.c["fam"].as_str(); const long long den = k.den;
  IVec a0 = k.c["v0"][0].ints(), a1 = k.c["v0"][1].ints();
  auto mkvec = [&](auto t) { typedef decltype(t) T; typedef typename T::DT D; typedef typename T::IT I;
    return TupleVector<typename VecOf<D, I, 1>::Type, typename VecOf<D, I, BS>::Type>(VecOf<D, I, 1>::make(a0, den), VecOf<D, I, BS>::make(a1, den)); };
  auto md = [&](const vj::Value& fj) { return (&fj == &k.c["t0"]) ? 1 - mode : mode; };
  if(fam == "tuple")
    return with_into<true, DT, IT>(k, [&](auto t, const vj::Value& fj, const vj::Value& nj) { typedef decltype(t) T; typedef typename T::DT D; typedef typename T::IT I; typedef VarFilter<D, I, 1> VF1; typedef VarFilter<D, I, BS> VFB;
      return TupleFilter<VF1, VFB>(build_var<D, I, 1>(fj["fs"][0], blocks(nj[std::size_t(0)]), md(fj)), build_var<D, I, BS>(fj["fs"][1], blocks(nj[std::size_t(1)]), md(fj))); }, mkvec, no_structure, tag + "/tuple");
  if(fam == "nest")
    return with_into<cap_chain_clone_into, DT, IT>(k, [&](auto t, const vj::Value& fj, const vj::Value& nj) { typedef decltype(t) T; typedef typename T::DT D; typedef typename T::IT I; typedef VarFilter<D, I, 1> VF1; typedef VarFilter<D, I, BS> VFB;
      TupleFilter<FilterChain<VF1, VF1>, VFB> tf;
      tf.template at<0>().template at<0>() = build_var<D, I, 1>(fj["fs"][0]["fs"][0], blocks(nj[std::size_t(0)]), md(fj));
      tf.template at<0>().template at<1>() = build_var<D, I, 1>(fj["fs"][0]["fs"][1], blocks(nj[std::size_t(0)]), md(fj));
      tf.template at<1>() = build_var<D, I, BS>(fj["fs"][1], blocks(nj[std::size_t(1)]), md(fj)); return tf; }, mkvec, no_structure, tag + "/nest");
  return k.fail("unknown tuple family " + fam);
}

template<class DT, class IT>
bool run_power(ICtx& k, int mode, const std::string& tag)
{
  const long long den = k.den;
  IVec a0 = k.c["v0"][0].ints(), a1 = k.c["v0"][1].ints();
  auto mkvec = [&](auto t) { typedef decltype(t) T; typedef typename T::DT D; typedef typename T::IT I;
    PowerVector<typename VecOf<D, I, 1>::Type, 2> vec; vec.template at<0>() = VecOf<D, I, 1>::make(a0, den); vec.template at<1>() = VecOf<D, I, 1>::make(a1, den); return vec; };
  auto md = [&](const vj::Value& fj) { return (&fj == &k.c["t0"]) ? 1 - mode : mode; };
  return with_into<cap_power_clone_into, DT, IT>(k, [&](auto t, const vj::Value& fj, const vj::Value& nj) { typedef decltype(t) T; typedef typename T::DT D; typedef typename T::IT I;
    PowerFilter<VarFilter<D, I, 1>, 2> pf; pf.template at<0>() = build_var<D, I, 1>(fj["fs"][0], blocks(nj[std::size_t(0)]), md(fj)); pf.template at<1>() = build_var<D, I, 1>(fj["fs"][1], blocks(nj[std::size_t(1)]), md(fj)); return pf; },
    mkvec, no_structure, tag + "/power");
}

template<class DT, class IT>
bool run_typed(ICtx& k, const std::string& tag)
{
  const std::string fam = k.c["fam"].as_str();
  // route 1 (array constructors, sorted from the start) first: a failure on it is reported before one that only the route with
  // indices added in descending order (inner sparse vector unsorted until first use) shows
  for(int mi = 0; mi < 2; ++mi)
  {
    const int mode = 1 - mi;
    std::string t = tag + "/m" + std::to_string(mode);
    bool ok = true;
    if(fam == "tuple" || fam == "nest")
    {
      k.tuple = true;
      int bs = int(k.c["f"]["fs"][1]["bs"].as_int());
      if(bs == 2) ok = run_tuple<DT, IT, 2>(k, mode, t); else if(bs == 3) ok = run_tuple<DT, IT, 3>(k, mode, t); else return k.fail("tuple block size");
    }
    else if(fam == "power") { k.tuple = true; ok = run_power<DT, IT>(k, mode, t); }
    else
    {
      int bs = int(k.c["f"]["bs"].as_int());
      if(bs == 1) ok = run_flat<DT, IT, 1>(k, mode, t) && run_real_pairs<DT, IT, 1>(k, mode, t) && run_real_seq<DT, IT>(k, mode, t);
      else if(bs == 2) ok = run_flat<DT, IT, 2>(k, mode, t) && run_real_pairs<DT, IT, 2>(k, mode, t);
      else if(bs == 3) ok = run_flat<DT, IT, 3>(k, mode, t) && run_real_pairs<DT, IT, 3>(k, mode, t);
      else return k.fail("block size");
    }
    if(!ok) return false;
  }
  return true;
}

vj::Value run_case(const vj::Value& c)
{
  ICtx k(c);
  bool ok = run_typed<double, std::uint64_t>(k, "f64/u64");
  if(ok && c["f32"].as_bool()) ok = run_typed<float, std::uint32_t>(k, "f32/u32");
  if(ok) return vh::ok();
  return vh::bad(k.why);
}

int main(int argc, char** argv) { return vh::main_loop(argc, argv); }
