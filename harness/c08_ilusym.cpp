// C08 replayer, symbolic ILU(p): sparsity patterns generated from spec/IluSym.tla (n = 5..10, seeded pseudo-random and
// crafted structures) are handed to the real Solver::Intern::ILUCoreSymbolic (set_struct_csr + factorize_symbolic(p));
// the resulting L/U index arrays must be exactly the level-of-fill pattern { (i,k) : lev(i,k) <= p } of the
// specification for every p = 0..PMax, with sorted, duplicate-free rows.
#include "vharness.hpp"
#include <kernel/solver/ilu_precond.hpp>

using namespace FEAT;
typedef Index IT;

class SymProbe : public Solver::Intern::ILUCoreSymbolic<IT>
{
public:
  // 0/1 matrix of the pattern; `why` is set when the index arrays are malformed
  std::vector<std::vector<int>> pattern(std::string& why) const
  {
    const IT n = this->_n;
    std::vector<std::vector<int>> p(n, std::vector<int>(n, 0));
    if(this->_row_ptr_l.size() != std::size_t(n + 1) || this->_row_ptr_u.size() != std::size_t(n + 1)) { why = "row pointer arrays have the wrong length"; return p; }
    for(IT i = 0; i < n; ++i)
    {
      p[i][i] = 1;
      for(IT j = this->_row_ptr_l[i]; j < this->_row_ptr_l[i + 1]; ++j)
      {
        const IT c = this->_col_idx_l[j];
        if(c >= i) { why = "L row " + std::to_string(i) + " holds column " + std::to_string(c); return p; }
        if(j > this->_row_ptr_l[i] && this->_col_idx_l[j - 1] >= c) { why = "L row " + std::to_string(i) + " is not strictly ascending"; return p; }
        p[i][c] = 1;
      }
      for(IT j = this->_row_ptr_u[i]; j < this->_row_ptr_u[i + 1]; ++j)
      {
        const IT c = this->_col_idx_u[j];
        if(c <= i || c >= n) { why = "U row " + std::to_string(i) + " holds column " + std::to_string(c); return p; }
        if(j > this->_row_ptr_u[i] && this->_col_idx_u[j - 1] >= c) { why = "U row " + std::to_string(i) + " is not strictly ascending"; return p; }
        p[i][c] = 1;
      }
    }
    if(this->get_nnze() != IT(n + this->_col_idx_l.size() + this->_col_idx_u.size())) why = "get_nnze() disagrees with the index arrays";
    return p;
  }
};

vj::Value run_case(const vj::Value& c)
{
  const IT n = IT(c["n"].as_int());
  std::vector<IT> rp(n + 1, 0), ci;
  for(IT i = 0; i < n; ++i)
  {
    for(IT j = 0; j < n; ++j) if(c["pat"][i][j].as_int() != 0) ci.push_back(j);
    rp[i + 1] = IT(ci.size());
  }
  const vj::Value& exps = c["exps"];
  for(std::size_t q = 0; q < exps.size(); ++q)
  {
    const int p = int(q);
    SymProbe probe;
    probe.set_struct_csr(n, rp.data(), ci.data());
    probe.factorize_symbolic(p);
    std::string why;
    auto got = probe.pattern(why);
    vj::Value r;
    bool bad = !why.empty();
    if(!bad)
    {
      for(IT i = 0; i < n && !bad; ++i) for(IT j = 0; j < n && !bad; ++j)
        if(got[i][j] != int(exps[q][i][j].as_int()))
        {
          bad = true;
          why = "ILU(" + std::to_string(p) + ") pattern entry (" + std::to_string(i + 1) + "," + std::to_string(j + 1) + ") is " + std::to_string(got[i][j]) +
                ", the level-of-fill definition says " + std::to_string(exps[q][i][j].as_int());
        }
    }
    if(bad)
    {
      r = vh::bad(why);
      r["clause"] = "ilu_pattern"; r["p"] = (long long)p;
      r["redisc"] = c["redisc"][q].as_bool(); r["sens"] = c["sens"][q].as_bool();
      return r;
    }
  }
  return vh::ok();
}

int main(int argc, char** argv) { return vh::main_loop(argc, argv); }
