// C08x replayer, part 1: Solver::UzawaPrecond (kernel/solver/uzawa_precond.hpp, generic LAFEM implementation) on
// SparseMatrixCSR<double> blocks B (n x m), D (m x n) with a UnitFilter on the velocity and a NoneFilter / MeanFilter /
// UnitFilter on the pressure.  Life-cycle histories generated from spec/PrecondUzawa.tla are executed on the real class;
// every apply() is compared with == against the set of results the specification allows in the current state
// (all values are dyadic rationals, so every correct floating point evaluation is exact).
// Inner solvers ("flavours" of the specification):
//   mock/inv/schur  MockSolver: a SolverBase holding a dense linear map captured at init_numeric from the application's
//                   current values; it applies the correction filter of its component, logs every call (the harness compares
//                   the log of the forwarded life-cycle calls and of the inner applications of each apply() with the
//                   specification) and can be told to fail (Status::aborted)
//   feat            SolA = Solver::JacobiPrecond(A, filter_v, omega), SolS = Solver::MatrixPrecond(MS, filter_p)
// Also checked: returned status, input vector unchanged, linearity on the implementation's own outputs, filtered dofs zero.
#include "vharness.hpp"
#include "vc08x.hpp"
#include <kernel/lafem/tuple_vector.hpp>
#include <kernel/lafem/unit_filter.hpp>
#include <kernel/lafem/none_filter.hpp>
#include <kernel/lafem/mean_filter.hpp>
#include <kernel/solver/uzawa_precond.hpp>
#include <kernel/solver/jacobi_precond.hpp>
#include <kernel/solver/matrix_precond.hpp>

using namespace FEAT;
using vx::DVec; using vx::DMat;
typedef double DT;
typedef Index IT;
typedef LAFEM::SparseMatrixCSR<DT, IT> MatT;
typedef LAFEM::DenseVector<DT, IT> VecT;
typedef LAFEM::TupleVector<VecT, VecT> SysVec;
typedef LAFEM::UnitFilter<DT, IT> UFil;
typedef LAFEM::NoneFilter<DT, IT> NFil;
typedef LAFEM::MeanFilter<DT, IT> MFil;

// the application's data: two value sets, `cur` selects the one the matrices currently hold
struct App
{
  int cur = 0;
  DMat MA[2], MS[2];
  std::vector<std::string> log;      // life-cycle calls received by the mock solvers
  std::vector<std::string> calls;    // applications of the inner solvers
};

template<typename Filter_>
class MockSolver : public Solver::SolverBase<VecT>
{
  const App& _app; const DMat* _src; const Filter_& _filter; App& _sink; std::string _tag; bool _fail;
  DMat _cached; bool _have = false;
public:
  MockSolver(App& app, const DMat* src, const Filter_& filter, const std::string& tag, bool fail) :
    _app(app), _src(src), _filter(filter), _sink(app), _tag(tag), _fail(fail) {}
  virtual String name() const override { return "Mock" + _tag; }
  virtual void init_symbolic() override { _sink.log.push_back(_tag + ".IS"); }
  virtual void init_numeric() override { _sink.log.push_back(_tag + ".IN"); _cached = _src[_app.cur]; _have = true; }
  virtual void done_numeric() override { _sink.log.push_back(_tag + ".DN"); _cached.clear(); _have = false; }
  virtual void done_symbolic() override { _sink.log.push_back(_tag + ".DS"); }
  virtual Solver::Status apply(VecT& cor, const VecT& def) override
  {
    _sink.calls.push_back(_tag);
    if(_fail) return Solver::Status::aborted;
    if(!_have) throw std::runtime_error("mock solver " + _tag + " applied without init_numeric");
    const Index k = def.size();
    for(Index i = 0; i < k; ++i) { DT s = DT(0); for(Index j = 0; j < k; ++j) s += _cached[i][j] * def(j); cor(i, s); }
    _filter.filter_cor(cor);
    return Solver::Status::success;
  }
};

static std::string join(const std::vector<std::string>& v) { std::string s; for(const auto& x : v) s += (s.empty() ? "" : ",") + x; return "[" + s + "]"; }
static std::vector<std::string> strs(const vj::Value& v) { std::vector<std::string> r; for(std::size_t i = 0; i < v.size(); ++i) r.push_back(v[i].as_str()); return r; }

template<typename FilP_>
static vj::Value run_typed(const vj::Value& c, const FilP_& fil_p)
{
  const Index n = Index(c["n"].as_int()), m = Index(c["m"].as_int());
  const std::string typ = c["typ"].as_str(), flav = c["flav"].as_str(), failwho = c["fail"].as_str();
  const bool autos = c["auto"].as_bool();
  App app;
  app.MA[0] = vx::dymat(c["MA1"]); app.MA[1] = vx::dymat(c["MA2"]); app.MS[0] = vx::dymat(c["MS1"]); app.MS[1] = vx::dymat(c["MS2"]);
  DMat Bv[2] = { vx::dymat(c["B1"]), vx::dymat(c["B2"]) }, Dv[2] = { vx::dymat(c["D1"]), vx::dymat(c["D2"]) };
  DMat Av[2] = { vx::dymat(c["A1"]), vx::dymat(c["A2"]) };
  MatT mat_b = vx::csr_of_pattern<DT, IT>(n, m, vx::imat(c["patB"]));
  MatT mat_d = vx::csr_of_pattern<DT, IT>(m, n, vx::imat(c["patD"]));
  MatT mat_a = vx::csr_of_pattern<DT, IT>(n, n, vx::full_pattern(n, n));     // handed to JacobiPrecond (flavour feat)
  MatT mat_s = vx::csr_of_pattern<DT, IT>(m, m, vx::full_pattern(m, m));     // handed to MatrixPrecond (flavour feat)
  auto set_values = [&](int which)
  {
    vx::set_csr_values(mat_b, Bv[which]); vx::set_csr_values(mat_d, Dv[which]);
    vx::set_csr_values(mat_a, Av[which]); vx::set_csr_values(mat_s, app.MS[which]);
    app.cur = which;
  };
  set_values(0);
  UFil fil_v(n);
  std::vector<char> fv(n, 0);
  for(std::size_t k = 0; k < c["FV"].size(); ++k) { Index i = Index(c["FV"][k].as_int() - 1); fil_v.add(i, DT(0)); fv[i] = 1; }

  std::shared_ptr<Solver::SolverBase<VecT>> sol_a, sol_s;
  const bool mock = (flav != "feat");
  if(mock)
  {
    sol_a = std::make_shared<MockSolver<UFil>>(app, app.MA, fil_v, "A", failwho == "A");
    sol_s = std::make_shared<MockSolver<FilP_>>(app, app.MS, fil_p, "S", failwho == "S");
  }
  else
  {
    sol_a = Solver::new_jacobi_precond(mat_a, fil_v, vx::dy(c["w"]));
    sol_s = Solver::new_matrix_precond(mat_s, fil_p);
  }
  Solver::UzawaType ut = typ == "diagonal" ? Solver::UzawaType::diagonal : typ == "lower" ? Solver::UzawaType::lower
                       : typ == "upper" ? Solver::UzawaType::upper : Solver::UzawaType::full;
  if(typ != "diagonal" && typ != "lower" && typ != "upper" && typ != "full") return vh::bad("unknown type " + typ);
  auto uz = Solver::new_uzawa_precond(mat_a, mat_b, mat_d, fil_v, fil_p, sol_a, sol_s, ut, autos);

  std::vector<DVec> tests; for(std::size_t k = 0; k < c["tests"].size(); ++k) tests.push_back(vx::dyvec(c["tests"][k]));
  auto fail = [&](std::size_t step, const std::string& op, const std::string& clause, const std::string& why)
  {
    vj::Value r = vh::bad("step " + std::to_string(step) + " (" + op + "): " + why);
    r["clause"] = clause; r["step"] = (long long)step; r["op"] = op;
    return r;
  };

  const vj::Value& steps = c["steps"];
  int napply = 0;
  for(std::size_t s = 0; s < steps.size(); ++s)
  {
    const std::string op = steps[s]["op"].as_str();
    app.log.clear();
    if(op == "IS") uz->init_symbolic();
    else if(op == "IN") uz->init_numeric();
    else if(op == "DN") uz->done_numeric();
    else if(op == "DS") uz->done_symbolic();
    else if(op == "sIS") sol_s->init_symbolic();
    else if(op == "sIN") sol_s->init_numeric();
    else if(op == "sDN") sol_s->done_numeric();
    else if(op == "sDS") sol_s->done_symbolic();
    else if(op == "UP") set_values(1 - app.cur);
    else if(op == "AP")
    {
      ++napply;
      const vj::Value& exp = steps[s]["exp"];
      const std::vector<std::string> ecalls = strs(steps[s]["calls"]);
      std::vector<DVec> outs;
      for(std::size_t k = 0; k < tests.size(); ++k)
      {
        VecT dv(n), dp(m), cv(n), cp(m);
        SysVec def(std::move(dv), std::move(dp)), cor(std::move(cv), std::move(cp));
        for(Index i = 0; i < n; ++i) { def.at<0>()(i, tests[k][i]); cor.at<0>()(i, 1e30 + double(i)); }    // garbage in the output vector
        for(Index i = 0; i < m; ++i) { def.at<1>()(i, tests[k][n + i]); cor.at<1>()(i, -1e30 - double(i)); }
        app.calls.clear();
        Solver::Status st = uz->apply(cor, def);
        DVec x(n + m), d2(n + m);
        for(Index i = 0; i < n; ++i) { x[i] = cor.at<0>()(i); d2[i] = def.at<0>()(i); }
        for(Index i = 0; i < m; ++i) { x[n + i] = cor.at<1>()(i); d2[n + i] = def.at<1>()(i); }
        outs.push_back(x);
        if(mock && app.calls != ecalls)
          return fail(s, op, "inner_calls", "inner solver applications " + join(app.calls) + ", the operator of type " + typ + " makes " + join(ecalls));
        if(!vx::same(d2, tests[k])) return fail(s, op, "input_modified", "input vector modified: " + vx::show(d2));
        if(failwho != "none")
        {
          if(st != Solver::Status::aborted) return fail(s, op, "status", "inner solver " + failwho + " failed but apply did not return Status::aborted");
          continue;
        }
        if(st != Solver::Status::success) return fail(s, op, "status", "apply returned a status other than success");
        bool any = false;
        for(std::size_t a = 0; a < exp[k].size() && !any; ++a) any = vx::same(vx::dyvec(exp[k][a]), x);
        if(!any)
        {
          std::string e; for(std::size_t a = 0; a < exp[k].size(); ++a) e += (a ? " or " : "") + vx::show(vx::dyvec(exp[k][a]));
          vj::Value r = fail(s, op, exp[k].size() > 1 ? "stale_result" : "result",
                             "apply #" + std::to_string(napply) + " rhs " + vx::show(tests[k]) + ": got " + vx::show(x) + " expected " + e);
          r["stale"] = bool(exp[k].size() > 1); r["napply"] = (long long)napply;
          return r;
        }
        for(Index i = 0; i < n; ++i) if(fv[i] && x[i] != 0.0) return fail(s, op, "filter", "filtered velocity dof not zero");
      }
      if(failwho == "none")
      {
        const std::size_t N = n + m;     // P(2g - e1) = 2 P(g) - P(e1) on the implementation's outputs
        for(std::size_t i = 0; i < N; ++i)
          if(!(outs[N + 1][i] == 2.0 * outs[N][i] - outs[0][i])) return fail(s, op, "linearity", "P(2g - e1) differs from 2 P(g) - P(e1)");
      }
    }
    else return vh::bad("unknown op " + op);
    if(mock && op != "AP" && op != "UP")
    {
      const std::vector<std::string> elog = strs(steps[s]["log"]);
      if(app.log != elog) return fail(s, op, "lifecycle_forwarding", "inner life-cycle calls " + join(app.log) + ", specified " + join(elog));
    }
  }
  return vh::ok();
}

vj::Value run_case(const vj::Value& c)
{
  const Index m = Index(c["m"].as_int());
  const std::string fp = c["fp"].as_str();
  if(fp == "none") { NFil f; return run_typed(c, f); }
  if(fp == "unit") { UFil f(m); f.add(m - 1, DT(0)); return run_typed(c, f); }
  if(fp == "mean")
  {
    DVec p = vx::dyvec(c["mp"]), d = vx::dyvec(c["md"]);
    VecT vp(m), vd(m);
    for(Index i = 0; i < m; ++i) { vp(i, p[i]); vd(i, d[i]); }
    MFil f(std::move(vp), std::move(vd));
    return run_typed(c, f);
  }
  return vh::bad("unknown pressure filter " + fp);
}

int main(int argc, char** argv) { return vh::main_loop(argc, argv); }
