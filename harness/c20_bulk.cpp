// C20 (large counts) replayer: executes the histories generated from spec/LifetimeBulk.tla on real LAFEM containers.
// A GROUP of the specification (n sharing relatives of one root, kept as a count there) is a std::vector of n real
// containers here.  After EVERY step the real world is compared with the predicted one:
//   roots and every single member of every group: number of arrays, sizes, null chunk <-> nullptr, aliasing (all holders of
//   a shared chunk point to the same memory; the private chunks of a chunk class are pairwise distinct live chunks),
//   contents (one token per chunk), the allocated size of every chunk, the MemoryPool reference counter of every chunk
//   (hook H1), the number of live chunks and MemoryPool::allocated_memory().
// Arrays with more than 2^20 elements (the 2 GiB / 4 GiB vectors) are only touched at their first and last two elements:
// writes ("poke") and content comparison use these elements only, so their pages are never mapped.
// At the end everything is destroyed (roots first or groups first, chosen by the case) and the pool must be back at its baseline.
// Projection only: every expected value is in the case (computed by TLC).  Built in the `asan` variant.
#include "vharness.hpp"
#include <kernel/lafem/dense_vector.hpp>
#include <kernel/lafem/sparse_matrix_csr.hpp>
#include <kernel/lafem/sparse_layout.hpp>
#include <kernel/util/memory_pool.hpp>
#include <map>
#include <memory>
#include <optional>
#include <set>

using namespace FEAT;
using namespace FEAT::LAFEM;

typedef std::uint64_t u64;
typedef DenseVector<double, u64> DV;
typedef SparseMatrixCSR<double, u64> CSR;
typedef SparseLayout<u64, SparseLayoutId::lt_csr> LAY;

static const Index HUGE_N = Index(1) << 20;

struct ArrInfo { bool el; const void* ptr; Index n; };

template<class CT> static std::vector<ArrInfo> arrays_of(const CT& c)
{
  std::vector<ArrInfo> r;
  const auto& es = c.get_elements(); const auto& ess = c.get_elements_size();
  const auto& is = c.get_indices(); const auto& iss = c.get_indices_size();
  if(es.size() != ess.size() || is.size() != iss.size()) throw std::runtime_error("array list and size list differ in length");
  for(std::size_t k = 0; k < es.size(); ++k) r.push_back(ArrInfo{true, es[k], ess[k]});
  for(std::size_t k = 0; k < is.size(); ++k) r.push_back(ArrInfo{false, is[k], iss[k]});
  return r;
}
static std::vector<ArrInfo> arrays_of(const LAY& l)
{
  std::vector<ArrInfo> r;
  for(std::size_t k = 0; k < l._indices.size(); ++k) r.push_back(ArrInfo{false, l._indices[k], l._indices_size[k]});
  return r;
}

// the elements of an array of n values the replay reads / writes
template<class Fn> static void touched(Index n, Fn&& f)
{
  if(n <= HUGE_N) { for(Index t = 0; t < n; ++t) f(t); }
  else { f(Index(0)); f(Index(1)); f(n - 2); f(n - 1); }
}
// content token of a value array: the common value, -2 if the values differ
static long long tok_of(const ArrInfo& a)
{
  const double* p = static_cast<const double*>(a.ptr);
  long long r = (long long)p[0]; bool same = true; const double v0 = p[0];
  touched(a.n, [&](Index t) { if(p[t] != v0) same = false; });
  return same ? r : -2;
}

struct Root { int fam = 0; std::optional<DV> dv; std::optional<CSR> csr; };     // fam 0 = dv, 1 = csr
struct Group { int fam = 0; std::vector<DV> dv; std::vector<CSR> csr; std::vector<LAY> lay;      // fam 2 = lay
  std::size_t size() const { return fam == 0 ? dv.size() : fam == 1 ? csr.size() : lay.size(); }
  std::vector<ArrInfo> member(std::size_t i) const { return fam == 0 ? arrays_of(dv[i]) : fam == 1 ? arrays_of(csr[i]) : arrays_of(lay[i]); }
};

struct World
{
  std::map<int, Root> roots;
  std::map<int, Group> groups;
  Index base_chunks = 0, base_mem = 0;
};

static int fam_id(const std::string& f) { if(f == "dv") return 0; if(f == "csr") return 1; if(f == "lay") return 2; throw std::runtime_error("unknown family " + f); }

static CSR make_csr(const std::string& var, double tok)
{
  if(var == "nz0") return CSR(Index(2), Index(3), Index(0));
  DenseVector<u64, u64> ci(Index(3)), rp(Index(3)); DenseVector<double, u64> va(Index(3), tok);
  ci(0, 0); ci(1, 2); ci(2, 1); rp(0, 0); rp(1, 2); rp(2, 3);
  return CSR(Index(2), Index(3), ci, va, rp);
}

static std::string compare_world(const World& w, const vj::Value& pred)
{
  std::map<long long, const void*> cmap;                 // shared chunk id -> address
  std::map<long long, std::set<const void*>> classes;    // chunk class id -> addresses of its chunks
  std::map<const void*, long long> pmap;                 // address -> chunk (class) id
  // one array of one holder against its predicted record <<k, c, n, [priv,] tok, allocated count>>
  // (the position of the array is only turned into text when something is wrong: there are hundreds of thousands of arrays)
  auto check_arr = [&](const ArrInfo& a, bool el, long long c, long long n, bool priv, long long tok, long long cnt, const char* what, int id, long long member, std::size_t k) -> std::string {
    auto where = [&]() { return std::string(what) + " " + std::to_string(id) + (member >= 0 ? " member " + std::to_string(member) : std::string()) + " array " + std::to_string(k); };
    if(el != a.el) return where() + ": kind";
    if(Index(n) != a.n) return where() + ": size " + std::to_string(a.n) + " expected " + std::to_string(n);
    if((c == 0) != (a.ptr == nullptr)) return where() + ": null chunk <-> null pointer";
    if(c == 0) return "";
    if(priv)
    {
      auto pi = pmap.find(a.ptr);
      if(pi != pmap.end()) return where() + ": its private array shares memory with another holder (chunk " + std::to_string(pi->second) + ")";
      pmap[a.ptr] = c; classes[c].insert(a.ptr);
      const Index rc = MemoryPool::verif_refcount(a.ptr);
      if(rc != Index(1)) return where() + ": reference counter of its private chunk " + std::to_string(rc) + " expected 1";
    }
    else
    {
      auto ci = cmap.find(c);
      if(ci == cmap.end())
      {
        if(pmap.count(a.ptr)) return where() + ": shares memory with chunk " + std::to_string(pmap[a.ptr]) + " but the specification says it is a different array (chunk " + std::to_string(c) + ")";
        if(MemoryPool::verif_refcount(a.ptr) == Index(0)) return where() + ": its memory is not a live chunk of the memory pool";
        cmap[c] = a.ptr; pmap[a.ptr] = c;
      }
      else if(ci->second != a.ptr) return where() + ": does not share memory with the other holders of chunk " + std::to_string(c);
      else return "";   // same memory as the first holder of the chunk, through which size, contents and counter were compared
    }
    const Index have = MemoryPool::allocated_size(const_cast<void*>(a.ptr)), want = Index(cnt) * Index(8);
    if(have != want) return where() + ": allocated size " + std::to_string(have) + " expected " + std::to_string(want);
    if(el && tok >= 0) { const long long got = tok_of(a); if(got != tok) return where() + ": content " + std::to_string(got) + " expected " + std::to_string(tok); }
    return "";
  };
  const vj::Value& pr = pred["roots"];
  for(std::size_t s = 0; s < pr.size(); ++s)
  {
    const vj::Value& e = pr[s]; const int sid = int(s) + 1; const bool live = e[0].as_bool();
    auto it = w.roots.find(sid);
    if(live != (it != w.roots.end())) return "root " + std::to_string(sid) + ": liveness";
    if(!live) continue;
    const std::vector<ArrInfo> ar = it->second.fam == 0 ? arrays_of(*it->second.dv) : arrays_of(*it->second.csr);
    const vj::Value& pa = e[2];
    if(ar.size() != pa.size()) return "root " + std::to_string(sid) + ": number of arrays " + std::to_string(ar.size()) + " expected " + std::to_string(pa.size());
    for(std::size_t k = 0; k < ar.size(); ++k)
    {
      const vj::Value& a = pa[k];
      std::string r = check_arr(ar[k], a[0].as_str() == "el", a[1].as_int(), a[2].as_int(), false, a[3].as_int(), a[4].as_int(), "root", sid, -1, k);
      if(!r.empty()) return r;
    }
  }
  const vj::Value& pg = pred["groups"];
  for(std::size_t g = 0; g < pg.size(); ++g)
  {
    const vj::Value& e = pg[g]; const int gid = int(g) + 1; const bool live = e[0].as_bool();
    auto it = w.groups.find(gid);
    if(live != (it != w.groups.end())) return "group " + std::to_string(gid) + ": liveness";
    if(!live) continue;
    const Group& G = it->second;
    if(G.fam != fam_id(e[1].as_str())) return "group " + std::to_string(gid) + ": family";
    if((long long)G.size() != e[3].as_int()) return "group " + std::to_string(gid) + ": " + std::to_string(G.size()) + " members, expected " + std::to_string(e[3].as_int());
    const vj::Value& pa = e[4];
    struct PA { bool el; long long c, n; bool priv; long long tok, cnt; };
    std::vector<PA> exp;
    for(std::size_t k = 0; k < pa.size(); ++k) exp.push_back(PA{pa[k][0].as_str() == "el", pa[k][1].as_int(), pa[k][2].as_int(), pa[k][3].as_bool(), pa[k][4].as_int(), pa[k][5].as_int()});
    for(std::size_t i = 0; i < G.size(); ++i)
    {
      const std::vector<ArrInfo> ar = G.member(i);
      if(ar.size() != exp.size()) return "group " + std::to_string(gid) + " member " + std::to_string(i) + ": number of arrays " + std::to_string(ar.size()) + " expected " + std::to_string(exp.size());
      for(std::size_t k = 0; k < ar.size(); ++k)
      {
        std::string r = check_arr(ar[k], exp[k].el, exp[k].c, exp[k].n, exp[k].priv, exp[k].tok, exp[k].cnt, "group", gid, (long long)i, k);
        if(!r.empty()) return r;
      }
    }
  }
  // the chunk table: <<chunk id, reference counter, number of identical chunks>>
  const vj::Value& pc = pred["chunks"];
  for(std::size_t j = 0; j < pc.size(); ++j)
  {
    const long long c = pc[j][0].as_int(), refs = pc[j][1].as_int(), mult = pc[j][2].as_int();
    auto ci = cmap.find(c); auto ki = classes.find(c);
    if(ci != cmap.end() && ki != classes.end()) return "chunk " + std::to_string(c) + " is held both as a shared and as a private array";
    if(ci != cmap.end())
    {
      if(mult != 1) return "chunk " + std::to_string(c) + ": predicted as a class of " + std::to_string(mult) + " chunks but held as one shared chunk";
      const Index rc = MemoryPool::verif_refcount(ci->second);
      if((long long)rc != refs) return "chunk " + std::to_string(c) + ": reference counter " + std::to_string(rc) + " expected " + std::to_string(refs);
    }
    else if(ki != classes.end())
    {
      if((long long)ki->second.size() != mult) return "chunk class " + std::to_string(c) + ": " + std::to_string(ki->second.size()) + " chunks, expected " + std::to_string(mult);
    }
    else return "chunk " + std::to_string(c) + " is live in the specification but no live container refers to it";
  }
  if(cmap.size() + classes.size() != pc.size()) return "the containers refer to " + std::to_string(cmap.size() + classes.size()) + " chunks / chunk classes, the specification has " + std::to_string(pc.size());
  const Index live_chunks = MemoryPool::verif_num_chunks() - w.base_chunks;
  if((long long)live_chunks != pred["nchunks"].as_int()) return "number of live pool chunks " + std::to_string(live_chunks) + " expected " + std::to_string(pred["nchunks"].as_int());
  const Index mem = MemoryPool::allocated_memory() - w.base_mem;
  // (predicted in units of 4 elements per array kind)
  const Index want = Index(pred["allocEl4"].as_int()) * Index(4 * sizeof(double)) + Index(pred["allocIx4"].as_int()) * Index(4 * sizeof(u64));
  if(mem != want) return "MemoryPool::allocated_memory() " + std::to_string(mem) + " expected " + std::to_string(want);
  return "";
}

static void apply_step(World& w, const vj::Value& st)
{
  const std::string op = st["op"].as_str(); const vj::Value& a = st["args"];
  if(op == "create")
  {
    const int s = (int)a["s"].as_int(); const std::string var = a["var"].as_str();
    long long tok = 1;
    const vj::Value& pa = st["world"]["roots"][std::size_t(s - 1)][2];
    for(std::size_t k = 0; k < pa.size(); ++k) if(pa[k][0].as_str() == "el" && pa[k][3].as_int() >= 0) tok = pa[k][3].as_int();
    Root r;
    if(var == "n3") { r.fam = 0; r.dv.emplace(Index(3), double(tok)); }
    else if(var == "n0") { r.fam = 0; r.dv.emplace(Index(0)); }
    else if(var == "h31") { r.fam = 0; r.dv.emplace((Index(1) << 28) + Index(1)); }      // not initialised: no page is touched
    else if(var == "h32") { r.fam = 0; r.dv.emplace((Index(1) << 29) + Index(1)); }
    else if(var == "full" || var == "nz0") { r.fam = 1; r.csr.emplace(make_csr(var, double(tok))); }
    else throw std::runtime_error("unknown variant " + var);
    w.roots[s] = std::move(r);
    return;
  }
  if(op == "destroy") { w.roots.erase((int)a["s"].as_int()); return; }
  if(op == "clear") { Root& r = w.roots.at((int)a["s"].as_int()); if(r.fam == 0) r.dv->clear(); else r.csr->clear(); return; }
  if(op == "poke" || op == "pokeg")
  {
    const double v = double(a["tok"].as_int());
    auto write_dv = [&](DV& x) { if(x.size() <= HUGE_N) x.format(v); else { double* p = x.elements(); touched(x.size(), [&](Index t) { p[t] = v; }); } };
    if(op == "poke") { Root& r = w.roots.at((int)a["s"].as_int()); if(r.fam == 0) write_dv(*r.dv); else r.csr->format(v); }
    else { Group& G = w.groups.at((int)a["g"].as_int()); if(G.fam == 0) write_dv(G.dv.front()); else G.csr.front().format(v); }
    return;
  }
  if(op == "clonemany")
  {
    Root& r = w.roots.at((int)a["s"].as_int()); const std::string kind = a["kind"].as_str(); const Index n = Index(a["n"].as_int());
    Group G; G.fam = (kind == "takelayout") ? 2 : r.fam;
    CloneMode mode = CloneMode::Shallow; bool is_clone = true;
    if(kind == "shallow") mode = CloneMode::Shallow; else if(kind == "weak") mode = CloneMode::Weak; else if(kind == "layout") mode = CloneMode::Layout;
    else if(kind == "deep") mode = CloneMode::Deep; else is_clone = false;
    // (no reserve: the vector grows by move construction of the members it already holds)
    for(Index i = 0; i < n; ++i)
    {
      if(r.fam == 0)
      {
        DV& src = *r.dv;
        if(is_clone) G.dv.push_back(src.clone(mode));
        else if(kind == "convert") { DV t; t.convert(src); G.dv.push_back(std::move(t)); }
        else if(kind == "wrap") G.dv.push_back(DV(src.size(), src.elements()));
        else throw std::runtime_error("clonemany: kind " + kind + " for a vector");
      }
      else
      {
        CSR& src = *r.csr;
        if(is_clone) G.csr.push_back(src.clone(mode));
        else if(kind == "convert") { CSR t; t.convert(src); G.csr.push_back(std::move(t)); }
        else if(kind == "fromlayout") G.csr.push_back(CSR(src.layout()));
        else if(kind == "takelayout") G.lay.push_back(LAY(src.layout()));
        else throw std::runtime_error("clonemany: kind " + kind + " for a matrix");
      }
    }
    w.groups[(int)a["g"].as_int()] = std::move(G);
    return;
  }
  if(op == "releasemany")
  {
    const int g = (int)a["g"].as_int(); Group& G = w.groups.at(g); const std::size_t m = std::size_t(a["m"].as_int()); const bool back = (a["from"].as_str() == "back");
    if(m > G.size()) throw std::runtime_error("releasemany: more members than the group has");
    // back: the last m members are destroyed; front: the first m are overwritten by move assignment of the others, the moved-from tail is destroyed
    auto cut = [&](auto& v) { if(back) v.erase(v.end() - std::ptrdiff_t(m), v.end()); else v.erase(v.begin(), v.begin() + std::ptrdiff_t(m)); };
    if(G.fam == 0) cut(G.dv); else if(G.fam == 1) cut(G.csr); else cut(G.lay);
    if(G.size() == 0) w.groups.erase(g);
    return;
  }
  if(op == "takeone")
  {
    const int g = (int)a["g"].as_int(), s = (int)a["s"].as_int(); Group& G = w.groups.at(g);
    Root r; r.fam = G.fam;
    if(G.fam == 0) { r.dv.emplace(std::move(G.dv.back())); G.dv.pop_back(); }
    else if(G.fam == 1) { r.csr.emplace(std::move(G.csr.back())); G.csr.pop_back(); }
    else throw std::runtime_error("takeone: layout group");
    w.roots[s] = std::move(r);
    if(G.size() == 0) w.groups.erase(g);
    return;
  }
  throw std::runtime_error("unknown operation " + op);
}

vj::Value run_case(const vj::Value& c)
{
  World w; w.base_chunks = MemoryPool::verif_num_chunks(); w.base_mem = MemoryPool::allocated_memory();
  const vj::Value& steps = c["steps"];
  for(std::size_t k = 0; k < steps.size(); ++k)
  {
    std::string r; bool threw = false;
    try { apply_step(w, steps[k]); }
    catch(const std::exception& e) { threw = true; r = std::string("uncaught exception ") + typeid(e).name() + ": " + e.what(); }
    if(r.empty()) r = compare_world(w, steps[k]["world"]);
    if(!r.empty())
    {
      vj::Value res = vh::bad("step " + std::to_string(k + 1) + " (" + steps[k]["op"].as_str() + "): " + r);
      res["step"] = (long long)(k + 1); res["op"] = steps[k]["op"].as_str();
      if(threw) res["outcome"] = std::string("exception");
      return res;
    }
  }
  // EmptyAtEnd: destroy what is left, roots first or groups first
  if(c.has("rootsfirst") && c["rootsfirst"].as_bool()) { w.roots.clear(); w.groups.clear(); } else { w.groups.clear(); w.roots.clear(); }
  if(MemoryPool::verif_num_chunks() != w.base_chunks)
  {
    vj::Value res = vh::bad("after destroying all containers the memory pool still holds " + std::to_string(MemoryPool::verif_num_chunks() - w.base_chunks) + " chunk(s)");
    res["step"] = (long long)(steps.size()); res["op"] = std::string("end");
    return res;
  }
  return vh::ok();
}

int main(int argc, char** argv) { return vh::main_loop(argc, argv); }
