// C01 replayer for composed containers (spec/MetaMatVec.tla): SaddlePointMatrix, TupleMatrix, PowerDiag/Full/Row/Col
// matrices over CSR leaves.  Every call is executed through the meta-vector overload (TupleVector / PowerVector) and
// through the flat DenseVector overload, for double/uint64 and float/uint32; results are compared exactly.
#include "vharness.hpp"
#include "vlafem.hpp"
#include <kernel/lafem/saddle_point_matrix.hpp>
#include <kernel/lafem/tuple_matrix.hpp>
#include <kernel/lafem/tuple_diag_matrix.hpp>
#include <kernel/lafem/tuple_vector.hpp>
#include <kernel/lafem/power_diag_matrix.hpp>
#include <kernel/lafem/power_full_matrix.hpp>
#include <kernel/lafem/power_row_matrix.hpp>
#include <kernel/lafem/power_col_matrix.hpp>
#include <kernel/lafem/power_vector.hpp>

using namespace vl;

struct Ctx
{
  const vj::Value& c; std::string op; long long an, ad; bool alias; IVec x, y, r0, exp; std::string why;
  explicit Ctx(const vj::Value& cc) : c(cc)
  {
    op = c["op"].as_str(); an = c["an"].as_int(); ad = c["ad"].as_int(); alias = c["alias"].as_bool();
    x = c["x"].ints(); y = c["y"].ints(); r0 = c["r0"].ints(); exp = c["exp"].ints();
  }
  bool fail(const std::string& w) { if(why.empty()) why = w; return false; }
};
static std::string vs(const IVec& v) { return vj::dump(vj::from_vec(v)); }

// the leaf at grid cell (bi, bj)
template<class DT, class IT>
SparseMatrixCSR<DT, IT> leaf(const vj::Value& c, int bi, int bj)
{
  const vj::Value& ls = c["leaves"];
  for(std::size_t k = 0; k < ls.size(); ++k)
    if(ls[k]["bi"].as_int() == bi && ls[k]["bj"].as_int() == bj)
      return make_csr<DT, IT>(Index(ls[k]["m"].as_int()), Index(ls[k]["n"].as_int()), ls[k]["rep"], 0);
  throw std::runtime_error("leaf missing");
}

// meta vector <-> flat integers through DenseVector::copy / copy_inv
template<class DT, class IT, class MV> void fill_meta(MV& v, const IVec& flat)
{
  DenseVector<DT, IT> d = make_vec<DT, IT>(flat);
  d.copy_inv(v);
}
template<class DT, class IT, class MV> IVec read_meta(const MV& v, long long scale, bool& exact)
{
  DenseVector<DT, IT> d(v.template size<Perspective::pod>());
  d.copy(v);
  return read_pod(d, scale, exact);
}

// FLAT: 0 = the composition has no flat DenseVector overloads, 1 = all four, 2 = only the non-transposed ones
template<class DT, class IT, int FLAT, class MT>
bool run_meta(Ctx& k, const MT& a, const std::string& tag)
{
  typedef typename MT::VectorTypeL VL; typedef typename MT::VectorTypeR VR;
  const bool transposed = (k.op == "applyT" || k.op == "axpyT");
  const bool axpy = (k.op == "axpy" || k.op == "axpyT");
  const DT alpha = DT(double(k.an) / double(k.ad));
  // ---- meta vector overloads ---------------------------------------------------------------------
  {
    VL vl = a.create_vector_l(); VR vr = a.create_vector_r();
    bool exact = true; IVec got;
    if(!transposed)
    {
      fill_meta<DT, IT>(vr, k.x);
      if(!axpy) { fill_meta<DT, IT>(vl, k.r0); a.apply(vl, vr); got = read_meta<DT, IT>(vl, 1, exact); }
      else if(k.alias) { fill_meta<DT, IT>(vl, k.y); a.apply(vl, vr, vl, alpha); got = read_meta<DT, IT>(vl, k.ad, exact); }
      else
      {
        VL vy = a.create_vector_l(); fill_meta<DT, IT>(vy, k.y); fill_meta<DT, IT>(vl, k.r0);
        a.apply(vl, vr, vy, alpha); got = read_meta<DT, IT>(vl, k.ad, exact);
        bool e2 = true; if(read_meta<DT, IT>(vy, 1, e2) != k.y) return k.fail(tag + "/meta: operand y modified");
        vl.format(DT(77)); if(read_meta<DT, IT>(vy, 1, e2) != k.y || read_meta<DT, IT>(vr, 1, e2) != k.x) return k.fail(tag + "/meta: operand modified by overwriting the result afterwards (shared memory)");
      }
      bool e3 = true; if(read_meta<DT, IT>(vr, 1, e3) != k.x) return k.fail(tag + "/meta: operand x modified");
    }
    else
    {
      fill_meta<DT, IT>(vl, k.x);
      if(!axpy) { fill_meta<DT, IT>(vr, k.r0); a.apply_transposed(vr, vl); got = read_meta<DT, IT>(vr, 1, exact); }
      else if(k.alias) { fill_meta<DT, IT>(vr, k.y); a.apply_transposed(vr, vl, vr, alpha); got = read_meta<DT, IT>(vr, k.ad, exact); }
      else
      {
        VR vy = a.create_vector_r(); fill_meta<DT, IT>(vy, k.y); fill_meta<DT, IT>(vr, k.r0);
        a.apply_transposed(vr, vl, vy, alpha); got = read_meta<DT, IT>(vr, k.ad, exact);
        bool e2 = true; if(read_meta<DT, IT>(vy, 1, e2) != k.y) return k.fail(tag + "/meta: operand y modified");
        vr.format(DT(77)); if(read_meta<DT, IT>(vy, 1, e2) != k.y || read_meta<DT, IT>(vl, 1, e2) != k.x) return k.fail(tag + "/meta: operand modified by overwriting the result afterwards (shared memory)");
      }
      bool e3 = true; if(read_meta<DT, IT>(vl, 1, e3) != k.x) return k.fail(tag + "/meta: operand x modified");
    }
    if(!exact) return k.fail(tag + "/meta: result not on the exact domain " + vs(got));
    if(got != k.exp) return k.fail(tag + "/meta " + k.op + ": result " + vs(got) + " expected " + vs(k.exp));
  }
  // ---- flat DenseVector overloads ------------------------------------------------------------------
  if constexpr (FLAT != 0)
  {
    if(FLAT == 2 && transposed) return true;
    typedef DenseVector<DT, IT> DVt;
    DVt vx = make_vec<DT, IT>(k.x); bool exact = true; IVec got;
    if(!axpy)
    {
      DVt vr = make_vec<DT, IT>(k.r0);
      if constexpr (FLAT == 1) { if(transposed) a.apply_transposed(vr, vx); else a.apply(vr, vx); } else a.apply(vr, vx);
      got = read_pod(vr, 1, exact);
    }
    else if(k.alias)
    {
      DVt vr = make_vec<DT, IT>(k.y);
      if constexpr (FLAT == 1) { if(transposed) a.apply_transposed(vr, vx, vr, alpha); else a.apply(vr, vx, vr, alpha); } else a.apply(vr, vx, vr, alpha);
      got = read_pod(vr, k.ad, exact);
    }
    else
    {
      DVt vr = make_vec<DT, IT>(k.r0), vy = make_vec<DT, IT>(k.y);
      if constexpr (FLAT == 1) { if(transposed) a.apply_transposed(vr, vx, vy, alpha); else a.apply(vr, vx, vy, alpha); } else a.apply(vr, vx, vy, alpha);
      got = read_pod(vr, k.ad, exact);
      bool e2 = true; if(read_pod(vy, 1, e2) != k.y) return k.fail(tag + "/flat: operand y modified");
      vr.format(DT(77)); if(read_pod(vy, 1, e2) != k.y || read_pod(vx, 1, e2) != k.x) return k.fail(tag + "/flat: operand modified by overwriting the result afterwards (shared memory)");
    }
    bool e3 = true; if(read_pod(vx, 1, e3) != k.x) return k.fail(tag + "/flat: operand x modified");
    if(!exact) return k.fail(tag + "/flat: result not on the exact domain " + vs(got));
    if(got != k.exp) return k.fail(tag + "/flat " + k.op + ": result " + vs(got) + " expected " + vs(k.exp));
  }
  return true;
}

template<class DT, class IT>
bool run_typed(Ctx& k, const std::string& tag)
{
  typedef SparseMatrixCSR<DT, IT> L;
  const std::string kind = k.c["kind"].as_str();
  if(kind == "saddle")
  {
    SaddlePointMatrix<L, L, L> a(leaf<DT, IT>(k.c, 1, 1), leaf<DT, IT>(k.c, 1, 2), leaf<DT, IT>(k.c, 2, 1));
    return run_meta<DT, IT, 1>(k, a, tag + "/saddle");
  }
  if(kind == "tuple22")
  {
    typedef TupleMatrixRow<L, L> Row;
    TupleMatrix<Row, Row> a(Row(leaf<DT, IT>(k.c, 1, 1), leaf<DT, IT>(k.c, 1, 2)), Row(leaf<DT, IT>(k.c, 2, 1), leaf<DT, IT>(k.c, 2, 2)));
    return run_meta<DT, IT, 0>(k, a, tag + "/tuple22");
  }
  if(kind == "tdiag2")
  {
    TupleDiagMatrix<L, L> a(leaf<DT, IT>(k.c, 1, 1), leaf<DT, IT>(k.c, 2, 2));
    return run_meta<DT, IT, 1>(k, a, tag + "/tdiag2");
  }
  if(kind == "tdiag3")
  {
    TupleDiagMatrix<L, L, L> a(leaf<DT, IT>(k.c, 1, 1), leaf<DT, IT>(k.c, 2, 2), leaf<DT, IT>(k.c, 3, 3));
    return run_meta<DT, IT, 1>(k, a, tag + "/tdiag3");
  }
  if(kind == "pdiag2")
  {
    PowerDiagMatrix<L, 2> a; a.template at<0, 0>() = leaf<DT, IT>(k.c, 1, 1); a.template at<1, 1>() = leaf<DT, IT>(k.c, 2, 2);
    return run_meta<DT, IT, 1>(k, a, tag + "/pdiag2");
  }
  if(kind == "prow2")
  {
    PowerRowMatrix<L, 2> a; a.template at<0, 0>() = leaf<DT, IT>(k.c, 1, 1); a.template at<0, 1>() = leaf<DT, IT>(k.c, 1, 2);
    return run_meta<DT, IT, 1>(k, a, tag + "/prow2");
  }
  if(kind == "pcol2")
  {
    PowerColMatrix<L, 2> a; a.template at<0, 0>() = leaf<DT, IT>(k.c, 1, 1); a.template at<1, 0>() = leaf<DT, IT>(k.c, 2, 1);
    return run_meta<DT, IT, 1>(k, a, tag + "/pcol2");
  }
  if(kind == "pfull22")
  {
    PowerFullMatrix<L, 2, 2> a;
    a.template at<0, 0>() = leaf<DT, IT>(k.c, 1, 1); a.template at<0, 1>() = leaf<DT, IT>(k.c, 1, 2);
    a.template at<1, 0>() = leaf<DT, IT>(k.c, 2, 1); a.template at<1, 1>() = leaf<DT, IT>(k.c, 2, 2);
    return run_meta<DT, IT, 1>(k, a, tag + "/pfull22");
  }
  return k.fail("unknown kind " + kind);
}

vj::Value run_case(const vj::Value& c)
{
  Ctx k(c);
  bool ok = run_typed<double, std::uint64_t>(k, "f64/u64") && run_typed<float, std::uint32_t>(k, "f32/u32");
  return ok ? vh::ok() : vh::bad(k.why);
}

int main(int argc, char** argv) { return vh::main_loop(argc, argv); }
