// C13 MPI replayer, second part (cases from spec/Gen_SynchB.tla and spec/Gen_Muxer.tla):
//  kind "vec":  scalar, blocked (2, 3 components) and tuple vectors through Global::Gate / Global::Vector
//               (sync_0, sync_1, dot, norm2, max/min_abs_element, sizes and all *_async variants), the scalar
//               reductions gate.sum/min/max/norm2 (+ *_async, + a ticket that is move-assigned before wait()),
//               Global::Splitter join/split (frame: input vector unchanged, repeated join gives the same result),
//               Global::Filter<UnitFilter>, Global::MeanFilter
//  kind "mux":  Global::Muxer join/join_send/split/split_recv on sibling communicators (comm_split) with a parent
//               per group and child patches of unequal size, for scalar and blocked vectors
//  kind "ticketprobe": a pending SynchScalarTicket is move-assigned / move-constructed before wait()
//  kind "asyncprobe": wait() on the tickets of sync_0_async/sync_1_async, unconditionally (see vmpi::wait_ticket)
// All expected values come from the specification; comparisons are exact (integers), a stated rounding bound is used
// only where a dof is shared by a number of ranks that is not a power of two (1/3, 1/5, 1/6 are not dyadic).
//
// run as:  mpirun -np <nr> c13_gvec --cases FILE [--start K]
#include "vmpi.hpp"
#include <kernel/global/gate.hpp>
#include <kernel/global/vector.hpp>
#include <kernel/global/filter.hpp>
#include <kernel/global/mean_filter.hpp>
#include <kernel/global/muxer.hpp>
#include <kernel/global/splitter.hpp>
#include <kernel/lafem/dense_vector.hpp>
#include <kernel/lafem/dense_vector_blocked.hpp>
#include <kernel/lafem/tuple_vector.hpp>
#include <kernel/lafem/vector_mirror.hpp>
#include <kernel/lafem/tuple_mirror.hpp>
#include <kernel/lafem/unit_filter.hpp>
#include <algorithm>
#include <cmath>

using namespace FEAT;
typedef double DT; typedef Index IT;
typedef LAFEM::DenseVector<DT, IT> SVec;
typedef LAFEM::VectorMirror<DT, IT> SMir;
using vmpi::key;
static const double EPS = std::numeric_limits<DT>::epsilon();

enum Field { V0, SYNC0, X, Y };

// The specification lists the dofs of a rank in the rank's LOCAL numbering (module Renum: not ascending in general) and gives
// the mirror of every neighbour pair (field "mir" / "t2mir"): entry k = local index of the k-th shared dof in the common buffer
// order (ascending global dof); such a mirror is not monotone for a renumbered patch.
static SMir mk_mirror(const vj::Value& c, const char* field, int me, int s, Index nloc, bool& empty)
{
  const std::vector<long long> idx = c[field][key(me)][key(s)].ints();
  empty = idx.empty();
  SMir mir(nloc, Index(idx.size()));
  for(std::size_t k = 0; k < idx.size(); ++k) mir.indices()[k] = IT(idx[k]);
  return mir;
}
static std::string fstr(const std::vector<DT>& v)
{
  std::string s = "[";
  for(std::size_t i = 0; i < v.size(); ++i) { char b[40]; std::snprintf(b, sizeof(b), "%s%.17g", i ? "," : "", v[i]); s += b; }
  return s + "]";
}
static void rows_flat(const vj::Value& rows, int bs, std::vector<DT>& out)   // rows[i] = number (bs == 0) or list of >= bs numbers
{
  for(std::size_t i = 0; i < rows.size(); ++i)
  {
    if(bs == 0) out.push_back(DT(rows[i].as_int()));
    else for(int k = 0; k < bs; ++k) out.push_back(DT(rows[i][std::size_t(k)].as_int()));
  }
}

// ---- the three vector kinds ------------------------------------------------------------------------------------------------
template<int B_> struct TBlocked
{
  typedef LAFEM::DenseVectorBlocked<DT, IT, B_> LVec; typedef SMir Mir;
  static std::string name() { return "b" + std::to_string(B_); }
  static const char* fld(Field f) { return f == V0 ? "vb0" : f == SYNC0 ? "sync0b" : f == X ? "xb" : "yb"; }
  static std::vector<DT> expect(const vj::Value& c, Field f, int r) { std::vector<DT> o; rows_flat(c[fld(f)][key(r)], B_, o); return o; }
  static LVec tmpl(const vj::Value& c, int me) { return LVec(Index(c["dofs"][key(me)].size())); }
  static void set(LVec& v, const std::vector<DT>& f) { DT* p = v.template elements<LAFEM::Perspective::pod>(); for(std::size_t i = 0; i < f.size(); ++i) p[i] = f[i]; }
  static std::vector<DT> flat(const LVec& v) { const DT* p = v.template elements<LAFEM::Perspective::pod>(); return std::vector<DT>(p, p + v.template size<LAFEM::Perspective::pod>()); }
  static bool mirror(const vj::Value& c, int me, int s, Mir& m) { bool e; m = mk_mirror(c, "mir", me, s, Index(c["dofs"][key(me)].size()), e); return !e; }
  static long long scal(const vj::Value& c, const char* w) { return c[std::string(w) + "b"][std::to_string(B_)].as_int(); }
  static long long nglob(const vj::Value& c, bool pod) { return c["nglobal"].as_int() * (pod ? B_ : 1); }
};
struct TScalar
{
  typedef SVec LVec; typedef SMir Mir;
  static std::string name() { return "s"; }
  static const char* fld(Field f) { return f == V0 ? "v0" : f == SYNC0 ? "sync0" : f == X ? "x" : "y"; }
  static std::vector<DT> expect(const vj::Value& c, Field f, int r) { std::vector<DT> o; rows_flat(c[fld(f)][key(r)], 0, o); return o; }
  static LVec tmpl(const vj::Value& c, int me) { return LVec(Index(c["dofs"][key(me)].size())); }
  static void set(LVec& v, const std::vector<DT>& f) { for(std::size_t i = 0; i < f.size(); ++i) v.elements()[i] = f[i]; }
  static std::vector<DT> flat(const LVec& v) { return std::vector<DT>(v.elements(), v.elements() + v.size()); }
  static bool mirror(const vj::Value& c, int me, int s, Mir& m) { bool e; m = mk_mirror(c, "mir", me, s, Index(c["dofs"][key(me)].size()), e); return !e; }
  static long long scal(const vj::Value& c, const char* w) { return c[w].as_int(); }
  static long long nglob(const vj::Value& c, bool) { return c["nglobal"].as_int(); }
};
struct TTuple
{
  typedef LAFEM::DenseVectorBlocked<DT, IT, 2> BVec;
  typedef LAFEM::TupleVector<SVec, BVec> LVec; typedef LAFEM::TupleMirror<SMir, SMir> Mir;
  static std::string name() { return "t"; }
  static std::vector<DT> expect(const vj::Value& c, Field f, int r)
  {
    std::vector<DT> o; rows_flat(c[TScalar::fld(f)][key(r)], 0, o);
    rows_flat(c[std::string("t2") + (f == V0 ? "v0" : f == SYNC0 ? "sync0" : f == X ? "x" : "y")][key(r)], 2, o); return o;
  }
  static LVec tmpl(const vj::Value& c, int me) { return LVec(SVec(Index(c["dofs"][key(me)].size())), BVec(Index(c["t2dofs"][key(me)].size()))); }
  static void set(LVec& v, const std::vector<DT>& f)
  {
    const Index n1 = v.template at<0>().size();
    for(Index i = 0; i < n1; ++i) v.template at<0>().elements()[i] = f[i];
    DT* p = v.template at<1>().template elements<LAFEM::Perspective::pod>();
    for(std::size_t i = n1; i < f.size(); ++i) p[i - n1] = f[i];
  }
  static std::vector<DT> flat(const LVec& v)
  {
    std::vector<DT> o(v.template at<0>().elements(), v.template at<0>().elements() + v.template at<0>().size());
    const DT* p = v.template at<1>().template elements<LAFEM::Perspective::pod>();
    o.insert(o.end(), p, p + v.template at<1>().template size<LAFEM::Perspective::pod>()); return o;
  }
  static bool mirror(const vj::Value& c, int me, int s, Mir& m)
  {
    bool e1, e2;
    SMir m1 = mk_mirror(c, "mir", me, s, Index(c["dofs"][key(me)].size()), e1);
    SMir m2 = mk_mirror(c, "t2mir", me, s, Index(c["t2dofs"][key(me)].size()), e2);
    m = Mir(std::move(m1), std::move(m2)); return !(e1 && e2);
  }
  static long long scal(const vj::Value& c, const char* w) { return c[std::string("t") + w].as_int(); }
  static long long nglob(const vj::Value& c, bool pod) { return c[pod ? "tnglobalpod" : "tnglobal"].as_int(); }
};

template<typename T_> static void build_gate(Global::Gate<typename T_::LVec, typename T_::Mir>& gate, const vj::Value& c, int me, int nr)
{
  for(int s = 0; s < nr; ++s)
  {
    if(s == me) continue;
    typename T_::Mir mir;
    if(T_::mirror(c, me, s, mir)) gate.push(s, std::move(mir));
  }
  gate.compile(T_::tmpl(c, me));
}

static bool close(const std::vector<DT>& got, const std::vector<DT>& exp, double tolrel)
{
  if(got.size() != exp.size()) return false;
  for(std::size_t i = 0; i < got.size(); ++i) if(!(std::fabs(got[i] - exp[i]) <= tolrel * (1.0 + std::fabs(exp[i])))) return false;
  return true;
}

// ---- gate / global vector operations for one vector kind ----------------------------------------------------------------------
template<typename T_>
static void test_gate(const vj::Value& c, const Dist::Comm& comm, bool dyadic, vmpi::Fail& fail)
{
  typedef typename T_::LVec LVec; typedef typename T_::Mir Mir;
  typedef Global::Gate<LVec, Mir> GateT; typedef Global::Vector<LVec, Mir> GVec;
  const int me = comm.rank(), nr = comm.size();
  const std::string t = "[" + T_::name() + "]";
  GateT gate(comm);
  build_gate<T_>(gate, c, me, nr);
  const double tolv = dyadic ? 0.0 : 8.0 * EPS;
  const std::vector<DT> v0 = T_::expect(c, V0, me), s0 = T_::expect(c, SYNC0, me), x = T_::expect(c, X, me), y = T_::expect(c, Y, me);
  auto mk = [&](const std::vector<DT>& f) { LVec v = T_::tmpl(c, me); T_::set(v, f); return v; };
  auto cmp = [&](const std::string& what, const LVec& got, const std::vector<DT>& exp, double tol)
  { if(!close(T_::flat(got), exp, tol)) fail(what + t + " gives " + fstr(T_::flat(got)) + " expected " + fstr(exp)); };

  // sync_0 / sync_1, blocking and asynchronous, on local vectors and through Global::Vector
  { LVec v = mk(v0); gate.sync_0(v); cmp("sync_0", v, s0, 0.0); }
  { LVec v = mk(v0); { auto tk = gate.sync_0_async(v); vmpi::wait_ticket(tk); } cmp("sync_0_async", v, s0, 0.0); }
  { LVec v = mk(x); gate.sync_1(v); cmp("sync_1", v, x, tolv); }
  { LVec v = mk(x); { auto tk = gate.sync_1_async(v); vmpi::wait_ticket(tk); } cmp("sync_1_async", v, x, tolv); }
  { GVec g(&gate, mk(v0)); g.sync_0(); cmp("Vector::sync_0", g.local(), s0, 0.0); }
  { GVec g(&gate, mk(v0)); { auto tk = g.sync_0_async(); vmpi::wait_ticket(tk); } cmp("Vector::sync_0_async", g.local(), s0, 0.0); }
  { GVec g(&gate, mk(x)); g.sync_1(); cmp("Vector::sync_1", g.local(), x, tolv); }
  { GVec g(&gate, mk(x)); { auto tk = g.sync_1_async(); vmpi::wait_ticket(tk); } cmp("Vector::sync_1_async", g.local(), x, tolv); }
  // from_1_to_0 followed by sync_0 is sync_1
  { GVec g(&gate, mk(x)); g.from_1_to_0(); g.sync_0(); cmp("from_1_to_0+sync_0", g.local(), x, tolv); }

  // reductions of consistent vectors
  GVec gx(&gate, mk(x)), gy(&gate, mk(y));
  double mag = 0.0, mag2 = 0.0;
  for(std::size_t i = 0; i < x.size(); ++i) { mag += std::fabs(x[i] * y[i]); mag2 += x[i] * x[i]; }
  double g2[2] = {mag, mag2}, gm[2] = {0.0, 0.0};
  comm.allreduce(g2, gm, std::size_t(2), Dist::op_sum);
  const double nd = double(c["nd"].as_int() + 2);
  const double told = dyadic ? 0.0 : 16.0 * nd * EPS * gm[0], toln = dyadic ? 0.0 : 16.0 * nd * EPS * gm[1];
  const DT edot = DT(T_::scal(c, "dot")), enrm = DT(T_::scal(c, "nrm2"));
  auto num = [&](const std::string& what, DT got, DT exp, double tol)
  { if(!(std::fabs(got - exp) <= tol)) { char b[200]; std::snprintf(b, sizeof(b), " = %.17g expected %.17g", got, exp); fail(what + t + b); } };
  num("gate.dot", gate.dot(gx.local(), gy.local()), edot, told);
  { auto tk = gate.dot_async(gx.local(), gy.local()); num("gate.dot_async", tk.wait(), edot, told); }
  num("Vector::dot", gx.dot(gy), edot, told);
  { auto tk = gx.dot_async(gy); num("Vector::dot_async", tk.wait(), edot, told); }
  num("Vector::norm2sqr", gx.norm2sqr(), enrm, toln);
  { auto tk = gx.norm2sqr_async(); num("Vector::norm2sqr_async", tk.wait(), enrm, toln); }
  const double tols = dyadic ? 0.0 : 16.0 * nd * EPS * std::sqrt(gm[1]);
  num("Vector::norm2", gx.norm2(), std::sqrt(enrm), tols);
  { auto tk = gx.norm2_async(); num("Vector::norm2_async", tk.wait(), std::sqrt(enrm), tols); }
  num("Vector::max_abs_element", gx.max_abs_element(), DT(T_::scal(c, "maxabs")), 0.0);
  { auto tk = gx.max_abs_element_async(); num("Vector::max_abs_element_async", tk.wait(), DT(T_::scal(c, "maxabs")), 0.0); }
  num("Vector::min_abs_element", gx.min_abs_element(), DT(T_::scal(c, "minabs")), 0.0);
  { auto tk = gx.min_abs_element_async(); num("Vector::min_abs_element_async", tk.wait(), DT(T_::scal(c, "minabs")), 0.0); }
  // the reductions must not modify their arguments
  cmp("dot/norm frame", gx.local(), x, 0.0);
  // global sizes
  auto cnt = [&](const std::string& what, Index got, long long exp) { if((long long)got != exp) fail(what + t + " = " + std::to_string(got) + " expected " + std::to_string(exp)); };
  cnt("get_num_global_dofs<native>", gate.template get_num_global_dofs<LAFEM::Perspective::native>(), T_::nglob(c, false));
  cnt("get_num_global_dofs<pod>", gate.template get_num_global_dofs<LAFEM::Perspective::pod>(), T_::nglob(c, true));
  cnt("Vector::size<pod>", gx.size(), T_::nglob(c, true));
  cnt("Vector::size<native>", gx.template size<LAFEM::Perspective::native>(), T_::nglob(c, false));
}

// ---- scalar reductions --------------------------------------------------------------------------------------------------------------
static void test_scalars(const vj::Value& c, const Dist::Comm& comm, vmpi::Fail& fail)
{
  const int me = comm.rank(), nr = comm.size();
  Global::Gate<SVec, SMir> gate(comm);
  build_gate<TScalar>(gate, c, me, nr);
  const DT s = DT(c["sval"][key(me)].as_int());
  const DT esum = DT(c["ssum"].as_int()), emin = DT(c["smin"].as_int()), emax = DT(c["smax"].as_int()), enrm = std::sqrt(DT(c["ssq"].as_int()));
  auto num = [&](const std::string& what, DT got, DT exp) { if(got != exp) { char b[200]; std::snprintf(b, sizeof(b), " = %.17g expected %.17g", got, exp); fail(what + b); } };
  num("gate.sum", gate.sum(s), esum);
  num("gate.min", gate.min(s), emin);
  num("gate.max", gate.max(s), emax);
  num("gate.norm2", gate.norm2(s), enrm);
  { auto tk = gate.sum_async(s); num("gate.sum_async", tk.wait(), esum); }
  { auto tk = gate.sum_async(s * s, true); num("gate.sum_async(sqrt)", tk.wait(), enrm); }
  { auto tk = gate.min_async(s); num("gate.min_async", tk.wait(), emin); }
  { auto tk = gate.max_async(s); num("gate.max_async", tk.wait(), emax); }
  { auto tk = gate.norm2_async(s); num("gate.norm2_async", tk.wait(), enrm); }
  // several tickets in flight, completed in reverse order
  {
    auto t1 = gate.sum_async(s); auto t2 = gate.min_async(s); auto t3 = gate.max_async(s);
    const DT r3 = t3.wait(), r2 = t2.wait(), r1 = t1.wait();
    num("gate.sum_async(3 in flight)", r1, esum); num("gate.min_async(3 in flight)", r2, emin); num("gate.max_async(3 in flight)", r3, emax);
  }
}

// a pending ticket that is moved (move assignment into a default-constructed ticket variable, move construction) before wait():
// the result must still be the reduction result (probe cases only: see known finding C13-scalar-ticket-move)
static void test_ticket_move(const vj::Value& c, const Dist::Comm& comm, vmpi::Fail& fail)
{
  const int me = comm.rank(), nr = comm.size();
  Global::Gate<SVec, SMir> gate(comm);
  build_gate<TScalar>(gate, c, me, nr);
  const DT s = DT(c["sval"][key(me)].as_int());
  const DT esum = DT(c["ssum"].as_int()), emax = DT(c["smax"].as_int());
  auto num = [&](const std::string& what, DT got, DT exp) { if(got != exp) { char b[200]; std::snprintf(b, sizeof(b), " = %.17g expected %.17g", got, exp); fail(what + b); } };
  {
    Global::SynchScalarTicket<DT> t0 = gate.sum_async(s);     // stays alive until the end of the block
    Global::SynchScalarTicket<DT> tk;
    tk = std::move(t0);
    num("ticket_move_assign gate.sum_async", tk.wait(), esum);
  }
  {
    Global::SynchScalarTicket<DT> t0 = gate.max_async(s);
    Global::SynchScalarTicket<DT> t1(std::move(t0));
    num("ticket_move_construct gate.max_async", t1.wait(), emax);
  }
}

// ---- splitter -----------------------------------------------------------------------------------------------------------------------
template<typename T_, int BS_>
static void test_splitter(const vj::Value& c, const Dist::Comm& comm, bool dyadic, vmpi::Fail& fail)
{
  typedef typename T_::LVec LVec; typedef typename T_::Mir Mir;
  typedef Global::Gate<LVec, Mir> GateT; typedef Global::Vector<LVec, Mir> GVec;
  const int me = comm.rank(), nr = comm.size();
  const std::string t = "[" + T_::name() + "]";
  const int root = int(c["root"].as_int());
  const Index nd = Index(c["nd"].as_int()), nloc = Index(c["dofs"][key(me)].size());
  GateT gate(comm);
  build_gate<T_>(gate, c, me, nr);
  Global::Splitter<LVec, Mir> spl;
  if(me == root)
  {
    spl.set_base_vector_template(LVec(nd));
    for(int r = 0; r < nr; ++r)
    {
      const std::vector<long long> d = c["dofs"][key(r)].ints();
      Mir pm(nd, Index(d.size()));
      for(std::size_t i = 0; i < d.size(); ++i) pm.indices()[i] = IT(d[i] - 1);
      spl.push_patch(std::move(pm));
    }
  }
  spl.set_root(&comm, root, Mir::make_identity(nloc));
  spl.compile(LVec(nloc));
  if(spl.is_root() != (me == root)) fail("Splitter::is_root" + t);
  if(spl.is_single() != (nr == 1)) fail("Splitter::is_single" + t);

  const std::vector<DT> x = T_::expect(c, X, me);
  std::vector<DT> base; rows_flat(c[BS_ ? "baseb" : "base"], BS_, base);
  if(nr == 1) base = x;     // a single process: the "base" vector is the local vector
  std::vector<DT> bv; rows_flat(c[BS_ ? "bvb" : "bv"], BS_, bv);
  std::vector<DT> esplit; rows_flat(c[BS_ ? "splitb" : "split"][key(me)], BS_, esplit);
  const double tol = dyadic ? 0.0 : 8.0 * EPS;
  GVec gx(&gate, T_::tmpl(c, me)); T_::set(gx.local(), x);
  const GVec& cgx = gx;
  // join #1 (returns the base vector on the root)
  LVec b1 = spl.join(cgx);
  if(me == root && !close(T_::flat(b1), base, tol)) fail("Splitter::join" + t + " gives " + fstr(T_::flat(b1)) + " expected " + fstr(base));
  if(T_::flat(gx.local()) != x) fail("Splitter::join" + t + " modified its const input vector: " + fstr(T_::flat(gx.local())) + " was " + fstr(x));
  // join #2 into a pre-allocated base vector: same result
  LVec b2(nr == 1 ? nloc : (me == root ? nd : Index(0)));
  spl.join(b2, cgx);
  if(me == root && !close(T_::flat(b2), base, tol)) fail("Splitter::join(second call)" + t + " gives " + fstr(T_::flat(b2)) + " expected " + fstr(base));
  if(T_::flat(gx.local()) != x) fail("Splitter::join(second call)" + t + " modified its const input vector: " + fstr(T_::flat(gx.local())) + " was " + fstr(x));
  // the input is still the consistent vector: its global norm is unchanged
  {
    const DT en = DT(T_::scal(c, "nrm2")); const DT gn = gx.norm2sqr();
    if(!(std::fabs(gn - en) <= (dyadic ? 0.0 : 64.0 * EPS * (1.0 + en)))) fail("Splitter::join" + t + " norm2sqr of the input afterwards = " + std::to_string(gn) + " expected " + std::to_string(en));
  }
  // split of a base vector held by the root (nr == 1: the 'base' vector is the local vector)
  if(nr > 1)
  {
    LVec src(me == root ? nd : Index(0));
    if(me == root) T_::set(src, bv);
    GVec gz(&gate, T_::tmpl(c, me)); gz.format(DT(-77));
    spl.split(gz, src);
    if(T_::flat(gz.local()) != esplit) fail("Splitter::split" + t + " gives " + fstr(T_::flat(gz.local())) + " expected " + fstr(esplit));
    if(me == root && T_::flat(src) != bv) fail("Splitter::split" + t + " modified the base vector");
    // split(join(x)) = x
    LVec z2 = T_::tmpl(c, me); z2.format(DT(-77));
    spl.split(z2, b1);
    if(!close(T_::flat(z2), x, tol)) fail("Splitter::split(join(x))" + t + " gives " + fstr(T_::flat(z2)) + " expected " + fstr(x));
  }
}

// ---- filters ----------------------------------------------------------------------------------------------------------------------------
static void test_filters(const vj::Value& c, const Dist::Comm& comm, bool dyadic, vmpi::Fail& fail)
{
  const int me = comm.rank(), nr = comm.size();
  typedef Global::Gate<SVec, SMir> GateT; typedef Global::Vector<SVec, SMir> GVec;
  GateT gate(comm);
  build_gate<TScalar>(gate, c, me, nr);
  const std::vector<long long> mine = c["dofs"][key(me)].ints(), fd = c["fdofs"][key(me)].ints(), fv = c["fvals"][key(me)].ints();
  const Index nloc = Index(mine.size());
  const std::vector<DT> x = TScalar::expect(c, X, me);
  auto mk = [&]() { GVec g(&gate, SVec(nloc)); TScalar::set(g.local(), x); return g; };
  auto cmp = [&](const std::string& what, const SVec& got, const char* f, double tol)
  { std::vector<DT> e; rows_flat(c[f][key(me)], 0, e); if(!close(TScalar::flat(got), e, tol)) fail(what + " gives " + fstr(TScalar::flat(got)) + " expected " + fstr(e)); };
  {
    Global::Filter<LAFEM::UnitFilter<DT, IT>, SMir> gf(nloc);
    for(std::size_t k = 0; k < fd.size(); ++k) gf.local().add(IT(std::find(mine.begin(), mine.end(), fd[k]) - mine.begin()), DT(fv[k]));
    { GVec g = mk(); gf.filter_sol(g); cmp("Filter<UnitFilter>::filter_sol", g.local(), "fsol", 0.0); g.sync_1(); cmp("Filter<UnitFilter>::filter_sol+sync_1", g.local(), "fsol", dyadic ? 0.0 : 8.0 * EPS); }
    { GVec g = mk(); gf.filter_rhs(g); cmp("Filter<UnitFilter>::filter_rhs", g.local(), "fsol", 0.0); }
    { GVec g = mk(); gf.filter_def(g); cmp("Filter<UnitFilter>::filter_def", g.local(), "fdef", 0.0); }
    { GVec g = mk(); gf.filter_cor(g); cmp("Filter<UnitFilter>::filter_cor", g.local(), "fdef", 0.0); }
    auto gf2 = gf.clone(LAFEM::CloneMode::Deep);
    { GVec g = mk(); gf2.filter_cor(g); cmp("Filter<UnitFilter>::clone.filter_cor", g.local(), "fdef", 0.0); }
  }
  {
    std::vector<DT> pw, dw; rows_flat(c["pw"][key(me)], 0, pw); rows_flat(c["dw"][key(me)], 0, dw);
    SVec vp(nloc), vd(nloc); TScalar::set(vp, pw); TScalar::set(vd, dw);
    Global::MeanFilter<DT, IT> mf(std::move(vp), std::move(vd), gate.get_freqs().clone(LAFEM::CloneMode::Deep), &comm);
    const DT vol = DT(c["mvol"].as_int()), mag = DT(c["mmag"].as_int());
    const double tol = (dyadic ? 8.0 : 64.0) * EPS * mag;      // |vol * result - numerator| with one division and one axpy
    if(!(std::fabs(mf.get_volume() - vol) <= (dyadic ? 0.0 : 32.0 * EPS * vol))) fail("MeanFilter volume = " + std::to_string(mf.get_volume()) + " expected " + std::to_string(vol));
    auto cmpm = [&](const std::string& what, const SVec& got, const char* f)
    {
      std::vector<DT> e; rows_flat(c[f][key(me)], 0, e);
      for(Index i = 0; i < nloc; ++i) if(!(std::fabs(got(i) * vol - e[i]) <= tol)) { fail(what + " gives vol*" + fstr(TScalar::flat(got)) + " expected " + fstr(e)); break; }
    };
    { SVec g(nloc); TScalar::set(g, x); mf.filter_sol(g); cmpm("MeanFilter::filter_sol", g, "msol"); }
    { SVec g(nloc); TScalar::set(g, x); mf.filter_cor(g); cmpm("MeanFilter::filter_cor", g, "msol"); }
    { SVec g(nloc); TScalar::set(g, x); mf.filter_rhs(g); cmpm("MeanFilter::filter_rhs", g, "mrhs"); }
    { SVec g(nloc); TScalar::set(g, x); mf.filter_def(g); cmpm("MeanFilter::filter_def", g, "mrhs"); }
    // through the Global::Filter wrapper
    Global::Filter<Global::MeanFilter<DT, IT>, SMir> gmf(mf.clone());
    { GVec g = mk(); gmf.filter_sol(g); cmpm("Filter<MeanFilter>::filter_sol", g.local(), "msol"); }
  }
}

// ---- muxer ----------------------------------------------------------------------------------------------------------------------------------
template<typename T_, int BS_>
static void test_muxer(const vj::Value& c, const Dist::Comm& comm, const Dist::Comm& sib, vmpi::Fail& fail)
{
  typedef typename T_::LVec LVec; typedef SMir Mir;
  const int me = comm.rank();
  const std::string t = "[" + T_::name() + "]";
  const Index np = Index(c["np"].as_int());
  const int prank = int(c["prank"][key(me)].as_int()), srank = int(c["srank"][key(me)].as_int());
  const std::vector<long long> mine = c["cdofs"][key(me)].ints(), members = c["members"][key(me)].ints();
  const Index nloc = Index(mine.size());
  if(sib.rank() != srank || sib.size() != int(members.size())) { fail("harness: sibling communicator does not match the case"); return; }
  const bool parent = (srank == prank);
  Global::Muxer<LVec, Mir> mux;
  mux.set_parent(&sib, prank, Mir::make_identity(nloc));
  if(parent)
    for(long long m : members)
    {
      const std::vector<long long> d = c["cdofs"][key(int(m))].ints();
      Mir cm(np, Index(d.size()));
      for(std::size_t i = 0; i < d.size(); ++i) cm.indices()[i] = IT(d[i] - 1);
      mux.push_child(std::move(cm));
    }
  mux.compile(LVec(nloc));
  if(mux.is_parent() != parent) fail("Muxer::is_parent" + t);
  if(mux.is_ghost() != !parent) fail("Muxer::is_ghost" + t);
  std::vector<DT> cv, pv, ej, es;
  rows_flat(c["cv"][key(me)], BS_ ? BS_ : 1, cv); rows_flat(c["pv"][key(me)], BS_ ? BS_ : 1, pv);
  rows_flat(c["join"][key(me)], BS_ ? BS_ : 1, ej); rows_flat(c["split"][key(me)], BS_ ? BS_ : 1, es);
  LVec child(nloc); T_::set(child, cv);
  const LVec& cchild = child;
  for(int pass = 0; pass < 2; ++pass)
  {
    if(parent)
    {
      LVec trg(np); trg.format(DT(-77));
      mux.join(cchild, trg);
      if(T_::flat(trg) != ej) fail(std::string("Muxer::join") + (pass ? "(second call)" : "") + t + " gives " + fstr(T_::flat(trg)) + " expected " + fstr(ej));
    }
    else mux.join_send(cchild);
    if(T_::flat(child) != cv) fail("Muxer::join/join_send" + t + " modified the child vector");
  }
  {
    LVec trg(nloc); trg.format(DT(-77));
    if(parent)
    {
      LVec src(np); T_::set(src, pv);
      mux.split(trg, src);
      if(T_::flat(src) != pv) fail("Muxer::split" + t + " modified the parent vector");
    }
    else mux.split_recv(trg);
    if(T_::flat(trg) != es) fail(std::string("Muxer::") + (parent ? "split" : "split_recv") + t + " gives " + fstr(T_::flat(trg)) + " expected " + fstr(es));
  }
}

static std::string run_case(const vj::Value& c, const Dist::Comm& comm)
{
  vmpi::Fail fail(comm.rank());
  const std::string kind = c["kind"].as_str();
  const int nr = comm.size(), me = comm.rank();
  if(kind == "vec" || kind == "asyncprobe" || kind == "ticketprobe")
  {
    bool dyadic = true;
    for(int r = 0; r < nr; ++r) for(long long n : c["count"][key(r)].ints()) if(!vmpi::pow2(n)) dyadic = false;
    if(kind == "asyncprobe")
    {
      Global::Gate<SVec, SMir> gate(comm);
      build_gate<TScalar>(gate, c, me, nr);
      std::vector<DT> e0 = TScalar::expect(c, SYNC0, me), x = TScalar::expect(c, X, me);
      { SVec v(Index(e0.size())); TScalar::set(v, TScalar::expect(c, V0, me)); { auto tk = gate.sync_0_async(v); vmpi::wait_ticket(tk, true); } if(TScalar::flat(v) != e0) fail("asyncprobe sync_0_async gives " + fstr(TScalar::flat(v)) + " expected " + fstr(e0)); }
      { SVec v(Index(x.size())); TScalar::set(v, x); { auto tk = gate.sync_1_async(v); vmpi::wait_ticket(tk, true); } if(!close(TScalar::flat(v), x, dyadic ? 0.0 : 8.0 * EPS)) fail("asyncprobe sync_1_async gives " + fstr(TScalar::flat(v)) + " expected " + fstr(x)); }
      return fail.why;
    }
    if(kind == "ticketprobe") { test_ticket_move(c, comm, fail); return fail.why; }
    test_gate<TScalar>(c, comm, dyadic, fail);
    test_gate<TBlocked<2>>(c, comm, dyadic, fail);
    test_gate<TBlocked<3>>(c, comm, dyadic, fail);
    test_gate<TTuple>(c, comm, dyadic, fail);
    test_scalars(c, comm, fail);
    test_splitter<TScalar, 0>(c, comm, dyadic, fail);
    test_splitter<TBlocked<2>, 2>(c, comm, dyadic, fail);
    test_filters(c, comm, dyadic, fail);
  }
  else if(kind == "mux")
  {
    Dist::Comm sib = comm.comm_split(int(c["grp"][key(me)].as_int()), me);
    test_muxer<TScalar, 0>(c, comm, sib, fail);
    test_muxer<TBlocked<2>, 2>(c, comm, sib, fail);
  }
  else fail("harness: unknown case kind " + kind);
  return fail.why;
}

int main(int argc, char** argv) { return vmpi::main_loop(argc, argv, &run_case); }
