// C12 harness (direction V), meshes whose WORLD dimension exceeds the SHAPE dimension: ConformalMesh<Shape_, wdim_> with
// wdim_ > Shape_::dimension - quadrilateral / triangle surface meshes in 3D, edge meshes in 2D and 3D (spec/PartitionGenEmbed.tla
// enumerates the base meshes, spec/PartitionGen.tla the cell -> rank assignments).  Same route and same dump as
// harness/c12_parti.cpp for an explicit assignment: extract_patch(comm_ranks, elems_at_rank, rank) for EVERY rank on one base
// RootMeshNode, 0..2 joint refinements of the base node and all patch nodes, per level the base mesh with the patch mesh parts
// (patch -> base maps) and every patch mesh with ALL its world coordinates, split mesh parts, comm ranks and halos.
// TLC judges the dump against spec/Partition.tla (spec/PartitionCheck.tla); PatchIsSubmesh compares every coordinate of every
// patch vertex with the base vertex it maps to.
// A patch coordinate that is not an integer of the common scale 2^K (garbage) is dumped as the sentinel 2^30-1, which no base
// coordinate can take - the specification, not the harness, then rejects the case.
#include "vmesh.hpp"

using namespace vm;

template<class Shape_, int wdim_> using MeshW = Geometry::ConformalMesh<Shape_, wdim_, double>;
static constexpr long long SENTINEL = 1073741823ll;

// raw: {"X":[[ints]],"cs":k,"cells":[[v..]],"wdim":w}  ->  mesh via a Factory (vertices-at-cell + RedundantIndexSetBuilder)
template<class Shape_, int wdim_> class RawFactoryW : public Geometry::Factory<MeshW<Shape_, wdim_>>
{
public:
  typedef MeshW<Shape_, wdim_> MeshType;
  static constexpr int dim = Shape_::dimension;
  std::vector<std::vector<long long>> X, C; int cs; Index ne[4];
  explicit RawFactoryW(const vj::Value& raw) : X(raw["X"].int_rows()), C(raw["cells"].int_rows()), cs((int)raw.get_int("cs", 0))
  {
    ne[0] = Index(X.size()); ne[1] = ne[2] = ne[3] = 0; ne[dim] = Index(C.size());
  }
  virtual Index get_num_entities(int d) override { return ne[d]; }
  virtual void fill_vertex_set(typename MeshType::VertexSetType& vs) override
  {
    for(std::size_t i(0); i < X.size(); ++i)
    {
      if(int(X[i].size()) != wdim_) throw std::runtime_error("raw mesh: a point does not have wdim coordinates");
      for(int k(0); k < wdim_; ++k) vs[Index(i)][k] = std::ldexp(double(X[i][std::size_t(k)]), -cs);
    }
  }
  virtual void fill_index_sets(typename MeshType::IndexSetHolderType& ish) override
  {
    auto& is = ish.template get_index_set<dim, 0>();
    for(std::size_t i(0); i < C.size(); ++i)
    {
      if(int(C[i].size()) != is.get_num_indices()) throw std::runtime_error("raw mesh: bad cell size");
      for(int k(0); k < is.get_num_indices(); ++k) is[Index(i)][k] = Index(C[i][std::size_t(k)]);
    }
    if constexpr (dim >= 2)
    {
      Geometry::RedundantIndexSetBuilder<Shape_>::compute(ish);
      ne[1] = ish.template get_index_set<1, 0>().get_num_entities();
    }
  }
};

// coordinates x * 2^K of a PATCH mesh: anything that is not an integer below the sentinel is dumped as the sentinel
template<class Mesh_> long long put_coords_s(FILE* f, const Mesh_& m, int K)
{
  const auto& vs = m.get_vertex_set();
  long long nbad = 0;
  std::fputc('[', f);
  for(Index i(0); i < vs.get_num_vertices(); ++i)
  {
    std::fputs(i ? ",[" : "[", f);
    for(int k(0); k < Mesh_::world_dim; ++k)
    {
      const double s = std::ldexp(double(vs[i][k]), K);
      long long v = SENTINEL;
      if(std::isfinite(s) && s == std::floor(s) && std::fabs(s) < double(SENTINEL)) v = (long long)std::llround(s); else ++nbad;
      std::fprintf(f, k ? ",%lld" : "%lld", v);
    }
    std::fputc(']', f);
  }
  std::fputc(']', f);
  return nbad;
}

template<class Mesh_>
long long put_level_s(FILE* f, const Mesh_& m, int K, const std::vector<std::pair<std::string, const Geometry::MeshPart<Mesh_>*>>& parts)
{
  constexpr int dim = Mesh_::shape_dim;
  std::fputs("{\"n\":[", f);
  for(int d(0); d <= dim; ++d) std::fprintf(f, d ? ",%llu" : "%llu", (unsigned long long)m.get_num_entities(d));
  std::fputs("],\"X\":", f);
  const long long nbad = put_coords_s(f, m, K);
  std::fputs(",\"idx\":", f); put_ish<dim>(f, m.get_index_set_holder());
  std::fputs(",\"parts\":[", f);
  bool first = true;
  for(const auto& np : parts)
  {
    if(np.second == nullptr) continue;
    if(!first) std::fputc(',', f);
    first = false;
    put_part(f, np.first, *np.second);
  }
  std::fputs("]}", f);
  return nbad;
}

template<class Shape_, int wdim_> vj::Value run_embed(const vj::Value& c)
{
  typedef MeshW<Shape_, wdim_> MeshType;
  typedef Geometry::MeshPart<MeshType> PartType;
  typedef Geometry::RootMeshNode<MeshType> NodeType;
  typedef std::vector<std::pair<std::string, const PartType*>> PartList;
  constexpr int dim = Shape_::dimension;
  static_assert(MeshType::world_dim == wdim_ && MeshType::shape_dim == dim, "mesh type");
  const int L = (int)c.get_int("nref", 1);
  const int pre = (int)c.get_int("prerefine", 0);
  const vj::Value& pa = c["parti"];
  if(pa["kind"].as_str() != "explicit") return vh::bad("c12_embed: only explicit assignments");

  std::unique_ptr<NodeType> base;
  {
    RawFactoryW<Shape_, wdim_> fac(c["src"]["raw"]);
    base = NodeType::make_unique(fac.make_unique());
  }
  bool has_bnd = false;
  if(c.get_int("bndpart", 0) != 0)
  {
    Geometry::BoundaryFactory<MeshType> bf(*base->get_mesh());
    auto bp = bf.make_unique();
    has_bnd = (bp->get_num_entities(0) > Index(0));
    if(has_bnd) base->add_mesh_part("vbnd", std::move(bp));       // closed surfaces / loops have no boundary
  }
  for(int l(0); l < pre; ++l) base = base->refine_unique(Geometry::AdaptMode::none);
  MeshType& bmesh = *base->get_mesh();

  const auto ranks = pa["ranks"].int_rows();
  Index tot = 0; for(const auto& r : ranks) tot += Index(r.size());
  Adjacency::Graph graph(Index(ranks.size()), bmesh.get_num_elements(), tot);
  {
    Index* ptr = graph.get_domain_ptr(); Index* idx = graph.get_image_idx();
    Index k = 0; ptr[0] = 0;
    for(std::size_t r(0); r < ranks.size(); ++r) { for(long long e : ranks[r]) idx[k++] = Index(e); ptr[r + 1] = k; }
  }
  const Index nranks = graph.get_num_nodes_domain();
  for(Index r(0); r < nranks; ++r) if(graph.degree(r) == 0) return vh::bad("c12_embed: empty patch requested (outside the enabling condition)");

  std::vector<std::string> fnames;
  for(const auto& nm : base->get_mesh_part_names(true)) fnames.push_back(nm);

  // ---- extraction ----
  std::vector<std::unique_ptr<NodeType>> patches(nranks);
  std::vector<std::vector<int>> comm(nranks);
  for(Index r(0); r < nranks; ++r)
    patches[r] = base->extract_patch(comm[r], graph, int(r));

  // ---- joint refinement ----
  std::vector<std::unique_ptr<NodeType>> bases; std::vector<std::vector<std::unique_ptr<NodeType>>> plev;
  bases.push_back(std::move(base)); plev.push_back(std::move(patches));
  for(int l(0); l < L; ++l)
  {
    bases.push_back(bases.back()->refine_unique(Geometry::AdaptMode::none));
    std::vector<std::unique_ptr<NodeType>> np(nranks);
    for(Index r(0); r < nranks; ++r) np[r] = plev.back()[r]->refine_unique(Geometry::AdaptMode::none);
    plev.push_back(std::move(np));
  }
  const int K = min_scale(*bases.back()->get_mesh(), 40);
  if(K < 0) return vh::bad("refined base coordinates are not exact dyadic averages of the coarse ones");

  // ---- dump ----
  const std::string out = c["out"].as_str();
  FILE* f = std::fopen(out.c_str(), "w");
  if(!f) throw std::runtime_error("cannot write " + out);
  bool exact = true;
  long long garbage = 0, pverts = 0;
  std::fputs("{\"id\":", f); put_str(f, c["id"].as_str());
  std::fprintf(f, ",\"fam\":\"%s\",\"dim\":%d,\"wdim\":%d,\"K\":%d,\"nranks\":%llu,\"assign\":[", Fam<Shape_>::name(), dim, wdim_, K, (unsigned long long)nranks);
  for(Index r(0); r < nranks; ++r)
  {
    std::fputs(r ? ",[" : "[", f);
    bool first = true;
    for(auto it = graph.image_begin(r); it != graph.image_end(r); ++it) { std::fprintf(f, first ? "%llu" : ",%llu", (unsigned long long)*it); first = false; }
    std::fputc(']', f);
  }
  std::fprintf(f, "],\"parti\":{\"kind\":\"explicit\",\"n\":%llu,\"success\":true,\"level\":0,\"ncoarse\":%llu,\"ncells\":%llu,\"graph_cells\":%llu},\"levels\":[",
    (unsigned long long)nranks, (unsigned long long)bmesh.get_num_elements(), (unsigned long long)bmesh.get_num_elements(), (unsigned long long)graph.get_num_nodes_image());
  for(std::size_t l(0); l < bases.size(); ++l)
  {
    if(l) std::fputc(',', f);
    const NodeType& b = *bases[l];
    PartList bp;
    for(Index r(0); r < nranks; ++r) bp.emplace_back("p" + std::to_string(r), b.get_patch(int(r)));
    for(const auto& nm : fnames) bp.emplace_back(nm, b.find_mesh_part(nm));
    for(const auto& x : bp) if(x.second == nullptr) { std::fclose(f); return vh::bad("mesh part " + x.first + " missing on level " + std::to_string(l)); }
    std::fputs("{\"base\":", f);
    exact = put_level(f, *b.get_mesh(), K, bp, false) && exact;
    std::fputs(",\"patches\":[", f);
    for(Index r(0); r < nranks; ++r)
    {
      if(r) std::fputc(',', f);
      const NodeType& p = *plev[l][r];
      PartList pp;
      for(const auto& nm : fnames) pp.emplace_back(nm, p.find_mesh_part(nm));
      std::fprintf(f, "{\"rank\":%llu,\"mesh\":", (unsigned long long)r);
      garbage += put_level_s(f, *p.get_mesh(), K, pp);
      pverts += (long long)p.get_mesh()->get_num_entities(0);
      std::fputs(",\"comm\":[", f);
      for(std::size_t i(0); i < comm[r].size(); ++i) std::fprintf(f, i ? ",%d" : "%d", comm[r][i]);
      std::fputs("],\"halos\":[", f);
      bool first = true;
      for(const auto& h : p.get_halo_map())
      {
        if(!first) std::fputc(',', f);
        first = false;
        std::fprintf(f, "{\"rank\":%d,\"t\":", h.first);
        if(h.second) put_tsh<dim>(f, h.second->get_target_set_holder()); else std::fputs("null", f);
        std::fputc('}', f);
      }
      std::fputs("]}", f);
    }
    std::fputs("]}", f);
  }
  std::fputs("]}\n", f);
  std::fclose(f);
  if(!exact) return vh::bad("a base coordinate left the integer domain at scale 2^K");
  vj::Value r = vh::ok();
  r["success"] = true; r["nranks"] = (long long)nranks; r["cells"] = (long long)bases.back()->get_mesh()->get_num_elements();
  r["patch_vertices"] = pverts; r["sentinels"] = garbage; r["has_bnd"] = has_bnd;
  return r;
}

vj::Value run_case(const vj::Value& c)
{
  const std::string fam = c["fam"].as_str(); const int dim = (int)c["dim"].as_int(); const int w = (int)c["wdim"].as_int();
  if(fam == "hypercube" && dim == 2 && w == 3) return run_embed<Shape::Hypercube<2>, 3>(c);
  if(fam == "simplex" && dim == 2 && w == 3) return run_embed<Shape::Simplex<2>, 3>(c);
  if(fam == "hypercube" && dim == 1 && w == 2) return run_embed<Shape::Hypercube<1>, 2>(c);
  if(fam == "hypercube" && dim == 1 && w == 3) return run_embed<Shape::Hypercube<1>, 3>(c);
  return vh::bad("unsupported shape / world dimension");
}

int main(int argc, char** argv) { return vh::main_loop(argc, argv); }
