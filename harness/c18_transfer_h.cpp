#define C18_ONLY_HYPERCUBE
#include "c18_transfer.cpp"
