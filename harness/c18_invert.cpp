// C18 harness for Math::invert_matrix (direction G, spec/InvertMatrix.tla): the matrix a (unimodular, small integers) and its integer
// inverse come from the specification.  For every exponent s of the list the harness inverts 2^s * a and compares with 2^-s * inv:
//   InvertExact       |result * 2^s - inv| <= tol * max|inv|   (tol 1e-12 double, 1e-5 float; pivots need not be powers of two)
//   InvertScaleFree   result(2^s a) * 2^s == result(a) bitwise  (no absolute thresholds in the elimination)
#include "vharness.hpp"
#include <kernel/util/math.hpp>
#include <cmath>

using namespace FEAT;
static const int SCALES[] = {0, -40, -27, -13, 7, 20, 40};

template<class DT_> vj::Value run_type(const vj::Value& c, const char* tname, double tol, int smax)
{
  const int n = (int)c["n"].as_int();
  std::vector<DT_> base;
  for(int s : SCALES)
  {
    if(std::abs(s) > smax) continue;
    DT_ a[9]; int piv[3];
    double maxinv = 0;
    for(int i(0); i < n; ++i) for(int j(0); j < n; ++j)
    {
      a[i * n + j] = DT_(std::ldexp(double(c["a"][std::size_t(i)][std::size_t(j)].as_int()), s));
      maxinv = std::max(maxinv, std::fabs(double(c["inv"][std::size_t(i)][std::size_t(j)].as_int())));
    }
    Math::invert_matrix(n, n, a, piv);
    std::vector<DT_> res(std::size_t(n * n));
    for(int k(0); k < n * n; ++k) res[std::size_t(k)] = DT_(std::ldexp(double(a[k]), s));
    for(int i(0); i < n; ++i) for(int j(0); j < n; ++j)
    {
      const double ex = double(c["inv"][std::size_t(i)][std::size_t(j)].as_int());
      if(!(std::fabs(double(res[std::size_t(i * n + j)]) - ex) <= tol * maxinv))
      {
        vj::Value r = vh::bad(std::string("InvertExact: ") + tname + " inverse of 2^" + std::to_string(s) + " * a differs from 2^-s * a^-1 at (" + std::to_string(i) + "," + std::to_string(j) + ")");
        r["pred"] = "InvertExact"; r["type"] = tname; r["scale"] = s; r["exp"] = ex; r["got"] = double(res[std::size_t(i * n + j)]); return r;
      }
    }
    if(s == 0) base = res;
    else
      for(int k(0); k < n * n; ++k)
        if(!(res[std::size_t(k)] == base[std::size_t(k)]))
        {
          vj::Value r = vh::bad(std::string("InvertScaleFree: ") + tname + " inverse of 2^" + std::to_string(s) + " * a is not the scaled inverse of a (entry " + std::to_string(k) + ")");
          r["pred"] = "InvertScaleFree"; r["type"] = tname; r["scale"] = s; r["exp"] = double(base[std::size_t(k)]); r["got"] = double(res[std::size_t(k)]); return r;
        }
  }
  return vh::ok();
}

vj::Value run_case(const vj::Value& c)
{
  vj::Value r = run_type<double>(c, "double", 1e-12, 40);
  if(r["ok"].as_bool() != true) return r;
  return run_type<float>(c, "float", 1e-5, 27);
}

int main(int argc, char** argv) { return vh::main_loop(argc, argv); }
