// C16 harness, 3D hexahedral meshes, all pair families, scalar routes (see common/vasm16.hpp, vasm16_scalar.hpp)
#define C16_SAME 1
#define C16_MIXED 1
#include "vasm16_scalar.hpp"
vj::Value run_case(const vj::Value& c) { return va::run_scalar_case<FEAT::Shape::Hypercube<3>>(c); }
int main(int argc, char** argv) { return vh::main_loop(argc, argv); }
