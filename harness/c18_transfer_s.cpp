#define C18_ONLY_SIMPLEX
#include "c18_transfer.cpp"
