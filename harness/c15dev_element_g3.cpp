#define C15_GROUP 3
#include "c15dev_element.cpp"
