// C09 (V, transfer operators): "using the given ... transfer operators" for the transfer classes multigrid is
// really used with - LAFEM::Transfer after a data/index type conversion and Global::Transfer (with and without a
// coarse-level muxer) - on the Q1 Poisson hierarchy of the refined unit square (built as in tutorial_05).
//
// A case {"lmax":n,"lmin":1,"steps":s,"seed":k,"runs":[{"cyc":0|1|2,"adapt":0|1|2,"peak":bool}...]} builds the
// reference hierarchy (double/Index, LAFEM::Transfer with prolongation P, restriction R = P^T and a truncation
// matrix T = R/4 that differs from R) and the variants
//   "index"         every matrix / filter / transfer CONVERTED to double/unsigned int
//   "float"         ... converted to float/unsigned int
//   "global"        Global::Matrix/Vector/Filter/Transfer over one process, no coarse muxer
//   "global-muxer"  ... with a coarse muxer in which this process is child and parent (size-1 sibling
//                   communicator): Global::Transfer goes through its temporary vector and Muxer::join / split
//   "clone"         double/Index hierarchy whose LAFEM::Transfer objects went through clone (modes rotating with the
//                   level) -> move construction -> move assignment (even levels) or two more clones (odd levels), the
//                   source objects destroyed
//   "global-clone"  the "global-muxer" hierarchy whose Global::Transfer objects went through clone -> move (-> clone -> clone)
// and applies one multigrid cycle of every run to the same defect on each of them.  Reported per (variant, run):
//   dev      max|cor_variant - cor_reference| / max|cor_reference| in units of the variant's machine epsilon (ceil),
//   calls    smoother / coarse solver calls as logged by FEAT's Statistics expressions (kind*16 + level),
// and per converted variant whether prol / rest / trunc of the CONVERTED transfer object map small-integer vectors
// like the ORIGINAL transfer's matrices (structure and converted values identical, products within the rounding bound of one scalar product).
// spec/MGCycleXfer.tla holds the contract (dev = 0 where only the index type / the container layer changes,
// dev <= FloatBound for float; documented call sequence; transfer operations agree).
#include "vharness.hpp"
#include <kernel/geometry/boundary_factory.hpp>
#include <kernel/geometry/conformal_mesh.hpp>
#include <kernel/geometry/common_factories.hpp>
#include <kernel/geometry/mesh_part.hpp>
#include <kernel/trafo/standard/mapping.hpp>
#include <kernel/space/lagrange1/element.hpp>
#include <kernel/cubature/dynamic_factory.hpp>
#include <kernel/assembly/symbolic_assembler.hpp>
#include <kernel/assembly/unit_filter_assembler.hpp>
#include <kernel/assembly/domain_assembler.hpp>
#include <kernel/assembly/domain_assembler_helpers.hpp>
#include <kernel/assembly/common_operators.hpp>
#include <kernel/assembly/grid_transfer.hpp>
#include <kernel/lafem/dense_vector.hpp>
#include <kernel/lafem/sparse_matrix_csr.hpp>
#include <kernel/lafem/unit_filter.hpp>
#include <kernel/lafem/transfer.hpp>
#include <kernel/lafem/vector_mirror.hpp>
#include <kernel/global/gate.hpp>
#include <kernel/global/vector.hpp>
#include <kernel/global/matrix.hpp>
#include <kernel/global/filter.hpp>
#include <kernel/global/muxer.hpp>
#include <kernel/global/transfer.hpp>
#include <kernel/solver/richardson.hpp>
#include <kernel/solver/jacobi_precond.hpp>
#include <kernel/solver/multigrid.hpp>
#include <kernel/util/statistics.hpp>
#include <kernel/util/dist.hpp>
#include <deque>
#include <limits>
#include <memory>

using namespace FEAT;

namespace
{
  typedef Shape::Quadrilateral ShapeType;
  typedef Geometry::ConformalMesh<ShapeType> MeshType;
  typedef Geometry::MeshPart<MeshType> MeshPartType;
  typedef Trafo::Standard::Mapping<MeshType> TrafoType;
  typedef Space::Lagrange1::Element<TrafoType> SpaceType;

  // one level in data type DT / index type IT
  template<class DT, class IT>
  struct LevelData
  {
    typedef LAFEM::SparseMatrixCSR<DT, IT> MatrixType;
    typedef LAFEM::DenseVector<DT, IT> VectorType;
    typedef LAFEM::UnitFilter<DT, IT> FilterType;
    typedef LAFEM::Transfer<MatrixType> TransferType;
    MatrixType matrix; FilterType filter; TransferType transfer;
  };
  typedef LevelData<double, Index> RefLevel;

  struct Assembled
  {
    MeshType mesh; TrafoType trafo; SpaceType space; Assembly::DomainAssembler<TrafoType> domain_assembler;
    explicit Assembled(Geometry::Factory<MeshType>& f) : mesh(f), trafo(mesh), space(trafo), domain_assembler(trafo) {}
  };

  // pass-through solver with a name that identifies role and level in the Statistics expression log
  template<class Vec>
  struct Named : public Solver::SolverBase<Vec>
  {
    std::shared_ptr<Solver::SolverBase<Vec>> s; String nm;
    Named(std::shared_ptr<Solver::SolverBase<Vec>> ss, int kind, int level) : s(ss), nm("C09@" + stringify(kind * 16 + level)) {}
    virtual String name() const override { return nm; }
    virtual void init_symbolic() override { s->init_symbolic(); }
    virtual void init_numeric() override { s->init_numeric(); }
    virtual void done_numeric() override { s->done_numeric(); }
    virtual void done_symbolic() override { s->done_symbolic(); }
    virtual Solver::Status apply(Vec& c, const Vec& d) override { return s->apply(c, d); }
  };
  // a local solver applied to the local parts of global vectors (single process)
  template<class GVec, class LVec>
  struct LocalAsGlobal : public Solver::SolverBase<GVec>
  {
    std::shared_ptr<Solver::SolverBase<LVec>> s;
    explicit LocalAsGlobal(std::shared_ptr<Solver::SolverBase<LVec>> ss) : s(ss) {}
    virtual String name() const override { return "LocalAsGlobal"; }
    virtual void init_symbolic() override { s->init_symbolic(); }
    virtual void init_numeric() override { s->init_numeric(); }
    virtual void done_numeric() override { s->done_numeric(); }
    virtual void done_symbolic() override { s->done_symbolic(); }
    virtual Solver::Status apply(GVec& c, const GVec& d) override { return s->apply(c.local(), d.local()); }
  };

  // smoother / coarse solver on a local level: `steps` damped Jacobi steps
  template<class DT, class IT>
  std::shared_ptr<Solver::SolverBase<LAFEM::DenseVector<DT, IT>>> make_jacobi(const LevelData<DT, IT>& lvl, double omega, Index steps)
  {
    auto jac = Solver::new_jacobi_precond(lvl.matrix, lvl.filter);
    auto ri = Solver::new_richardson(lvl.matrix, lvl.filter, DT(omega), jac);
    ri->set_max_iter(steps); ri->set_min_iter(steps);
    return ri;
  }

  struct RunCfg { int cyc, adapt; bool peak; };

  // the converted matrix has the structure of the original and its values converted entry by entry
  template<class DT, class IT>
  bool same_matrix(const LAFEM::SparseMatrixCSR<DT, IT>& m, const LAFEM::SparseMatrixCSR<double, Index>& r)
  {
    if(m.rows() != r.rows() || m.columns() != r.columns() || m.used_elements() != r.used_elements()) return false;
    for(Index i = 0; i <= r.rows(); ++i) if(Index(m.row_ptr()[i]) != r.row_ptr()[i]) return false;
    for(Index k = 0; k < r.used_elements(); ++k) if(Index(m.col_ind()[k]) != r.col_ind()[k] || m.val()[k] != DT(r.val()[k])) return false;
    return true;
  }
  // w == r x within the rounding bound (k+2) eps sum|a||x| of a k-term scalar product in the variant's data type
  // (x holds small integers; the expected product is computed here from the original CSR arrays)
  template<class DT, class IT>
  bool same_product(const LAFEM::DenseVector<DT, IT>& w, const LAFEM::SparseMatrixCSR<double, Index>& r, const std::vector<double>& x)
  {
    if(w.size() != r.rows() || x.size() != r.columns()) return false;
    const double eps = double(std::numeric_limits<DT>::epsilon());
    for(Index i = 0; i < r.rows(); ++i)
    {
      long double y = 0.0L, mag = 0.0L;
      for(Index k = r.row_ptr()[i]; k < r.row_ptr()[i + 1]; ++k) { y += (long double)r.val()[k] * x[r.col_ind()[k]]; mag += std::fabs((long double)r.val()[k] * x[r.col_ind()[k]]); }
      const long double tol = (long double)(double(r.row_ptr()[i + 1] - r.row_ptr()[i]) + 2.0) * eps * mag;
      const long double d = std::fabs((long double)w(i) - y);
      if(!(d <= tol)) return false;
    }
    return true;
  }

  // project FEAT's expression log of the last application onto the calls of this multigrid object
  bool collect_calls(const String& me, vj::Value& calls, std::string& why)
  {
    for(const auto& e : Statistics::get_solver_expressions())
    {
      if(e->solver_name != me) continue;
      String nm;
      if(e->get_type() == Solver::ExpressionType::call_smoother) nm = std::dynamic_pointer_cast<Solver::ExpressionCallSmoother>(e)->smoother_name;
      else if(e->get_type() == Solver::ExpressionType::call_coarse_solver) nm = std::dynamic_pointer_cast<Solver::ExpressionCallCoarseSolver>(e)->coarse_solver_name;
      else continue;
      if(!(nm.size() > 4 && nm.substr(0, 4) == "C09@")) { why = "unexpected solver name in expression log: " + nm; return false; }
      calls.push((long long)std::atoll(nm.substr(4).c_str()));
    }
    return true;
  }

  // one multigrid application on a hierarchy of the given types; sm[l][k] (k = 0 pre, 1 post, 2 peak), cs = coarse solver
  template<class Mat, class Fil, class Tra, class Vec>
  bool apply_mg(std::vector<const Mat*>& mats, std::vector<const Fil*>& fils, std::vector<const Tra*>& tras,
    std::vector<std::array<std::shared_ptr<Solver::SolverBase<Vec>>, 3>>& sm, std::shared_ptr<Solver::SolverBase<Vec>> cs,
    const RunCfg& rc, Vec& cor, const Vec& def, vj::Value& calls, std::string& why)
  {
    const std::size_t nl = mats.size();
    auto hier = std::make_shared<Solver::MultiGridHierarchy<Mat, Fil, Tra>>(nl);
    for(std::size_t l = 0; l + 1 < nl; ++l)
    {
      std::shared_ptr<Solver::SolverBase<Vec>> s[3];
      for(int k = 0; k < 3; ++k) if(k < 2 || rc.peak) s[k] = std::make_shared<Named<Vec>>(sm[l][std::size_t(k)], k + 1, int(l));
      hier->push_level(*mats[l], *fils[l], *tras[l], s[0], s[1], s[2]);
    }
    hier->push_level(*mats[nl - 1], *fils[nl - 1], std::make_shared<Named<Vec>>(cs, 4, int(nl - 1)));
    auto mg = Solver::new_multigrid(hier, rc.cyc == 0 ? Solver::MultiGridCycle::V : (rc.cyc == 1 ? Solver::MultiGridCycle::F : Solver::MultiGridCycle::W));
    if(rc.adapt == 1) mg->set_adapt_cgc(Solver::MultiGridAdaptCGC::MinEnergy);
    if(rc.adapt == 2) mg->set_adapt_cgc(Solver::MultiGridAdaptCGC::MinDefect);
    hier->init(); mg->init();
    Statistics::reset(); Statistics::enable_solver_expressions = true;
    Solver::Status st = mg->apply(cor, def);
    Statistics::enable_solver_expressions = false;
    bool ok = collect_calls(mg->name(), calls, why);
    Statistics::reset();
    mg->done(); hier->done();
    if(st != Solver::Status::success) { why = "MultiGrid::apply did not return success"; return false; }
    return ok;
  }

  // LAFEM hierarchy in DT/IT converted from the reference levels; returns the corrections (as double) per run
  template<class DT, class IT>
  bool run_lafem(const std::deque<RefLevel>& ref, bool converted, Index steps, const std::vector<RunCfg>& runs, const std::vector<double>& def,
    std::vector<std::vector<double>>& cors, std::vector<vj::Value>& calls, vj::Value& xfer, std::string& why, long long seed, bool life = false)
  {
    typedef LevelData<DT, IT> L;
    typedef typename L::VectorType Vec;
    const std::size_t nl = ref.size();
    std::deque<L> lv(nl);
    for(std::size_t l = 0; l < nl; ++l)
    {
      // the container conversion functions, as Control::*::convert uses them for mixed precision hierarchies
      lv[l].matrix.convert(ref[l].matrix);
      lv[l].filter.convert(ref[l].filter);
      if(l + 1 < nl) lv[l].transfer.convert(ref[l].transfer);
      if(life && l + 1 < nl)
      {
        // life-cycle of the transfer object before the multigrid sees it; every source object is destroyed
        typedef typename L::TransferType Tra;
        const LAFEM::CloneMode modes[3] = {LAFEM::CloneMode::Deep, LAFEM::CloneMode::Weak, LAFEM::CloneMode::Shallow};
        std::unique_ptr<Tra> t1(new Tra(lv[l].transfer.clone(modes[l % 3])));
        lv[l].transfer = Tra();
        std::unique_ptr<Tra> t2(new Tra(std::move(*t1)));
        t1.reset();
        // (exactly ONE clone on even levels, three on odd levels: an even number would undo an exchange of two members)
        if(l % 2 == 0) lv[l].transfer = std::move(*t2);
        else { Tra t3(t2->clone()); lv[l].transfer = t3.clone(modes[(l + 1) % 3]); }
        t2.reset();
        lv[l].transfer.compile();
      }
    }
    if(converted)
    {
      // exact part: the converted transfer object's operations == the original matrices applied to the same small-integer vectors
      bool pok = true, rok = true, tok = true;
      unsigned long long s = 0x9E3779B97F4A7C15ull ^ (unsigned long long)seed;
      auto rnd = [&s]() { s ^= s << 13; s ^= s >> 7; s ^= s << 17; return double((long long)(s % 9ull) - 4); };
      for(std::size_t l = 0; l + 1 < nl; ++l)
      {
        const Index nf = ref[l].matrix.rows(), nc = ref[l + 1].matrix.rows();
        std::vector<double> xf(nf), xc(nc);
        Vec zf(nf), zc(nc), wf(nf), wc(nc);
        for(Index i = 0; i < nf; ++i) { xf[i] = rnd(); zf(i, DT(xf[i])); }
        for(Index i = 0; i < nc; ++i) { xc[i] = rnd(); zc(i, DT(xc[i])); }
        wf.format(DT(77)); lv[l].transfer.prol(wf, zc);
        if(!same_matrix(lv[l].transfer.get_mat_prol(), ref[l].transfer.get_mat_prol()) || !same_product(wf, ref[l].transfer.get_mat_prol(), xc)) pok = false;
        wc.format(DT(77)); lv[l].transfer.rest(zf, wc);
        if(!same_matrix(lv[l].transfer.get_mat_rest(), ref[l].transfer.get_mat_rest()) || !same_product(wc, ref[l].transfer.get_mat_rest(), xf)) rok = false;
        wc.format(DT(77)); lv[l].transfer.trunc(zf, wc);
        if(!same_matrix(lv[l].transfer.get_mat_trunc(), ref[l].transfer.get_mat_trunc()) || !same_product(wc, ref[l].transfer.get_mat_trunc(), xf)) tok = false;
      }
      xfer["prol"] = pok; xfer["rest"] = rok; xfer["trunc"] = tok;
    }
    std::vector<const typename L::MatrixType*> mats; std::vector<const typename L::FilterType*> fils; std::vector<const typename L::TransferType*> tras;
    for(std::size_t l = 0; l < nl; ++l) { mats.push_back(&lv[l].matrix); fils.push_back(&lv[l].filter); tras.push_back(&lv[l].transfer); }
    for(const RunCfg& rc : runs)
    {
      std::vector<std::array<std::shared_ptr<Solver::SolverBase<Vec>>, 3>> sm(nl);
      for(std::size_t l = 0; l + 1 < nl; ++l) for(std::size_t k = 0; k < 3; ++k) sm[l][k] = make_jacobi(lv[l], 0.8, steps);
      auto cs = make_jacobi(lv[nl - 1], 1.0, Index(2));
      Vec vd(Index(def.size())), vc(Index(def.size()));
      for(std::size_t i = 0; i < def.size(); ++i) vd(Index(i), DT(def[i]));
      vc.format();
      vj::Value cl = vj::Value::array();
      if(!apply_mg<typename L::MatrixType, typename L::FilterType, typename L::TransferType, Vec>(mats, fils, tras, sm, cs, rc, vc, vd, cl, why)) return false;
      std::vector<double> c(def.size()); for(std::size_t i = 0; i < def.size(); ++i) c[i] = double(vc(Index(i)));
      cors.push_back(c); calls.push_back(cl);
    }
    return true;
  }

  // Global:: hierarchy over one process wrapping CLONES of the reference levels
  bool run_global(const std::deque<RefLevel>& ref, bool with_muxer, Index steps, const std::vector<RunCfg>& runs, const std::vector<double>& def,
    std::vector<std::vector<double>>& cors, std::vector<vj::Value>& calls, std::string& why, bool life = false)
  {
    typedef LAFEM::DenseVector<double, Index> LVec;
    typedef RefLevel::MatrixType LMat;
    typedef LAFEM::VectorMirror<double, Index> Mirror;
    typedef Global::Vector<LVec, Mirror> GVec;
    typedef Global::Matrix<LMat, Mirror, Mirror> GMat;
    typedef Global::Filter<RefLevel::FilterType, Mirror> GFil;
    typedef Global::Transfer<RefLevel::TransferType, Mirror> GTra;
    typedef Global::Muxer<LVec, Mirror> GMux;
    const std::size_t nl = ref.size();
    Dist::Comm comm = Dist::Comm::world();
    std::deque<GMat> gm; std::deque<GFil> gf; std::deque<GTra> gt; std::deque<GMux> mux(nl);
    for(std::size_t l = 0; l < nl; ++l)
    {
      gm.emplace_back(nullptr, nullptr, ref[l].matrix.clone());
      gf.emplace_back(ref[l].filter.clone());
      if(l + 1 < nl)
      {
        const Index nc = ref[l + 1].matrix.rows();
        const GMux* pm = nullptr;
        if(with_muxer)
        {
          mux[l].set_parent(&comm, 0, Mirror::make_identity(nc));
          mux[l].push_child(Mirror::make_identity(nc));
          mux[l].compile(LVec(nc));
          if(!mux[l].is_child() || !mux[l].is_parent() || mux[l].is_ghost()) { why = "unexpected muxer state"; return false; }
          pm = &mux[l];
        }
        if(!life)
          gt.emplace_back(pm, ref[l].transfer.get_mat_prol().clone(), ref[l].transfer.get_mat_rest().clone(), ref[l].transfer.get_mat_trunc().clone());
        else
        {
          // clone -> move construction -> clone; the source objects are destroyed before the multigrid runs
          const LAFEM::CloneMode modes[3] = {LAFEM::CloneMode::Weak, LAFEM::CloneMode::Shallow, LAFEM::CloneMode::Deep};
          std::unique_ptr<GTra> t0(new GTra(pm, ref[l].transfer.get_mat_prol().clone(), ref[l].transfer.get_mat_rest().clone(), ref[l].transfer.get_mat_trunc().clone()));
          std::unique_ptr<GTra> t1(new GTra(t0->clone(modes[l % 3])));
          t0.reset();
          std::unique_ptr<GTra> t2(new GTra(std::move(*t1)));
          t1.reset();
          // (an odd number of clones: an even number would undo an exchange of two members)
          if(l % 2 == 0) gt.emplace_back(std::move(*t2));
          else { GTra t3(t2->clone()); gt.emplace_back(t3.clone(modes[(l + 1) % 3])); }
          t2.reset();
        }
      }
    }
    std::vector<const GMat*> mats; std::vector<const GFil*> fils; std::vector<const GTra*> tras;
    for(std::size_t l = 0; l < nl; ++l) { mats.push_back(&gm[l]); fils.push_back(&gf[l]); tras.push_back(l + 1 < nl ? &gt[l] : nullptr); }
    for(const RunCfg& rc : runs)
    {
      std::vector<std::array<std::shared_ptr<Solver::SolverBase<GVec>>, 3>> sm(nl);
      for(std::size_t l = 0; l + 1 < nl; ++l) for(std::size_t k = 0; k < 3; ++k) sm[l][k] = std::make_shared<LocalAsGlobal<GVec, LVec>>(make_jacobi(ref[l], 0.8, steps));
      std::shared_ptr<Solver::SolverBase<GVec>> cs = std::make_shared<LocalAsGlobal<GVec, LVec>>(make_jacobi(ref[nl - 1], 1.0, Index(2)));
      GVec vd = gm[0].create_vector_r(), vc = gm[0].create_vector_r();
      for(std::size_t i = 0; i < def.size(); ++i) vd.local()(Index(i), def[i]);
      vc.format();
      vj::Value cl = vj::Value::array();
      if(!apply_mg<GMat, GFil, GTra, GVec>(mats, fils, tras, sm, cs, rc, vc, vd, cl, why)) return false;
      std::vector<double> c(def.size()); for(std::size_t i = 0; i < def.size(); ++i) c[i] = vc.local()(Index(i));
      cors.push_back(c); calls.push_back(cl);
    }
    return true;
  }
}

vj::Value run_case(const vj::Value& c)
{
  const Index lmax = Index(c["lmax"].as_int()), lmin = Index(c["lmin"].as_int());
  const Index steps = Index(c["steps"].as_int());
  const long long seed = c["seed"].as_int();
  std::vector<RunCfg> runs;
  for(std::size_t q = 0; q < c["runs"].size(); ++q)
    runs.push_back(RunCfg{int(c["runs"][q]["cyc"].as_int()), int(c["runs"][q]["adapt"].as_int()), c["runs"][q]["peak"].as_bool()});

  // reference hierarchy, double/Index
  std::deque<std::shared_ptr<Assembled>> as;
  { Geometry::RefinedUnitCubeFactory<MeshType> f(lmin); as.push_front(std::make_shared<Assembled>(f)); }
  for(Index l = lmin; l < lmax; ++l) { Geometry::StandardRefinery<MeshType> f(as.front()->mesh); as.push_front(std::make_shared<Assembled>(f)); }
  const std::size_t nl = as.size();
  std::deque<RefLevel> ref(nl);
  const String cub = "auto-degree:5";
  for(std::size_t l = 0; l < nl; ++l)
  {
    Assembled& a = *as[l];
    a.domain_assembler.compile_all_elements();
    Assembly::SymbolicAssembler::assemble_matrix_std1(ref[l].matrix, a.space);
    Assembly::Common::LaplaceOperator op;
    ref[l].matrix.format();
    Assembly::assemble_bilinear_operator_matrix_1(a.domain_assembler, ref[l].matrix, op, a.space, cub);
    Geometry::BoundaryFactory<MeshType> bf(a.mesh);
    MeshPartType boundary(bf);
    Assembly::UnitFilterAssembler<MeshType> ua; ua.add_mesh_part(boundary); ua.assemble(ref[l].filter, a.space);
  }
  for(std::size_t l = 0; l + 1 < nl; ++l)
  {
    RefLevel::MatrixType& mp = ref[l].transfer.get_mat_prol();
    Assembly::SymbolicAssembler::assemble_matrix_2lvl(mp, as[l]->space, as[l + 1]->space);
    mp.format();
    Assembly::GridTransfer::assemble_prolongation_direct(mp, as[l]->space, as[l + 1]->space, cub);
    ref[l].transfer.get_mat_rest() = mp.transpose();
    // a truncation matrix that differs from the restriction (dyadic weights)
    ref[l].transfer.get_mat_trunc() = ref[l].transfer.get_mat_rest().clone();
    ref[l].transfer.get_mat_trunc().scale(ref[l].transfer.get_mat_trunc(), 0.25);
  }
  // defect: pseudo-random, filtered; rounded to float so that every variant receives the same numbers
  const Index n = ref[0].matrix.rows();
  std::vector<double> def(n);
  {
    LAFEM::DenseVector<double, Index> d(n);
    unsigned long long s = 88172645463325252ull ^ (unsigned long long)(seed * 2654435761ll);
    for(Index i = 0; i < n; ++i) { s ^= s << 13; s ^= s >> 7; s ^= s << 17; d(i, double(float(double(s % 2000001ull) / 1000000.0 - 1.0))); }
    ref[0].filter.filter_def(d);
    for(Index i = 0; i < n; ++i) def[i] = d(i);
  }

  std::string why;
  std::vector<std::vector<double>> cref; std::vector<vj::Value> lref; vj::Value dummy = vj::Value::object();
  if(!run_lafem<double, Index>(ref, false, steps, runs, def, cref, lref, dummy, why, seed)) return vh::bad("reference: " + why);

  vj::Value out = vj::Value::array();
  const char* names[6] = {"index", "float", "global", "global-muxer", "clone", "global-clone"};
  for(int v = 0; v < 6; ++v)
  {
    std::vector<std::vector<double>> cv; std::vector<vj::Value> lv; vj::Value xfer = vj::Value::object();
    bool ok = true; double eps = std::numeric_limits<double>::epsilon();
    if(v == 0) ok = run_lafem<double, unsigned int>(ref, true, steps, runs, def, cv, lv, xfer, why, seed);
    else if(v == 1) { ok = run_lafem<float, unsigned int>(ref, true, steps, runs, def, cv, lv, xfer, why, seed); eps = double(std::numeric_limits<float>::epsilon()); }
    else if(v == 4) ok = run_lafem<double, Index>(ref, true, steps, runs, def, cv, lv, xfer, why, seed, true);
    else if(v == 5) ok = run_global(ref, true, steps, runs, def, cv, lv, why, true);
    else ok = run_global(ref, v == 3, steps, runs, def, cv, lv, why);
    const bool hx = (v < 2 || v == 4);
    if(!ok) return vh::bad(std::string(names[v]) + ": " + why);
    for(std::size_t q = 0; q < runs.size(); ++q)
    {
      double diff = 0.0, nrm = 0.0; bool finite = true;
      for(Index i = 0; i < n; ++i)
      {
        if(!(cv[q][i] == cv[q][i]) || !(cref[q][i] == cref[q][i])) finite = false;
        diff = std::max(diff, std::fabs(cv[q][i] - cref[q][i])); nrm = std::max(nrm, std::fabs(cref[q][i]));
      }
      vj::Value r = vj::Value::object();
      r["variant"] = names[v]; r["lmax"] = (long long)lmax; r["nlev"] = (long long)nl; r["cyc"] = runs[q].cyc; r["adapt"] = runs[q].adapt; r["peak"] = runs[q].peak;
      r["steps"] = (long long)steps; r["finite"] = finite && nrm > 0.0;
      double u = (finite && nrm > 0.0) ? std::ceil(diff / (eps * nrm)) : 1e9;
      r["dev"] = (long long)std::min(u, 1e9);
      r["calls"] = lv[q]; r["ref_calls"] = lref[q];
      r["has_xfer"] = hx;
      r["prol_ok"] = hx ? xfer["prol"].as_bool() : true; r["rest_ok"] = hx ? xfer["rest"].as_bool() : true; r["trunc_ok"] = hx ? xfer["trunc"].as_bool() : true;
      out.push(r);
    }
  }
  vj::Value res = vh::ok();
  res["runs"] = out;
  return res;
}

int main(int argc, char** argv) { return vh::main_loop(argc, argv); }
