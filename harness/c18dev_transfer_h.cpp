#define C18_ONLY_HYPERCUBE
#include "c18dev_transfer.cpp"
