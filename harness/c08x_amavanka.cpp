// C08x replayer, part 2b: Solver::AmaVanka (kernel/solver/amavanka.hpp, amavanka_base.hpp) on
// SaddlePointMatrix<BCSR<2,2>, BCSR<2,1>, BCSR<1,2>> (layout "bcsr": automatically deduced macros - kinds "ama", "amas" - or
// user-pushed macros - kinds "amap", "amaps") and on the whole saddle-point system stored as ONE SparseMatrixCSR (layout "csr":
// pushed macros = sets of flat dofs; the pressure-pressure block is structurally empty), with omega, num_steps, skip_singular
// ("amas", "amaps") and a TupleFilter<unit filter on velocity nodes, FilterChain<UnitFilter, MeanFilter> on the pressure> resp.
// the chain on the flat vector.  Cases come from spec/PrecondVanka.tla:
//   * after every init_numeric the assembled Vanka matrix (a TupleMatrix of four BCSR blocks, read through a deriving probe)
//     is compared ENTRY-WISE with the matrix  diag(omega/count) sum_k P_k^T L_k^-1 P_k  of the specification (==),
//     together with the macro structure and - with skip_singular - the mask of regular macros;
//   * every apply() of the life-cycle history is compared with the predicted result (==); status, input unchanged,
//     linearity on the implementation's outputs.
#include "vharness.hpp"
#include "vc08x_saddle.hpp"
#include <kernel/solver/amavanka.hpp>

using namespace FEAT;
using vx::DVec; using vx::DMat; using vx::DT; using vx::IT;

template<typename Lay>
class AmaProbe : public Solver::AmaVanka<typename Lay::Matrix, typename Lay::Filter>
{
public:
  typedef Solver::AmaVanka<typename Lay::Matrix, typename Lay::Filter> Base;
  using Base::Base;
  static constexpr Index dim = Index(Lay::dim);
  static void add_block(DMat& out, const LAFEM::SparseMatrixCSR<DT, IT>& a, Index ro, Index co)
  {
    if(a.used_elements() == Index(0)) return;
    const DT* v = a.val(); const IT* rp = a.row_ptr(); const IT* ci = a.col_ind();
    for(Index i = 0; i < a.rows(); ++i) for(IT k = rp[i]; k < rp[i + 1]; ++k) out[ro + i][co + Index(ci[k])] += v[k];
  }
  template<int BH, int BW>
  static void add_block(DMat& out, const LAFEM::SparseMatrixBCSR<DT, IT, BH, BW>& a, Index ro, Index co)
  {
    if(a.used_elements() == Index(0)) return;
    const auto* v = a.val(); const IT* rp = a.row_ptr(); const IT* ci = a.col_ind();
    for(Index i = 0; i < a.rows(); ++i) for(IT k = rp[i]; k < rp[i + 1]; ++k)
      for(int ii = 0; ii < BH; ++ii) for(int jj = 0; jj < BW; ++jj) out[ro + i * Index(BH) + Index(ii)][co + Index(ci[k]) * Index(BW) + Index(jj)] += v[k][ii][jj];
  }
  // the assembled matrix, dense, in the flat numbering of the specification
  DMat dense(Index n, Index m) const
  {
    const Index NV = dim * n;
    DMat out(NV + m, DVec(NV + m, 0.0));
    if constexpr(Lay::flat) add_block(out, this->_vanka, 0, 0);
    else
    {
      add_block(out, this->_vanka.template at<0, 0>(), 0, 0); add_block(out, this->_vanka.template at<0, 1>(), 0, NV);
      add_block(out, this->_vanka.template at<1, 0>(), NV, 0); add_block(out, this->_vanka.template at<1, 1>(), NV, NV);
    }
    return out;
  }
  std::vector<long long> mask() const { return std::vector<long long>(this->_macro_mask.begin(), this->_macro_mask.end()); }
  // macros as (velocity nodes | pressure dofs)
  std::vector<std::pair<std::vector<long long>, std::vector<long long>>> macros(Index NV) const
  {
    std::vector<std::pair<std::vector<long long>, std::vector<long long>>> r;
    if constexpr(Lay::flat)
    {
      if(this->_macro_dofs.size() != 1u) return r;
      const Adjacency::Graph& g = this->_macro_dofs[0];
      for(Index b = 0; b < g.get_num_nodes_domain(); ++b)
      {
        r.emplace_back();
        for(Index j = g.get_domain_ptr()[b]; j < g.get_domain_ptr()[b + 1]; ++j)
        {
          const Index d = g.get_image_idx()[j];
          if(d < NV) r.back().first.push_back((long long)d); else r.back().second.push_back((long long)(d - NV));
        }
      }
      return r;
    }
    if(this->_macro_dofs.size() != 2u) return r;
    const Adjacency::Graph& gv = this->_macro_dofs[0]; const Adjacency::Graph& gp = this->_macro_dofs[1];
    for(Index b = 0; b < gv.get_num_nodes_domain(); ++b)
    {
      r.emplace_back();
      for(Index j = gv.get_domain_ptr()[b]; j < gv.get_domain_ptr()[b + 1]; ++j) r.back().first.push_back((long long)gv.get_image_idx()[j]);
      for(Index j = gp.get_domain_ptr()[b]; j < gp.get_domain_ptr()[b + 1]; ++j) r.back().second.push_back((long long)gp.get_image_idx()[j]);
    }
    return r;
  }
};

static std::string ishow(const std::vector<long long>& v) { std::string s = "["; for(std::size_t i = 0; i < v.size(); ++i) s += (i ? "," : "") + std::to_string(v[i]); return s + "]"; }

// macros of the case as (velocity nodes | pressure dofs), 0-based
static void case_macros(const vj::Value& c, Index dim, Index NV, std::vector<std::vector<long long>>& mv, std::vector<std::vector<long long>>& mp)
{
  const vj::Value& eb = c["blocks"];
  for(std::size_t b = 0; b < eb.size(); ++b)
  {
    std::vector<long long> ix = eb[b]["idx"].ints(), ev, ep; const std::size_t nv = std::size_t(eb[b]["nv"].as_int());
    for(std::size_t a = 0; a < ix.size(); ++a)
    {
      if(a < nv) { long long v = (ix[a] - 1) / (long long)dim; if(std::find(ev.begin(), ev.end(), v) == ev.end()) ev.push_back(v); }
      else ep.push_back(ix[a] - (long long)NV - 1);
    }
    mv.push_back(ev); mp.push_back(ep);
  }
}
static Adjacency::Graph macro_graph(const std::vector<std::vector<long long>>& ms, Index num_dofs)
{
  std::vector<Index> ptr(1, Index(0)), idx;
  for(const auto& v : ms) { for(long long i : v) idx.push_back(Index(i)); ptr.push_back(Index(idx.size())); }
  if(idx.empty()) idx.push_back(Index(0));      // (never dereferenced: all rows empty)
  return Adjacency::Graph(Index(ms.size()), num_dofs, ptr.back(), ptr.data(), idx.data());
}

template<typename Lay>
static vj::Value run_layout(const vj::Value& c)
{
  typedef typename Lay::Matrix Matrix; typedef typename Lay::Vector Vector; typedef typename Lay::Filter Filter;
  const Index n = Index(c["n"].as_int()), m = Index(c["m"].as_int()), NV = Index(Lay::dim) * n, NN = NV + m;
  const std::string kind = c["kind"].as_str();
  const bool pushed = (kind == "amap" || kind == "amaps"), skip = (kind == "amas" || kind == "amaps");
  if(kind != "ama" && kind != "amas" && !pushed) return vh::bad("not an AmaVanka case");
  DMat M[2] = { vx::dymat(c["M1"]), vx::dymat(c["M2"]) };
  DMat V[2] = { vx::dymat(c["ama1"]), vx::dymat(c["ama2"]) };
  Matrix mat = Lay::build(n, m, vx::imat(c["patA"]), vx::imat(c["patB"]), vx::imat(c["patD"]));
  int cur = 0;
  Lay::set_values(mat, M[0], n, m);
  Filter fil = Lay::filter(n, m, c["FV"].ints(), c["FP"].ints(), vx::dyvec(c["mp"]), vx::dyvec(c["md"]));
  AmaProbe<Lay> vanka(mat, fil, vx::dy(c["om"]), Index(c["iters"].as_int()));
  if(skip) vanka.set_skip_singular(true);
  std::vector<std::vector<long long>> mac_v, mac_p;
  case_macros(c, Index(Lay::dim), NV, mac_v, mac_p);
  if(pushed)
  {
    // user-defined macros: one graph per block (velocity nodes, pressure dofs), pushed before init_symbolic
    if constexpr(Lay::flat)
    {
      std::vector<std::vector<long long>> flat(mac_v);
      for(std::size_t b = 0; b < flat.size(); ++b) for(long long q : mac_p[b]) flat[b].push_back((long long)NV + q);
      vanka.push_macro_dofs(macro_graph(flat, NN));
    }
    else
    {
      vanka.push_macro_dofs(macro_graph(mac_v, n));
      vanka.push_macro_dofs(macro_graph(mac_p, m));
    }
  }
  std::vector<DVec> tests; for(std::size_t k = 0; k < c["tests"].size(); ++k) tests.push_back(vx::dyvec(c["tests"][k]));

  auto fail = [&](std::size_t step, const std::string& op, const std::string& clause, const std::string& why)
  {
    vj::Value r = vh::bad("step " + std::to_string(step) + " (" + op + "): " + why);
    r["clause"] = clause; r["step"] = (long long)step; r["op"] = op;
    return r;
  };

  const vj::Value& steps = c["steps"];
  int napply = 0;
  for(std::size_t s = 0; s < steps.size(); ++s)
  {
    const std::string op = steps[s]["op"].as_str();
    if(op == "IS")
    {
      vanka.init_symbolic();
      auto got = vanka.macros(NV);
      bool same = (got.size() == mac_v.size());
      std::string es, gs;
      for(std::size_t b = 0; b < mac_v.size(); ++b)
      {
        es += "(" + ishow(mac_v[b]) + "|" + ishow(mac_p[b]) + ")";
        if(same && (got[b].first != mac_v[b] || got[b].second != mac_p[b])) same = false;
      }
      for(auto& g : got) gs += "(" + ishow(g.first) + "|" + ishow(g.second) + ")";
      if(!same) return fail(s, op, "macro_structure", "macros (velocity nodes|pressure dofs) " + gs + ", specified " + es);
    }
    else if(op == "IN")
    {
      vanka.init_numeric();
      if(skip)
      {
        std::vector<long long> em = c[cur == 0 ? "mask1" : "mask2"].ints(), gm = vanka.mask();
        if(em != gm) return fail(s, op, "macro_mask", "mask of regular macros " + ishow(gm) + ", specified " + ishow(em));
      }
      DMat got = vanka.dense(n, m);
      for(Index i = 0; i < NN; ++i) for(Index j = 0; j < NN; ++j)
        if(!(got[i][j] == V[cur][i][j]))
        {
          std::ostringstream o; o.precision(17);
          o << "assembled Vanka matrix entry (" << i << "," << j << ") = " << got[i][j] << ", specified " << V[cur][i][j] << "; row " << vx::show(got[i]) << " specified " << vx::show(V[cur][i]);
          return fail(s, op, "vanka_matrix", o.str());
        }
    }
    else if(op == "DN") vanka.done_numeric();
    else if(op == "DS") vanka.done_symbolic();
    else if(op == "UP") { cur = 1 - cur; Lay::set_values(mat, M[cur], n, m); }
    else if(op == "AP")
    {
      ++napply;
      const vj::Value& exp = steps[s]["exp"];
      std::vector<DVec> outs;
      for(std::size_t k = 0; k < tests.size(); ++k)
      {
        Vector def = mat.create_vector_r(), cor = mat.create_vector_r();
        DVec garbage(NN); for(Index i = 0; i < NN; ++i) garbage[i] = 1e30 + double(i);
        Lay::set(def, tests[k], n, m); Lay::set(cor, garbage, n, m);
        Solver::Status st = vanka.apply(cor, def);
        DVec x = Lay::get(cor, n, m), d2 = Lay::get(def, n, m);
        outs.push_back(x);
        if(st != Solver::Status::success) return fail(s, op, "status", "apply returned a status other than success");
        if(!vx::same(d2, tests[k])) return fail(s, op, "input_modified", "input vector modified: " + vx::show(d2));
        bool any = false;
        for(std::size_t a = 0; a < exp[k].size() && !any; ++a) any = vx::same(vx::dyvec(exp[k][a]), x);
        if(!any)
        {
          std::string e; for(std::size_t a = 0; a < exp[k].size(); ++a) e += (a ? " or " : "") + vx::show(vx::dyvec(exp[k][a]));
          vj::Value r = fail(s, op, "result", "apply #" + std::to_string(napply) + " rhs " + vx::show(tests[k]) + ": got " + vx::show(x) + " expected " + e);
          r["napply"] = (long long)napply;
          return r;
        }
      }
      const std::size_t T = tests.size();
      for(std::size_t i = 0; i < NN; ++i)
        if(!(outs[T - 1][i] == 2.0 * outs[T - 2][i] - outs[0][i])) return fail(s, op, "linearity", "P(2g - e1) differs from 2 P(g) - P(e1)");
    }
    else return vh::bad("unknown op " + op);
  }
  return vh::ok();
}

vj::Value run_case(const vj::Value& c)
{
  const std::string lay = c["lay"].as_str();
  if(lay == "bcsr") return run_layout<vx::LayBcsr>(c);
  if(lay == "csr") return run_layout<vx::LayFlatCsr>(c);
  return vh::bad("AmaVanka: unknown layout " + lay);
}

int main(int argc, char** argv) { return vh::main_loop(argc, argv); }
