// C15 harness, isoparametric part (direction G): one quadrilateral whose corner points, curved edges (Circle chart), control points and
// the EXACT values of img_point / jac_mat / hess_ten at the lattice points of the reference cell come from spec/IsoTrafo.tla.
//   IsoCtrl        the cell's edge midpoints are projected by the chart exactly onto the specified control points (observed through map_point)
//   IsoTrafoExact  Trafo::Isoparam::Evaluator<..,2>: img_point, jac_mat, hess_ten == specified integers / den  (all dyadic: compared with ==),
//                  jac_det == det of the specified Jacobian, jac_inv * jac_mat = I, hess_inv = the chain-rule expression of the specified tensors
//   IsoUncharted   Mapping<Mesh, k>, k = 1, 2, 3, without charts: img_point / jac_mat / hess_ten equal the bilinear map of the corners (1e-12 relative),
//                  the integral of jac_det equals the area, unmap(map(xi)) = xi
//   IsoVolume      sum_q w_q jac_det (Gauss-Legendre 4x4, exact for the bicubic determinant) == specified rational volume (1e-12 relative)
//   IsoInverse     Trafo::InverseMapping::unmap_point_by_newton(map(xi)) == xi (1e-9)
//   IsoSpaceDeriv  Lagrange-1/2 on the iso trafo: the physical gradients and Hessians returned by the space evaluator equal the chain rule
//                  g = J^-T g_ref,  H = J^-T (H_ref - sum_k g_k D2F_k) J^-1  evaluated in long double from the SPECIFIED J and D2F and the
//                  evaluator's own reference derivatives (which are validated exactly by the "ref" cases)  (1e-10 * (1 + magnitude))
#include "vmesh.hpp"
#include <kernel/geometry/atlas/circle.hpp>
#include <kernel/trafo/isoparam/mapping.hpp>
#include <kernel/trafo/standard/mapping.hpp>
#include <kernel/trafo/inverse_mapping.hpp>
#include <kernel/cubature/dynamic_factory.hpp>
#include <kernel/cubature/rule.hpp>
#include <kernel/space/lagrange1/element.hpp>
#include <kernel/space/lagrange2/element.hpp>

using namespace FEAT;
using namespace vm;

typedef Shape::Hypercube<2> ShapeType;
typedef MeshT<ShapeType> MeshType;
typedef Trafo::Isoparam::Mapping<MeshType, 2> IsoTrafo;
typedef IsoTrafo::Evaluator<ShapeType, double>::Type IsoEval;

static vj::Value fail(const std::string& pred, const std::string& why, const vj::Value& at = vj::Value())
{
  vj::Value r = vh::bad(pred + ": " + why); r["pred"] = pred; if(!at.is_null()) r["at"] = at; return r;
}

template<class Space_>
bool space_derivs(const Space_& space, const IsoTrafo& trafo, const vj::Value& c, std::string& why, double& worst)
{
  typedef typename Space_::template Evaluator<IsoEval>::Type SpaceEval;
  static constexpr SpaceTags st = SpaceTags::value | SpaceTags::grad | SpaceTags::hess | SpaceTags::ref_value | SpaceTags::ref_grad |
    (*(SpaceEval::eval_caps & SpaceTags::ref_hess) ? SpaceTags::ref_hess : SpaceTags::none);
  static constexpr bool has_hess = *(SpaceEval::eval_caps & SpaceTags::hess);
  static constexpr SpaceTags st2 = has_hess ? st : (SpaceTags::value | SpaceTags::grad | SpaceTags::ref_value | SpaceTags::ref_grad);
  typedef typename SpaceEval::template ConfigTraits<st2> SCT;
  typename IsoEval::template ConfigTraits<SCT::trafo_config | TrafoTags::img_point>::EvalDataType td;
  typename SCT::EvalDataType sd;
  IsoEval te(trafo); SpaceEval se(space);
  te.prepare(0); se.prepare(te);
  const LD den = LD(c["den"].as_int()) / LD(std::ldexp(1.0, -int(c["cs"].as_int()))), S = LD(c["S"].as_int());
  const vj::Value& pts = c["pts"];
  bool ok = true;
  for(std::size_t p(0); p < pts.size() && ok; ++p)
  {
    const auto n = pts[p]["n"].ints();
    IsoEval::DomainPointType xi; xi[0] = double(LD(n[0]) / S); xi[1] = double(LD(n[1]) / S);
    te(td, xi); se(sd, td);
    LD J[2][2], H[2][2][2];
    for(std::size_t k(0); k < 2; ++k) for(std::size_t a(0); a < 2; ++a)
    {
      J[k][a] = LD(pts[p]["j"][k][a].as_int()) / den;
      for(std::size_t b(0); b < 2; ++b) H[k][a][b] = LD(pts[p]["h"][k][a][b].as_int()) / den;
    }
    const LD det = J[0][0] * J[1][1] - J[0][1] * J[1][0];
    const LD Ji[2][2] = {{J[1][1] / det, -J[0][1] / det}, {-J[1][0] / det, J[0][0] / det}};   // Ji[a][k] = d xi_a / d x_k
    for(int j(0); j < se.get_num_local_dofs() && ok; ++j)
    {
      LD gr[2] = {LD(sd.phi[j].ref_grad[0]), LD(sd.phi[j].ref_grad[1])};
      LD g[2], mg = 0;
      for(int k(0); k < 2; ++k) { g[k] = Ji[0][k] * gr[0] + Ji[1][k] * gr[1]; mg += std::fabs(Ji[0][k] * gr[0]) + std::fabs(Ji[1][k] * gr[1]); }
      for(int k(0); k < 2; ++k)
      {
        const double err = double(std::fabs(LD(sd.phi[j].grad[k]) - g[k]));
        worst = std::max(worst, err);
        if(!(err <= 1e-10 * double(1 + mg))) { ok = false; why = "gradient of basis function " + std::to_string(j) + " at " + vj::dump(pts[p]["n"]); }
      }
      if constexpr (has_hess)
      {
        LD M[2][2], mm = 0;
        for(int a(0); a < 2; ++a) for(int b(0); b < 2; ++b)
        {
          M[a][b] = LD(sd.phi[j].ref_hess[a][b]) - (g[0] * H[0][a][b] + g[1] * H[1][a][b]);
          mm += std::fabs(LD(sd.phi[j].ref_hess[a][b])) + std::fabs(g[0] * H[0][a][b]) + std::fabs(g[1] * H[1][a][b]);
        }
        LD jm = 0; for(int a(0); a < 2; ++a) for(int k(0); k < 2; ++k) jm = std::max(jm, std::fabs(Ji[a][k]));
        for(int k(0); k < 2; ++k) for(int l(0); l < 2; ++l)
        {
          LD h = 0;
          for(int a(0); a < 2; ++a) for(int b(0); b < 2; ++b) h += Ji[a][k] * M[a][b] * Ji[b][l];
          const double err = double(std::fabs(LD(sd.phi[j].hess[k][l]) - h));
          worst = std::max(worst, err);
          if(!(err <= 1e-10 * double(1 + 4 * jm * jm * mm))) { ok = false; why = "Hessian of basis function " + std::to_string(j) + " at " + vj::dump(pts[p]["n"]); }
        }
      }
    }
  }
  se.finish(); te.finish();
  return ok;
}

// the iso-parametric map of degree deg_ WITHOUT charts is the bilinear map of the four corners: img_point, jac_mat, hess_ten against the
// specified bilinear values (tolerance: the control points of degree 3 are thirds), the integral of the determinant against the exact area,
// and the inverse mapping round trip
template<int deg_> vj::Value check_uncharted(MeshType& mesh, const vj::Value& c, double& worst)
{
  typedef Trafo::Isoparam::Mapping<MeshType, deg_> TrafoT;
  typedef typename TrafoT::template Evaluator<ShapeType, double>::Type EvalT;
  const double unit = std::ldexp(1.0, -int(c["cs"].as_int()));
  const double den = double(c["den"].as_int()) / unit, S = double(c["S"].as_int());
  const std::string tag = "IsoUncharted(degree " + std::to_string(deg_) + ")";
  TrafoT trafo(mesh);
  typename EvalT::template ConfigTraits<TrafoTags::img_point | TrafoTags::jac_mat | TrafoTags::jac_det | TrafoTags::hess_ten>::EvalDataType td;
  EvalT te(trafo);
  te.prepare(0);
  const vj::Value& pts = c["blpts"];
  const double tol = 1e-12;
  for(std::size_t p(0); p < pts.size(); ++p)
  {
    const auto n = pts[p]["n"].ints();
    typename EvalT::DomainPointType xi; xi[0] = double(n[0]) / S; xi[1] = double(n[1]) / S;
    te(td, xi);
    for(std::size_t k(0); k < 2; ++k)
    {
      const double ex = double(pts[p]["x"][k].as_int()) / den, e0 = std::fabs(double(td.img_point[int(k)]) - ex);
      worst = std::max(worst, e0);
      if(!(e0 <= tol * (1 + std::fabs(ex)))) { vj::Value r = fail(tag, "img_point differs from the bilinear map", pts[p]["n"]); r["exp"] = ex; r["got"] = double(td.img_point[int(k)]); return r; }
      for(std::size_t a(0); a < 2; ++a)
      {
        const double ej = double(pts[p]["j"][k][a].as_int()) / den, e1 = std::fabs(double(td.jac_mat[int(k)][int(a)]) - ej);
        worst = std::max(worst, e1);
        if(!(e1 <= 10 * tol * (1 + std::fabs(ej)))) { vj::Value r = fail(tag, "jac_mat differs from the bilinear map", pts[p]["n"]); r["exp"] = ej; r["got"] = double(td.jac_mat[int(k)][int(a)]); return r; }
        for(std::size_t b(0); b < 2; ++b)
        {
          const double eh = double(pts[p]["h"][k][a][b].as_int()) / den, e2 = std::fabs(double(td.hess_ten[int(k)][int(a)][int(b)]) - eh);
          worst = std::max(worst, e2);
          if(!(e2 <= 100 * tol * (1 + std::fabs(eh)))) { vj::Value r = fail(tag, "hess_ten differs from the bilinear map", pts[p]["n"]); r["exp"] = eh; r["got"] = double(td.hess_ten[int(k)][int(a)][int(b)]); return r; }
        }
      }
    }
  }
  {
    Cubature::DynamicFactory fac("gauss-legendre:4");
    Cubature::Rule<ShapeType, double, double, Tiny::Vector<double, 2>> rule(Cubature::ctor_factory, fac);
    double vol = 0;
    for(int q(0); q < rule.get_num_points(); ++q)
    {
      typename EvalT::DomainPointType xi; xi[0] = rule.get_coord(q, 0); xi[1] = rule.get_coord(q, 1);
      te(td, xi);
      vol += rule.get_weight(q) * double(td.jac_det);
    }
    const double exact = double(c["blvolnum"].as_int()) / double(c["volden"].as_int()) * unit * unit;
    if(!(std::fabs(vol - exact) <= 1e-12 * std::fabs(exact))) { vj::Value r = fail(tag, "integral of the Jacobian determinant differs from the area of the quadrilateral"); r["exp"] = exact; r["got"] = vol; return r; }
  }
  te.finish();
  {
    Trafo::InverseMapping<TrafoT, double> inv(trafo);
    EvalT te2(trafo);
    for(std::size_t p(0); p < pts.size(); p += 3)
    {
      const auto n = pts[p]["n"].ints();
      typename EvalT::DomainPointType xi, xo; xi[0] = double(n[0]) / S; xi[1] = double(n[1]) / S;
      te2.prepare(0); te2(td, xi); te2.finish();
      typename Trafo::InverseMapping<TrafoT, double>::ImagePointType ip; ip[0] = td.img_point[0]; ip[1] = td.img_point[1];
      if(!inv.unmap_point_by_newton(xo, ip, 0)) return fail(tag, "inverse mapping: Newton iteration did not converge", pts[p]["n"]);
      if(!(std::max(std::fabs(xo[0] - xi[0]), std::fabs(xo[1] - xi[1])) <= 1e-9)) return fail(tag, "unmap(map(xi)) differs from xi", pts[p]["n"]);
    }
  }
  return vh::ok();
}

vj::Value run_case(const vj::Value& c)
{
  // ---- the cell, the curved edges, the chart ----
  vj::Value raw = vj::Value::object();
  raw["X"] = c["P"]; raw["cs"] = c["cs"];
  vj::Value cells = vj::Value::array(), cell = vj::Value::array();
  for(int k(0); k < 4; ++k) cell.push(vj::Value((long long)k));
  cells.push(cell); raw["cells"] = cells;
  std::unique_ptr<MeshType> mesh = build_raw<ShapeType>(raw);
  const auto curved = c["curved"].ints();
  const auto& e_at_c = mesh->get_index_set<2, 1>();
  const auto& v_at_e = mesh->get_index_set<1, 0>();
  std::vector<Index> pe, pv;
  for(long long le : curved)
  {
    const Index e = e_at_c[0][int(le)];
    pe.push_back(e);
    for(int q(0); q < 2; ++q) if(std::find(pv.begin(), pv.end(), v_at_e[e][q]) == pv.end()) pv.push_back(v_at_e[e][q]);
  }
  Index num_ents[] = {Index(pv.size()), Index(pe.size()), 0};
  Geometry::MeshPart<MeshType> part(num_ents, false);
  for(std::size_t i(0); i < pv.size(); ++i) part.get_target_set<0>()[Index(i)] = pv[i];
  for(std::size_t i(0); i < pe.size(); ++i) part.get_target_set<1>()[Index(i)] = pe[i];
  const double unit = std::ldexp(1.0, -int(c["cs"].as_int()));   // physical length of one integer unit
  Geometry::Atlas::Circle<MeshType> chart(0.0, 0.0, double(c["radius"].as_int()) * unit);
  // ---- degrees 1, 2, 3 without charts: the bilinear map ----
  double worst_bl = 0;
  { vj::Value r = check_uncharted<1>(*mesh, c, worst_bl); if(r["ok"].as_bool() != true) return r; }
  { vj::Value r = check_uncharted<2>(*mesh, c, worst_bl); if(r["ok"].as_bool() != true) return r; }
  { vj::Value r = check_uncharted<3>(*mesh, c, worst_bl); if(r["ok"].as_bool() != true) return r; }
  IsoTrafo trafo(*mesh);
  if(!pe.empty()) trafo.add_meshpart_chart(part, chart);

  const double den = double(c["den"].as_int()) / unit, S = double(c["S"].as_int());
  const vj::Value& pts = c["pts"];
  typedef IsoEval::ConfigTraits<TrafoTags::img_point | TrafoTags::jac_mat | TrafoTags::jac_det | TrafoTags::jac_inv | TrafoTags::hess_ten | TrafoTags::hess_inv>::EvalDataType TD;
  TD td;
  IsoEval te(trafo);
  te.prepare(0);
  long long ncmp = 0; double worst_inv = 0;
  // ---- IsoCtrl: the nine control points are the images of the nine nodes ----
  for(int i(0); i < 3; ++i) for(int j(0); j < 3; ++j)
  {
    IsoEval::DomainPointType xi; xi[0] = double(j - 1); xi[1] = double(i - 1);
    te(td, xi);
    for(std::size_t k(0); k < 2; ++k)
      if(double(td.img_point[int(k)]) / unit != double(c["ctrl"][std::size_t(i)][std::size_t(j)][k].as_int()))
      { vj::Value r = fail("IsoCtrl", "control point (" + std::to_string(i) + "," + std::to_string(j) + ") differs"); r["exp"] = c["ctrl"][std::size_t(i)][std::size_t(j)]; r["got"] = double(td.img_point[int(k)]); return r; }
  }
  // ---- IsoTrafoExact ----
  for(std::size_t p(0); p < pts.size(); ++p)
  {
    const auto n = pts[p]["n"].ints();
    IsoEval::DomainPointType xi; xi[0] = double(n[0]) / S; xi[1] = double(n[1]) / S;
    te(td, xi);
    LD J[2][2], H[2][2][2];
    for(std::size_t k(0); k < 2; ++k)
    {
      if(double(td.img_point[int(k)]) * den != double(pts[p]["x"][k].as_int())) return fail("IsoTrafoExact", "img_point differs", pts[p]["n"]);
      for(std::size_t a(0); a < 2; ++a)
      {
        J[k][a] = LD(pts[p]["j"][k][a].as_int()) / LD(den);
        if(double(td.jac_mat[int(k)][int(a)]) * den != double(pts[p]["j"][k][a].as_int()))
        { vj::Value r = fail("IsoTrafoExact", "jac_mat(" + std::to_string(k) + "," + std::to_string(a) + ") differs", pts[p]["n"]); r["exp"] = pts[p]["j"][k][a]; r["got"] = double(td.jac_mat[int(k)][int(a)]) * den; return r; }
        for(std::size_t b(0); b < 2; ++b)
        {
          H[k][a][b] = LD(pts[p]["h"][k][a][b].as_int()) / LD(den);
          if(double(td.hess_ten[int(k)][int(a)][int(b)]) * den != double(pts[p]["h"][k][a][b].as_int()))
          { vj::Value r = fail("IsoTrafoExact", "hess_ten(" + std::to_string(k) + "," + std::to_string(a) + "," + std::to_string(b) + ") differs", pts[p]["n"]);
            r["exp"] = pts[p]["h"][k][a][b]; r["got"] = double(td.hess_ten[int(k)][int(a)][int(b)]) * den; return r; }
          ++ncmp;
        }
        ++ncmp;
      }
      ++ncmp;
    }
    const LD det = J[0][0] * J[1][1] - J[0][1] * J[1][0];
    if(!(std::fabs(LD(td.jac_det) - det) <= 1e-13L * std::fabs(det))) return fail("IsoTrafoExact", "jac_det differs from the determinant of the specified Jacobian", pts[p]["n"]);
    // jac_inv and hess_inv against the specified tensors: jac_inv = J^-1;  hess_inv(a,k,l) = - sum_{m,b,c} Ji[a][m] H[m][b][c] Ji[b][k] Ji[c][l]
    const LD Ji[2][2] = {{J[1][1] / det, -J[0][1] / det}, {-J[1][0] / det, J[0][0] / det}};
    for(int a(0); a < 2; ++a) for(int k(0); k < 2; ++k)
    {
      const double e1 = double(std::fabs(LD(td.jac_inv[a][k]) - Ji[a][k]));
      worst_inv = std::max(worst_inv, e1);
      if(!(e1 <= 1e-12 * double(1 + std::fabs(Ji[a][k])))) return fail("IsoTrafoExact", "jac_inv differs from the inverse of the specified Jacobian", pts[p]["n"]);
      for(int l(0); l < 2; ++l)
      {
        LD h = 0, mg = 0;
        for(int m(0); m < 2; ++m) for(int b(0); b < 2; ++b) for(int cc(0); cc < 2; ++cc) { const LD t = Ji[a][m] * H[m][b][cc] * Ji[b][k] * Ji[cc][l]; h -= t; mg += std::fabs(t); }
        const double e2 = double(std::fabs(LD(td.hess_inv[a][k][l]) - h));
        worst_inv = std::max(worst_inv, e2);
        if(!(e2 <= 1e-11 * double(1 + mg))) { vj::Value r = fail("IsoTrafoExact", "hess_inv differs from the chain-rule expression of the specified tensors", pts[p]["n"]); r["exp"] = double(h); r["got"] = double(td.hess_inv[a][k][l]); return r; }
      }
    }
  }
  // ---- IsoVolume ----
  double vol = 0;
  {
    Cubature::DynamicFactory fac("gauss-legendre:4");
    Cubature::Rule<ShapeType, double, double, Tiny::Vector<double, 2>> rule(Cubature::ctor_factory, fac);
    for(int q(0); q < rule.get_num_points(); ++q)
    {
      IsoEval::DomainPointType xi; xi[0] = rule.get_coord(q, 0); xi[1] = rule.get_coord(q, 1);
      te(td, xi);
      vol += rule.get_weight(q) * double(td.jac_det);
    }
    const double exact = double(c["volnum"].as_int()) / double(c["volden"].as_int()) * unit * unit;
    if(!(std::fabs(vol - exact) <= 1e-12 * std::fabs(exact)))
    { vj::Value r = fail("IsoVolume", "integral of the Jacobian determinant differs from the exact cell volume"); r["exp"] = exact; r["got"] = vol; return r; }
  }
  te.finish();
  // ---- IsoInverse ----
  double worst_unmap = 0;
  {
    Trafo::InverseMapping<IsoTrafo, double> inv(trafo);
    IsoEval te2(trafo);
    for(std::size_t p(0); p < pts.size(); p += 2)
    {
      const auto n = pts[p]["n"].ints();
      IsoEval::DomainPointType xi, xo; xi[0] = double(n[0]) / S; xi[1] = double(n[1]) / S;
      te2.prepare(0); te2(td, xi); te2.finish();
      Trafo::InverseMapping<IsoTrafo, double>::ImagePointType ip; ip[0] = td.img_point[0]; ip[1] = td.img_point[1];
      if(!inv.unmap_point_by_newton(xo, ip, 0)) return fail("IsoInverse", "Newton iteration did not converge", pts[p]["n"]);
      const double e = std::max(std::fabs(xo[0] - xi[0]), std::fabs(xo[1] - xi[1]));
      worst_unmap = std::max(worst_unmap, e);
      if(!(e <= 1e-9)) return fail("IsoInverse", "unmap(map(xi)) differs from xi", pts[p]["n"]);
    }
  }
  // ---- IsoSpaceDeriv ----
  double worst_space = 0;
  {
    std::string why;
    Space::Lagrange1::Element<IsoTrafo> s1(trafo);
    if(!space_derivs(s1, trafo, c, why, worst_space)) return fail("IsoSpaceDeriv", "Lagrange-1: " + why);
    Space::Lagrange2::Element<IsoTrafo> s2(trafo);
    if(!space_derivs(s2, trafo, c, why, worst_space)) return fail("IsoSpaceDeriv", "Lagrange-2: " + why);
  }
  vj::Value r = vh::ok();
  r["ncmp"] = ncmp; r["vol"] = vol; r["worst_inv"] = worst_inv; r["worst_unmap"] = worst_unmap; r["worst_space"] = worst_space; r["worst_uncharted"] = worst_bl; r["ncurved"] = (long long)curved.size();
  return r;
}

int main(int argc, char** argv) { return vh::main_loop(argc, argv); }
