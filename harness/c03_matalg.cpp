// C03 replayer: executes the post-states generated from spec/MatAlg.tla on SparseMatrixCSR / SparseMatrixBCSR.
// A case carries the operand containers (raw arrays + the dense matrix they represent), the call and the result
// predicted by the specification from the dense textbook formula (restricted to the output pattern), or the
// verdict that the call must be refused (incomplete output pattern without allow_incomplete).  Values are small
// integers / dyadic scalars: every correct evaluation is exact and compared with ==; sqrt based norms through
// |r^2 - N| <= 4 eps N with N the specification's exact integer.
// Groups "delem" / "dmul" run on DenseMatrix: axpy / scale / norm_frobenius and the four overloads of multiply
// (result matrix with the prior contents of the specification's X, or - call.dirty - with non-finite prior contents,
// which the plain products must overwrite; left factor dense or CSR incl. the entry-free states; z == this aliasing).
#include "vharness.hpp"
#include "vlafem.hpp"
#include <limits>
#include <sstream>

using namespace vl;

struct Ctx
{
  const vj::Value& c;
  std::string op; long long an, ad, bn, bd, den; bool self, allow, dirty; long long eps; IVec s, vres; std::string vkind, skind, outcome; long long sres;
  std::string why; bool returned_but_refusal_expected = false;
  explicit Ctx(const vj::Value& cc) : c(cc)
  {
    op = c["op"].as_str(); an = c["an"].as_int(); ad = c["ad"].as_int(); den = c["den"].as_int(); self = c["self"].as_bool();
    allow = c["allow"].as_bool(); eps = c["eps"].as_int(); s = c["s"].ints(); vres = c["vres"].ints(); vkind = c["vkind"].as_str();
    skind = c["skind"].as_str(); sres = c["sres"].as_int(); outcome = c["outcome"].as_str();
    bn = c.get_int("bn", 1); bd = c.get_int("bd", 1); dirty = c.has("dirty") && c["dirty"].as_bool();
  }
  bool fail(const std::string& w) { if(why.empty()) why = w; return false; }
};

static std::string vs(const IVec& v) { return vj::dump(vj::from_vec(v)); }
static std::string ds(const std::vector<double>& v) { std::string r = "["; for(std::size_t i = 0; i < v.size(); ++i) { if(i) r += ","; std::ostringstream o; o.precision(17); o << v[i]; r += o.str(); } return r + "]"; }

// ---------------------------------------------------------------------------------------------------------------
// format traits
// ---------------------------------------------------------------------------------------------------------------
template<class DT_, class IT_>
struct CsrT
{
  typedef DT_ DT; typedef IT_ IT;
  typedef SparseMatrixCSR<DT, IT> MT; typedef DenseVector<DT, IT> VL; typedef DenseVector<DT, IT> VR;
  static constexpr int bh = 1, bw = 1; static constexpr bool is_csr = true;
  static std::string name() { return "csr"; }
  static MT make(const vj::Value& J)
  {
    Index m = Index(J["mb"].as_int()), n = Index(J["nb"].as_int());
    if(J["nnz"].as_int() > 0) return make_csr<DT, IT>(m, n, J["rep"]);
    if(J["arrayless"].as_bool()) return MT(m, n);
    MT a(m, n, Index(0)); for(Index i = 0; i <= m; ++i) a.row_ptr()[i] = IT(0);
    return a;
  }
  static VL make_l(const IVec& f) { return make_vec<DT, IT>(f); }
  static VR make_r(const IVec& f) { return make_vec<DT, IT>(f); }
  static const DT* pod(const MT& a) { return a.val(); }
  static IVec flat_va(const vj::Value& rep) { return rep["va"].ints(); }
};

template<class DT_, class IT_, int BH, int BW>
struct BcsrT
{
  typedef DT_ DT; typedef IT_ IT;
  typedef SparseMatrixBCSR<DT, IT, BH, BW> MT; typedef DenseVectorBlocked<DT, IT, BH> VL; typedef DenseVectorBlocked<DT, IT, BW> VR;
  static constexpr int bh = BH, bw = BW; static constexpr bool is_csr = false;
  static std::string name() { return "bcsr" + std::to_string(BH) + "x" + std::to_string(BW); }
  static MT make(const vj::Value& J)
  {
    Index m = Index(J["mb"].as_int()), n = Index(J["nb"].as_int());
    if(J["nnz"].as_int() > 0) return make_bcsr<DT, IT, BH, BW>(m, n, J["rep"]);
    if(J["arrayless"].as_bool()) return MT(m, n);
    MT a(m, n, Index(0)); for(Index i = 0; i <= m; ++i) a.row_ptr()[i] = IT(0);
    return a;
  }
  static VL make_l(const IVec& f) { return make_bvec<DT, IT, BH>(f); }
  static VR make_r(const IVec& f) { return make_bvec<DT, IT, BW>(f); }
  static const DT* pod(const MT& a) { return a.template val<Perspective::pod>(); }
  static IVec flat_va(const vj::Value& rep) { return flatten_blocks(rep["va"]); }
};

// the container must have exactly the arrays of the specification's record (values scaled by den)
template<class T>
bool same_matrix(Ctx& k, const typename T::MT& a, const vj::Value& J, long long den, const std::string& tag)
{
  typedef typename T::DT DT;
  const Index mb = Index(J["mb"].as_int()), nb = Index(J["nb"].as_int()), nnz = Index(J["nnz"].as_int());
  if(a.rows() != mb || a.columns() != nb) return k.fail(tag + ": dimensions " + std::to_string(a.rows()) + "x" + std::to_string(a.columns()));
  if(a.used_elements() != nnz) return k.fail(tag + ": used_elements() = " + std::to_string(a.used_elements()) + " expected " + std::to_string(nnz));
  if(nnz == 0) return true;
  IVec rp = J["rep"]["rp"].ints(), ci = J["rep"]["ci"].ints(), va = T::flat_va(J["rep"]);
  IVec grp(mb + 1), gci(nnz);
  for(Index i = 0; i <= mb; ++i) grp[i] = (long long)a.row_ptr()[i];
  for(Index i = 0; i < nnz; ++i) gci[i] = (long long)a.col_ind()[i];
  if(grp != rp) return k.fail(tag + ": row_ptr " + vs(grp) + " expected " + vs(rp));
  if(gci != ci) return k.fail(tag + ": col_ind " + vs(gci) + " expected " + vs(ci));
  const DT* v = T::pod(a);
  std::vector<double> g(va.size()); bool ok = true;
  for(std::size_t i = 0; i < va.size(); ++i) { g[i] = double(v[i]); if(!(g[i] * double(den) == double(va[i]))) ok = false; }
  if(!ok) return k.fail(tag + ": values " + ds(g) + " expected " + vs(va) + "/" + std::to_string(den));
  return true;
}

template<class DT, class VT>
bool same_vector(Ctx& k, const VT& v, const std::string& tag)
{
  const DT* e = v.template elements<Perspective::pod>(); Index n = v.template size<Perspective::pod>();
  std::vector<double> g(n); for(Index i = 0; i < n; ++i) g[i] = double(e[i]);
  if(g.size() != k.vres.size()) return k.fail(tag + ": result vector length " + std::to_string(g.size()));
  const long double eps = (long double)std::numeric_limits<DT>::epsilon();
  for(std::size_t i = 0; i < g.size(); ++i)
  {
    bool ok;
    if(k.vkind == "exact") ok = (g[i] == double(k.vres[i]));
    else { const long double N = (long double)k.vres[i], r = (long double)g[i]; ok = r >= 0.0L && (N == 0.0L ? r == 0.0L : fabsl(r * r - N) <= 4.0L * eps * N); }
    if(!ok) return k.fail(tag + ": " + k.op + " result " + ds(g) + " expected (" + k.vkind + ") " + vs(k.vres));
  }
  return true;
}

template<class DT>
bool same_scalar(Ctx& k, double r, const std::string& tag)
{
  const long double eps = (long double)std::numeric_limits<DT>::epsilon();
  bool ok;
  if(k.skind == "exact") ok = (r == double(k.sres));
  else { const long double N = (long double)k.sres, q = (long double)r; ok = q >= 0.0L && (N == 0.0L ? q == 0.0L : fabsl(q * q - N) <= 4.0L * eps * N); }
  if(!ok) { std::ostringstream o; o.precision(17); o << r; return k.fail(tag + ": " + k.op + " result " + o.str() + " expected (" + k.skind + ") " + std::to_string(k.sres)); }
  return true;
}

template<class T>
bool run_fmt(Ctx& k, const std::string& tag0)
{
  typedef typename T::DT DT; typedef typename T::IT IT; typedef typename T::MT MT;
  const std::string tag = tag0 + "/" + T::name();
  const vj::Value& c = k.c; const std::string& op = k.op;
  MT X = T::make(c["X"]);
  if(!same_matrix<T>(k, X, c["X"], 1, tag + ": construction of X")) return false;
  const DT alpha = DT(double(k.an) / double(k.ad));
  const IVec garbage_l(std::size_t(c["X"]["mb"].as_int()) * T::bh, 77);
  const std::string grp = c["grp"].as_str();

  if(grp == "elem")
  {
    MT Y = T::make(c["Y"]);
    vj::Value ysnap = raw_snapshot(Y);
    const MT& src = k.self ? X : Y;
    bool done = true;
    if(op == "axpy") X.axpy(src, alpha);
    else if(op == "scale") X.scale(src, alpha);
    else if(op == "scale_rows") { auto s = T::make_l(k.s); X.scale_rows(src, s); }
    else if(op == "scale_cols") { auto s = T::make_r(k.s); X.scale_cols(src, s); }
    else if(op == "lump_rows") { auto r = T::make_l(garbage_l); X.lump_rows(r); if(!same_vector<DT>(k, r, tag)) return false; }
    else if(op == "extract_diag") { auto r = T::make_l(garbage_l); X.extract_diag(r); if(!same_vector<DT>(k, r, tag)) return false; }
    else if(op == "row_norm2") { auto r = T::make_l(garbage_l); X.row_norm2(r); if(!same_vector<DT>(k, r, tag)) return false; }
    else if(op == "row_norm2sqr") { auto r = T::make_l(garbage_l); X.row_norm2sqr(r); if(!same_vector<DT>(k, r, tag)) return false; }
    else if(op == "row_norm2sqr_scaled") { auto r = T::make_l(garbage_l); auto s = T::make_r(k.s); X.row_norm2sqr(r, s); if(!same_vector<DT>(k, r, tag)) return false; }
    else if(op == "norm_frobenius") { if(!same_scalar<DT>(k, double(X.norm_frobenius()), tag)) return false; }
    else if(op == "max_abs_element") { if(!same_scalar<DT>(k, double(X.max_abs_element()), tag)) return false; }
    else if(op == "min_abs_element") { if(!same_scalar<DT>(k, double(X.min_abs_element()), tag)) return false; }
    else if(op == "max_element") { if(!same_scalar<DT>(k, double(X.max_element()), tag)) return false; }
    else if(op == "min_element") { if(!same_scalar<DT>(k, double(X.min_element()), tag)) return false; }
    else if(op == "shrink") { if constexpr (T::is_csr) X.shrink(DT(k.eps)); else done = false; }
    else done = false;
    if(!done) return k.fail(tag + ": unknown operation " + op);
    if(raw_snapshot(Y) != ysnap) return k.fail(tag + ": " + op + " modified the operand matrix");
    return same_matrix<T>(k, X, c["XP"], k.den, tag + ": " + op + " X afterwards");
  }

  // products
  MT D = T::make(c["D"]), B = T::make(c["B"]);
  vj::Value dsnap = raw_snapshot(D), bsnap = raw_snapshot(B);
  if(op == "add_mat_mat_product")
  {
    if constexpr (T::is_csr) X.add_mat_mat_product(D, B, alpha, k.allow); else return k.fail("no add_mat_mat_product for " + T::name());
  }
  else if(op == "add_double_mat_product_diag")
  {
    if constexpr (T::is_csr) { auto a = make_vec<DT, IT>(k.s); X.add_double_mat_product(D, a, B, alpha, k.allow); }
    else return k.fail("no diagonal double product for " + T::name());
  }
  else if(op == "add_double_mat_product")
  {
    if constexpr (T::bh == T::bw)
    {
      MT A = T::make(c["A"]); vj::Value asnap = raw_snapshot(A);
      X.add_double_mat_product(D, A, B, alpha, k.allow);
      if(raw_snapshot(A) != asnap) return k.fail(tag + ": " + op + " modified A");
    }
    else return k.fail("double product needs square blocks");
  }
  else return k.fail(tag + ": unknown operation " + op);
  if(k.outcome == "abort")
  {
    k.returned_but_refusal_expected = true;
    return k.fail(tag + ": " + op + " returned although the output pattern is incomplete and allow_incomplete = false");
  }
  if(raw_snapshot(D) != dsnap || raw_snapshot(B) != bsnap) return k.fail(tag + ": " + op + " modified an operand matrix");
  return same_matrix<T>(k, X, c["XP"], k.den, tag + ": " + op + " X afterwards");
}

// ---------------------------------------------------------------------------------------------------------------
// DenseMatrix: groups "delem" (axpy, scale, norm_frobenius) and "dmul" (the four multiply overloads)
// ---------------------------------------------------------------------------------------------------------------
template<class DT, class IT>
bool dense_from(Ctx& k, DenseMatrix<DT, IT>& a, const vj::Value& J, const std::string& tag)
{
  const Index m = Index(J["mb"].as_int()), n = Index(J["nb"].as_int());
  if(m == 0 || n == 0 || Index(J["nnz"].as_int()) != m * n || J["bh"].as_int() != 1 || J["bw"].as_int() != 1)
    return k.fail(tag + ": the specification's matrix is not a dense m x n matrix with m, n >= 1");
  a = make_dense<DT, IT>(m, n, J["rep"]);   // row-major values = the value array of the full pattern
  return true;
}

template<class DT, class IT>
bool same_dense(Ctx& k, const DenseMatrix<DT, IT>& a, const vj::Value& J, long long den, const std::string& tag)
{
  const Index m = Index(J["mb"].as_int()), n = Index(J["nb"].as_int());
  if(a.rows() != m || a.columns() != n) return k.fail(tag + ": dimensions " + std::to_string(a.rows()) + "x" + std::to_string(a.columns()));
  if(a.used_elements() != m * n || a.size() != m * n) return k.fail(tag + ": used_elements()/size() " + std::to_string(a.used_elements()) + "/" + std::to_string(a.size()));
  IVec va = J["rep"]["va"].ints();
  if(va.size() != std::size_t(m * n)) return k.fail(tag + ": specification record is not dense");
  const DT* v = a.elements();
  std::vector<double> g(va.size()); bool ok = true;
  for(std::size_t i = 0; i < va.size(); ++i) { g[i] = double(v[i]); if(!(g[i] * double(den) == double(va[i]))) ok = false; }
  if(!ok) return k.fail(tag + ": values " + ds(g) + " expected " + vs(va) + "/" + std::to_string(den));
  return true;
}

template<class DT, class IT>
bool run_dense(Ctx& k, const std::string& tag0)
{
  typedef DenseMatrix<DT, IT> DM; typedef CsrT<DT, IT> CT;
  const std::string tag = tag0 + "/dense";
  const vj::Value& c = k.c; const std::string& op = k.op; const std::string grp = c["grp"].as_str();
  DM T;
  if(!dense_from(k, T, c["X"], tag + ": X")) return false;
  if(!same_dense(k, T, c["X"], 1, tag + ": construction of X")) return false;
  if(k.dirty)
  {
    // the prior contents are arbitrary (the constructor DenseMatrix(m, n) does not initialise): non-finite bit patterns
    DT* e = T.elements();
    for(Index i = 0; i < T.size(); ++i) e[i] = (i % 2 == 0) ? std::numeric_limits<DT>::quiet_NaN() : std::numeric_limits<DT>::infinity();
  }
  const DT alpha = DT(double(k.an) / double(k.ad)), beta = DT(double(k.bn) / double(k.bd));

  if(grp == "delem")
  {
    DM Y; if(!dense_from(k, Y, c["Y"], tag + ": Y")) return false;
    vj::Value ysnap = raw_snapshot(Y);
    const DM& src = k.self ? T : Y;
    if(op == "axpy") T.axpy(src, alpha);
    else if(op == "scale") T.scale(src, alpha);
    else if(op == "norm_frobenius") { if(!same_scalar<DT>(k, double(T.norm_frobenius()), tag)) return false; }
    else return k.fail(tag + ": unknown operation " + op);
    if(raw_snapshot(Y) != ysnap) return k.fail(tag + ": " + op + " modified the operand matrix");
    return same_dense(k, T, c["XP"], k.den, tag + ": " + op + " X afterwards");
  }

  // products: x = D (dense or CSR), y = B, z = Y or the result matrix itself
  DM y; if(!dense_from(k, y, c["B"], tag + ": y")) return false;
  vj::Value ysnap = raw_snapshot(y);
  if(op == "multiply_dd" || op == "multiply_ddz")
  {
    DM x; if(!dense_from(k, x, c["D"], tag + ": x")) return false;
    vj::Value xsnap = raw_snapshot(x);
    if(op == "multiply_dd") T.multiply(x, y);
    else if(k.self) T.multiply(x, y, T, alpha, beta);
    else
    {
      DM z; if(!dense_from(k, z, c["Y"], tag + ": z")) return false;
      vj::Value zsnap = raw_snapshot(z);
      T.multiply(x, y, z, alpha, beta);
      if(raw_snapshot(z) != zsnap) return k.fail(tag + ": " + op + " modified z");
    }
    if(raw_snapshot(x) != xsnap) return k.fail(tag + ": " + op + " modified x");
  }
  else if(op == "multiply_sd" || op == "multiply_sd_ab")
  {
    typename CT::MT x = CT::make(c["D"]);
    if(!same_matrix<CT>(k, x, c["D"], 1, tag + ": construction of x")) return false;
    vj::Value xsnap = raw_snapshot(x);
    if(op == "multiply_sd") T.multiply(x, y);
    else T.multiply(x, y, alpha, beta);
    if(raw_snapshot(x) != xsnap) return k.fail(tag + ": " + op + " modified x");
  }
  else return k.fail(tag + ": unknown operation " + op);
  if(raw_snapshot(y) != ysnap) return k.fail(tag + ": " + op + " modified y");
  return same_dense(k, T, c["XP"], k.den, tag + ": " + op + " X afterwards");
}

vj::Value run_case(const vj::Value& c)
{
  Ctx k(c);
  const std::string fmt = c["fmt"].as_str();
  bool ok = false;
  const std::string grp0 = c["grp"].as_str();
  if(grp0 == "delem" || grp0 == "dmul")
  {
    ok = run_dense<double, std::uint64_t>(k, "f64/u64") && run_dense<float, std::uint32_t>(k, "f32/u32")
      && run_dense<double, std::uint32_t>(k, "f64/u32") && run_dense<float, std::uint64_t>(k, "f32/u64");
  }
  else if(fmt == "csr")
  {
    ok = run_fmt<CsrT<double, std::uint64_t>>(k, "f64/u64") && run_fmt<CsrT<float, std::uint32_t>>(k, "f32/u32")
      && run_fmt<CsrT<double, std::uint32_t>>(k, "f64/u32") && run_fmt<CsrT<float, std::uint64_t>>(k, "f32/u64");
  }
  else if(fmt == "bcsr")
  {
    const int bh = (int)c["X"]["bh"].as_int(), bw = (int)c["X"]["bw"].as_int();
    if(bh == 2 && bw == 2) ok = run_fmt<BcsrT<double, std::uint64_t, 2, 2>>(k, "f64/u64") && run_fmt<BcsrT<float, std::uint32_t, 2, 2>>(k, "f32/u32");
    else if(bh == 2 && bw == 3) ok = run_fmt<BcsrT<double, std::uint64_t, 2, 3>>(k, "f64/u64") && run_fmt<BcsrT<float, std::uint32_t, 2, 3>>(k, "f32/u32");
    else if(bh == 3 && bw == 2) ok = run_fmt<BcsrT<double, std::uint64_t, 3, 2>>(k, "f64/u64") && run_fmt<BcsrT<float, std::uint32_t, 3, 2>>(k, "f32/u32");
    else k.fail("unsupported block shape");
  }
  else k.fail("unknown format " + fmt);
  if(ok) return vh::ok();
  vj::Value r = vh::bad(k.why);
  if(k.returned_but_refusal_expected) r["outcome"] = "returned";
  return r;
}

int main(int argc, char** argv) { return vh::main_loop(argc, argv); }
