// C08x replayer, part 1b (MPI build, one process): the Global::Matrix / Global::Filter specialisation of Solver::UzawaPrecond
// (kernel/solver/uzawa_precond.hpp, second half - a copy of the four block operators on Global::Vector objects).
// The cases are the mock-flavour cases of spec/PrecondUzawa.tla (the same predictions as for the LAFEM implementation: on
// one process a global vector is its local vector); inner solvers are mock SolverBase<Global::Vector> objects holding a dense
// map captured at init_numeric, which apply the Global::Filter of their component and log their calls.
// Checked per apply(): result == one of the allowed results, status, input unchanged, sequence of inner applications;
// per life-cycle call: the forwarded calls.
//
// run as:  mpirun -np 1 c08x_uzawa_global --cases FILE [--start K]
#include "vmpi.hpp"
#include "vc08x.hpp"
#include <kernel/global/gate.hpp>
#include <kernel/global/vector.hpp>
#include <kernel/global/matrix.hpp>
#include <kernel/global/filter.hpp>
#include <kernel/lafem/vector_mirror.hpp>
#include <kernel/lafem/tuple_mirror.hpp>
#include <kernel/lafem/tuple_vector.hpp>
#include <kernel/lafem/unit_filter.hpp>
#include <kernel/lafem/none_filter.hpp>
#include <kernel/lafem/mean_filter.hpp>
#include <kernel/solver/uzawa_precond.hpp>

using namespace FEAT;
using vx::DVec; using vx::DMat;
typedef double DT; typedef Index IT;
typedef LAFEM::SparseMatrixCSR<DT, IT> MatT;
typedef LAFEM::DenseVector<DT, IT> VecT;
typedef LAFEM::VectorMirror<DT, IT> Mir;
typedef LAFEM::UnitFilter<DT, IT> UFil;
typedef LAFEM::NoneFilter<DT, IT> NFil;
typedef LAFEM::MeanFilter<DT, IT> MFil;
typedef Global::Gate<VecT, Mir> GateT;
typedef Global::Vector<VecT, Mir> GVec;
typedef LAFEM::TupleVector<VecT, VecT> SysLoc;
typedef LAFEM::TupleMirror<Mir, Mir> SysMir;
typedef Global::Gate<SysLoc, SysMir> SysGate;
typedef Global::Vector<SysLoc, SysMir> SysVec;
typedef Global::Matrix<MatT, Mir, Mir> GMat;

struct App { int cur = 0; DMat MA[2], MS[2]; std::vector<std::string> log, calls; };

template<typename GFilter_>
class MockGlobal : public Solver::SolverBase<GVec>
{
  App& _app; const DMat* _src; const GFilter_& _filter; std::string _tag; bool _fail; DMat _cached; bool _have = false;
public:
  MockGlobal(App& app, const DMat* src, const GFilter_& filter, const std::string& tag, bool fail) : _app(app), _src(src), _filter(filter), _tag(tag), _fail(fail) {}
  virtual String name() const override { return "Mock" + _tag; }
  virtual void init_symbolic() override { _app.log.push_back(_tag + ".IS"); }
  virtual void init_numeric() override { _app.log.push_back(_tag + ".IN"); _cached = _src[_app.cur]; _have = true; }
  virtual void done_numeric() override { _app.log.push_back(_tag + ".DN"); _have = false; }
  virtual void done_symbolic() override { _app.log.push_back(_tag + ".DS"); }
  virtual Solver::Status apply(GVec& cor, const GVec& def) override
  {
    _app.calls.push_back(_tag);
    if(_fail) return Solver::Status::aborted;
    if(!_have) throw std::runtime_error("mock solver " + _tag + " applied without init_numeric");
    const Index k = def.local().size();
    for(Index i = 0; i < k; ++i) { DT s = DT(0); for(Index j = 0; j < k; ++j) s += _cached[i][j] * def.local()(j); cor.local()(i, s); }
    _filter.filter_cor(cor);
    return Solver::Status::success;
  }
};

static std::string join(const std::vector<std::string>& v) { std::string s; for(const auto& x : v) s += (s.empty() ? "" : ",") + x; return "[" + s + "]"; }
static std::vector<std::string> strs(const vj::Value& v) { std::vector<std::string> r; for(std::size_t i = 0; i < v.size(); ++i) r.push_back(v[i].as_str()); return r; }

template<typename FilP_>
static std::string run_typed(const vj::Value& c, const Dist::Comm& comm, FilP_&& local_fp)
{
  typedef Global::Filter<UFil, Mir> GFilV; typedef Global::Filter<FilP_, Mir> GFilP;
  vmpi::Fail fail(comm.rank());
  const Index n = Index(c["n"].as_int()), m = Index(c["m"].as_int());
  const std::string typ = c["typ"].as_str(), failwho = c["fail"].as_str();
  const bool autos = c["auto"].as_bool();
  App app;
  app.MA[0] = vx::dymat(c["MA1"]); app.MA[1] = vx::dymat(c["MA2"]); app.MS[0] = vx::dymat(c["MS1"]); app.MS[1] = vx::dymat(c["MS2"]);
  DMat Bv[2] = { vx::dymat(c["B1"]), vx::dymat(c["B2"]) }, Dv[2] = { vx::dymat(c["D1"]), vx::dymat(c["D2"]) };
  GateT gate_v(comm), gate_p(comm);
  gate_v.compile(VecT(n)); gate_p.compile(VecT(m));
  SysGate gate_s(comm);
  { VecT tv(n), tp(m); gate_s.compile(SysLoc(std::move(tv), std::move(tp))); }
  GMat mat_a(&gate_v, &gate_v, vx::csr_of_pattern<DT, IT>(n, n, vx::full_pattern(n, n)));
  GMat mat_b(&gate_v, &gate_p, vx::csr_of_pattern<DT, IT>(n, m, vx::imat(c["patB"])));
  GMat mat_d(&gate_p, &gate_v, vx::csr_of_pattern<DT, IT>(m, n, vx::imat(c["patD"])));
  auto set_values = [&](int which) { vx::set_csr_values(mat_b.local(), Bv[which]); vx::set_csr_values(mat_d.local(), Dv[which]); app.cur = which; };
  set_values(0);
  UFil lfv(n);
  for(std::size_t k = 0; k < c["FV"].size(); ++k) lfv.add(Index(c["FV"][k].as_int() - 1), DT(0));
  GFilV fil_v(std::move(lfv));
  GFilP fil_p(std::forward<FilP_>(local_fp));

  auto sol_a = std::make_shared<MockGlobal<GFilV>>(app, app.MA, fil_v, "A", failwho == "A");
  auto sol_s = std::make_shared<MockGlobal<GFilP>>(app, app.MS, fil_p, "S", failwho == "S");
  Solver::UzawaType ut = typ == "diagonal" ? Solver::UzawaType::diagonal : typ == "lower" ? Solver::UzawaType::lower
                       : typ == "upper" ? Solver::UzawaType::upper : Solver::UzawaType::full;
  Solver::UzawaPrecond<GMat, GMat, GMat, GFilV, GFilP> uz(mat_a, mat_b, mat_d, fil_v, fil_p, sol_a, sol_s, ut, autos);

  std::vector<DVec> tests; for(std::size_t k = 0; k < c["tests"].size(); ++k) tests.push_back(vx::dyvec(c["tests"][k]));
  const vj::Value& steps = c["steps"];
  for(std::size_t s = 0; s < steps.size() && fail.why.empty(); ++s)
  {
    const std::string op = steps[s]["op"].as_str();
    const std::string at = "step " + std::to_string(s) + " (" + op + "): ";
    app.log.clear();
    if(op == "IS") uz.init_symbolic();
    else if(op == "IN") uz.init_numeric();
    else if(op == "DN") uz.done_numeric();
    else if(op == "DS") uz.done_symbolic();
    else if(op == "sIS") sol_s->init_symbolic();
    else if(op == "sIN") sol_s->init_numeric();
    else if(op == "sDN") sol_s->done_numeric();
    else if(op == "sDS") sol_s->done_symbolic();
    else if(op == "UP") set_values(1 - app.cur);
    else if(op == "AP")
    {
      const vj::Value& exp = steps[s]["exp"];
      const std::vector<std::string> ecalls = strs(steps[s]["calls"]);
      for(std::size_t k = 0; k < tests.size() && fail.why.empty(); ++k)
      {
        VecT dv(n), dp(m), cv(n), cp(m);
        SysVec def(&gate_s, SysLoc(std::move(dv), std::move(dp))), cor(&gate_s, SysLoc(std::move(cv), std::move(cp)));
        for(Index i = 0; i < n; ++i) { def.local().at<0>()(i, tests[k][i]); cor.local().at<0>()(i, 1e30 + double(i)); }
        for(Index i = 0; i < m; ++i) { def.local().at<1>()(i, tests[k][n + i]); cor.local().at<1>()(i, -1e30 - double(i)); }
        app.calls.clear();
        Solver::Status st = uz.apply(cor, def);
        DVec x(n + m), d2(n + m);
        for(Index i = 0; i < n; ++i) { x[i] = cor.local().at<0>()(i); d2[i] = def.local().at<0>()(i); }
        for(Index i = 0; i < m; ++i) { x[n + i] = cor.local().at<1>()(i); d2[n + i] = def.local().at<1>()(i); }
        if(app.calls != ecalls) fail("inner_calls " + at + "inner solver applications " + join(app.calls) + ", the operator of type " + typ + " makes " + join(ecalls));
        if(!vx::same(d2, tests[k])) fail("input_modified " + at + vx::show(d2));
        if(failwho != "none") { if(st != Solver::Status::aborted) fail("status " + at + "inner solver failed but apply did not return Status::aborted"); continue; }
        if(st != Solver::Status::success) fail("status " + at + "apply returned a status other than success");
        bool any = false;
        for(std::size_t a = 0; a < exp[k].size() && !any; ++a) any = vx::same(vx::dyvec(exp[k][a]), x);
        if(!any)
        {
          std::string e; for(std::size_t a = 0; a < exp[k].size(); ++a) e += (a ? " or " : "") + vx::show(vx::dyvec(exp[k][a]));
          fail(std::string(exp[k].size() > 1 ? "stale_result " : "result ") + at + "rhs " + vx::show(tests[k]) + ": got " + vx::show(x) + " expected " + e);
        }
      }
    }
    else fail("unknown op " + op);
    if(op != "AP" && op != "UP")
    {
      const std::vector<std::string> elog = strs(steps[s]["log"]);
      if(app.log != elog) fail("lifecycle_forwarding " + at + "inner life-cycle calls " + join(app.log) + ", specified " + join(elog));
    }
  }
  return fail.why;
}

static std::string run_case(const vj::Value& c, const Dist::Comm& comm)
{
  const Index m = Index(c["m"].as_int());
  const std::string fp = c["fp"].as_str();
  if(c["flav"].as_str() == "feat") return "rank 0: not a mock-flavour case";
  if(fp == "none") return run_typed(c, comm, NFil());
  if(fp == "unit") { UFil f(m); f.add(m - 1, DT(0)); return run_typed(c, comm, std::move(f)); }
  if(fp == "mean")
  {
    DVec p = vx::dyvec(c["mp"]), d = vx::dyvec(c["md"]);
    VecT vp(m), vd(m);
    for(Index i = 0; i < m; ++i) { vp(i, p[i]); vd(i, d[i]); }
    return run_typed(c, comm, MFil(std::move(vp), std::move(vd)));
  }
  return "rank 0: unknown pressure filter " + fp;
}

int main(int argc, char** argv) { return vmpi::main_loop(argc, argv, &run_case); }
