// C18 harness (direction V): runs the real grid transfer assembly on one (mesh, refinement, permutation strategy,
// element family) and dumps what it produced for TLC (spec/TransferCheck.tla):
//   both mesh levels (index sets + integer coordinates), the dof mappings, the prolongation P (assemble_prolongation_direct),
//   the restriction R = P.transpose(), T*P for the truncation T (assemble_truncation_direct), LAFEM::Transfer::prol/rest and
//   GridTransfer::prolongate_vector_direct on integer vectors.
// Projection (DESIGN 3.2): P is computed through local mass inversion, so its entries carry O(eps) noise; an entry a is
// projected to the integer round(a * ps) if |a * ps - round(a * ps)| <= 1e-9 * ps... precisely: |a - k/ps| <= 1e-11, otherwise
// the noise flag is raised (which the specification treats as a failure of ProlExact).  ps is the scale demanded by the
// specification for the family (RefElementSanity!ProlScale).  The specification compares integers.
//
// Histories within one process (spec/TransferHist.tla): the runner hands the steps of one history to ONE harness process; "order"
// selects which of assemble_prolongation / assemble_truncation / prolongate_vector comes first, the result carries a digest of the bit
// patterns of everything the step produced (compared by TLC with the digest of the same step in a fresh process), and cases of
// kind "rule" dump a refined cubature rule next to its base rule and the refinement of the reference cell (Transfer!RefinedRuleOK).
//
// The file is compiled into two binaries (simplex / hypercube shapes) through c18_transfer_s.cpp / c18_transfer_h.cpp.
#include "vmesh.hpp"
#include <kernel/geometry/mesh_permutation.hpp>
#include <kernel/trafo/standard/mapping.hpp>
#include <kernel/space/lagrange1/element.hpp>
#include <kernel/space/lagrange2/element.hpp>
#include <kernel/space/discontinuous/element.hpp>
#include <kernel/space/cro_rav_ran_tur/element.hpp>
#include <kernel/space/lagrange3/element.hpp>
#include <kernel/space/bernstein2/element.hpp>
#include <kernel/assembly/symbolic_assembler.hpp>
#include <kernel/assembly/grid_transfer.hpp>
#include <kernel/lafem/sparse_matrix_csr.hpp>
#include <kernel/lafem/dense_vector.hpp>
#include <kernel/lafem/transfer.hpp>
#include <kernel/lafem/vector_mirror.hpp>
#include <kernel/global/gate.hpp>
#include <kernel/global/muxer.hpp>
#include <control/asm/transfer_asm.hpp>
#include <kernel/space/dof_mapping_renderer.hpp>
#include <kernel/cubature/dynamic_factory.hpp>
#include <kernel/cubature/refine_factory.hpp>
#include <cstring>

using namespace FEAT;
using namespace vm;

typedef LAFEM::SparseMatrixCSR<double, Index> MatrixType;
typedef LAFEM::DenseVector<double, Index> VectorType;

static const double TOL = 1e-11;

// exact scaling of all vertex coordinates by 2^e
template<class Mesh_> void scale_mesh(Mesh_& m, int e)
{
  auto& vs = m.get_vertex_set();
  for(Index i(0); i < vs.get_num_vertices(); ++i) for(int k(0); k < Mesh_::world_dim; ++k) vs[i][k] = std::ldexp(double(vs[i][k]), e);
}
// minimal domain level for the control-layer assembly (Control::Asm::asm_transfer_scalar only asks the level for its space)
template<class Space_> struct CtlLevel { const Space_* space; };

// FNV-1a over the bit patterns of what a step produced (history steps are compared with the fresh-process run of the same step)
struct Digest
{
  unsigned long long h = 1469598103934665603ull;
  void add(const void* p, std::size_t n) { const unsigned char* b = static_cast<const unsigned char*>(p); for(std::size_t i(0); i < n; ++i) { h ^= b[i]; h *= 1099511628211ull; } }
  void add(const MatrixType& m)
  {
    const unsigned long long d[3] = {(unsigned long long)m.rows(), (unsigned long long)m.columns(), (unsigned long long)m.used_elements()};
    add(d, sizeof(d));
    if(m.rows() > 0) add(m.row_ptr(), sizeof(Index) * (m.rows() + 1));
    if(m.used_elements() > 0) { add(m.col_ind(), sizeof(Index) * m.used_elements()); add(m.val(), sizeof(double) * m.used_elements()); }
  }
  void add(const VectorType& v) { const unsigned long long d = (unsigned long long)v.size(); add(&d, sizeof(d)); if(v.size() > 0) add(v.elements(), sizeof(double) * v.size()); }
  vj::Value value() const
  {
    vj::Value a = vj::Value::array();
    a.push(vj::Value((long long)(h & 0x1FFFFFull))); a.push(vj::Value((long long)((h >> 21) & 0x1FFFFFull))); a.push(vj::Value((long long)((h >> 42) & 0x3FFFFFull)));
    return a;
  }
  void put(FILE* f) const { std::fprintf(f, "[%llu,%llu,%llu]", h & 0x1FFFFFull, (h >> 21) & 0x1FFFFFull, (h >> 42) & 0x3FFFFFull); }
};

struct Proj { bool noise = false; double worst = 0.0; };
static long long project(double a, double ps, Proj& pj)
{
  double s = a * ps;
  double r = std::nearbyint(s);
  double dev = std::fabs(s - r) / ps;
  if(!(dev <= TOL) || !(std::fabs(r) < 1073741824.0)) pj.noise = true;
  if(dev == dev) pj.worst = std::max(pj.worst, dev);
  return (long long)r;
}

static void put_rows(FILE* f, const MatrixType& m, double ps, Proj& pj)
{
  const Index* rp = m.row_ptr(); const Index* ci = m.col_ind(); const double* va = m.val();
  std::fputc('[', f);
  for(Index i(0); i < m.rows(); ++i)
  {
    std::fputs(i ? ",{\"c\":[" : "{\"c\":[", f);
    for(Index k(rp[i]); k < rp[i + 1]; ++k) std::fprintf(f, k > rp[i] ? ",%llu" : "%llu", (unsigned long long)ci[k]);
    std::fputs("],\"v\":[", f);
    for(Index k(rp[i]); k < rp[i + 1]; ++k) std::fprintf(f, k > rp[i] ? ",%lld" : "%lld", project(va[k], ps, pj));
    std::fputs("]}", f);
  }
  std::fputc(']', f);
}
static void put_vec(FILE* f, const VectorType& v, double ps, Proj& pj)
{
  std::fputc('[', f);
  for(Index i(0); i < v.size(); ++i) std::fprintf(f, i ? ",%lld" : "%lld", project(v(i), ps, pj));
  std::fputc(']', f);
}
template<class Space_> void put_dofmap(FILE* f, const Space_& space)
{
  typename Space_::DofMappingType dm(space);
  const Index nc = space.get_mesh().get_num_elements();
  std::fputc('[', f);
  for(Index c(0); c < nc; ++c)
  {
    dm.prepare(c);
    std::fputs(c ? ",[" : "[", f);
    for(int j(0); j < dm.get_num_local_dofs(); ++j) std::fprintf(f, j ? ",%llu" : "%llu", (unsigned long long)dm.get_index(j));
    std::fputc(']', f);
    dm.finish();
  }
  std::fputc(']', f);
}

// dense product T * P (both small), returned as CSR-like rows of doubles
static MatrixType mat_mat(const MatrixType& A, const MatrixType& B)
{
  const Index m = A.rows(), n = B.columns();
  std::vector<double> dense(std::size_t(m) * std::size_t(n), 0.0);
  for(Index i(0); i < m; ++i)
    for(Index k(A.row_ptr()[i]); k < A.row_ptr()[i + 1]; ++k)
    {
      const Index l = A.col_ind()[k]; const double a = A.val()[k];
      for(Index q(B.row_ptr()[l]); q < B.row_ptr()[l + 1]; ++q) dense[std::size_t(i) * n + B.col_ind()[q]] += a * B.val()[q];
    }
  std::vector<Index> rp(m + 1, 0), ci; std::vector<double> va;
  for(Index i(0); i < m; ++i)
  {
    for(Index j(0); j < n; ++j) if(dense[std::size_t(i) * n + j] != 0.0) { ci.push_back(j); va.push_back(dense[std::size_t(i) * n + j]); }
    rp[i + 1] = Index(ci.size());
  }
  MatrixType R(m, n, Index(ci.size()));
  std::memcpy(R.row_ptr(), rp.data(), sizeof(Index) * (m + 1));
  if(!ci.empty()) { std::memcpy(R.col_ind(), ci.data(), sizeof(Index) * ci.size()); std::memcpy(R.val(), va.data(), sizeof(double) * va.size()); }
  return R;
}

static Geometry::PermutationStrategy strategy_of(const std::string& s)
{
  typedef Geometry::PermutationStrategy PS;
  if(s == "random") return PS::random;
  if(s == "lexicographic") return PS::lexicographic;
  if(s == "colored") return PS::colored;
  if(s == "cmk") return PS::cuthill_mckee;
  if(s == "cmk_rev") return PS::cuthill_mckee_reversed;
  if(s == "gcmk") return PS::geometric_cuthill_mckee;
  if(s == "gcmk_rev") return PS::geometric_cuthill_mckee_reversed;
  throw std::runtime_error("unknown permutation strategy " + s);
}

// ---------------------------------------------------------------------------------------------------------------
// ProlExact as a statement about FUNCTIONS (projection, for every family incl. those without exact tables):
// u_h = sum (P x)_i phi'_i on the fine mesh must equal u_H = sum x_j phi_j pointwise.  The parent of a fine cell and the
// coarse reference point of a fine sample point are found by this file's own inverse mapping (long double: linear solve on
// simplices, Newton on the multilinear map), i.e. without CoarseFineCellMapping or Trafo::InverseMapping.
// ---------------------------------------------------------------------------------------------------------------
template<class Shape_> struct OwnMap
{
  static constexpr int dim = Shape_::dimension;
  static constexpr int nv = Shape::FaceTraits<Shape_, 0>::count;
  static void shape_fn(const LD* xi, LD* N, LD (*dN)[3])
  {
    if constexpr (Fam<Shape_>::cube)
    {
      for(int v(0); v < nv; ++v)
      {
        N[v] = 1; for(int a(0); a < dim; ++a) N[v] *= (((v >> a) & 1) ? (1 + xi[a]) : (1 - xi[a])) / 2;
        for(int a(0); a < dim; ++a)
        {
          LD d = (((v >> a) & 1) ? LD(0.5) : LD(-0.5));
          for(int b(0); b < dim; ++b) if(b != a) d *= (((v >> b) & 1) ? (1 + xi[b]) : (1 - xi[b])) / 2;
          dN[v][a] = d;
        }
      }
    }
    else
    {
      N[0] = 1; for(int a(0); a < dim; ++a) { N[0] -= xi[a]; N[a + 1] = xi[a]; }
      for(int v(0); v < nv; ++v) for(int a(0); a < dim; ++a) dN[v][a] = (v == 0 ? LD(-1) : (v == a + 1 ? LD(1) : LD(0)));
    }
  }
  static void map(const MeshT<Shape_>& m, Index c, const LD* xi, LD* x)
  {
    LD N[8], dN[8][3]; shape_fn(xi, N, dN);
    const auto& is = m.template get_index_set<dim, 0>(); const auto& vs = m.get_vertex_set();
    for(int a(0); a < dim; ++a) { x[a] = 0; for(int v(0); v < nv; ++v) x[a] += N[v] * LD(vs[is[c][v]][a]); }
  }
  // returns true and xi if x lies in cell c (tolerance tol on the reference cell)
  static bool unmap(const MeshT<Shape_>& m, Index c, const LD* x, LD* xi, LD tol)
  {
    const auto& is = m.template get_index_set<dim, 0>(); const auto& vs = m.get_vertex_set();
    for(int a(0); a < dim; ++a) xi[a] = Fam<Shape_>::cube ? LD(0) : LD(1) / LD(dim + 1);
    for(int it(0); it < 40; ++it)
    {
      LD N[8], dN[8][3], F[3] = {0, 0, 0}, J[3][3] = {{0, 0, 0}, {0, 0, 0}, {0, 0, 0}};
      shape_fn(xi, N, dN);
      for(int a(0); a < dim; ++a)
      {
        for(int v(0); v < nv; ++v) { F[a] += N[v] * LD(vs[is[c][v]][a]); for(int b(0); b < dim; ++b) J[a][b] += dN[v][b] * LD(vs[is[c][v]][a]); }
        F[a] -= x[a];
      }
      // solve J d = F by Gaussian elimination with pivoting
      LD A[3][4];
      for(int a(0); a < dim; ++a) { for(int b(0); b < dim; ++b) A[a][b] = J[a][b]; A[a][dim] = F[a]; }
      for(int k(0); k < dim; ++k)
      {
        int pv = k; for(int r(k + 1); r < dim; ++r) if(std::fabs(A[r][k]) > std::fabs(A[pv][k])) pv = r;
        if(A[pv][k] == 0) return false;
        if(pv != k) for(int q(0); q <= dim; ++q) std::swap(A[pv][q], A[k][q]);
        for(int r(k + 1); r < dim; ++r) { LD fct = A[r][k] / A[k][k]; for(int q(k); q <= dim; ++q) A[r][q] -= fct * A[k][q]; }
      }
      LD d[3] = {0, 0, 0};
      for(int k(dim - 1); k >= 0; --k) { LD sx = A[k][dim]; for(int q(k + 1); q < dim; ++q) sx -= A[k][q] * d[q]; d[k] = sx / A[k][k]; }
      LD nd = 0; for(int a(0); a < dim; ++a) { xi[a] -= d[a]; nd = std::max(nd, std::fabs(d[a])); }
      if(nd > 100) return false;
      if(nd < 1e-17L) break;
    }
    if constexpr (Fam<Shape_>::cube) { for(int a(0); a < dim; ++a) if(std::fabs(xi[a]) > 1 + tol) return false; }
    else { LD sx = 0; for(int a(0); a < dim; ++a) { if(xi[a] < -tol) return false; sx += xi[a]; } if(sx > 1 + tol) return false; }
    return true;
  }
};

template<class Space_> struct ValEval
{
  typedef typename Space_::TrafoType TrafoType; typedef typename Space_::ShapeType ShapeType;
  static constexpr int dim = ShapeType::dimension;
  typedef typename TrafoType::template Evaluator<ShapeType, double>::Type TrafoEval;
  typedef typename Space_::template Evaluator<TrafoEval>::Type SpaceEval;
  typedef typename SpaceEval::template ConfigTraits<SpaceTags::value> SCT;
  typename TrafoEval::template ConfigTraits<SCT::trafo_config | TrafoTags::img_point>::EvalDataType td;
  typename SCT::EvalDataType sd;
  TrafoEval te; SpaceEval se; typename Space_::DofMappingType dm; bool prepared = false;
  explicit ValEval(const Space_& sp) : te(sp.get_trafo()), se(sp), dm(sp) {}
  void prepare(Index c) { finish(); te.prepare(c); se.prepare(te); dm.prepare(c); prepared = true; }
  void finish() { if(prepared) { dm.finish(); se.finish(); te.finish(); prepared = false; } }
  void eval(const LD* xi, const double* coef, double& val, double& mag)
  {
    typename TrafoEval::DomainPointType p; for(int a(0); a < dim; ++a) p[a] = double(xi[a]);
    te(td, p); se(sd, td);
    val = 0; mag = 0;
    for(int j(0); j < se.get_num_local_dofs(); ++j) { const double t = coef[dm.get_index(j)] * double(sd.phi[j].value); val += t; mag += std::fabs(t); }
  }
};

template<class Shape_, class Space_>
void function_agreement(const MeshT<Shape_>& cmesh, const MeshT<Shape_>& fmesh, const Space_& cspace, const Space_& fspace,
  const double* xc, const double* xf, long long& n, long long& bad, long long& orphan, double& worst)
{
  constexpr int dim = Shape_::dimension;
  typedef OwnMap<Shape_> OM;
  ValEval<Space_> ce(cspace), fe(fspace);
  n = bad = orphan = 0; worst = 0;
  // sample points of the fine reference cell (lattice incl. boundary)
  std::vector<std::array<LD, 3>> pts;
  for(int q(0); q < (dim == 2 ? 25 : 125); ++q)
  {
    int r = q, k[3] = {0, 0, 0}, sm = 0; for(int a(0); a < dim; ++a) { k[a] = r % 5; r /= 5; sm += k[a]; }
    std::array<LD, 3> p = {0, 0, 0};
    if(Fam<Shape_>::cube) { for(int a(0); a < dim; ++a) p[std::size_t(a)] = LD(-1) + LD(k[a]) / 2; }
    else { if(sm > 4) continue; for(int a(0); a < dim; ++a) p[std::size_t(a)] = LD(k[a]) / 4; }
    pts.push_back(p);
  }
  for(Index fc(0); fc < fmesh.get_num_elements(); ++fc)
  {
    // parent = the coarse cell containing the barycentre of the fine cell
    LD bc[3] = {0, 0, 0}, xb[3], xi[3];
    if(!Fam<Shape_>::cube) for(int a(0); a < dim; ++a) bc[a] = LD(1) / LD(dim + 1);
    OM::map(fmesh, fc, bc, xb);
    Index parent = ~Index(0);
    for(Index cc(0); cc < cmesh.get_num_elements(); ++cc) if(OM::unmap(cmesh, cc, xb, xi, LD(1e-9))) { parent = cc; break; }
    if(parent == ~Index(0)) { ++orphan; continue; }
    ce.prepare(parent); fe.prepare(fc);
    for(const auto& p : pts)
    {
      LD x[3], xic[3];
      OM::map(fmesh, fc, p.data(), x);
      if(!OM::unmap(cmesh, parent, x, xic, LD(1e-9))) { ++orphan; continue; }
      double vf, mf, vc, mc;
      fe.eval(p.data(), xf, vf, mf); ce.eval(xic, xc, vc, mc);
      const double err = std::fabs(vf - vc);
      ++n; if(!(err <= 1e-9 * (1.0 + mf + mc))) ++bad;
      if(err == err) worst = std::max(worst, err); else worst = 1e300;
    }
  }
  ce.finish(); fe.finish();
}

// for every cell of `inner` the cell of `outer` that contains its barycentre (own inverse mapping); ~0 if none
template<class Shape_> std::vector<Index> containing_cells(const MeshT<Shape_>& outer, const MeshT<Shape_>& inner)
{
  constexpr int dim = Shape_::dimension;
  typedef OwnMap<Shape_> OM;
  std::vector<Index> par(inner.get_num_elements(), ~Index(0));
  for(Index fc(0); fc < inner.get_num_elements(); ++fc)
  {
    LD bc[3] = {0, 0, 0}, xb[3], xi[3];
    if(!Fam<Shape_>::cube) for(int a(0); a < dim; ++a) bc[a] = LD(1) / LD(dim + 1);
    OM::map(inner, fc, bc, xb);
    for(Index cc(0); cc < outer.get_num_elements(); ++cc) if(OM::unmap(outer, cc, xb, xi, LD(1e-9))) { par[fc] = cc; break; }
  }
  return par;
}
// graph inner cell -> containing outer cell, and its transpose
inline Adjacency::Graph graph_from_map(const std::vector<Index>& img, Index nimage)
{
  std::vector<Index> ptr(img.size() + 1);
  for(std::size_t i(0); i <= img.size(); ++i) ptr[i] = Index(i);
  return Adjacency::Graph(Index(img.size()), nimage, Index(img.size()), ptr.data(), img.data());
}

// Inter-mesh transfer matrix X: source space -> target space, assembled by the real GridTransfer::assemble_intermesh_transfer_direct.
// The sparsity pattern is composed here from the cell adjacency (in the CURRENT numbering of both meshes) and the dof mappings, so
// nothing but the numeric assembly under test looks at mesh permutations.  trg2src: target cell -> source cells.
template<class Space_>
int intermesh(MatrixType& X, const Space_& trg, const Space_& src, const Adjacency::Graph& trg2src, const std::string& cub)
{
  Adjacency::Graph trg_dofs(Space::DofMappingRenderer::render(trg));
  Adjacency::Graph src_dofs(Space::DofMappingRenderer::render(src));
  Adjacency::Graph src2trg(Adjacency::RenderType::transpose_sorted, trg2src);
  Adjacency::Graph trg_support(Adjacency::RenderType::injectify_transpose, src2trg, trg_dofs);
  Adjacency::Graph pattern(Adjacency::RenderType::injectify_sorted, trg_support, src_dofs);
  X = MatrixType(pattern);
  X.format();
  return Assembly::GridTransfer::assemble_intermesh_transfer_direct(X, trg, src, trg2src, cub);
}

static bool is_identity_within(const MatrixType& M, double tol, double& dev)
{
  dev = 0; std::vector<char> diag(M.rows(), 0);
  for(Index i(0); i < M.rows(); ++i) for(Index k(M.row_ptr()[i]); k < M.row_ptr()[i + 1]; ++k)
  { const bool d = (M.col_ind()[k] == i); if(d) diag[i] = 1; dev = std::max(dev, std::fabs(M.val()[k] - (d ? 1.0 : 0.0))); }
  for(Index i(0); i < M.rows(); ++i) if(!diag[i]) dev = std::max(dev, 1.0);
  return M.rows() == M.columns() && dev <= tol;
}
static double max_entry_dev(const MatrixType& A, const MatrixType& B)
{
  if(A.rows() != B.rows() || A.columns() != B.columns()) return 1e300;
  std::vector<double> row(A.columns(), 0.0); double dev = 0;
  for(Index i(0); i < A.rows(); ++i)
  {
    for(Index k(A.row_ptr()[i]); k < A.row_ptr()[i + 1]; ++k) row[A.col_ind()[k]] += A.val()[k];
    for(Index k(B.row_ptr()[i]); k < B.row_ptr()[i + 1]; ++k) row[B.col_ind()[k]] -= B.val()[k];
    for(Index k(A.row_ptr()[i]); k < A.row_ptr()[i + 1]; ++k) { dev = std::max(dev, std::fabs(row[A.col_ind()[k]])); row[A.col_ind()[k]] = 0; }
    for(Index k(B.row_ptr()[i]); k < B.row_ptr()[i + 1]; ++k) { dev = std::max(dev, std::fabs(row[B.col_ind()[k]])); row[B.col_ind()[k]] = 0; }
  }
  return dev;
}

// prol / rest / trunc(prol) of a transfer object of any data/index type, returned as double vectors
template<class Transfer_>
void use_transfer(const Transfer_& tr, const VectorType& x, const VectorType& y, bool with_trunc, VectorType& px, VectorType& ry, VectorType& tpx)
{
  typedef typename Transfer_::VectorType V2;
  V2 x2, y2; x2.convert(x); y2.convert(y);
  V2 px2(y.size()), ry2(x.size()), tpx2(x.size());
  px2.format(); ry2.format(); tpx2.format();
  tr.prol(px2, x2); tr.rest(y2, ry2);
  if(with_trunc) tr.trunc(px2, tpx2);
  px.convert(px2); ry.convert(ry2); tpx.convert(tpx2);
}
static bool vec_same(const VectorType& a, const VectorType& b, double tol, const VectorType* scale = nullptr)
{
  if(a.size() != b.size()) return false;
  for(Index i(0); i < a.size(); ++i)
  {
    const double t = tol * (1.0 + (scale ? 0.0 : std::fabs(a(i))));
    if(tol == 0.0 ? (std::memcmp(&a.elements()[i], &b.elements()[i], sizeof(double)) != 0 && a(i) != b(i)) : !(std::fabs(a(i) - b(i)) <= t)) return false;
  }
  return true;
}

template<class Shape_, class Space_>
vj::Value run_transfer(const vj::Value& c, MeshT<Shape_>& cmesh, MeshT<Shape_>& fmesh, MeshT<Shape_>* fmesh0, int K)
{
  typedef MeshT<Shape_> MeshType;
  typedef Trafo::Standard::Mapping<MeshType> TrafoType;
  constexpr int dim = Shape_::dimension;
  const bool intmode = c["ps"].as_int() > 0;      // families with exact tables: integer projection at scale ps
  const double ps = intmode ? double(c["ps"].as_int()) : 1.0;
  const std::string cub = c.get_str("cub", "auto-degree:5");
  const bool want_trunc = c.get_int("trunc", 1) != 0;

  TrafoType ctrafo(cmesh), ftrafo(fmesh);
  Space_ cspace(ctrafo), fspace(ftrafo);

  // integer test vectors (seeded)
  unsigned long long st = 0x9E3779B97F4A7C15ull ^ (unsigned long long)c.get_int("seed", 1);
  auto rnd = [&st]() { st = st * 6364136223846793005ull + 1442695040888963407ull; return int((st >> 33) % 9) - 4; };
  const Index ngc = cspace.get_num_dofs(), ngf = fspace.get_num_dofs();
  VectorType x(ngc), y(ngf), pxt(ngf), pxv(ngf), ry(ngc);
  for(Index i(0); i < ngc; ++i) x(i, double(rnd()));
  for(Index i(0); i < ngf; ++i) y(i, double(rnd()));

  // the three numeric routines, in the order the case asks for (default: prolongation, truncation, vector prolongation): each of them
  // requests the refined cubature rule on its own, so each of them can be the first one after another rule was used in this process
  MatrixType P;
  Assembly::SymbolicAssembler::assemble_matrix_2lvl(P, fspace, cspace);
  P.format();
  MatrixType T;
  if(want_trunc) { T.transpose(P); T.format(); }
  pxv.format();
  const std::string order = c.get_str("order", "PTV");
  if(order.size() != 3 || order.find('P') == order.npos || order.find('T') == order.npos || order.find('V') == order.npos)
    throw std::runtime_error("bad order " + order);
  for(char op : order)
  {
    if(op == 'P') Assembly::GridTransfer::assemble_prolongation_direct(P, fspace, cspace, cub);
    else if(op == 'T') { if(want_trunc) Assembly::GridTransfer::assemble_truncation_direct(T, fspace, cspace, cub); }
    else Assembly::GridTransfer::prolongate_vector_direct(pxv, x, fspace, cspace, cub);
  }
  MatrixType R = P.transpose();
  // bitwise transpose check (projection: one boolean)
  bool rbit = (R.rows() == P.columns() && R.columns() == P.rows() && R.used_elements() == P.used_elements());
  if(rbit)
  {
    for(Index i(0); i < P.rows() && rbit; ++i)
      for(Index k(P.row_ptr()[i]); k < P.row_ptr()[i + 1] && rbit; ++k)
      {
        const Index j = P.col_ind()[k]; bool found = false;
        for(Index q(R.row_ptr()[j]); q < R.row_ptr()[j + 1]; ++q)
          if(R.col_ind()[q] == i) { found = (std::memcmp(&R.val()[q], &P.val()[k], sizeof(double)) == 0); break; }
        if(!found) rbit = false;
      }
  }

  // LAFEM::Transfer
  LAFEM::Transfer<MatrixType> transfer(P.clone(LAFEM::CloneMode::Deep), R.clone(LAFEM::CloneMode::Deep),
    want_trunc ? T.clone(LAFEM::CloneMode::Deep) : MatrixType());
  pxt.format(); ry.format();
  transfer.prol(pxt, x);
  transfer.rest(y, ry);
  // function-level agreement (projection)
  long long fn_n = 0, fn_bad = 0, fn_orphan = 0; double fn_worst = 0;
  function_agreement<Shape_, Space_>(cmesh, fmesh, cspace, fspace, x.elements(), pxt.elements(), fn_n, fn_bad, fn_orphan, fn_worst);
  // float-level agreement of the operators (for the families without integer projection)
  double vdev = 0, tpdev = 0, rdev = 0;
  for(Index i(0); i < ngf; ++i) vdev = std::max(vdev, std::fabs(pxv(i) - pxt(i)));
  {
    // R y against P^T y accumulated from P
    std::vector<double> pty(ngc, 0.0), mag(ngc, 0.0);
    for(Index i(0); i < P.rows(); ++i) for(Index k(P.row_ptr()[i]); k < P.row_ptr()[i + 1]; ++k) { pty[P.col_ind()[k]] += P.val()[k] * y(i); mag[P.col_ind()[k]] += std::fabs(P.val()[k] * y(i)); }
    for(Index j(0); j < ngc; ++j) rdev = std::max(rdev, std::fabs(ry(j) - pty[j]) / (1.0 + mag[j]));
  }

  // ---- Transfer object life cycle: trunc of the object itself, clone(), convert() then use ----
  VectorType tpx(ngc), o_px(ngf), o_ry(ngc), o_tpx(ngc);
  tpx.format();
  if(want_trunc) transfer.trunc(pxt, tpx);
  bool clone_ok = true, cvi_ok = true, cvf_ok = true, cvf_tp_ok = true;
  {
    auto cl_deep = transfer.clone(LAFEM::CloneMode::Deep);
    use_transfer(cl_deep, x, y, want_trunc, o_px, o_ry, o_tpx);
    clone_ok = clone_ok && vec_same(o_px, pxt, 0.0) && vec_same(o_ry, ry, 0.0) && vec_same(o_tpx, tpx, 0.0);
    auto cl_weak = transfer.clone(LAFEM::CloneMode::Weak);
    use_transfer(cl_weak, x, y, want_trunc, o_px, o_ry, o_tpx);
    clone_ok = clone_ok && vec_same(o_px, pxt, 0.0) && vec_same(o_ry, ry, 0.0) && vec_same(o_tpx, tpx, 0.0);
    // index type conversion: same doubles, so bitwise the same results
    LAFEM::Transfer<LAFEM::SparseMatrixCSR<double, unsigned int>> cvi;
    cvi.convert(transfer);
    use_transfer(cvi, x, y, want_trunc, o_px, o_ry, o_tpx);
    cvi_ok = vec_same(o_px, pxt, 0.0) && vec_same(o_ry, ry, 0.0) && vec_same(o_tpx, tpx, 0.0);
    // data type conversion: single precision, results within 64 eps_float * (1 + |value|) * row length bound
    LAFEM::Transfer<LAFEM::SparseMatrixCSR<float, Index>> cvf;
    cvf.convert(transfer);
    use_transfer(cvf, x, y, want_trunc, o_px, o_ry, o_tpx);
    const double ftol = 2e-4;
    cvf_ok = vec_same(o_px, pxt, ftol) && vec_same(o_ry, ry, ftol) && vec_same(o_tpx, tpx, ftol);
    // TruncLeftInverse on the converted object itself (judged for nested families)
    for(Index i(0); i < ngc; ++i) if(!(std::fabs(o_tpx(i) - x(i)) <= 2e-4 * (1.0 + std::fabs(x(i))))) cvf_tp_ok = false;
  }

  // ---- inter-mesh transfer (GridTransfer::assemble_intermesh_transfer) ----
  // XC: fine -> coarse (target coarse; with xcub the target cubature points lie on interfaces of the source cells): XC P = I
  // XF: coarse -> fine (target fine): XF = P;   XS: fine mesh in its original numbering -> this (possibly permuted) fine mesh: a permutation
  const std::string xcub = c.get_str("xcub", "");
  int xfail = 0; bool x_done = false, xs_done = false, xf_ok = true, xs_fn_ok = true; double xc_dev = 0, xf_dev = 0;
  MatrixType XCP, XF, XS;
  Proj pxc, pxf, pxs;
  if(!xcub.empty())
  {
    const std::vector<Index> parent = containing_cells<Shape_>(cmesh, fmesh);
    bool all = true; for(Index p : parent) if(p == ~Index(0)) all = false;
    if(all)
    {
      Adjacency::Graph f2c = graph_from_map(parent, cmesh.get_num_elements());
      Adjacency::Graph c2f(Adjacency::RenderType::transpose_sorted, f2c);
      if(c.get_int("xnested", 0) != 0)
      {
        MatrixType XC;
        xfail += intermesh(XC, cspace, fspace, c2f, xcub);
        XCP = mat_mat(XC, P);
        is_identity_within(XCP, 1e-9, xc_dev);
        xfail += intermesh(XF, fspace, cspace, f2c, c.get_str("xcubf", xcub));
        xf_dev = max_entry_dev(XF, P);
        xf_ok = xf_dev <= 1e-9;
        x_done = true;
      }
    }
    // same geometry, other numbering
    {
      const MeshType& smesh = fmesh0 ? *fmesh0 : fmesh;
      TrafoType strafo(const_cast<MeshType&>(smesh));
      Space_ sspace(strafo);
      const std::vector<Index> twin = containing_cells<Shape_>(smesh, fmesh);
      bool alls = true; for(Index p : twin) if(p == ~Index(0)) alls = false;
      if(alls)
      {
        Adjacency::Graph t2s = graph_from_map(twin, smesh.get_num_elements());
        xfail += intermesh(XS, fspace, sspace, t2s, c.get_str("xcubs", xcub));
        VectorType ys(ngf), xy(ngf);
        for(Index i(0); i < ngf; ++i) ys(i, y(i));
        xy.format(); XS.apply(xy, ys);
        long long n2 = 0, b2 = 0, o2 = 0; double w2 = 0;
        function_agreement<Shape_, Space_>(smesh, fmesh, sspace, fspace, ys.elements(), xy.elements(), n2, b2, o2, w2);
        xs_fn_ok = (n2 > 0 && b2 == 0 && o2 == 0);
        xs_done = true;
      }
    }
  }

  // ---- control layer: Control::Asm::asm_transfer_scalar, twice into the same transfer object ----
  bool ctl_ok = true, ctl_repeat_ok = true; double ctl_dev = 0;
  Digest dig;
  dig.add(P); dig.add(R); dig.add(T); dig.add(pxv); dig.add(pxt); dig.add(ry); dig.add(tpx);
  if(want_trunc)
  {
    typedef CtlLevel<Space_> LevelT;
    typedef LAFEM::VectorMirror<double, Index> MirrorT;
    std::shared_ptr<LevelT> lf = std::make_shared<LevelT>(), lc = std::make_shared<LevelT>();
    lf->space = &fspace; lc->space = &cspace;
    std::shared_ptr<Control::Domain::DomainLayer> no_layer;
    Control::Domain::VirtualLevel<LevelT> vf(lf, no_layer), vc(lc, no_layer);
    Global::Gate<VectorType, MirrorT> gate_f, gate_c;
    Global::Muxer<VectorType, MirrorT> muxer;
    LAFEM::Transfer<MatrixType> ctr;
    auto lambda = [](const LevelT& l) { return l.space; };
    Control::Asm::asm_transfer_scalar(vf, vc, cub, true, false, lambda, ctr, muxer, gate_f, gate_c);
    ctl_dev = std::max(max_entry_dev(ctr.get_mat_prol(), P), std::max(max_entry_dev(ctr.get_mat_rest(), R), max_entry_dev(ctr.get_mat_trunc(), T)));
    ctl_ok = ctl_dev <= 1e-13;
    MatrixType p1 = ctr.get_mat_prol().clone(LAFEM::CloneMode::Deep), r1 = ctr.get_mat_rest().clone(LAFEM::CloneMode::Deep), t1 = ctr.get_mat_trunc().clone(LAFEM::CloneMode::Deep);
    Control::Asm::asm_transfer_scalar(vf, vc, cub, true, false, lambda, ctr, muxer, gate_f, gate_c);
    const double rep = std::max(max_entry_dev(ctr.get_mat_prol(), p1), std::max(max_entry_dev(ctr.get_mat_rest(), r1), max_entry_dev(ctr.get_mat_trunc(), t1)));
    ctl_repeat_ok = rep <= 1e-13;
    ctl_dev = std::max(ctl_dev, rep);
    dig.add(p1); dig.add(t1); dig.add(ctr.get_mat_prol()); dig.add(ctr.get_mat_trunc());
  }
  if(x_done) { dig.add(XCP); dig.add(XF); }
  if(xs_done) dig.add(XS);

  // ---- dump ----
  if(c.get_int("scale", 0) != 0) { scale_mesh(cmesh, -(int)c.get_int("scale", 0)); scale_mesh(fmesh, -(int)c.get_int("scale", 0)); }
  const std::string out = c["out"].as_str();
  FILE* f = std::fopen(out.c_str(), "w");
  if(!f) throw std::runtime_error("cannot write " + out);
  std::fputs("{\"id\":", f); put_str(f, c["id"].as_str());
  std::fprintf(f, ",\"fam\":\"%s\",\"dim\":%d,\"el\":", Fam<Shape_>::name(), dim); put_str(f, c["el"].as_str());
  std::fprintf(f, ",\"K\":%d,\"ps\":%lld,\"levels\":[", K, (long long)c["ps"].as_int());
  std::vector<std::pair<std::string, const Geometry::MeshPart<MeshType>*>> noparts;
  bool exact = put_level(f, cmesh, K, noparts, false);
  std::fputc(',', f);
  exact = put_level(f, fmesh, K, noparts, false) && exact;
  std::fprintf(f, "],\"ngc\":%llu,\"ngf\":%llu,\"gc\":", (unsigned long long)ngc, (unsigned long long)ngf);
  put_dofmap(f, cspace);
  std::fputs(",\"gf\":", f); put_dofmap(f, fspace);
  Proj pp, pr, pt, pv, pxt_, pry, pxx;
  if(intmode)
  {
    std::fputs(",\"P\":", f); put_rows(f, P, ps, pp);
    std::fputs(",\"R\":", f); put_rows(f, R, ps, pr);
  }
  else std::fputs(",\"P\":[],\"R\":[]", f);
  std::fputs(",\"TP\":", f);
  if(want_trunc)
  {
    MatrixType TP = mat_mat(T, P); put_rows(f, TP, 1.0, pt);
    for(Index i(0); i < TP.rows(); ++i) for(Index k(TP.row_ptr()[i]); k < TP.row_ptr()[i + 1]; ++k)
      tpdev = std::max(tpdev, std::fabs(TP.val()[k] - (TP.col_ind()[k] == i ? 1.0 : 0.0)));
  }
  else std::fputs("[]", f);
  std::fprintf(f, ",\"intmode\":%s,\"fn\":{\"n\":%lld,\"bad\":%lld,\"orphan\":%lld,\"worst\":%.3e},\"vdev_ok\":%s,\"rdev_ok\":%s,\"nnz\":%llu",
    intmode ? "true" : "false", fn_n, fn_bad, fn_orphan, fn_worst, vdev <= 1e-9 * (1.0 + 4.0 * 30.0) ? "true" : "false", rdev <= 1e-10 ? "true" : "false",
    (unsigned long long)P.used_elements());
  std::fputs(",\"x\":", f); put_vec(f, x, 1.0, pxx);
  std::fputs(",\"y\":", f); put_vec(f, y, 1.0, pxx);
  std::fputs(",\"pxt\":", f); put_vec(f, pxt, ps, pxt_);
  std::fputs(",\"pxv\":", f); put_vec(f, pxv, ps, pv);
  std::fputs(",\"ry\":", f); put_vec(f, ry, ps, pry);
  Proj ptpx;
  std::fputs(",\"tpx\":", f); put_vec(f, tpx, 1.0, ptpx);
  std::fprintf(f, ",\"trunc\":%s,\"tpxnoise\":%s,\"clone_ok\":%s,\"cvi_ok\":%s,\"cvf_ok\":%s,\"cvf_tp_ok\":%s", want_trunc ? "true" : "false",
    ptpx.noise ? "true" : "false", clone_ok ? "true" : "false", cvi_ok ? "true" : "false", cvf_ok ? "true" : "false", cvf_tp_ok ? "true" : "false");
  std::fprintf(f, ",\"ctl_ok\":%s,\"ctl_repeat_ok\":%s,\"scale\":%d", ctl_ok ? "true" : "false", ctl_repeat_ok ? "true" : "false", (int)c.get_int("scale", 0));
  std::fprintf(f, ",\"xdone\":%s,\"xsdone\":%s,\"xfail\":%d", x_done ? "true" : "false", xs_done ? "true" : "false", xfail);
  std::fputs(",\"XCP\":", f); if(x_done) put_rows(f, XCP, 1.0, pxc); else std::fputs("[]", f);
  std::fputs(",\"XF\":", f); if(x_done && intmode) put_rows(f, XF, ps, pxf); else std::fputs("[]", f);
  std::fputs(",\"XS\":", f); if(xs_done) put_rows(f, XS, 1.0, pxs); else std::fputs("[]", f);
  std::fprintf(f, ",\"xcnoise\":%s,\"xfnoise\":%s,\"xsnoise\":%s,\"xf_ok\":%s,\"xs_fn_ok\":%s", pxc.noise ? "true" : "false", pxf.noise ? "true" : "false",
    pxs.noise ? "true" : "false", xf_ok ? "true" : "false", xs_fn_ok ? "true" : "false");
  std::fputs(",\"order\":", f); put_str(f, order); std::fputs(",\"cub\":", f); put_str(f, cub); std::fputs(",\"dig\":", f); dig.put(f);
  std::fprintf(f, ",\"pnoise\":%s,\"tnoise\":%s,\"vnoise\":%s,\"xnoise\":%s,\"rnoise\":%s,\"rbit\":%s}\n", (pp.noise || pr.noise) ? "true" : "false",
    pt.noise ? "true" : "false", pv.noise ? "true" : "false", pxt_.noise ? "true" : "false", pry.noise ? "true" : "false", rbit ? "true" : "false");
  std::fclose(f);
  if(!exact) return vh::bad("a mesh coordinate left the integer domain at scale 2^K");
  vj::Value r = vh::ok();
  r["dev_p"] = pp.worst; r["dev_tp"] = pt.worst; r["dev_v"] = pv.worst; r["dev_fn"] = fn_worst; r["vdev"] = vdev; r["rdev"] = rdev; r["xc_dev"] = xc_dev; r["xf_dev"] = xf_dev; r["dev_xs"] = pxs.worst; r["ctl_dev"] = ctl_dev; r["ngf"] = (long long)ngf; r["nnz"] = (long long)P.used_elements();
  r["dig"] = dig.value();
  return r;
}

template<class Shape_> vj::Value run_shape(const vj::Value& c)
{
  typedef MeshT<Shape_> MeshType;
  typedef Trafo::Standard::Mapping<MeshType> TrafoType;
  constexpr int dim = Shape_::dimension;
  const vj::Value& src = c["src"];
  std::unique_ptr<MeshType> cmesh_own;
  MeshType* cmesh = nullptr;
  Geometry::MeshAtlas<MeshType> atlas;
  std::unique_ptr<Geometry::RootMeshNode<MeshType>> node;
  if(src.has("raw")) { cmesh_own = build_raw<Shape_>(src["raw"]); cmesh = cmesh_own.get(); }
  else if(src.has("file"))
  {
    node = build_file<Shape_>(src["file"].as_str(), atlas);
    // snap to a dyadic grid: the specification checks the origin of every fine vertex on integer coordinates
    MeshType& m0 = *node->get_mesh();
    const double ma = std::max(1.0, max_abs_coord(m0));
    int g = int(std::floor(std::log2(4194304.0 / ma))) - dim;
    if(g > 24) g = 24;
    if(g < 3) { vj::Value r = vh::ok(); r["skip"] = true; r["why"] = "no dyadic grid fits"; return r; }
    snap(m0, g);
    cmesh = &m0;
  }
  else { cmesh_own = build_factory<Shape_>(src); cmesh = cmesh_own.get(); }
  if((long long)cmesh->get_num_elements() > c.get_int("maxcells", 600)) { vj::Value r = vh::ok(); r["skip"] = true; r["why"] = "too many cells"; return r; }

  std::unique_ptr<MeshType> fmesh;
  {
    Geometry::StandardRefinery<MeshType> ref(*cmesh);
    fmesh = ref.make_unique();
  }
  const std::string perm = c.get_str("perm", "none");
  std::unique_ptr<MeshType> fmesh0;     // the fine mesh in its original numbering (source of the permuted-mesh inter-mesh transfer)
  if(perm != "none")
  {
    fmesh0.reset(new MeshType(fmesh->clone()));
    cmesh->create_permutation(strategy_of(perm));
    fmesh->create_permutation(strategy_of(perm));
  }
  int K = std::max(min_scale(*cmesh, 30), min_scale(*fmesh, 30));
  if(K < 0) { vj::Value r = vh::ok(); r["skip"] = true; r["why"] = "mesh coordinates are not dyadic (outside the exact domain)"; return r; }

  // uniformly scaled copy of the geometry (exact power of two): the transfer operators do not depend on the unit of length
  const int sc = (int)c.get_int("scale", 0);
  if(sc != 0) { scale_mesh(*cmesh, sc); scale_mesh(*fmesh, sc); if(fmesh0) scale_mesh(*fmesh0, sc); }
  const std::string el = c["el"].as_str();
  if(el == "lagrange1") return run_transfer<Shape_, Space::Lagrange1::Element<TrafoType>>(c, *cmesh, *fmesh, fmesh0.get(), K);
  if(el == "lagrange2") return run_transfer<Shape_, Space::Lagrange2::Element<TrafoType>>(c, *cmesh, *fmesh, fmesh0.get(), K);
  if(el == "lagrange3") return run_transfer<Shape_, Space::Lagrange3::Element<TrafoType>>(c, *cmesh, *fmesh, fmesh0.get(), K);
  if constexpr (Fam<Shape_>::cube) { if(el == "bernstein2") return run_transfer<Shape_, Space::Bernstein2::Element<TrafoType>>(c, *cmesh, *fmesh, fmesh0.get(), K); }
  if(el == "discontinuous0") return run_transfer<Shape_, Space::Discontinuous::Element<TrafoType, Space::Discontinuous::Variant::StdPolyP<0>>>(c, *cmesh, *fmesh, fmesh0.get(), K);
  if constexpr (!Fam<Shape_>::cube)
  {
    if(el == "discontinuous1") return run_transfer<Shape_, Space::Discontinuous::Element<TrafoType, Space::Discontinuous::Variant::StdPolyP<1>>>(c, *cmesh, *fmesh, fmesh0.get(), K);
    if(el == "crorav") return run_transfer<Shape_, Space::CroRavRanTur::Element<TrafoType>>(c, *cmesh, *fmesh, fmesh0.get(), K);
  }
  return vh::bad("element family not bound in this harness: " + el);
}

// ---------------------------------------------------------------------------------------------------------------
// kind "rule": the refined cubature rule itself.  "cub" = "refine:<base>", obtained by name through the DynamicFactory (route
// "name") or from the base rule through Cubature::RefineFactoryCore::create (route "core", the call of the 2-level assembly), for
// the rule type the assembly uses.  Dumped: both rules projected to integers (points at scale 2^20, weights at scale 2^16; the
// specification allows for the rounding), the one-cell mesh and its refinement by the real StandardRefinery: TLC derives the
// child cells in reference coordinates from the refinement topology and requires point c*n+k of the refined rule to be the image
// of base point k in child c, its weight to be scaled by the volume fraction (Transfer!RefinedRuleOK).
// ---------------------------------------------------------------------------------------------------------------
template<class Shape_> vj::Value run_rule(const vj::Value& c)
{
  typedef MeshT<Shape_> MeshType;
  typedef Trafo::Standard::Mapping<MeshType> TrafoType;
  typedef typename TrafoType::template Evaluator<Shape_, double>::Type TrafoEval;
  typedef typename Assembly::Intern::CubatureTraits<TrafoEval>::RuleType RuleType;
  constexpr int dim = Shape_::dimension;
  const std::string name = c["cub"].as_str(), base = c["base"].as_str(), route = c.get_str("route", "name");
  std::unique_ptr<MeshType> cmesh = build_raw<Shape_>(c["src"]["raw"]);
  std::unique_ptr<MeshType> fmesh;
  { Geometry::StandardRefinery<MeshType> ref(*cmesh); fmesh = ref.make_unique(); }
  const int K = std::max(min_scale(*cmesh, 30), min_scale(*fmesh, 30));
  if(K < 0) return vh::bad("reference cell mesh is not dyadic");

  RuleType rb, rr;
  if(!Cubature::DynamicFactory(base).create(rb)) return vh::bad("base rule refused: " + base);
  if(route == "core") Cubature::RefineFactoryCore::create(rr, rb);
  else if(!Cubature::DynamicFactory(name).create(rr)) return vh::bad("refined rule refused: " + name);

  const double SP = 1048576.0, SW = 65536.0;
  Digest dig;
  bool bad_num = false;
  auto put_rule = [&](FILE* f, const RuleType& r, const char* kp, const char* kw)
  {
    std::fprintf(f, ",\"%s\":[", kp);
    for(int k(0); k < r.get_num_points(); ++k)
    {
      std::fputs(k ? ",[" : "[", f);
      for(int a(0); a < dim; ++a)
      {
        const double v = double(r.get_coord(k, a)); if(!(std::fabs(v) <= 4.0)) bad_num = true;
        dig.add(&v, sizeof(v));
        std::fprintf(f, a ? ",%lld" : "%lld", (long long)std::nearbyint(v * SP));
      }
      std::fputc(']', f);
    }
    std::fprintf(f, "],\"%s\":[", kw);
    for(int k(0); k < r.get_num_points(); ++k)
    {
      const double w = double(r.get_weight(k)); if(!(std::fabs(w) <= 64.0)) bad_num = true;
      dig.add(&w, sizeof(w));
      std::fprintf(f, k ? ",%lld" : "%lld", (long long)std::nearbyint(w * SW));
    }
    std::fputc(']', f);
  };
  const std::string out = c["out"].as_str();
  FILE* f = std::fopen(out.c_str(), "w");
  if(!f) throw std::runtime_error("cannot write " + out);
  std::fputs("{\"id\":", f); put_str(f, c["id"].as_str());
  std::fprintf(f, ",\"kind\":\"rule\",\"fam\":\"%s\",\"dim\":%d,\"K\":%d,\"cub\":", Fam<Shape_>::name(), dim, K); put_str(f, name);
  std::fputs(",\"base\":", f); put_str(f, base); std::fputs(",\"route\":", f); put_str(f, route);
  std::fputs(",\"levels\":[", f);
  std::vector<std::pair<std::string, const Geometry::MeshPart<MeshType>*>> noparts;
  bool exact = put_level(f, *cmesh, K, noparts, false);
  std::fputc(',', f);
  exact = put_level(f, *fmesh, K, noparts, false) && exact;
  std::fprintf(f, "],\"n\":%d,\"nr\":%d,\"sp\":%lld,\"sw\":%lld", rb.get_num_points(), rr.get_num_points(), (long long)SP, (long long)SW);
  put_rule(f, rb, "bp", "bw");
  put_rule(f, rr, "rp", "rw");
  std::fputs(",\"rname\":", f); put_str(f, rr.get_name());
  std::fprintf(f, ",\"range_ok\":%s,\"dig\":", bad_num ? "false" : "true"); dig.put(f);
  std::fputs("}\n", f);
  std::fclose(f);
  if(!exact) return vh::bad("a mesh coordinate left the integer domain at scale 2^K");
  vj::Value r = vh::ok();
  r["dig"] = dig.value(); r["n"] = (long long)rb.get_num_points(); r["nr"] = (long long)rr.get_num_points();
  return r;
}

vj::Value run_case(const vj::Value& c)
{
  const std::string fam = c["fam"].as_str(); const int dim = (int)c["dim"].as_int();
  if(c.get_str("kind", "xfer") == "rule")
  {
#ifndef C18_ONLY_HYPERCUBE
    if(fam == "simplex" && dim == 2) return run_rule<Shape::Simplex<2>>(c);
    if(fam == "simplex" && dim == 3) return run_rule<Shape::Simplex<3>>(c);
#endif
#ifndef C18_ONLY_SIMPLEX
    if(fam == "hypercube" && dim == 2) return run_rule<Shape::Hypercube<2>>(c);
    if(fam == "hypercube" && dim == 3) return run_rule<Shape::Hypercube<3>>(c);
#endif
    return vh::bad("unsupported shape in this binary");
  }
#ifndef C18_ONLY_HYPERCUBE
  if(fam == "simplex" && dim == 2) return run_shape<Shape::Simplex<2>>(c);
  if(fam == "simplex" && dim == 3) return run_shape<Shape::Simplex<3>>(c);
#endif
#ifndef C18_ONLY_SIMPLEX
  if(fam == "hypercube" && dim == 2) return run_shape<Shape::Hypercube<2>>(c);
  if(fam == "hypercube" && dim == 3) return run_shape<Shape::Hypercube<3>>(c);
#endif
  return vh::bad("unsupported shape in this binary");
}

int main(int argc, char** argv) { return vh::main_loop(argc, argv); }
