// C13 MPI replayer: builds real Global::Gate / Global::Vector / Global::Matrix objects for the decompositions
// generated from spec/Gen_Synch.tla on `nr` MPI ranks and compares sync_0, frequencies, sync_1, dot, norm2,
// the global dof count and the distributed matrix-vector product with the specification's prediction.
// Hook H4 forces a TLC/seed-chosen processing order of the neighbour messages and logs the processed order.
//
// run as:  mpirun -np <nr> c13_synch --cases FILE [--start K]     (all ranks read FILE; rank 0 journals)
#include "vjson.hpp"
#include <kernel/runtime.hpp>
#include <kernel/util/dist.hpp>
#include <kernel/global/gate.hpp>
#include <kernel/global/vector.hpp>
#include <kernel/global/matrix.hpp>
#include <kernel/lafem/dense_vector.hpp>
#include <kernel/lafem/vector_mirror.hpp>
#include <kernel/lafem/sparse_matrix_csr.hpp>
#include <algorithm>
#include <csignal>
#include <fstream>
#include <unistd.h>

using namespace FEAT;
typedef double DT; typedef Index IT;
typedef LAFEM::DenseVector<DT, IT> LVec;
typedef LAFEM::VectorMirror<DT, IT> Mirror;
typedef Global::Gate<LVec, Mirror> GateT;
typedef LAFEM::SparseMatrixCSR<DT, IT> LMat;

static std::vector<std::size_t> g_forced;     // forced processing order for this rank (empty: natural)
static std::vector<std::size_t> g_seen;       // processed order as reported by the hook
static bool order_hook(std::size_t n, std::size_t* order)
{
  if(g_forced.size() != n) return false;
  for(std::size_t k = 0; k < n; ++k) order[k] = g_forced[k];
  return true;
}
static void recv_hook(std::size_t idx) { g_seen.push_back(idx); }

static void on_alarm(int) { const char m[] = "\nHANG\n"; if(::write(1, m, sizeof(m) - 1)) {} ::_exit(97); }

static LVec mkvec(const std::vector<long long>& v) { LVec r(Index(v.size())); for(std::size_t k = 0; k < v.size(); ++k) r(Index(k), DT(v[k])); return r; }

// the rank-local part of a case
static std::string run_local(const vj::Value& c, const Dist::Comm& comm, int perm_no)
{
  const int me = comm.rank(), nr = comm.size();
  auto key = [](int r) { return std::to_string(r); };
  std::vector<std::vector<long long>> dofs(nr);
  for(int r = 0; r < nr; ++r) dofs[r] = c["dofs"][key(r)].ints();
  const std::vector<long long>& mine = dofs[me];
  const Index nloc = Index(mine.size());

  // gate: one mirror per neighbour (ranks sharing a dof).  The specification lists the dofs of a rank in the rank's LOCAL
  // numbering (not ascending in general) and gives the mirror of every neighbour pair: entry k = local index of the k-th
  // shared dof in the common buffer order (ascending global dof) - not monotone for a renumbered patch.
  GateT gate(comm);
  std::vector<int> nbrs;
  for(int s = 0; s < nr; ++s)
  {
    if(s == me) continue;
    const std::vector<long long> idx = c["mir"][key(me)][key(s)].ints();
    if(idx.empty()) continue;
    Mirror mir(nloc, Index(idx.size()));
    for(std::size_t k = 0; k < idx.size(); ++k) mir.indices()[k] = IT(idx[k]);
    gate.push(s, std::move(mir));
    nbrs.push_back(s);
  }
  gate.compile(LVec(nloc));

  // forced receive order: the perm_no-th permutation of the neighbour list (natural order for perm_no < 0)
  g_forced.clear();
  if(perm_no >= 0 && !nbrs.empty())
  {
    std::vector<std::size_t> p(nbrs.size()); for(std::size_t k = 0; k < p.size(); ++k) p[k] = k;
    for(int t = 0; t < perm_no + me; ++t) std::next_permutation(p.begin(), p.end());
    g_forced = p;
  }
  Verif::synch_order_hook = &order_hook; Verif::synch_recv_hook = &recv_hook;

  std::string why;
  auto fail = [&](const std::string& w) { if(why.empty()) why = "rank " + std::to_string(me) + ": " + w; };
  auto vs = [](const LVec& v) { std::string s = "["; for(Index i = 0; i < v.size(); ++i) s += (i ? "," : "") + std::to_string(v(i)); return s + "]"; };

  // --- frequencies = 1 / number of sharers -----------------------------------------------------
  std::vector<long long> cnt = c["count"][key(me)].ints();
  bool dyadic = true;
  for(Index i = 0; i < nloc; ++i)
  {
    if(gate.get_freqs()(i) != DT(1) / DT(cnt[i])) fail("frequency of local dof " + std::to_string(i) + " is " + std::to_string(gate.get_freqs()(i)) + " expected 1/" + std::to_string(cnt[i]));
    if((cnt[i] & (cnt[i] - 1)) != 0) dyadic = false;   // 1/count is exact only for powers of two
  }
  // --- sync_0 ------------------------------------------------------------------------------------
  {
    LVec v = mkvec(c["v0"][key(me)].ints()); LVec e = mkvec(c["sync0"][key(me)].ints());
    g_seen.clear();
    gate.sync_0(v);
    for(Index i = 0; i < nloc; ++i) if(v(i) != e(i)) { fail("sync_0 gives " + vs(v) + " expected " + vs(e)); break; }
    if(!g_forced.empty() && g_seen != g_forced) fail("receives were not processed in the prescribed order");
    if(g_forced.empty() && g_seen.size() != nbrs.size()) fail("number of processed receives");
    std::vector<std::size_t> srt(g_seen); std::sort(srt.begin(), srt.end());
    for(std::size_t k = 0; k < srt.size(); ++k) if(srt[k] != k) fail("a receive was processed twice or not at all");
  }
  // --- sync_1 of a consistent vector: every sharer ends with the common value ------------------------
  {
    LVec x = mkvec(c["x"][key(me)].ints()); LVec e = mkvec(c["x"][key(me)].ints());
    gate.sync_1(x);
    for(Index i = 0; i < nloc; ++i)
    {
      double tol = dyadic ? 0.0 : 8.0 * std::numeric_limits<DT>::epsilon() * std::fabs(e(i));
      if(std::fabs(x(i) - e(i)) > tol) { fail("sync_1 of a consistent vector gives " + vs(x) + " expected " + vs(e)); break; }
    }
  }
  // --- dot / norm2 / global dof count --------------------------------------------------------------
  {
    LVec x = mkvec(c["x"][key(me)].ints()), y = mkvec(c["y"][key(me)].ints());
    long long ed = c["dot"].as_int(), en = c["nrm2"].as_int();
    double mag = 0.0; // sum |x||y| bound for the tolerance case
    for(Index i = 0; i < nloc; ++i) mag += std::fabs(x(i) * y(i));
    double gmag = mag; comm.allreduce(&mag, &gmag, std::size_t(1), Dist::op_sum);
    double tol = dyadic ? 0.0 : 16.0 * double(c["nd"].as_int() + 2) * std::numeric_limits<DT>::epsilon() * gmag;
    // 'dyadic' must agree on all ranks for the exact comparison: reduce
    int dy = dyadic ? 1 : 0, gdy = dy; comm.allreduce(&dy, &gdy, std::size_t(1), Dist::op_min);
    if(!gdy) tol = 16.0 * double(c["nd"].as_int() + 2) * std::numeric_limits<DT>::epsilon() * gmag;
    DT d = gate.dot(x, y);
    if(std::fabs(d - DT(ed)) > tol) fail("dot = " + std::to_string(d) + " expected " + std::to_string(ed));
    DT n2 = gate.dot(x, x);
    double mag2 = 0.0; for(Index i = 0; i < nloc; ++i) mag2 += x(i) * x(i);
    double gmag2 = mag2; comm.allreduce(&mag2, &gmag2, std::size_t(1), Dist::op_sum);
    double tol2 = gdy ? 0.0 : 16.0 * double(c["nd"].as_int() + 2) * std::numeric_limits<DT>::epsilon() * gmag2;
    if(std::fabs(n2 - DT(en)) > tol2) fail("dot(x,x) = " + std::to_string(n2) + " expected " + std::to_string(en));
    DT nrm = gate.norm2(x.norm2()); (void)nrm; // type-0 norm helper: sqrt(sum of squares of local norms) - not a type-1 norm, only exercised
    Global::Vector<LVec, Mirror> gx(&gate, x.clone());
    DT gn = gx.norm2();
    if(std::fabs(gn * gn - DT(en)) > 8.0 * std::numeric_limits<DT>::epsilon() * DT(en) + tol2) fail("Global::Vector::norm2()^2 = " + std::to_string(gn * gn) + " expected " + std::to_string(en));
    Index ng = gate.get_num_global_dofs();
    if((long long)ng != c["nglobal"].as_int()) fail("get_num_global_dofs = " + std::to_string(ng) + " expected " + std::to_string(c["nglobal"].as_int()));
  }
  // --- distributed matrix-vector product: local type-0 matrices summing to the undecomposed operator ----
  if(nloc > 0)
  {
    std::vector<std::vector<long long>> a = c["aloc"][key(me)].int_rows();
    LAFEM::DenseVector<IT, IT> ci(nloc * nloc), rp(nloc + 1); LVec va(nloc * nloc);
    for(Index i = 0; i < nloc; ++i) { rp(i, IT(i * nloc)); for(Index j = 0; j < nloc; ++j) { ci(i * nloc + j, IT(j)); va(i * nloc + j, DT(a[i][j])); } }
    rp(nloc, IT(nloc * nloc));
    LMat lm(nloc, nloc, ci, va, rp);
    Global::Matrix<LMat, Mirror, Mirror> gm(&gate, &gate, std::move(lm));
    Global::Vector<LVec, Mirror> gx(&gate, mkvec(c["x"][key(me)].ints()));
    Global::Vector<LVec, Mirror> gr(&gate, LVec(nloc, DT(-77)));
    gm.apply(gr, gx);
    LVec e = mkvec(c["ax"][key(me)].ints());
    for(Index i = 0; i < nloc; ++i) if(gr.local()(i) != e(i)) { fail("Global::Matrix::apply gives " + vs(gr.local()) + " expected " + vs(e)); break; }
  }
  Verif::synch_order_hook = nullptr; Verif::synch_recv_hook = nullptr;
  return why;
}

int main(int argc, char** argv)
{
  std::string file; long start = 0; unsigned tmo = 30;
  for(int k = 1; k < argc; ++k)
  {
    std::string a(argv[k]);
    if(a == "--cases" && k + 1 < argc) file = argv[++k];
    else if(a == "--start" && k + 1 < argc) start = std::atol(argv[++k]);
    else if(a == "--timeout" && k + 1 < argc) tmo = (unsigned)std::atol(argv[++k]);
  }
  Runtime::initialize(argc, argv);
  Dist::Comm comm = Dist::Comm::world();
  std::signal(SIGALRM, on_alarm);
  std::ifstream in(file);
  if(!in) { if(comm.rank() == 0) std::fprintf(stderr, "cannot open %s\n", file.c_str()); Runtime::abort(false); }
  std::string line; long k = -1;
  while(std::getline(in, line))
  {
    if(line.empty()) continue;
    ++k; if(k < start) continue;
    if(comm.rank() == 0) { std::printf("B %ld\n", k); std::fflush(stdout); }
    ::alarm(tmo);
    std::string why;
    try
    {
      vj::Value c = vj::parse(line);
      if(c["nr"].as_int() != comm.size()) why = "case is for another number of ranks";
      else why = run_local(c, comm, (int)c.get_int("perm", -1));
    }
    catch(const std::exception& e) { why = std::string("rank ") + std::to_string(comm.rank()) + ": uncaught exception " + e.what(); }
    ::alarm(0);
    // gather verdicts on rank 0: number of failing ranks and the first message
    int bad = why.empty() ? 0 : 1, nbad = 0;
    comm.allreduce(&bad, &nbad, std::size_t(1), Dist::op_sum);
    char buf[512]; std::memset(buf, 0, sizeof(buf)); std::strncpy(buf, why.c_str(), sizeof(buf) - 1);
    std::vector<char> all(std::size_t(comm.size()) * sizeof(buf));
    comm.gather(buf, sizeof(buf), all.data(), sizeof(buf), 0);
    if(comm.rank() == 0)
    {
      vj::Value r = vj::Value::object(); r["ok"] = (nbad == 0);
      if(nbad > 0) for(int q = 0; q < comm.size(); ++q) if(all[std::size_t(q) * sizeof(buf)] != 0) { r["why"] = std::string(&all[std::size_t(q) * sizeof(buf)]); break; }
      std::printf("R %ld %s\n", k, vj::dump(r).c_str()); std::fflush(stdout);
    }
  }
  std::fflush(stdout);
  comm.barrier();
  Runtime::finalize();
  return 0;
}
