// C16 harness, two-level (inter-mesh) sparsity contract: SymbolicAssembler::assemble_matrix_2lvl /
// assemble_graph_intermesh on a coarse mesh and its standard refinement, each optionally renumbered by a mesh
// permutation strategy (ConformalMesh::create_permutation), and the couplings GridTransfer::assemble_prolongation_direct
// writes.  The harness dumps both meshes (common integer scale), the dof mappings, the patterns, a parent certificate
// (checked by the specification from the coordinates) and the couplings; spec/AssemblyCheck.tla (TwoLevelVerdict) judges.
//
//   case: {"kind":"2lvl","id","shape","dim","mesh":{...},"space","deg","fperm","cperm","dense":bool,"out":path}
#pragma once
#include "vasm16.hpp"
#include <kernel/assembly/grid_transfer.hpp>
#include <kernel/geometry/mesh_permutation.hpp>
#include <kernel/geometry/intern/coarse_fine_cell_mapping.hpp>

namespace va
{
  inline Geometry::PermutationStrategy strategy_of(const std::string& s)
  {
    typedef Geometry::PermutationStrategy PS;
    if(s == "none") return PS::none;
    if(s == "random") return PS::random;
    if(s == "lexicographic") return PS::lexicographic;
    if(s == "colored") return PS::colored;
    if(s == "cuthill_mckee") return PS::cuthill_mckee;
    if(s == "cuthill_mckee_reversed") return PS::cuthill_mckee_reversed;
    if(s == "geometric_cuthill_mckee") return PS::geometric_cuthill_mckee;
    if(s == "geometric_cuthill_mckee_reversed") return PS::geometric_cuthill_mckee_reversed;
    throw std::runtime_error("unknown permutation strategy " + s);
  }

  typedef std::array<long long, 3> IPt;
  template<class Mesh_> std::vector<IPt> int_coords(const Mesh_& m, int K)
  {
    const auto& vs = m.get_vertex_set();
    std::vector<IPt> X(vs.get_num_vertices());
    for(Index i = 0; i < vs.get_num_vertices(); ++i)
    {
      X[i] = {0, 0, 0};
      for(int k = 0; k < Mesh_::world_dim; ++k) X[i][std::size_t(k)] = std::llround(std::ldexp(double(vs[i][k]), K));
    }
    return X;
  }
  template<class Mesh_> vj::Value dump_mesh_rec(const Mesh_& mesh, const std::vector<IPt>& X)
  {
    constexpr int dim = Mesh_::shape_dim;
    vj::Value out = vj::Value::object();
    vj::Value n = vj::Value::array();
    for(int d = 0; d <= dim; ++d) n.push(vj::Value((long long)mesh.get_num_entities(d)));
    out["n"] = n;
    vj::Value XX = vj::Value::array();
    for(const auto& p : X) { vj::Value row = vj::Value::array(); for(int k = 0; k < dim; ++k) row.push(vj::Value(p[std::size_t(k)])); XX.push(row); }
    out["X"] = XX;
    out["vc"] = jindex(mesh.template get_index_set<dim, 0>());
    out["ec"] = jindex(mesh.template get_index_set<dim, 1>());
    if constexpr (dim == 3) out["fc"] = jindex(mesh.template get_index_set<dim, 2>());
    else out["fc"] = vj::Value::array();
    return out;
  }

  // exact integer predicates (the specification evaluates the same ones on the dump; this is only the certificate search)
  inline long long tri_d(const IPt& a, const IPt& b, const IPt& c) { return (b[0] - a[0]) * (c[1] - a[1]) - (c[0] - a[0]) * (b[1] - a[1]); }
  inline long long det3(const IPt& a, const IPt& b, const IPt& c)
  {
    return a[0] * (b[1] * c[2] - b[2] * c[1]) - a[1] * (b[0] * c[2] - b[2] * c[0]) + a[2] * (b[0] * c[1] - b[1] * c[0]);
  }
  inline IPt diff(const IPt& p, const IPt& q) { return IPt{p[0] - q[0], p[1] - q[1], p[2] - q[2]}; }
  inline bool in_closure(bool simplex, int dim, const std::vector<IPt>& P, const IPt& x)
  {
    if(dim == 2)
    {
      std::vector<IPt> Q = simplex ? std::vector<IPt>{P[0], P[1], P[2]} : std::vector<IPt>{P[0], P[1], P[3], P[2]};
      for(std::size_t k = 0; k < Q.size(); ++k) if(tri_d(Q[k], Q[(k + 1) % Q.size()], x) < 0) return false;
      return true;
    }
    if(simplex)
    {
      for(std::size_t k = 0; k < 4; ++k)
      {
        std::vector<IPt> R = P; R[k] = x;
        if(det3(diff(R[1], R[0]), diff(R[2], R[0]), diff(R[3], R[0])) < 0) return false;
      }
      return true;
    }
    for(std::size_t d = 0; d < 3; ++d)
    {
      long long lo = P[0][d], hi = P[0][d];
      for(const auto& p : P) { lo = std::min(lo, p[d]); hi = std::max(hi, p[d]); }
      if(x[d] < lo || x[d] > hi) return false;
    }
    return true;
  }

  template<class W_, class TS_>
  vj::Value run_2lvl_space(const vj::Value& c, typename W_::MeshType& coarse, typename W_::MeshType& fine)
  {
    typedef typename W_::MeshType MeshType;
    typedef typename W_::TrafoType TrafoType;
    typedef typename TS_::Type Space;
    constexpr int dim = W_::dim;
    TrafoType tc(coarse), tf(fine);
    Space sc(tc), sf(tf);
    vj::Value out = vj::Value::object();
    for(const char* k : {"id", "shape", "dim", "space", "deg", "fperm", "cperm"}) out[k] = c[k];
    const int K = std::max(vm::min_scale(coarse, 14), vm::min_scale(fine, 14));
    if(vm::min_scale(coarse, 14) < 0 || vm::min_scale(fine, 14) < 0) throw std::runtime_error("2lvl: coordinates are not dyadic");
    out["G"] = vj::Value((long long)(1ll << K));
    const std::vector<IPt> XC = int_coords(coarse, K), XF = int_coords(fine, K);
    out["coarse"] = dump_mesh_rec(coarse, XC);
    out["fine"] = dump_mesh_rec(fine, XF);
    out["nf"] = vj::Value((long long)sf.get_num_dofs());
    out["nc"] = vj::Value((long long)sc.get_num_dofs());
    out["fd"] = jdofs(sf);
    out["cd"] = jdofs(sc);

    // parent certificate: the coarse cell whose closure contains all vertices of the fine cell
    {
      const auto& vcc = coarse.template get_index_set<dim, 0>();
      const auto& vcf = fine.template get_index_set<dim, 0>();
      vj::Value par = vj::Value::array();
      for(Index f = 0; f < fine.get_num_elements(); ++f)
      {
        long long found = -1;
        for(Index cc = 0; cc < coarse.get_num_elements() && found < 0; ++cc)
        {
          std::vector<IPt> P; for(int j = 0; j < vcc.get_num_indices(); ++j) P.push_back(XC[vcc(cc, j)]);
          bool all = true;
          for(int j = 0; j < vcf.get_num_indices() && all; ++j) all = in_closure(W_::simplex, dim, P, XF[vcf(f, j)]);
          if(all) found = (long long)cc;
        }
        par.push(vj::Value(found));
      }
      out["par"] = par;
    }

    // the patterns: the real 2-level matrix, and the inter-mesh graph for an explicitly rendered coarse-to-fine adjactor
    Mat P;
    Assembly::SymbolicAssembler::assemble_matrix_2lvl(P, sf, sc);
    vj::Value pats = vj::Value::array();
    pats.push(jmatpat("2lvl", P));
    {
      Geometry::Intern::CoarseFineCellMapping<MeshType, MeshType> cfm(fine, coarse);
      Adjacency::Graph adj(Adjacency::RenderType::as_is, cfm);
      pats.push(jgraph("intermesh", Assembly::SymbolicAssembler::assemble_graph_intermesh(sf, sc, adj)));
    }
    out["pats"] = pats;

    // couplings that GridTransfer::assemble_prolongation_direct writes, from an assembly into a FULL matrix
    vj::Value coup = vj::Value::object();
    const bool dense = c.has("dense") && c["dense"].as_bool();
    coup["done"] = dense;
    if(dense)
    {
      Cubature::DynamicFactory cf("auto-degree:" + stringify(c["deg"].as_int()));
      const Index nf = sf.get_num_dofs(), nc = sc.get_num_dofs();
      Mat F(full_graph(nf, nc));
      Assembly::GridTransfer::assemble_prolongation_direct(F, sf, sc, cf);
      vj::Value pairs = vj::Value::array(); bool real = true;
      for(Index i = 0; i < nf; ++i) for(Index j = 0; j < nc; ++j)
      {
        if(F.val()[i * nc + j] == 0.0) continue;
        vj::Value p = vj::Value::array(); p.push(vj::Value((long long)i)); p.push(vj::Value((long long)j)); pairs.push(p);
        bool in = false; for(IT k = P.row_ptr()[i]; k < P.row_ptr()[i + 1]; ++k) if(P.col_ind()[k] == j) in = true;
        if(!in) real = false;
      }
      coup["pairs"] = pairs; coup["real"] = real;
      bool bit = false;
      if(real)   // scattering into an incomplete pattern is undefined: only then
      {
        Assembly::GridTransfer::assemble_prolongation_direct(P, sf, sc, cf);
        bit = true;
        for(Index i = 0; i < nf; ++i) for(IT k = P.row_ptr()[i]; k < P.row_ptr()[i + 1]; ++k) if(P.val()[k] != F.val()[i * nc + P.col_ind()[k]]) bit = false;
      }
      coup["bit"] = bit;
    }
    out["coup"] = coup;
    return out;
  }

  template<class Shape_>
  vj::Value run_2lvl_shape(const vj::Value& c)
  {
    typedef World<Shape_> W;
    typedef typename W::MeshType MeshType;
    typedef typename W::TrafoType Trafo;
    W w;
    w.build(c["mesh"]);
    MeshType& coarse = *w.mesh;
    std::unique_ptr<MeshType> fine;
    { Geometry::StandardRefinery<MeshType> ref(coarse); fine = ref.make_unique(); }
    const auto fs = strategy_of(c["fperm"].as_str()), cs = strategy_of(c["cperm"].as_str());
    if(cs != Geometry::PermutationStrategy::none) coarse.create_permutation(cs);
    if(fs != Geometry::PermutationStrategy::none) fine->create_permutation(fs);
    const std::string s = c["space"].as_str();
    vj::Value out;
    if(s == "lagrange1") out = run_2lvl_space<W, SpL1<Trafo>>(c, coarse, *fine);
    else if(s == "lagrange2") out = run_2lvl_space<W, SpL2<Trafo>>(c, coarse, *fine);
    else if(s == "crrt") out = run_2lvl_space<W, SpCR<Trafo>>(c, coarse, *fine);
    else if(s == "disc0") out = run_2lvl_space<W, SpD0<Trafo>>(c, coarse, *fine);
    else if(s == "disc1") out = run_2lvl_space<W, SpD1<Trafo>>(c, coarse, *fine);
    else throw std::runtime_error("2lvl: unknown space " + s);
    std::ofstream f(c["out"].as_str());
    vj::write(f, out);
    f << "\n";
    if(!f) throw std::runtime_error("cannot write " + c["out"].as_str());
    return vh::ok();
  }

  inline vj::Value run_2lvl_case(const vj::Value& c)
  {
    const std::string sh = c["shape"].as_str(); const long long d = c["dim"].as_int();
    if(sh == "hypercube" && d == 2) return run_2lvl_shape<Shape::Hypercube<2>>(c);
    if(sh == "simplex" && d == 2) return run_2lvl_shape<Shape::Simplex<2>>(c);
    if(sh == "hypercube" && d == 3) return run_2lvl_shape<Shape::Hypercube<3>>(c);
    if(sh == "simplex" && d == 3) return run_2lvl_shape<Shape::Simplex<3>>(c);
    throw std::runtime_error("2lvl: unknown shape");
  }
}
