// Builders and projections between the specification's representation records (Storage.tla) and
// real LAFEM containers.  Shared by the LAFEM harnesses (C01..C06, C20).
#pragma once
#include "vjson.hpp"
#include <kernel/lafem/dense_vector.hpp>
#include <kernel/lafem/dense_vector_blocked.hpp>
#include <kernel/lafem/dense_matrix.hpp>
#include <kernel/lafem/sparse_matrix_csr.hpp>
#include <kernel/lafem/sparse_matrix_bcsr.hpp>
#include <kernel/lafem/sparse_matrix_cscr.hpp>
#include <kernel/lafem/sparse_matrix_banded.hpp>
#include <kernel/adjacency/graph.hpp>
#include <vector>

namespace vl
{
  using namespace FEAT;
  using namespace FEAT::LAFEM;
  typedef std::vector<long long> IVec;

  template<class DT, class IT>
  DenseVector<DT, IT> make_vec(const IVec& v)
  {
    DenseVector<DT, IT> r(Index(v.size()));
    for(std::size_t k = 0; k < v.size(); ++k) r(Index(k), DT(v[k]));
    return r;
  }
  template<class IT>
  DenseVector<IT, IT> make_ivec(const IVec& v)
  {
    DenseVector<IT, IT> r(Index(v.size()));
    for(std::size_t k = 0; k < v.size(); ++k) r(Index(k), IT(v[k]));
    return r;
  }
  template<class DT, class IT, int BS>
  DenseVectorBlocked<DT, IT, BS> make_bvec(const IVec& v)
  {
    DenseVectorBlocked<DT, IT, BS> r(Index(v.size() / BS));
    DT* e = r.template elements<Perspective::pod>();
    for(std::size_t k = 0; k < v.size(); ++k) e[k] = DT(v[k]);
    return r;
  }

  // read back a vector as scaled integers: value * scale must be integral, otherwise `exact` is cleared
  template<class VT>
  IVec read_pod(const VT& v, long long scale, bool& exact)
  {
    typedef typename VT::DataType DT;
    const DT* e = v.template elements<Perspective::pod>();
    Index n = v.template size<Perspective::pod>();
    IVec r(n);
    for(Index k = 0; k < n; ++k)
    {
      double t = double(e[k]) * double(scale);
      long long q = (long long)std::llround(t);
      if(double(q) != t || !(std::fabs(t) < 1e15)) exact = false;
      r[k] = q;
    }
    return r;
  }

  // flatten spec's BCSR value blocks (sequence of bh x bw matrices) row-major
  inline IVec flatten_blocks(const vj::Value& va)
  {
    IVec r;
    for(std::size_t k = 0; k < va.size(); ++k)
      for(std::size_t i = 0; i < va[k].size(); ++i)
        for(std::size_t j = 0; j < va[k][i].size(); ++j)
          r.push_back(va[k][i][j].as_int());
    return r;
  }

  // an adjacency graph with the given CSR structure (used to build entry-free but allocated matrices)
  inline Adjacency::Graph make_graph(Index nd, Index ni, const IVec& rp, const IVec& ci)
  {
    Adjacency::Graph g(nd, ni, Index(ci.size()));
    Index* p = g.get_domain_ptr(); Index* q = g.get_image_idx();
    for(std::size_t k = 0; k < rp.size(); ++k) p[k] = Index(rp[k]);
    for(std::size_t k = 0; k < ci.size(); ++k) q[k] = Index(ci[k]);
    return g;
  }

  template<class DT, class IT>
  SparseMatrixCSR<DT, IT> make_csr(Index m, Index n, const vj::Value& rep, int empty_mode = 0)
  {
    IVec rp = rep["rp"].ints(), ci = rep["ci"].ints(), va = rep["va"].ints();
    if(ci.empty())
    {
      // no stored entry: the raw-array constructor requires non-empty arrays, so use the dimension-only
      // constructor (no arrays at all) or the graph constructor (allocated row pointer, empty col/val arrays)
      if(empty_mode == 0 || m == 0 || n == 0) return SparseMatrixCSR<DT, IT>(m, n);
      Adjacency::Graph g = make_graph(m, n, rp, ci);
      SparseMatrixCSR<DT, IT> a(g);
      return a;
    }
    auto vci = make_ivec<IT>(ci); auto vrp = make_ivec<IT>(rp); auto vva = make_vec<DT, IT>(va);
    return SparseMatrixCSR<DT, IT>(m, n, vci, vva, vrp);
  }

  template<class DT, class IT>
  SparseMatrixCSCR<DT, IT> make_cscr(Index m, Index n, const vj::Value& rep)
  {
    IVec rp = rep["rp"].ints(), ci = rep["ci"].ints(), va = rep["va"].ints(), rn = rep["rn"].ints();
    if(ci.empty() || rn.empty()) return SparseMatrixCSCR<DT, IT>(m, n);
    auto vci = make_ivec<IT>(ci); auto vrp = make_ivec<IT>(rp); auto vrn = make_ivec<IT>(rn); auto vva = make_vec<DT, IT>(va);
    return SparseMatrixCSCR<DT, IT>(m, n, vci, vva, vrp, vrn);
  }

  template<class DT, class IT>
  SparseMatrixBanded<DT, IT> make_banded(Index m, Index n, const vj::Value& rep)
  {
    IVec offs = rep["offs"].ints(), va = rep["va"].ints();
    auto vo = make_ivec<IT>(offs); auto vva = make_vec<DT, IT>(va);
    return SparseMatrixBanded<DT, IT>(m, n, vva, vo);
  }

  template<class DT, class IT>
  DenseMatrix<DT, IT> make_dense(Index m, Index n, const vj::Value& rep)
  {
    IVec va = rep["va"].ints();
    DenseMatrix<DT, IT> a(m, n);
    for(Index i = 0; i < m; ++i) for(Index j = 0; j < n; ++j) a(i, j, DT(va[i * n + j]));
    return a;
  }

  template<class DT, class IT, int BH, int BW>
  SparseMatrixBCSR<DT, IT, BH, BW> make_bcsr(Index mb, Index nb, const vj::Value& rep)
  {
    IVec rp = rep["rp"].ints(), ci = rep["ci"].ints(); IVec va = flatten_blocks(rep["va"]);
    if(ci.empty() || mb == 0 || nb == 0) return SparseMatrixBCSR<DT, IT, BH, BW>(mb, nb);
    auto vci = make_ivec<IT>(ci); auto vrp = make_ivec<IT>(rp); auto vva = make_vec<DT, IT>(va);
    return SparseMatrixBCSR<DT, IT, BH, BW>(mb, nb, vci, vva, vrp);
  }

  // dense projection of a scalar-valued matrix through operator()(i,j)
  template<class MT>
  std::vector<IVec> dense_of(const MT& a, bool& exact)
  {
    Index m = a.rows(), n = a.columns();
    std::vector<IVec> d(m, IVec(n, 0));
    // a container without any array (dimension-only constructor) represents the zero matrix; its
    // element accessor dereferences the missing row pointer array, so it is not called here
    if(a.get_elements().empty() && a.get_indices().empty()) return d;
    for(Index i = 0; i < m; ++i) for(Index j = 0; j < n; ++j)
    {
      double t = double(a(i, j)); long long q = (long long)std::llround(t);
      if(double(q) != t) exact = false;
      d[i][j] = q;
    }
    return d;
  }
  template<class DT, class IT, int BH, int BW>
  std::vector<IVec> dense_of_bcsr(const SparseMatrixBCSR<DT, IT, BH, BW>& a, bool& exact)
  {
    Index m = a.rows(), n = a.columns();
    std::vector<IVec> d(m * BH, IVec(n * BW, 0));
    if(a.get_elements().empty() && a.get_indices().empty()) return d;
    for(Index i = 0; i < m; ++i) for(Index j = 0; j < n; ++j)
    {
      auto blk = a(i, j);
      for(int li = 0; li < BH; ++li) for(int lj = 0; lj < BW; ++lj)
      {
        double t = double(blk[li][lj]); long long q = (long long)std::llround(t);
        if(double(q) != t) exact = false;
        d[i * BH + li][j * BW + lj] = q;
      }
    }
    return d;
  }

  inline vj::Value to_json(const IVec& v) { return vj::from_vec(v); }
  inline vj::Value to_json(const std::vector<IVec>& d) { vj::Value r = vj::Value::array(); for(const auto& row : d) r.push(vj::from_vec(row)); return r; }

  // snapshot of every raw array of a container (bit patterns through double / integer)
  template<class CT>
  vj::Value raw_snapshot(const CT& c)
  {
    vj::Value r = vj::Value::object();
    vj::Value el = vj::Value::array(), ix = vj::Value::array();
    const auto& es = c.get_elements(); const auto& ess = c.get_elements_size();
    for(std::size_t k = 0; k < es.size(); ++k) { vj::Value a = vj::Value::array(); for(Index t = 0; t < ess[k]; ++t) a.push(vj::Value(double(es[k][t]))); el.push(a); }
    const auto& is = c.get_indices(); const auto& iss = c.get_indices_size();
    for(std::size_t k = 0; k < is.size(); ++k) { vj::Value a = vj::Value::array(); for(Index t = 0; t < iss[k]; ++t) a.push(vj::Value((long long)is[k][t])); ix.push(a); }
    r["el"] = el; r["ix"] = ix;
    return r;
  }
}
