// C19, adjactor expressions (spec/AdjacencyOps.tla): operands of several classes implementing the Adjactor interface
// (kernel/adjacency/adjactor.hpp), combined by CompositeAdjactor and rendered through every public route.  The harness only
// builds the objects from the operand parameters and projects the results; the meaning L of every operand and the
// expected graphs come from the specification.
#pragma once
#include "vharness.hpp"
#include <kernel/adjacency/graph.hpp>
#include <kernel/adjacency/adjactor.hpp>
#include <kernel/adjacency/dynamic_graph.hpp>
#include <kernel/geometry/index_set.hpp>
#include <kernel/geometry/struct_index_set.hpp>
#include <kernel/geometry/intern/coarse_fine_cell_mapping.hpp>
#include <algorithm>
#include <memory>

namespace c19
{
  using namespace FEAT;
  using namespace FEAT::Adjacency;
  typedef std::vector<long long> IVec;
  typedef std::vector<Index> XVec;

  inline std::string js(const vj::Value& v) { return vj::dump(v); }

  // ---- operand classes written against the documented Adjactor interface ------------------------------------------------
  // node i -> lo[i] .. hi[i]-1, ImageIterator = Adjactor::IndexImageIterator (as Geometry::Intern::CoarseFineCellMapping,
  // identity / shift / block adjactors do)
  class IntervalAdj
  {
    XVec _lo, _hi; Index _ni;
  public:
    typedef Adjactor::IndexImageIterator ImageIterator;
    IntervalAdj(const XVec& lo, const XVec& hi, Index ni) : _lo(lo), _hi(hi), _ni(ni) {}
    Index get_num_nodes_domain() const { return Index(_lo.size()); }
    Index get_num_nodes_image() const { return _ni; }
    ImageIterator image_begin(Index i) const { return ImageIterator(_lo.at(i)); }
    ImageIterator image_end(Index i) const { return ImageIterator(_hi.at(i)); }
  };

  // what CoarseFineCellMapping reads from its mesh arguments
  struct MockUMesh
  {
    static constexpr bool is_structured = false;
    typedef Shape::Hypercube<2> ShapeType;
    Index n;
    Index get_num_entities(int) const { return n; }
  };
  struct MockSMesh
  {
    static constexpr bool is_structured = true;
    static constexpr int shape_dim = 2;
    typedef Shape::Hypercube<2> ShapeType;
    Index sl[2];
    Index get_num_entities(int) const { return sl[0] * sl[1]; }
    Index get_num_slices(int d) const { return sl[d]; }
  };
  typedef Geometry::Intern::CoarseFineCellMapping<MockUMesh, MockUMesh> BlockAdj;
  typedef Geometry::Intern::CoarseFineCellMapping<MockSMesh, MockSMesh> Cf2Adj;
  typedef Geometry::StructIndexSet<1, 1, 0> Struct1Adj;

  // ---- projections ---------------------------------------------------------------------------------------------------
  inline vj::Value g_json(const Graph& g)
  {
    vj::Value r = vj::Value::object();
    Index nd = g.get_num_nodes_domain();
    r["nd"] = (long long)nd; r["ni"] = (long long)g.get_num_nodes_image();
    vj::Value p = vj::Value::array(), x = vj::Value::array();
    const Index* dp = g.get_domain_ptr(); const Index* ix = g.get_image_idx();
    if(dp == nullptr) p.push(vj::Value(0ll));
    else for(Index i = 0; i <= nd; ++i) p.push(vj::Value((long long)dp[i]));
    for(Index k = 0; k < g.get_num_indices(); ++k) x.push(vj::Value((long long)ix[k]));
    r["ptr"] = p; r["idx"] = x;
    return r;
  }

  inline vj::Value dyn_json(const DynamicGraph& d)
  {
    vj::Value r = vj::Value::object(), p = vj::Value::array(), x = vj::Value::array();
    r["nd"] = (long long)d.get_num_nodes_domain(); r["ni"] = (long long)d.get_num_nodes_image();
    long long cnt = 0; p.push(vj::Value(0ll));
    for(Index i = 0; i < d.get_num_nodes_domain(); ++i)
    {
      for(auto it = d.image_begin(i); it != d.image_end(i); ++it) { x.push(vj::Value((long long)*it)); ++cnt; }
      p.push(vj::Value(cnt));
    }
    r["ptr"] = p; r["idx"] = x;
    return r;
  }

  inline bool same_graph(const vj::Value& got, const vj::Value& exp, bool ordered, std::string& why)
  {
    if(!(got["nd"] == exp["nd"]) || !(got["ni"] == exp["ni"])) { why = "node counts " + js(got["nd"]) + "x" + js(got["ni"]) + " expected " + js(exp["nd"]) + "x" + js(exp["ni"]); return false; }
    if(!(got["ptr"] == exp["ptr"])) { why = "domain_ptr " + js(got["ptr"]) + " expected " + js(exp["ptr"]); return false; }
    IVec a = got["idx"].ints(), b = exp["idx"].ints(), p = exp["ptr"].ints();
    if(a.size() != b.size()) { why = "index count"; return false; }
    if(!ordered)
      for(std::size_t i = 0; i + 1 < p.size(); ++i)
      {
        std::sort(a.begin() + p[i], a.begin() + p[i + 1]); std::sort(b.begin() + p[i], b.begin() + p[i + 1]);
      }
    if(a != b) { why = std::string("image_idx ") + js(got["idx"]) + " expected " + js(exp["idx"]) + (ordered ? "" : " (as bags)"); return false; }
    return true;
  }

  static const char* const RTYPES[8] = {"as_is", "as_is_sorted", "injectify", "injectify_sorted", "transpose", "transpose_sorted",
                                        "injectify_transpose", "injectify_transpose_sorted"};
  inline RenderType rtype(int k)
  {
    static const RenderType T[8] = {RenderType::as_is, RenderType::as_is_sorted, RenderType::injectify, RenderType::injectify_sorted,
      RenderType::transpose, RenderType::transpose_sorted, RenderType::injectify_transpose, RenderType::injectify_transpose_sorted};
    return T[k];
  }

  struct Fail { std::string sub, why; vj::Value exp, got; bool has_eg = false; };

  // ---- route 1: the adjactor interface itself (image_begin / image_end / ++ / * / != / copy / assignment) ---------------------
  template<class Adj>
  bool check_iter(const Adj& e, long long nd, long long ni, const std::vector<IVec>& L, Fail& f, const std::string& what)
  {
    typedef typename Adj::ImageIterator It;
    f.sub = "iter";
    if((long long)e.get_num_nodes_domain() != nd || (long long)e.get_num_nodes_image() != ni)
    { f.why = what + ": node counts " + std::to_string(e.get_num_nodes_domain()) + "x" + std::to_string(e.get_num_nodes_image()); return false; }
    if((long long)L.size() != nd) throw std::runtime_error("case: L has not nd rows");
    for(int pass = 0; pass < 2; ++pass)        // the second pass continues through a copy / an assigned iterator from the middle
      for(Index i = 0; i < Index(nd); ++i)
      {
        const IVec& want = L[i];
        IVec row;
        It it(e.image_begin(i)); const It en(e.image_end(i));
        if((it != en) != !want.empty()) { f.why = what + ": image_begin(" + std::to_string(i) + ") " + (want.empty() ? "differs from" : "equals") + " image_end for " + js(vj::from_vec(want)); return false; }
        if(pass == 0)
        {
          for(; it != en && row.size() <= want.size() + 2; ++it) row.push_back((long long)*it);
        }
        else
        {
          const std::size_t half = want.size() / 2;
          for(; it != en && row.size() < half; ++it) row.push_back((long long)*it);
          It cp(it);                 // copy constructor
          It as; as = cp;            // default constructor + assignment
          if(cp != it || as != it) { f.why = what + ": a copied iterator differs from its source at node " + std::to_string(i); return false; }
          for(; as != en && row.size() <= want.size() + 2; ++as) row.push_back((long long)*as);
        }
        if(row != want)
        {
          f.why = what + ": images of node " + std::to_string(i) + (pass ? " (through copied iterator)" : "") + ": " + js(vj::from_vec(row)) + (row.size() > want.size() ? "..." : "") + " expected " + js(vj::from_vec(want));
          return false;
        }
      }
    return true;
  }

  // ---- route 2: single-adjactor render constructors of Graph and DynamicGraph ------------------------------------------------
  template<class Adj>
  bool check_single(const Adj& e, const vj::Value& c, Fail& f, const std::string& what)
  {
    for(int k = 0; k < 8; ++k)
    {
      const std::string t = RTYPES[k];
      {
        f.sub = "graph1";
        Graph h(rtype(k), e);
        vj::Value got = g_json(h);
        if(!same_graph(got, c["exp"][t], c["ordered"][t].as_bool(), f.why))
        { f.why = "Graph(" + t + ", " + what + "): " + f.why; f.exp = c["exp"][t]; f.got = got; f.has_eg = true; return false; }
      }
      {
        f.sub = "dyn1";
        DynamicGraph d(rtype(k), e);
        vj::Value got = dyn_json(d);
        const vj::Value& ex = c["exp"][c["dynt"][t].as_str()];
        if(!same_graph(got, ex, true, f.why))
        { f.why = "DynamicGraph(" + t + ", " + what + "): " + f.why; f.exp = ex; f.got = got; f.has_eg = true; return false; }
      }
    }
    return true;
  }

  // ---- route 3: two-adjactor render constructors and DynamicGraph::compose -------------------------------------------------------
  template<class A1, class A2>
  bool check_double(const A1& e1, const A2& e2, const vj::Value& c, Fail& f, const std::string& what)
  {
    for(int k = 0; k < 8; ++k)
    {
      const std::string t = RTYPES[k];
      {
        f.sub = "graph2";
        Graph h(rtype(k), e1, e2);
        vj::Value got = g_json(h);
        if(!same_graph(got, c["exp"][t], c["ordered"][t].as_bool(), f.why))
        { f.why = "Graph(" + t + ", " + what + "): " + f.why; f.exp = c["exp"][t]; f.got = got; f.has_eg = true; return false; }
      }
      {
        f.sub = "dyn2";
        DynamicGraph d(rtype(k), e1, e2);
        vj::Value got = dyn_json(d);
        const vj::Value& ex = c["exp"][c["dynt"][t].as_str()];
        if(!same_graph(got, ex, true, f.why))
        { f.why = "DynamicGraph(" + t + ", " + what + "): " + f.why; f.exp = ex; f.got = got; f.has_eg = true; return false; }
      }
    }
    {
      f.sub = "dyn_compose";
      DynamicGraph d(RenderType::as_is, e1);
      d.compose(e2);
      vj::Value got = dyn_json(d);
      const vj::Value& ex = c["exp"][c["dynt"]["as_is"].as_str()];
      if(!same_graph(got, ex, true, f.why))
      { f.why = "DynamicGraph(as_is, e1).compose(e2) for " + what + ": " + f.why; f.exp = ex; f.got = got; f.has_eg = true; return false; }
    }
    return true;
  }

  inline vj::Value report(const Fail& f)
  {
    vj::Value r = f.has_eg ? vh::bad(f.why, f.exp, f.got) : vh::bad(f.why);
    r["sub"] = f.sub;
    return r;
  }

  // ---- building the operands ---------------------------------------------------------------------------------------------
  inline XVec to_idx(const vj::Value& a) { XVec r; for(long long v : a.ints()) r.push_back(Index(v)); return r; }

  inline Graph graph_of_rows(Index ni, const vj::Value& rows)
  {
    XVec ptr(1, Index(0)), idx;
    for(std::size_t i = 0; i < rows.size(); ++i) { for(long long v : rows[i].ints()) idx.push_back(Index(v)); ptr.push_back(Index(idx.size())); }
    return Graph(Index(rows.size()), ni, Index(idx.size()), ptr.data(), idx.data());
  }

  // calls f(adjactor object) for the operand o; all = every kind, otherwise the kinds supported in chains of three
  // (compile time: every combination of kinds is a separate instantiation of the whole replay)
  template<bool all, class F>
  vj::Value with_operand(const vj::Value& o, F&& f)
  {
    const std::string k = o["k"].as_str();
    const Index nd = Index(o["nd"].as_int()), ni = Index(o["ni"].as_int());
    const XVec a = to_idx(o["a"]);
    if(k == "graph") { Graph g = graph_of_rows(ni, o["R"]); return f(g); }
    if(k == "interval")
    {
      if(a.size() != 2 * std::size_t(nd)) throw std::runtime_error("case: interval parameters");
      IntervalAdj x(XVec(a.begin(), a.begin() + nd), XVec(a.begin() + nd, a.end()), ni);
      return f(x);
    }
    if(k == "struct1") { Index sl[1] = {a.at(0)}; Struct1Adj x(sl); return f(x); }
    if constexpr(all)
    {
      if(k == "dyn")
      {
        DynamicGraph d(nd, ni);
        for(std::size_t i = 0; i < o["R"].size(); ++i) for(long long v : o["R"][i].ints()) d.insert(Index(i), Index(v));
        return f(d);
      }
      if(k == "block") { MockUMesh fine{nd * a.at(0)}, coarse{nd}; BlockAdj x(fine, coarse); return f(x); }
      if(k == "cf2") { MockSMesh fine{{2 * a.at(0), 2 * a.at(1)}}, coarse{{a.at(0), a.at(1)}}; Cf2Adj x(fine, coarse); return f(x); }
      if(k == "indexset2")
      {
        const std::vector<IVec> L = o["L"].int_rows();
        Geometry::IndexSet<2> s(nd, ni);
        for(Index i = 0; i < nd; ++i) for(int j = 0; j < 2; ++j) s(i, j) = Index(L.at(i).at(std::size_t(j)));
        return f(s);
      }
    }
    return vh::bad("operand kind " + k + " is not supported in this position");
  }

  // every operand must mean what the specification says it means
  template<class Adj>
  bool check_operand(const Adj& x, const vj::Value& o, Fail& f, const std::string& what)
  {
    const bool r = check_iter(x, o["nd"].as_int(), o["ni"].as_int(), o["L"].int_rows(), f, "operand " + what + " (" + o["k"].as_str() + ")");
    f.sub = "operand";
    return r;
  }
}
