// C16 harness, scalar routes: classic (BilinearOperatorAssembler / LinearFunctionalAssembler cell loops), domain
// (DomainAssembler jobs, 0 worker threads), apply (matrix-free BilinearOperatorAssembler::apply1/2).
// Included by harness/c16_assembly_<shape>.cpp after defining
//    C16_SHAPE   the shape type          C16_SAME / C16_MIXED   which <test, trial> pair families are instantiated
#pragma once
#include "vasm16.hpp"

namespace va
{
  inline bool has_route(const vj::Value& job, const char* r)
  {
    const vj::Value& rs = job["routes"];
    for(std::size_t k = 0; k < rs.size(); ++k) if(rs[k].as_str() == r) return true;
    return false;
  }

  template<class Ctx_>
  struct ScalarRunner
  {
    typedef typename Ctx_::W W;
    typedef typename W::TrafoType TrafoType;
    Ctx_& ctx;
    Assembly::DomainAssembler<TrafoType>& dom;
    const Mat& pattern;     // the real matrix built from the symbolic std pattern
    bool dense;

    template<class Op_> void classic(Mat& m, Op_& op, const Cubature::DynamicFactory& cf, DT alpha)
    {
      if constexpr (std::is_same<typename Ctx_::Test, typename Ctx_::Trial>::value)
        Assembly::BilinearOperatorAssembler::assemble_matrix1(m, op, ctx.test, cf, alpha);
      else
        Assembly::BilinearOperatorAssembler::assemble_matrix2(m, op, ctx.test, ctx.trial, cf, alpha);
    }
    template<class Op_> void domain(Mat& m, Op_& op, const String& cub, DT alpha)
    {
      if constexpr (std::is_same<typename Ctx_::Test, typename Ctx_::Trial>::value)
        Assembly::assemble_bilinear_operator_matrix_1(dom, m, op, ctx.test, cub, alpha);
      else
        Assembly::assemble_bilinear_operator_matrix_2(dom, m, op, ctx.test, ctx.trial, cub, alpha);
    }
    template<class Op_> void apply(Vec& y, const Vec& x, Op_& op, const Cubature::DynamicFactory& cf, DT alpha)
    {
      if constexpr (std::is_same<typename Ctx_::Test, typename Ctx_::Trial>::value)
        Assembly::BilinearOperatorAssembler::apply1(y, x, op, ctx.test, cf, alpha);
      else
        Assembly::BilinearOperatorAssembler::apply2(y, x, op, ctx.test, ctx.trial, cf, alpha);
    }

    template<class Op_> vj::Value mat_job(const vj::Value& job, Op_& op)
    {
      vj::Value obs = vj::Value::object();
      const String cub = "auto-degree:" + stringify(job["deg"].as_int());
      Cubature::DynamicFactory cf(cub);
      const std::string opn = job["op"]["name"].as_str();
      const double mag = op_mag(opn, ctx.ti, ctx.ri, 1.0);
      const double tole = CK * EPS * mag;
      const Index nnz = pattern.used_elements();

      Mat A = pattern.clone(LAFEM::CloneMode::Layout);
      A.format();
      classic(A, op, cf, DT(1));
      bool nz = false; for(Index k = 0; k < nnz; ++k) if(A.val()[k] != 0.0) nz = true;
      obs["nz"] = nz;

      vj::Value routes = vj::Value::array();
      if(has_route(job, "domain"))
      {
        Mat B = pattern.clone(LAFEM::CloneMode::Layout); B.format();
        domain(B, op, cub, DT(1));
        routes.push(cmp_arrays("domain", A.val(), B.val(), nnz, 1.0, 2 * tole));
      }
      if(has_route(job, "apply"))
      {
        Vec x(A.columns()), y(A.rows(), DT(0));
        for(Index j = 0; j < x.size(); ++j) x(j, DT(double(long((j * 7 + 3) % 16) - 8) / 8.0));
        apply(y, x, op, cf, DT(1));
        std::vector<DT> ref(A.rows());
        for(Index i = 0; i < A.rows(); ++i)
        {
          LD s = 0; for(IT k = A.row_ptr()[i]; k < A.row_ptr()[i + 1]; ++k) s += LD(A.val()[k]) * LD(x(A.col_ind()[k]));
          ref[i] = DT(s);
        }
        routes.push(cmp_arrays("apply", ref.data(), y.elements(), A.rows(), 1.0, 2 * tole * double(max_row_len(A))));
        // apply with alpha into the already filled vector: the route documents ret as an output (it is formatted first),
        // so the result is alpha * A x whatever ret contained
        Vec y2 = y.clone(LAFEM::CloneMode::Deep);
        apply(y2, x, op, cf, DT(-0.5));
        vj::Value t = cmp_arrays("apply", ref.data(), y2.elements(), A.rows(), -0.5, 4 * tole * double(max_row_len(A)));
        t["a"] = -1;
        obs["applyrep"] = t;
      }
      obs["routes"] = routes;

      vj::Value twice = vj::Value::array();
      const auto alphas = job["alphas"].ints();
      for(const char* r : {"classic", "domain"})
      {
        if(!has_route(job, r)) continue;
        for(long long a2 : alphas)
        {
          const DT alpha = DT(a2) / DT(2);
          Mat B = A.clone(LAFEM::CloneMode::Deep);
          if(std::string(r) == "classic") classic(B, op, cf, alpha); else domain(B, op, cub, alpha);
          vj::Value t = cmp_arrays(r, A.val(), B.val(), nnz, 1.0 + alpha, 4 * tole * (1.0 + std::fabs(alpha)));
          t["a"] = a2;
          twice.push(t);
        }
      }
      obs["twice"] = twice;

      matrix_identities(ctx, job, A, mag, obs);

      vj::Value coup = vj::Value::object();
      coup["done"] = dense;
      if(dense)
      {
        Mat F(full_graph(A.rows(), A.columns()));
        F.format();
        classic(F, op, cf, DT(1));
        bool bit = true; vj::Value pairs = vj::Value::array();
        for(Index i = 0; i < A.rows(); ++i)
        {
          for(IT k = A.row_ptr()[i]; k < A.row_ptr()[i + 1]; ++k)
            if(F.val()[i * A.columns() + A.col_ind()[k]] != A.val()[k]) bit = false;
          for(Index j = 0; j < A.columns(); ++j)
            if(F.val()[i * A.columns() + j] != 0.0) { vj::Value p = vj::Value::array(); p.push(vj::Value((long long)i)); p.push(vj::Value((long long)j)); pairs.push(p); }
        }
        coup["bit"] = bit; coup["pairs"] = pairs;
      }
      obs["coup"] = coup;
      return obs;
    }

    vj::Value mat_dispatch(const vj::Value& job)
    {
      const std::string n = job["op"]["name"].as_str();
      const auto p = job["op"]["p"].ints();
      if(n == "mass") { Assembly::Common::IdentityOperator op; return mat_job(job, op); }
      if(n == "laplace") { Assembly::Common::LaplaceOperator op; return mat_job(job, op); }
      if(n == "trialderiv") { Assembly::Common::TrialDerivativeOperator op(int(p.at(0))); return mat_job(job, op); }
      if(n == "testderiv") { Assembly::Common::TestDerivativeOperator op(int(p.at(0))); return mat_job(job, op); }
      if constexpr (std::is_same<typename Ctx_::Test, typename Ctx_::Trial>::value)
      {
        if(n == "dudv") { Assembly::Common::DuDvOperator op(int(p.at(0)), int(p.at(1))); return mat_job(job, op); }
        if(n == "divdiv") { Assembly::Common::DivDivOperator op(int(p.at(0)), int(p.at(1))); return mat_job(job, op); }
      }
      throw std::runtime_error("operator " + n + " is not compiled into this harness for this pair");
    }

    // ---------------------------------------------------------------------------------------------------
    // linear functionals (test = trial space)
    // ---------------------------------------------------------------------------------------------------
    template<class Fun_, class Func_> vj::Value vec_job(const vj::Value& job, const Fun_& function, const Func_& functional, bool force)
    {
      vj::Value obs = vj::Value::object();
      const int dim = W::dim;
      const String cub = "auto-degree:" + stringify(job["deg"].as_int());
      Cubature::DynamicFactory cf(cub);
      const auto fe = job["fn"]["f"].ints();
      const int fdeg = total_deg(fe);
      // |density| <= fmax on the domain; sum_q |w f phi_i| <= fmax * sqrt(Mmax * Vol), Vol <= (2R)^dim
      double fmax = ipow(ctx.w.R, fdeg);
      if(!force) { double c = 0; for(auto x : fe) c += double(x * (x - 1)); fmax = c * ipow(ctx.w.R, std::max(0, fdeg - 2)); }
      const double mag = std::max(fmax, 1e-300) * std::sqrt(ctx.ti.Mmax * ipow(2.0 * ctx.w.R, dim));
      const double tole = CK * EPS * mag;
      const Index n = ctx.test.get_num_dofs();

      Vec b(n, DT(0));
      Assembly::LinearFunctionalAssembler::assemble_vector(b, functional, ctx.test, cf, DT(1));
      bool nz = false; for(Index k = 0; k < n; ++k) if(b(k) != 0.0) nz = true;
      obs["nz"] = nz;

      vj::Value routes = vj::Value::array();
      if(has_route(job, "domain"))
      {
        Vec c(n, DT(0));
        Assembly::assemble_linear_functional_vector(dom, c, functional, ctx.test, cub, DT(1));
        routes.push(cmp_arrays("domain", b.elements(), c.elements(), n, 1.0, 2 * tole));
      }
      if(force && has_route(job, "domainforce"))
      {
        Vec c(n, DT(0));
        Assembly::assemble_force_function_vector(dom, c, function, ctx.test, cub, DT(1));
        routes.push(cmp_arrays("domainforce", b.elements(), c.elements(), n, 1.0, 2 * tole));
      }
      obs["routes"] = routes;

      vj::Value twice = vj::Value::array();
      for(const char* r : {"classic", "domain", "domainforce"})
      {
        if(!has_route(job, r)) continue;
        for(long long a2 : job["alphas"].ints())
        {
          const DT alpha = DT(a2) / DT(2);
          Vec c = b.clone(LAFEM::CloneMode::Deep);
          const std::string rs(r);
          if(rs == "classic") Assembly::LinearFunctionalAssembler::assemble_vector(c, functional, ctx.test, cf, alpha);
          else if(rs == "domain") Assembly::assemble_linear_functional_vector(dom, c, functional, ctx.test, cub, alpha);
          else Assembly::assemble_force_function_vector(dom, c, function, ctx.test, cub, alpha);
          vj::Value t = cmp_arrays(r, b.elements(), c.elements(), n, 1.0 + alpha, 4 * tole * (1.0 + std::fabs(alpha)));
          t["a"] = a2;
          twice.push(t);
        }
      }
      obs["twice"] = twice;

      auto dotb = [&](const std::vector<double>& u, LD& val, double& Wt) { val = 0; LD w = 0; for(Index i = 0; i < n; ++i) { val += LD(u[i]) * LD(b(i)); w += std::fabs(u[i]); } Wt = double(w); };
      const std::vector<long long> zero(std::size_t(dim), 0);
      {
        LD val; double Wt; dotb(ctx.tvec(zero), val, Wt);
        const int dd = force ? fdeg : fdeg - 2;
        obs["sum"] = scaled(val, spec_scale(ctx.cls == "box" ? "box" : "poly", ctx.w.K, std::max(dd, 0), dim), tole * Wt);
      }
      vj::Value ids = vj::Value::array();
      const vj::Value& jl = job["ids"];
      for(std::size_t k = 0; k < jl.size(); ++k)
      {
        LD val; double Wt; dotb(ctx.tvec(jl[k]["u"].ints()), val, Wt);
        ids.push(scaled(val, spec_scale(jl[k]["mode"].as_str(), ctx.w.K, int(jl[k]["fd"].as_int()), dim), tole * Wt));
      }
      obs["ids"] = ids;
      return obs;
    }

    vj::Value vec_dispatch(const vj::Value& job)
    {
      if constexpr (std::is_same<typename Ctx_::Test, typename Ctx_::Trial>::value)
      {
        const std::string n = job["fn"]["name"].as_str();
        MonoFunction<W::dim> f(job["fn"]["f"].ints());
        if(n == "force") { Assembly::Common::ForceFunctional<MonoFunction<W::dim>> fn(f); return vec_job(job, f, fn, true); }
        if(n == "laplacefn") { Assembly::Common::LaplaceFunctional<MonoFunction<W::dim>> fn(f); return vec_job(job, f, fn, false); }
        throw std::runtime_error("unknown functional " + n);
      }
      else throw std::runtime_error("functional jobs need test = trial");
    }
  };

  // -------------------------------------------------------------------------------------------------------
  // one case for a fixed <test, trial> pair
  // -------------------------------------------------------------------------------------------------------
  template<class W_> void dump_mesh(const W_& w, vj::Value& out)
  {
    constexpr int dim = W_::dim;
    const auto& mesh = *w.mesh;
    vj::Value n = vj::Value::array();
    for(int d = 0; d <= dim; ++d) n.push(vj::Value((long long)mesh.get_num_entities(d)));
    out["n"] = n;
    out["G"] = vj::Value((long long)(1ll << w.K));
    vj::Value X = vj::Value::array();
    const auto& vs = mesh.get_vertex_set();
    for(Index i = 0; i < vs.get_num_vertices(); ++i)
    {
      vj::Value row = vj::Value::array();
      for(int k = 0; k < dim; ++k) row.push(vj::Value((long long)std::llround(std::ldexp(double(vs[i][k]), w.K))));
      X.push(row);
    }
    out["X"] = X;
    out["vc"] = jindex(mesh.template get_index_set<dim, 0>());
    out["ec"] = jindex(mesh.template get_index_set<dim, 1>());
    if constexpr (dim == 3) out["fc"] = jindex(mesh.template get_index_set<dim, 2>());
    else out["fc"] = vj::Value::array();
  }

  template<class W_, class TS_, class RS_>
  vj::Value run_pair(const vj::Value& c, W_& w)
  {
    typedef typename TS_::Type Test; typedef typename RS_::Type Trial;
    constexpr bool same = std::is_same<Test, Trial>::value;
    Test test(*w.trafo);
    Trial trial(*w.trafo);
    vj::Value out = vj::Value::object();
    for(const char* k : {"id", "shape", "dim", "class", "test", "trial"}) out[k] = c[k];
    dump_mesh(w, out);
    out["nt"] = vj::Value((long long)test.get_num_dofs());
    out["nr"] = vj::Value((long long)trial.get_num_dofs());
    out["td"] = jdofs(test);
    out["rd"] = jdofs(trial);

    // the symbolic patterns; the std pattern is dumped from the real matrix the assemblers write into
    Mat pattern;
    if constexpr (same) Assembly::SymbolicAssembler::assemble_matrix_std1(pattern, test);
    else Assembly::SymbolicAssembler::assemble_matrix_std2(pattern, test, trial);
    vj::Value pats = vj::Value::array();
    if(c.has("pat") && c["pat"].as_bool())
    {
      pats.push(jmatpat("std", pattern));
      if constexpr (same)
      {
        pats.push(jgraph("std", Assembly::SymbolicAssembler::assemble_graph_std2(test, trial)));
        pats.push(jgraph("extf", Assembly::SymbolicAssembler::assemble_graph_ext_facet1(test)));
        pats.push(jgraph("extn", Assembly::SymbolicAssembler::assemble_graph_ext_node1(test)));
        pats.push(jgraph("diag", Assembly::SymbolicAssembler::assemble_graph_diag(test)));
      }
      else
      {
        pats.push(jgraph("extf", Assembly::SymbolicAssembler::assemble_graph_ext_facet2(test, trial)));
        pats.push(jgraph("extn", Assembly::SymbolicAssembler::assemble_graph_ext_node2(test, trial)));
      }
    }
    out["pats"] = pats;

    typedef PairCtx<W_, Test, Trial> Ctx;
    Ctx ctx{w, test, trial, TS_::name(), RS_::name(), c["class"].as_str(), same, SpaceInfo(), SpaceInfo(), {}, {}};
    const int ideg = 6;
    // piecewise constants have no gradients (the evaluator aborts when asked): Lmax = 0
    ctx.ti = space_info(test, ideg, ctx.tname != "disc0");
    if constexpr (same) ctx.ri = ctx.ti; else ctx.ri = space_info(trial, ideg, ctx.rname != "disc0");

    Assembly::DomainAssembler<typename W_::TrafoType> dom(*w.trafo);
    dom.set_max_worker_threads(0);
    dom.compile_all_elements();

    ScalarRunner<Ctx> run{ctx, dom, pattern, c.has("dense") && c["dense"].as_bool()};
    vj::Value jobs = vj::Value::array();
    const vj::Value& jl = c["jobs"];
    for(std::size_t k = 0; k < jl.size(); ++k)
    {
      vj::Value j = vj::Value::object();
      j["spec"] = jl[k];
      j["obs"] = (jl[k]["k"].as_str() == "mat") ? run.mat_dispatch(jl[k]) : run.vec_dispatch(jl[k]);
      jobs.push(j);
    }
    out["jobs"] = jobs;
    return out;
  }

  template<class W_, template<class> class TS_, template<class> class RS_>
  bool try_pair(const vj::Value& c, W_& w, vj::Value& out)
  {
    typedef typename W_::TrafoType Trafo;
    if(c["test"].as_str() != TS_<Trafo>::name() || c["trial"].as_str() != RS_<Trafo>::name()) return false;
    out = run_pair<W_, TS_<Trafo>, RS_<Trafo>>(c, w);
    return true;
  }

  template<class Shape_>
  vj::Value run_scalar_case(const vj::Value& c)
  {
    typedef World<Shape_> W;
    g_margin = 0.0;
    W w;
    w.build(c["mesh"]);
    vj::Value out; bool done = false;
#if C16_SAME
    done = done || try_pair<W, SpL1, SpL1>(c, w, out) || try_pair<W, SpL2, SpL2>(c, w, out) || try_pair<W, SpCR, SpCR>(c, w, out)
                || try_pair<W, SpD0, SpD0>(c, w, out) || try_pair<W, SpD1, SpD1>(c, w, out);
#endif
#if C16_MIXED
    done = done || try_pair<W, SpL2, SpD1>(c, w, out) || try_pair<W, SpD1, SpL2>(c, w, out) || try_pair<W, SpCR, SpD0>(c, w, out)
                || try_pair<W, SpD0, SpCR>(c, w, out) || try_pair<W, SpL1, SpL2>(c, w, out);
#endif
    if(!done) throw std::runtime_error("pair " + c["test"].as_str() + "/" + c["trial"].as_str() + " is not compiled into this harness");
    std::ofstream f(c["out"].as_str());
    vj::write(f, out);
    f << "\n";
    if(!f) throw std::runtime_error("cannot write " + c["out"].as_str());
    vj::Value r = vh::ok();
    r["margin"] = g_margin;
    return r;
  }
}
