// Shared main loop of the C13 MPI replayers:
//   mpirun -np <nr> <harness> --cases FILE [--start K] [--timeout S]
// all ranks read FILE (one JSON case per line); rank 0 journals "B k" / "R k {json}" like vharness.hpp does, so
// vlib.run_cases() can drive it through its `wrapper` argument.  The per-case function returns an empty string on
// every rank that agrees with the specification's prediction, or a message "rank r: <what>: ..." otherwise.
#pragma once
#include "vjson.hpp"
#include <kernel/runtime.hpp>
#include <kernel/util/dist.hpp>
#include <csignal>
#include <cstring>
#include <fstream>
#include <functional>
#include <unistd.h>

namespace vmpi
{
  inline void on_alarm(int) { const char m[] = "\nHANG\n"; if(::write(1, m, sizeof(m) - 1)) {} ::_exit(97); }

  typedef std::function<std::string(const vj::Value&, const FEAT::Dist::Comm&)> CaseFn;

  inline int main_loop(int argc, char** argv, const CaseFn& fn)
  {
    using namespace FEAT;
    std::string file; long start = 0; unsigned tmo = 30;
    for(int k = 1; k < argc; ++k)
    {
      std::string a(argv[k]);
      if(a == "--cases" && k + 1 < argc) file = argv[++k];
      else if(a == "--start" && k + 1 < argc) start = std::atol(argv[++k]);
      else if(a == "--timeout" && k + 1 < argc) tmo = (unsigned)std::atol(argv[++k]);
    }
    Runtime::initialize(argc, argv);
    {
      Dist::Comm comm = Dist::Comm::world();
      std::signal(SIGALRM, on_alarm);
      std::ifstream in(file);
      if(!in) { if(comm.rank() == 0) std::fprintf(stderr, "cannot open %s\n", file.c_str()); Runtime::abort(false); }
      std::string line; long k = -1;
      while(std::getline(in, line))
      {
        if(line.empty()) continue;
        ++k; if(k < start) continue;
        if(comm.rank() == 0) { std::printf("B %ld\n", k); std::fflush(stdout); }
        ::alarm(tmo);
        std::string why;
        try
        {
          vj::Value c = vj::parse(line);
          if(c["nr"].as_int() != comm.size()) why = "case is for another number of ranks";
          else why = fn(c, comm);
        }
        catch(const std::exception& e) { why = std::string("rank ") + std::to_string(comm.rank()) + ": uncaught exception " + e.what(); }
        ::alarm(0);
        // gather verdicts on rank 0: number of failing ranks and the first message
        int bad = why.empty() ? 0 : 1, nbad = 0;
        comm.allreduce(&bad, &nbad, std::size_t(1), Dist::op_sum);
        char buf[640]; std::memset(buf, 0, sizeof(buf)); std::strncpy(buf, why.c_str(), sizeof(buf) - 1);
        std::vector<char> all(std::size_t(comm.size()) * sizeof(buf));
        comm.gather(buf, sizeof(buf), all.data(), sizeof(buf), 0);
        if(comm.rank() == 0)
        {
          vj::Value r = vj::Value::object(); r["ok"] = (nbad == 0);
          if(nbad > 0) for(int q = 0; q < comm.size(); ++q) if(all[std::size_t(q) * sizeof(buf)] != 0) { r["why"] = std::string(&all[std::size_t(q) * sizeof(buf)]); break; }
          std::printf("R %ld %s\n", k, vj::dump(r).c_str()); std::fflush(stdout);
        }
      }
      std::fflush(stdout);
      comm.barrier();
    }
    Runtime::finalize();
    return 0;
  }

  // message collector: keeps the first failure of this rank
  struct Fail
  {
    int me; std::string why;
    explicit Fail(int r) : me(r) {}
    void operator()(const std::string& w) { if(why.empty()) why = "rank " + std::to_string(me) + ": " + w; }
  };

  // Waiting for a ticket of the *_async interface.  A process without neighbours gets a default-constructed
  // SynchVectorTicket from Gate::sync_0_async/sync_1_async whose wait() aborts ("ticket was already completed", known
  // finding C13-async-empty-ticket); so that the remaining operations of such a case can still be compared, the
  // regular cases do not wait on a ticket that is already marked finished - the dedicated probe cases
  // (kind "asyncprobe") call wait() unconditionally and decide that finding.
  template<typename T_> struct Peek : public T_ { bool fin() const { return this->_finished; } };
  template<typename T_> inline void wait_ticket(T_& t, bool unconditional = false)
  {
    if(!unconditional && static_cast<const Peek<T_>&>(t).fin()) return;
    t.wait();
  }

  inline std::string key(int r) { return std::to_string(r); }
  inline bool pow2(long long n) { return n > 0 && (n & (n - 1)) == 0; }
}
