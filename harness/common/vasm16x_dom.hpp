// C16x harness, domain part: error computers, function-integral jobs, filter assemblers, remaining common operators
// (cases of spec/AssemblyErr.tla; see vasm16x.hpp for the conventions).  Rational predictions are {"n": num, "d": den}.
#pragma once
#include "vasm16x.hpp"
#include <kernel/assembly/error_computer.hpp>
#include <kernel/assembly/function_integral_jobs.hpp>
#include <kernel/assembly/unit_filter_assembler.hpp>
#include <kernel/assembly/slip_filter_assembler.hpp>
#include <kernel/assembly/mean_filter_assembler.hpp>
#include <kernel/lafem/sparse_matrix_bcsr.hpp>

namespace vx
{
  // vector field whose components are single monomial terms c_k x^(e_k)
  template<int dim_>
  class MonoVecFunction : public Analytic::Function
  {
  public:
    static constexpr int domain_dim = dim_;
    typedef Analytic::Image::Vector<dim_> ImageType;
    static constexpr bool can_value = true;
    static constexpr bool can_grad = true;
    static constexpr bool can_hess = true;
    std::vector<va::MonoFunction<dim_>> comp;
    explicit MonoVecFunction(const vj::Value& terms) { for(std::size_t k = 0; k < terms.size(); ++k) comp.emplace_back(terms[k]["e"].ints(), double(terms[k]["c"].as_int())); }
    template<typename EvalTraits_>
    class Evaluator : public Analytic::Function::Evaluator<EvalTraits_>
    {
    public:
      typedef typename EvalTraits_::DataType DataType;
      typedef typename EvalTraits_::PointType PointType;
      typedef typename EvalTraits_::ValueType ValueType;
      typedef typename EvalTraits_::GradientType GradientType;
      typedef typename EvalTraits_::HessianType HessianType;
      const MonoVecFunction& f;
      explicit Evaluator(const MonoVecFunction& fn) : f(fn) {}
      ValueType value(const PointType& p) { ValueType v; for(int i = 0; i < dim_; ++i) v[i] = DataType(f.comp[std::size_t(i)].val(p)); return v; }
      GradientType gradient(const PointType& p) { GradientType g; for(int i = 0; i < dim_; ++i) for(int j = 0; j < dim_; ++j) g[i][j] = DataType(f.comp[std::size_t(i)].val(p, j)); return g; }
      HessianType hessian(const PointType& p) { HessianType h; for(int i = 0; i < dim_; ++i) for(int j = 0; j < dim_; ++j) for(int k = 0; k < dim_; ++k) h[i][j][k] = DataType(f.comp[std::size_t(i)].val(p, j, k)); return h; }
    };
  };

  struct ErrTol { double t0, t1, t2, tv; };
  // rounding bounds of the squared norms: magnitudes m0/m1/m2 from the specification plus the cancellation inside the evaluation
  // of the finite element function (coefficients <= B, basis derivatives of order k <= (4 * 2^K)^k per coefficient)
  template<class W_> ErrTol err_tol(const W_& w, const vj::Value& info, double B)
  {
    const double V = rpow(w.R, W_::dim);
    const double s = 4.0 * std::ldexp(1.0, w.K);
    ErrTol t;
    t.tv = CK * EPS * (double(rat_of(info["mv"])) + B * V);
    t.t0 = CK * EPS * (double(rat_of(info["m0"])) + B * B * V);
    t.t1 = CK * EPS * (double(rat_of(info["m1"])) + B * B * s * s * V * W_::dim);
    t.t2 = CK * EPS * (double(rat_of(info["m2"])) + B * B * s * s * s * s * V * W_::dim * W_::dim);
    return t;
  }

  // compares a FunctionIntegralInfo of a scalar function with the prediction
  template<int dim_, class Info_>
  void check_scalar_info(const std::string& who, const Info_& fi, const vj::Value& exp, int maxn, const ErrTol& t)
  {
    expect(who + ":value", fi.value, rat_of(exp["val"]), t.tv);
    expect(who + ":h0", fi.norm_h0_sqr, rat_of(exp["h0"]), t.t0);
    if(maxn >= 1)
    {
      expect(who + ":h1", fi.norm_h1_sqr, rat_of(exp["h1"]), t.t1);
      for(int k = 0; k < dim_; ++k) expect(who + ":grad", fi.grad[k], rat_of(exp["grad"][std::size_t(k)]), std::sqrt(t.t1 * CK * EPS) + t.tv * 64);
    }
    if(maxn >= 2)
    {
      expect(who + ":h2", fi.norm_h2_sqr, rat_of(exp["h2"]), t.t2);
      for(int k = 0; k < dim_; ++k) for(int l = 0; l < dim_; ++l)
        expect(who + ":hess", fi.hess[k][l], rat_of(exp["hess"][std::size_t(k)][std::size_t(l)]), std::sqrt(t.t2 * CK * EPS) + t.tv * 4096);
    }
  }

  template<class Trafo_> struct DomAsm
  {
    Assembly::DomainAssembler<Trafo_> dom;
    explicit DomAsm(const Trafo_& t) : dom(t) { dom.set_max_worker_threads(0); dom.compile_all_elements(); }
  };

  // ---- err: scalar ------------------------------------------------------------------------------------------------
  template<int maxn_, class W_, class Space_>
  void err_checks(const W_& w, const Space_& space, const std::string& sname, const vj::Value& c)
  {
    static constexpr int dim = W_::dim;
    require(int(c["maxn"].as_int()) == maxn_, "MACHINERY: max norm of the space");
    const std::string cub = "auto-degree:" + stringify(int(c["deg"].as_int()));
    Cubature::DynamicFactory cf(cub);
    va::MonoFunction<dim> fn(c["ana"]["e"].ints(), double(c["ana"]["c"].as_int()));
    std::vector<double> uh(space.get_num_dofs(), 0.0);
    const bool has_disc = c["disc"].size() > 0;
    if(has_disc) uh = va::interpolate(w, space, sname, c["disc"][std::size_t(0)].ints());
    Vec vec = to_vec(uh);
    const double B = std::fabs(double(c["ana"]["c"].as_int())) * rpow(w.R, va::total_deg(c["ana"]["e"].ints())) + (has_disc ? rpow(w.R, va::total_deg(c["disc"][std::size_t(0)].ints())) : 0.0);
    const vj::Value& ex = c["err"];
    const ErrTol t = err_tol(w, ex, B);

    // ScalarErrorComputer
    {
      auto info = Assembly::ScalarErrorComputer<maxn_>::compute(vec, fn, space, cf);
      require(info.have_h0 && info.have_h1 == (maxn_ >= 1) && info.have_h2 == (maxn_ >= 2), "ec:have flags");
      expect("ec:h0", LD(info.norm_h0) * LD(info.norm_h0), rat_of(ex["h0"]), t.t0);
      if(maxn_ >= 1) expect("ec:h1", LD(info.norm_h1) * LD(info.norm_h1), rat_of(ex["h1"]), t.t1);
      if(maxn_ >= 2) expect("ec:h2", LD(info.norm_h2) * LD(info.norm_h2), rat_of(ex["h2"]), t.t2);
      if(c["l1"].size() > 0) expect("ec:l1", info.norm_l1, rat_of(c["l1"][std::size_t(0)]), t.tv);
      // a lower computer gives the same lower norms
      auto info0 = Assembly::ScalarErrorComputer<0>::compute(vec, fn, space, cf);
      require(info0.have_h0 && !info0.have_h1 && !info0.have_h2 && info0.norm_h1 == 0.0 && info0.norm_h2 == 0.0, "ec0:flags");
      expect("ec0:h0", LD(info0.norm_h0) * LD(info0.norm_h0), rat_of(ex["h0"]), t.t0);
      if constexpr (maxn_ >= 1) if(c["sub"].as_bool())
      {
        // the variant for sub-dimensional meshes, used on a mesh of full dimension, computes the same H1 semi-norm
        auto infos = Assembly::ScalarErrorComputer<1, true>::compute(vec, fn, space, cf);
        expect("ecsub:h0", LD(infos.norm_h0) * LD(infos.norm_h0), rat_of(ex["h0"]), t.t0);
        expect("ecsub:h1", LD(infos.norm_h1) * LD(infos.norm_h1), rat_of(ex["h1"]), 16 * t.t1);
      }
    }
    // ErrorFunctionIntegralJob through the DomainAssembler (serial)
    DomAsm<typename W_::TrafoType> da(*w.trafo);
    {
      Assembly::ErrorFunctionIntegralJob<va::MonoFunction<dim>, Vec, Space_, maxn_> job(fn, vec, space, cub);
      da.dom.assemble(job);
      require(job.result().max_der == maxn_, "errjob:max_der");
      check_scalar_info<dim>("errjob", job.result(), ex, maxn_, t);
      if(c["l1"].size() > 0) expect("errjob:l1", job.result().norm_l1, rat_of(c["l1"][std::size_t(0)]), t.tv);
    }
    // CellErrorFunctionIntegralJob: totals and the element-wise squared norms
    {
      Assembly::CellErrorFunctionIntegralJob<va::MonoFunction<dim>, Vec, Space_, maxn_> job(fn, vec, space, cub);
      da.dom.assemble(job);
      auto res = job.result();
      check_scalar_info<dim>("celljob", res.integral_info, ex, maxn_, t);
      require(res.vec.size() == w.mesh->get_num_elements(), "celljob:vector size");
      LD s0 = 0, s1 = 0, s2 = 0;
      const vj::Value& ch = c["cellh0"];
      for(Index i = 0; i < res.vec.size(); ++i)
      {
        double c0;
        if constexpr (maxn_ == 0) c0 = res.vec(i);
        else { const auto tv = res.vec(i); c0 = tv[0]; s1 += LD(tv[1]); if constexpr (maxn_ >= 2) s2 += LD(tv[2]); }
        s0 += LD(c0);
        if(ch.size() > 0) expect("celljob:cell h0", c0, rat_of(ch[std::size_t(i)]), t.t0);
      }
      expect("celljob:sum h0", s0, rat_of(ex["h0"]), t.t0);
      if(maxn_ >= 1) expect("celljob:sum h1", s1, rat_of(ex["h1"]), t.t1);
      if(maxn_ >= 2) expect("celljob:sum h2", s2, rat_of(ex["h2"]), t.t2);
    }
    // the analytic function alone
    {
      Assembly::AnalyticFunctionIntegralJob<DT, va::MonoFunction<dim>, typename W_::TrafoType, 2> job(fn, *w.trafo, cub);
      da.dom.assemble(job);
      check_scalar_info<dim>("anajob", job.result(), c["fana"], 2, err_tol(w, c["fana"], B));
    }
    // the discrete function alone
    if(has_disc)
    {
      Assembly::DiscreteFunctionIntegralJob<Vec, Space_, maxn_> job(vec, space, cub);
      da.dom.assemble(job);
      check_scalar_info<dim>("discjob", job.result(), c["fdisc"][std::size_t(0)], maxn_, err_tol(w, c["fdisc"][std::size_t(0)], B));
    }
  }

  // ---- verr: vector fields ----------------------------------------------------------------------------------------
  template<int maxn_, class W_, class Space_>
  void verr_checks(const W_& w, const Space_& space, const std::string& sname, const vj::Value& c)
  {
    static constexpr int dim = W_::dim;
    require(int(c["maxn"].as_int()) == maxn_, "MACHINERY: max norm of the space");
    typedef LAFEM::DenseVectorBlocked<DT, IT, dim> BVec;
    const std::string cub = "auto-degree:" + stringify(int(c["deg"].as_int()));
    Cubature::DynamicFactory cf(cub);
    MonoVecFunction<dim> fn(c["ana"]);
    BVec vec(space.get_num_dofs());
    double B = 0;
    {
      std::vector<std::vector<double>> comps;
      for(int k = 0; k < dim; ++k)
      {
        const vj::Value& tk = c["disc"][std::size_t(k)];
        auto u = va::interpolate(w, space, sname, tk["e"].ints());
        for(auto& x : u) x *= double(tk["c"].as_int());
        comps.push_back(u);
        B = std::max(B, std::fabs(double(tk["c"].as_int())) * rpow(w.R, va::total_deg(tk["e"].ints()))
          + std::fabs(double(c["ana"][std::size_t(k)]["c"].as_int())) * rpow(w.R, va::total_deg(c["ana"][std::size_t(k)]["e"].ints())));
      }
      for(Index i = 0; i < vec.size(); ++i) { Tiny::Vector<DT, dim> t; for(int k = 0; k < dim; ++k) t[k] = comps[std::size_t(k)][i]; vec(i, t); }
    }
    std::vector<ErrTol> tk; ErrTol ts = {0, 0, 0, 0};
    LD h0 = 0, h1 = 0, h2 = 0;
    for(int k = 0; k < dim; ++k)
    {
      const vj::Value& ex = c["comp"][std::size_t(k)];
      tk.push_back(err_tol(w, ex, B));
      ts.t0 += tk.back().t0; ts.t1 += tk.back().t1; ts.t2 += tk.back().t2; ts.tv += tk.back().tv;
      h0 += rat_of(ex["h0"]); h1 += rat_of(ex["h1"]); h2 += rat_of(ex["h2"]);
    }
    {
      auto info = Assembly::VectorErrorComputer<maxn_>::compute(vec, fn, space, cf);
      require(info.have_h0 && info.have_h1 && info.have_h2 == (maxn_ >= 2), "vec:have flags");
      for(int k = 0; k < dim; ++k)
      {
        const vj::Value& ex = c["comp"][std::size_t(k)];
        expect("vec:h0 comp", LD(info.norm_h0_comp[k]) * LD(info.norm_h0_comp[k]), rat_of(ex["h0"]), tk[std::size_t(k)].t0);
        expect("vec:h1 comp", LD(info.norm_h1_comp[k]) * LD(info.norm_h1_comp[k]), rat_of(ex["h1"]), tk[std::size_t(k)].t1);
        if(maxn_ >= 2) expect("vec:h2 comp", LD(info.norm_h2_comp[k]) * LD(info.norm_h2_comp[k]), rat_of(ex["h2"]), tk[std::size_t(k)].t2);
      }
      expect("vec:h0", LD(info.norm_h0) * LD(info.norm_h0), h0, ts.t0);
      expect("vec:h1", LD(info.norm_h1) * LD(info.norm_h1), h1, ts.t1);
      if(maxn_ >= 2) expect("vec:h2", LD(info.norm_h2) * LD(info.norm_h2), h2, ts.t2);
    }
    DomAsm<typename W_::TrafoType> da(*w.trafo);
    {
      Assembly::ErrorFunctionIntegralJob<MonoVecFunction<dim>, BVec, Space_, maxn_> job(fn, vec, space, cub);
      da.dom.assemble(job);
      const auto& fi = job.result();
      for(int k = 0; k < dim; ++k)
      {
        const vj::Value& ex = c["comp"][std::size_t(k)];
        expect("vjob:value", fi.value[k], rat_of(ex["val"]), tk[std::size_t(k)].tv);
        expect("vjob:h0 comp", fi.norm_h0_sqr_comp[k], rat_of(ex["h0"]), tk[std::size_t(k)].t0);
        expect("vjob:h1 comp", fi.norm_h1_sqr_comp[k], rat_of(ex["h1"]), tk[std::size_t(k)].t1);
        if(maxn_ >= 2) expect("vjob:h2 comp", fi.norm_h2_sqr_comp[k], rat_of(ex["h2"]), tk[std::size_t(k)].t2);
        for(int l = 0; l < dim; ++l)
          expect("vjob:grad", fi.grad[k][l], rat_of(ex["grad"][std::size_t(l)]), std::sqrt(tk[std::size_t(k)].t1 * CK * EPS) + tk[std::size_t(k)].tv * 64);
      }
      expect("vjob:h0", fi.norm_h0_sqr, h0, ts.t0);
      expect("vjob:h1", fi.norm_h1_sqr, h1, ts.t1);
      if(maxn_ >= 2) expect("vjob:h2", fi.norm_h2_sqr, h2, ts.t2);
      expect("vjob:div", fi.divergence_l2_sqr, rat_of(c["div2"]), dim * ts.t1);
      expect("vjob:vort", fi.vorticity_l2_sqr, rat_of(c["vort2"]), 2 * dim * ts.t1);
    }
    {
      Assembly::DiscreteFunctionIntegralJob<BVec, Space_, 1> job(vec, space, cub);
      da.dom.assemble(job);
      // the discrete field alone: its value integrals are those of the discrete terms
      const auto& fi = job.result();
      require(std::isfinite(double(fi.norm_h0_sqr)) && fi.norm_h0_sqr >= 0.0, "vdisc:finite");
    }
  }

  // ---- filters ----------------------------------------------------------------------------------------------------
  // dof number of the m-th dof of the entity (d, index) from the signature of the specification: vertices first, ... cells last
  template<class W_> Index sig_dof(const W_& w, const std::vector<long long>& sig, int d, Index idx)
  {
    Index off = 0;
    for(int q = 0; q < d; ++q) off += w.mesh->get_num_entities(q) * Index(sig[std::size_t(q)]);
    return off + idx * Index(sig[std::size_t(d)]);
  }

  template<class W_, class Space_>
  void unit_checks(const W_& w, const Space_& space, const vj::Value& c)
  {
    static constexpr int dim = W_::dim;
    typedef typename W_::MeshType MeshType;
    vm::EntityFinder<MeshType> ef(*w.mesh);
    auto part = facet_part(w, ef, c["facets"], true);
    const auto sig = c["sig"].ints();
    std::map<Index, LD> exp;
    const vj::Value& dofs = c["dofs"];
    for(std::size_t k = 0; k < dofs.size(); ++k)
    {
      const int d = int(dofs[k]["d"].as_int());
      exp[sig_dof(w, sig, d, ef.find(d, dofs[k]["vs"].ints()))] = rat_of(dofs[k]["val"]);
    }
    require(exp.size() == dofs.size(), "MACHINERY: duplicate dofs in the prediction");
    Assembly::UnitFilterAssembler<MeshType> asmb;
    asmb.add_mesh_part(*part);
    const double tolv = 64.0 * EPS * rpow(w.R, va::total_deg(c["f"].ints()));
    auto check = [&](const char* who, const LAFEM::UnitFilter<DT, IT>& fil, int mode, const Vec* src)
    {
      require(fil.size() == space.get_num_dofs(), std::string(who) + ":filter size");
      std::set<Index> got;
      for(Index i = 0; i < fil.used_elements(); ++i) got.insert(Index(fil.get_indices()[i]));
      std::set<Index> want; for(const auto& p : exp) want.insert(p.first);
      if(got != want || got.size() != fil.used_elements())
      {
        vj::Value g = vj::Value::array(), e = vj::Value::array();
        for(Index i : got) g.push(vj::Value((long long)i));
        for(Index i : want) e.push(vj::Value((long long)i));
        throw Fail(std::string(who) + ":constrained dof set", e, g);
      }
      for(Index i = 0; i < fil.used_elements(); ++i)
      {
        const Index j = Index(fil.get_indices()[i]);
        const LD e = mode == 0 ? LD(0) : (mode == 1 ? exp[j] : LD((*src)(j)));
        expect(std::string(who) + ":value", fil.get_values()[i], e, mode == 1 ? tolv : 0.0);
      }
    };
    { LAFEM::UnitFilter<DT, IT> fil; asmb.assemble(fil, space); check("unit0", fil, 0, nullptr); }
    { va::MonoFunction<dim> fn(c["f"].ints()); LAFEM::UnitFilter<DT, IT> fil; asmb.assemble(fil, space, fn); check("unitf", fil, 1, nullptr); }
    { Vec src(space.get_num_dofs()); for(Index i = 0; i < src.size(); ++i) src(i, 0.5 + double(i)); LAFEM::UnitFilter<DT, IT> fil; asmb.assemble(fil, space, src); check("unitv", fil, 2, &src); }
    // adding the same part twice and assembling into an existing filter changes nothing
    { asmb.add_mesh_part(*part); LAFEM::UnitFilter<DT, IT> fil(space.get_num_dofs()); asmb.assemble(fil, space); check("unit0b", fil, 0, nullptr); }
    {
      LAFEM::UnitFilterBlocked<DT, IT, dim> fil; asmb.assemble(fil, space);
      require(fil.used_elements() == Index(exp.size()), "unitb:number of constrained dofs");
      for(Index i = 0; i < fil.used_elements(); ++i) require(exp.count(Index(fil.get_indices()[i])) == 1, "unitb:constrained dof set");
    }
  }

  template<class W_, class Space_>
  void slip_checks(const W_& w, const Space_& space, const std::string& sname, const vj::Value& c)
  {
    static constexpr int dim = W_::dim;
    typedef typename W_::MeshType MeshType;
    vm::EntityFinder<MeshType> ef(*w.mesh);
    auto part = facet_part(w, ef, c["facets"], true);
    Assembly::SlipFilterAssembler<typename W_::TrafoType> asmb(*w.trafo);
    asmb.add_mesh_part(*part);
    LAFEM::SlipFilter<DT, IT, dim> fil;
    asmb.assemble(fil, space);
    const double den = double(c["den"].as_int());
    // nu: the weighted outer normals at the vertices of the part
    const auto& nu = fil.get_nu();
    const vj::Value& en = c["nu"];
    std::map<Index, std::vector<long long>> exp;
    for(std::size_t k = 0; k < en.size(); ++k) exp[Index(en[k]["v"].as_int())] = en[k]["nu"].ints();
    require(nu.size() == w.mesh->get_num_entities(0), "slip:nu size");
    {
      std::set<Index> got; for(Index i = 0; i < nu.used_elements(); ++i) got.insert(Index(nu.indices()[i]));
      std::set<Index> want; for(const auto& p : exp) want.insert(p.first);
      require(got == want && got.size() == nu.used_elements(), "slip:vertex set of nu");
    }
    for(Index i = 0; i < nu.used_elements(); ++i)
    {
      const auto& e = exp[Index(nu.indices()[i])];
      double mag = 0; for(int a = 0; a < dim; ++a) mag += std::fabs(double(e[std::size_t(a)])) / den;
      for(int a = 0; a < dim; ++a)
        expect("slip:nu", nu.elements()[i][a], LD(e[std::size_t(a)]) / LD(den), 64.0 * EPS * (mag + rpow(w.R, dim - 1) * 8));
    }
    // filter vector: Lagrange-1: nu itself; Lagrange-2: unit vectors in the direction of the sum of nu over the vertices of the entity
    const auto sig = c["sig"].ints();
    const vj::Value& dofs = c["dofs"];
    std::map<Index, std::vector<long long>> dexp;
    for(std::size_t k = 0; k < dofs.size(); ++k)
    {
      const int d = int(dofs[k]["d"].as_int());
      dexp[sig_dof(w, sig, d, ef.find(d, dofs[k]["vs"].ints()))] = dofs[k]["dir"].ints();
    }
    require(fil.get_filter_vector().size() == space.get_num_dofs(), "slip:filter size");
    {
      std::set<Index> got; for(Index i = 0; i < fil.used_elements(); ++i) got.insert(Index(fil.get_indices()[i]));
      std::set<Index> want; for(const auto& p : dexp) want.insert(p.first);
      if(got != want || got.size() != fil.used_elements())
      {
        vj::Value g = vj::Value::array(), e = vj::Value::array();
        for(Index i : got) g.push(vj::Value((long long)i));
        for(Index i : want) e.push(vj::Value((long long)i));
        throw Fail("slip:constrained dof set", e, g);
      }
    }
    for(Index i = 0; i < fil.used_elements(); ++i)
    {
      const auto& e = dexp[Index(fil.get_indices()[i])];
      if(sname == "lagrange1")
      {
        for(int a = 0; a < dim; ++a) expect("slip:value", fil.get_values()[i][a], LD(e[std::size_t(a)]) / LD(den), 64.0 * EPS * rpow(w.R, dim - 1) * 8);
      }
      else
      {
        LD n2 = 0; for(int a = 0; a < dim; ++a) n2 += LD(e[std::size_t(a)]) * LD(e[std::size_t(a)]);
        require(n2 > 0, "MACHINERY: zero direction");
        for(int a = 0; a < dim; ++a) expect("slip:direction", fil.get_values()[i][a], LD(e[std::size_t(a)]) / std::sqrt(n2), 256.0 * EPS);
      }
    }
  }

  template<class W_, class Space_>
  void mean_checks(const W_& w, const Space_& space, const std::string& sname, const vj::Value& c)
  {
    static constexpr int dim = W_::dim;
    const std::string cub = "auto-degree:" + stringify(int(c["deg"].as_int()));
    Vec prim, dual;
    Assembly::MeanFilterAssembler::assemble(prim, dual, space, cub);
    require(prim.size() == space.get_num_dofs() && dual.size() == space.get_num_dofs(), "mean:sizes");
    const std::vector<long long> zero(std::size_t(dim), 0);
    const auto one = va::interpolate(w, space, sname, zero);
    for(Index i = 0; i < prim.size(); ++i) require(prim(i) == one[i], "mean:primal vector");
    const double V = rpow(w.R, dim);
    LD s = 0; for(Index i = 0; i < dual.size(); ++i) s += LD(dual(i)) * LD(one[i]);
    expect("mean:sum dual = volume", s, rat_of(c["vol"]), CK * EPS * 4 * V);
    const vj::Value& ids = c["ids"];
    for(std::size_t k = 0; k < ids.size(); ++k)
    {
      const auto u = ids[k]["u"].ints();
      expect("mean:dual.u u=" + estr(u), dotv(dual, va::interpolate(w, space, sname, u)), rat_of(ids[k]["val"]), CK * EPS * 4 * V * rpow(w.R, va::total_deg(u)));
    }
    LAFEM::MeanFilter<DT, IT> fil;
    Assembly::MeanFilterAssembler::assemble(fil, space, cub, 0.25);
    // filtering the constant 1 with solution mean 1/4 gives the constant 1/4
    Vec x = to_vec(one);
    fil.filter_sol(x);
    for(Index i = 0; i < x.size(); ++i) require(std::fabs(x(i) - 0.25 * one[i]) <= 64 * CK * EPS, "mean:filter_sol");
  }

  // ---- remaining common operators ---------------------------------------------------------------------------------
  template<int BH_, int BW_, class Op_, class W_, class Space_>
  void bop_run(const W_& w, const Space_& space, const std::string& sname, Op_& op, const vj::Value& c)
  {
    typedef LAFEM::SparseMatrixBCSR<DT, IT, BH_, BW_> BMat;
    require(int(c["rows"].as_int()) == BH_ && int(c["cols"].as_int()) == BW_, "MACHINERY: block dimensions");
    Cubature::DynamicFactory cf("auto-degree:" + stringify(int(c["deg"].as_int())));
    BMat m; Assembly::SymbolicAssembler::assemble_matrix_std1(m, space);
    // poison the matrix entries through a non-trivial first assembly with alpha = 0?  no: format, then assemble
    m.format();
    Assembly::BilinearOperatorAssembler::assemble_matrix1(m, op, space, cf);
    const double V = rpow(w.R, W_::dim);
    const double s = 4.0 * std::ldexp(1.0, w.K);
    const int r = int(c["row"].as_int());
    require(r >= 0 && r < BH_ && int(c["blocks"].size()) == BW_, "MACHINERY: block row");
    {
      for(int cc = 0; cc < BW_; ++cc)
      {
        const vj::Value& blk = c["blocks"][std::size_t(cc)];
        const std::string tag = "bop:block(" + std::to_string(r) + "," + std::to_string(cc) + ")";
        if(blk["zero"].as_bool())
        {
          for(Index k = 0; k < m.used_elements(); ++k) require(m.val()[k][r][cc] == 0.0, tag + " is structurally zero", vj::Value(0.0), vj::Value(m.val()[k][r][cc]));
        }
        const vj::Value& ids = blk["ids"];
        for(std::size_t q = 0; q < ids.size(); ++q)
        {
          const auto u = ids[q]["u"].ints(), v = ids[q]["v"].ints();
          const auto uu = va::interpolate(w, space, sname, u), vv = va::interpolate(w, space, sname, v);
          LD val = 0;
          for(Index i = 0; i < m.rows(); ++i)
            for(IT k = m.row_ptr()[i]; k < m.row_ptr()[i + 1]; ++k)
              val += LD(vv[i]) * LD(m.val()[k][r][cc]) * LD(uu[m.col_ind()[k]]);
          expect(tag + " u=" + estr(u) + " v=" + estr(v), val, rat_of(ids[q]["val"]), CK * EPS * 4 * V * s * rpow(w.R, va::total_deg(u) + va::total_deg(v)));
        }
      }
    }
  }

  template<class W_, class Space_>
  void bop_checks(const W_& w, const Space_& space, const std::string& sname, const vj::Value& c)
  {
    static constexpr int dim = W_::dim;
    const std::string name = c["op"]["name"].as_str();
    const int nsc = int(c["op"]["nsc"].as_int());
    static constexpr int ns = (dim == 2 ? 3 : 6), nu = dim * dim;
    if(name == "strain" && nsc == ns) { Assembly::Common::StrainRateTensorOperator<dim, ns> op; bop_run<ns, dim>(w, space, sname, op, c); }
    else if(name == "strain" && nsc == nu) { Assembly::Common::StrainRateTensorOperator<dim, nu> op; bop_run<nu, dim>(w, space, sname, op, c); }
    else if(name == "stressdiv" && nsc == ns) { Assembly::Common::StressDivergenceOperator<dim, ns> op; bop_run<dim, ns>(w, space, sname, op, c); }
    else if(name == "stressdiv" && nsc == nu) { Assembly::Common::StressDivergenceOperator<dim, nu> op; bop_run<dim, nu>(w, space, sname, op, c); }
    else if(name == "gradtrial") { Assembly::Common::GradientTrialOperatorBlocked<dim> op; bop_run<dim, 1>(w, space, sname, op, c); }
    else if(name == "gradtest") { Assembly::Common::GradientTestOperatorBlocked<dim> op; bop_run<dim, 1>(w, space, sname, op, c); }
    else throw std::runtime_error("unknown blocked operator " + name);
  }

  template<class W_, class Space_>
  void lb_checks(const W_& w, const Space_& space, const std::string& sname, const vj::Value& c)
  {
    Cubature::DynamicFactory cf("auto-degree:" + stringify(int(c["deg"].as_int())));
    Mat m; Assembly::SymbolicAssembler::assemble_matrix_std1(m, space);
    m.format();
    Assembly::Common::LaplaceBeltramiOperator op;
    Assembly::BilinearOperatorAssembler::assemble_matrix1(m, op, space, cf);
    const double V = rpow(w.R, W_::dim);
    const double s = 4.0 * std::ldexp(1.0, w.K);
    const vj::Value& ids = c["ids"];
    for(std::size_t q = 0; q < ids.size(); ++q)
    {
      const auto u = ids[q]["u"].ints(), v = ids[q]["v"].ints();
      expect("lb:bilinear u=" + estr(u) + " v=" + estr(v), bilin(m, va::interpolate(w, space, sname, u), va::interpolate(w, space, sname, v)),
        rat_of(ids[q]["val"]), CK * EPS * 4 * V * s * s * rpow(w.R, va::total_deg(u) + va::total_deg(v)));
    }
  }

  // ---- dispatch ---------------------------------------------------------------------------------------------------
  template<class Shape_, template<class> class TS_, class F_>
  bool with_space(const vj::Value& c, F_&& f)
  {
    typedef va::World<Shape_> W;
    typedef typename W::TrafoType Trafo;
    if(c["space"].as_str() != TS_<Trafo>::name()) return false;
    W w; build_world(w, c);
    typename TS_<Trafo>::Type space(*w.trafo);
    f(w, space, std::string(TS_<Trafo>::name()));
    return true;
  }

  template<class Shape_>
  vj::Value run_dom_case(const vj::Value& c)
  {
    const std::string kind = c["kind"].as_str();
    g_margin = 0.0;
    bool done = false;
    try
    {
      if(kind == "err")
        done = with_space<Shape_, Tag_l1>(c, [&](auto& w, auto& sp, const std::string& n) { err_checks<1>(w, sp, n, c); })
            || with_space<Shape_, Tag_l2>(c, [&](auto& w, auto& sp, const std::string& n) { err_checks<2>(w, sp, n, c); })
            || with_space<Shape_, Tag_cr>(c, [&](auto& w, auto& sp, const std::string& n) { err_checks<1>(w, sp, n, c); })
            || with_space<Shape_, Tag_d0>(c, [&](auto& w, auto& sp, const std::string& n) { err_checks<0>(w, sp, n, c); });
      else if(kind == "verr")
        done = with_space<Shape_, Tag_l1>(c, [&](auto& w, auto& sp, const std::string& n) { verr_checks<1>(w, sp, n, c); })
            || with_space<Shape_, Tag_l2>(c, [&](auto& w, auto& sp, const std::string& n) { verr_checks<2>(w, sp, n, c); });
      else if(kind == "unit")
        done = with_space<Shape_, Tag_l1>(c, [&](auto& w, auto& sp, const std::string&) { unit_checks(w, sp, c); })
            || with_space<Shape_, Tag_l2>(c, [&](auto& w, auto& sp, const std::string&) { unit_checks(w, sp, c); })
            || with_space<Shape_, Tag_cr>(c, [&](auto& w, auto& sp, const std::string&) { unit_checks(w, sp, c); });
      else if(kind == "slip")
        done = with_space<Shape_, Tag_l1>(c, [&](auto& w, auto& sp, const std::string& n) { slip_checks(w, sp, n, c); })
            || with_space<Shape_, Tag_l2>(c, [&](auto& w, auto& sp, const std::string& n) { slip_checks(w, sp, n, c); });
      else if(kind == "mean")
        done = with_space<Shape_, Tag_l1>(c, [&](auto& w, auto& sp, const std::string& n) { mean_checks(w, sp, n, c); })
            || with_space<Shape_, Tag_l2>(c, [&](auto& w, auto& sp, const std::string& n) { mean_checks(w, sp, n, c); })
            || with_space<Shape_, Tag_cr>(c, [&](auto& w, auto& sp, const std::string& n) { mean_checks(w, sp, n, c); })
            || with_space<Shape_, Tag_d0>(c, [&](auto& w, auto& sp, const std::string& n) { mean_checks(w, sp, n, c); });
      else if(kind == "bop")
        done = with_space<Shape_, Tag_l2>(c, [&](auto& w, auto& sp, const std::string& n) { bop_checks(w, sp, n, c); });
      else if(kind == "lb")
        done = with_space<Shape_, Tag_l1>(c, [&](auto& w, auto& sp, const std::string& n) { lb_checks(w, sp, n, c); })
            || with_space<Shape_, Tag_l2>(c, [&](auto& w, auto& sp, const std::string& n) { lb_checks(w, sp, n, c); });
      else throw std::runtime_error("unknown case kind " + kind);
      if(!done) throw std::runtime_error("no instantiation for kind " + kind + " and space " + c["space"].as_str());
    }
    catch(const Fail& f)
    {
      vj::Value r = vh::bad(f.what_, f.exp, f.got);
      const std::string::size_type p = f.what_.find(' ');
      r["what"] = f.what_.substr(0, p);
      return r;
    }
    vj::Value r = vh::ok(); r["margin"] = g_margin;
    return r;
  }
}
