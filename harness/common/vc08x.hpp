// Helpers of the C08x replayers (Uzawa, Vanka, AmaVanka, Schwarz): dyadic values <<num, exp>> = num / 2^exp of the
// specifications (spec/Dyadic.tla), dense <-> sparse builders.  Projection only - no arithmetic on expected values.
#pragma once
#include "vjson.hpp"
#include <kernel/lafem/dense_vector.hpp>
#include <kernel/lafem/sparse_matrix_csr.hpp>
#include <kernel/adjacency/graph.hpp>
#include <cmath>
#include <sstream>
#include <string>
#include <vector>

namespace vx
{
  using namespace FEAT;
  typedef std::vector<double> DVec;
  typedef std::vector<DVec> DMat;

  inline double dy(const vj::Value& v) { return std::ldexp(double(v[0].as_int()), -int(v[1].as_int())); }
  inline DVec dyvec(const vj::Value& v) { DVec r; for(std::size_t i = 0; i < v.size(); ++i) r.push_back(dy(v[i])); return r; }
  inline DMat dymat(const vj::Value& v) { DMat r; for(std::size_t i = 0; i < v.size(); ++i) r.push_back(dyvec(v[i])); return r; }
  inline std::vector<std::vector<int>> imat(const vj::Value& v)
  {
    std::vector<std::vector<int>> r;
    for(std::size_t i = 0; i < v.size(); ++i) { r.emplace_back(); for(std::size_t j = 0; j < v[i].size(); ++j) r.back().push_back(int(v[i][j].as_int())); }
    return r;
  }
  inline std::string show(const DVec& v)
  {
    std::ostringstream o; o.precision(17); o << "[";
    for(std::size_t i = 0; i < v.size(); ++i) o << (i ? "," : "") << v[i];
    o << "]"; return o.str();
  }
  // bitwise-exact comparison that treats NaN as different from everything (also from NaN)
  inline bool same(const DVec& a, const DVec& b)
  {
    if(a.size() != b.size()) return false;
    for(std::size_t i = 0; i < a.size(); ++i) if(!(a[i] == b[i])) return false;
    return true;
  }

  // CSR matrix with the given 0/1 pattern (rows x cols); a pattern without entries gives a matrix with an allocated row
  // pointer array and empty column/value arrays (graph constructor), like an assembled matrix without couplings
  template<typename DT_, typename IT_>
  LAFEM::SparseMatrixCSR<DT_, IT_> csr_of_pattern(Index rows, Index cols, const std::vector<std::vector<int>>& pat)
  {
    Index nnz = 0;
    for(Index i = 0; i < rows; ++i) for(Index j = 0; j < cols; ++j) nnz += Index(pat[i][j] != 0);
    Adjacency::Graph g(rows, cols, nnz);
    Index* p = g.get_domain_ptr(); Index* q = g.get_image_idx();
    Index k = 0;
    for(Index i = 0; i < rows; ++i) { p[i] = k; for(Index j = 0; j < cols; ++j) if(pat[i][j]) q[k++] = j; }
    p[rows] = k;
    LAFEM::SparseMatrixCSR<DT_, IT_> a(g);
    return a;
  }
  // write the values of the dense matrix `val` at the stored positions
  template<typename DT_, typename IT_>
  void set_csr_values(LAFEM::SparseMatrixCSR<DT_, IT_>& a, const DMat& val)
  {
    if(a.used_elements() == Index(0)) return;
    DT_* v = a.val(); const IT_* rp = a.row_ptr(); const IT_* ci = a.col_ind();
    for(Index i = 0; i < a.rows(); ++i) for(IT_ k = rp[i]; k < rp[i + 1]; ++k) v[k] = DT_(val[i][ci[k]]);
  }
  inline std::vector<std::vector<int>> full_pattern(Index rows, Index cols) { return std::vector<std::vector<int>>(rows, std::vector<int>(cols, 1)); }
}
