// Mesh helpers shared by the C10 / C12 harnesses: building ConformalMesh objects from raw data, mesh files and
// factories, attaching mesh parts, snapping coordinates to a dyadic grid, dumping levels (index sets, integer
// coordinates, mesh-part target sets) as JSON for TLC, and the floating point "projection" of the geometry
// (volume / orientation in long double) for coordinates outside the exact domain.
#pragma once
#include "vharness.hpp"
#include <kernel/geometry/conformal_mesh.hpp>
#include <kernel/geometry/mesh_part.hpp>
#include <kernel/geometry/mesh_node.hpp>
#include <kernel/geometry/mesh_atlas.hpp>
#include <kernel/geometry/mesh_file_reader.hpp>
#include <kernel/geometry/partition_set.hpp>
#include <kernel/geometry/boundary_factory.hpp>
#include <kernel/geometry/common_factories.hpp>
#include <kernel/geometry/index_calculator.hpp>
#include <kernel/geometry/intern/face_index_mapping.hpp>
#include <algorithm>
#include <cfloat>
#include <cmath>
#include <map>

namespace vm
{
  using namespace FEAT;
  typedef long double LD;

  template<class Shape_> struct Fam;
  template<int d_> struct Fam<Shape::Simplex<d_>> { static const char* name() { return "simplex"; } static constexpr bool cube = false; };
  template<int d_> struct Fam<Shape::Hypercube<d_>> { static const char* name() { return "hypercube"; } static constexpr bool cube = true; };

  template<class Shape_> using MeshT = Geometry::ConformalMesh<Shape_, Shape_::dimension, double>;

  // ---------------------------------------------------------------------------------------------------------
  // JSON writing of integer tables
  // ---------------------------------------------------------------------------------------------------------
  template<class IS_> void put_index_set(FILE* f, const IS_& is)
  {
    std::fputc('[', f);
    for(Index i(0); i < is.get_num_entities(); ++i)
    {
      std::fputs(i ? ",[" : "[", f);
      for(int k(0); k < is.get_num_indices(); ++k) std::fprintf(f, k ? ",%llu" : "%llu", (unsigned long long)is[i][k]);
      std::fputc(']', f);
    }
    std::fputc(']', f);
  }
  inline void put_target_set(FILE* f, const Geometry::TargetSet& ts)
  {
    std::fputc('[', f);
    for(Index i(0); i < ts.get_num_entities(); ++i) std::fprintf(f, i ? ",%llu" : "%llu", (unsigned long long)ts[i]);
    std::fputc(']', f);
  }
  template<int dim_, class ISH_> void put_ish(FILE* f, const ISH_& h)
  {
    std::fputs("{\"i10\":", f); put_index_set(f, h.template get_index_set<1, 0>());
    if constexpr (dim_ >= 2)
    {
      std::fputs(",\"i20\":", f); put_index_set(f, h.template get_index_set<2, 0>());
      std::fputs(",\"i21\":", f); put_index_set(f, h.template get_index_set<2, 1>());
    }
    if constexpr (dim_ >= 3)
    {
      std::fputs(",\"i30\":", f); put_index_set(f, h.template get_index_set<3, 0>());
      std::fputs(",\"i31\":", f); put_index_set(f, h.template get_index_set<3, 1>());
      std::fputs(",\"i32\":", f); put_index_set(f, h.template get_index_set<3, 2>());
    }
    std::fputc('}', f);
  }
  template<int dim_, class TSH_> void put_tsh(FILE* f, const TSH_& h)
  {
    std::fputc('[', f);
    put_target_set(f, h.template get_target_set<0>());
    if constexpr (dim_ >= 1) { std::fputc(',', f); put_target_set(f, h.template get_target_set<1>()); }
    if constexpr (dim_ >= 2) { std::fputc(',', f); put_target_set(f, h.template get_target_set<2>()); }
    if constexpr (dim_ >= 3) { std::fputc(',', f); put_target_set(f, h.template get_target_set<3>()); }
    std::fputc(']', f);
  }
  inline void put_str(FILE* f, const std::string& s)
  {
    std::fputc('"', f);
    for(char ch : s) { if(ch == '"' || ch == '\\') std::fputc('\\', f); std::fputc(ch, f); }
    std::fputc('"', f);
  }

  // a mesh part: {"name":..,"t":[targets per dim],"topo":bool,"tidx":{index sets of the part's own topology}}
  template<class Mesh_> void put_part(FILE* f, const std::string& name, const Geometry::MeshPart<Mesh_>& p)
  {
    constexpr int dim = Mesh_::shape_dim;
    std::fputs("{\"name\":", f); put_str(f, name);
    std::fputs(",\"t\":", f); put_tsh<dim>(f, p.get_target_set_holder());
    std::fprintf(f, ",\"topo\":%s", p.has_topology() ? "true" : "false");
    if(p.has_topology()) { std::fputs(",\"tidx\":", f); put_ish<dim>(f, *p.get_topology()); }
    std::fputc('}', f);
  }

  // integer coordinates  x * 2^K ; returns false if some coordinate is not an integer of magnitude < 2^30 at that scale
  template<class Mesh_> bool put_coords(FILE* f, const Mesh_& m, int K)
  {
    const auto& vs = m.get_vertex_set();
    bool exact = true;
    std::fputc('[', f);
    for(Index i(0); i < vs.get_num_vertices(); ++i)
    {
      std::fputs(i ? ",[" : "[", f);
      for(int k(0); k < Mesh_::world_dim; ++k)
      {
        double s = std::ldexp(double(vs[i][k]), K);
        if(s != std::floor(s) || std::fabs(s) >= 1073741824.0) exact = false;
        std::fprintf(f, k ? ",%lld" : "%lld", (long long)std::llround(s));
      }
      std::fputc(']', f);
    }
    std::fputc(']', f);
    return exact;
  }
  // smallest K in 0..maxK such that all coordinates * 2^K are integers; -1 if none
  template<class Mesh_> int min_scale(const Mesh_& m, int maxK)
  {
    const auto& vs = m.get_vertex_set();
    int K = 0;
    for(Index i(0); i < vs.get_num_vertices(); ++i)
      for(int k(0); k < Mesh_::world_dim; ++k)
      {
        double x = double(vs[i][k]);
        while(K <= maxK && std::ldexp(x, K) != std::floor(std::ldexp(x, K))) ++K;
        if(K > maxK) return -1;
      }
    return K;
  }

  // one level: {"n":[..],"X":[..],"idx":{..},"parts":[..],"bf":[..]}; parts = (name, part) in the given order
  template<class Mesh_>
  bool put_level(FILE* f, const Mesh_& m, int K, const std::vector<std::pair<std::string, const Geometry::MeshPart<Mesh_>*>>& parts,
    bool with_bf = true)
  {
    constexpr int dim = Mesh_::shape_dim;
    std::fputs("{\"n\":[", f);
    for(int d(0); d <= dim; ++d) std::fprintf(f, d ? ",%llu" : "%llu", (unsigned long long)m.get_num_entities(d));
    std::fputs("],\"X\":", f);
    bool exact = put_coords(f, m, K);
    std::fputs(",\"idx\":", f); put_ish<dim>(f, m.get_index_set_holder());
    std::fputs(",\"parts\":[", f);
    bool first = true;
    for(const auto& np : parts)
    {
      if(np.second == nullptr) continue;
      if(!first) std::fputc(',', f);
      first = false;
      put_part(f, np.first, *np.second);
    }
    std::fputs("]", f);
    if(with_bf)
    {
      Geometry::BoundaryFactory<Mesh_> bf(m);
      Geometry::MeshPart<Mesh_> bp(bf);
      std::fputs(",\"bf\":", f); put_tsh<dim>(f, bp.get_target_set_holder());
    }
    std::fputc('}', f);
    return exact;
  }

  // ---------------------------------------------------------------------------------------------------------
  // building meshes
  // ---------------------------------------------------------------------------------------------------------
  // raw: {"X":[[ints]],"cs":k (coordinates = X / 2^k),"cells":[[v..]],"route":"deduct"|"factory"}
  // route "deduct": ConformalMesh(num_entities) + deduct_topology_from_top()  (as tools/mesh_tools/mesh_indexer does;
  //                 includes the re-orientation of the boundary facets by FacetFlipper)
  // route "factory": a Factory that fills vertices-at-cell and lets RedundantIndexSetBuilder compute the rest
  //                 (as the mesh file reader does for the redundant index sets; no re-orientation)
  template<class Shape_> class RawFactory : public Geometry::Factory<MeshT<Shape_>>
  {
  public:
    typedef MeshT<Shape_> MeshType;
    static constexpr int dim = Shape_::dimension;
    std::vector<std::vector<long long>> X, C; int cs; Index ne[4];
    explicit RawFactory(const vj::Value& raw) : X(raw["X"].int_rows()), C(raw["cells"].int_rows()), cs((int)raw.get_int("cs", 0))
    {
      ne[0] = Index(X.size()); ne[1] = ne[2] = ne[3] = 0; ne[dim] = Index(C.size());
    }
    virtual Index get_num_entities(int d) override { return ne[d]; }
    virtual void fill_vertex_set(typename MeshType::VertexSetType& vs) override
    {
      for(std::size_t i(0); i < X.size(); ++i)
        for(int k(0); k < dim; ++k) vs[Index(i)][k] = std::ldexp(double(X[i].at(std::size_t(k))), -cs);
    }
    virtual void fill_index_sets(typename MeshType::IndexSetHolderType& ish) override
    {
      auto& is = ish.template get_index_set<dim, 0>();
      for(std::size_t i(0); i < C.size(); ++i)
      {
        if(int(C[i].size()) != is.get_num_indices()) throw std::runtime_error("raw mesh: bad cell size");
        for(int k(0); k < is.get_num_indices(); ++k) is[Index(i)][k] = Index(C[i][std::size_t(k)]);
      }
      Geometry::RedundantIndexSetBuilder<Shape_>::compute(ish);
      ne[1] = ish.template get_index_set<1, 0>().get_num_entities();
      if constexpr (dim >= 3) ne[2] = ish.template get_index_set<2, 0>().get_num_entities();
    }
  };

  template<class Shape_> std::unique_ptr<MeshT<Shape_>> build_raw(const vj::Value& raw)
  {
    typedef MeshT<Shape_> MeshType;
    constexpr int dim = Shape_::dimension;
    if(raw.get_str("route", "factory") != "deduct")
    {
      RawFactory<Shape_> fac(raw);
      return fac.make_unique();
    }
    const auto X = raw["X"].int_rows();
    const auto C = raw["cells"].int_rows();
    const int cs = (int)raw.get_int("cs", 0);
    Index ne[] = {0, 0, 0, 0};
    ne[0] = Index(X.size()); ne[dim] = Index(C.size());
    std::unique_ptr<MeshType> mesh(new MeshType(ne));
    auto& vs = mesh->get_vertex_set();
    for(std::size_t i(0); i < X.size(); ++i)
      for(int k(0); k < dim; ++k) vs[Index(i)][k] = std::ldexp(double(X[i].at(std::size_t(k))), -cs);
    auto& is = mesh->template get_index_set<dim, 0>();
    for(std::size_t i(0); i < C.size(); ++i)
    {
      if(int(C[i].size()) != is.get_num_indices()) throw std::runtime_error("raw mesh: bad cell size");
      for(int k(0); k < is.get_num_indices(); ++k) is[Index(i)][k] = Index(C[i][std::size_t(k)]);
    }
    mesh->deduct_topology_from_top();
    return mesh;
  }

  template<class Shape_> std::unique_ptr<Geometry::RootMeshNode<MeshT<Shape_>>> build_file(
    const std::string& path, Geometry::MeshAtlas<MeshT<Shape_>>& atlas, Geometry::PartitionSet* pset = nullptr)
  {
    std::ifstream ifs(path);
    if(!ifs) throw std::runtime_error("cannot open mesh file " + path);
    Geometry::MeshFileReader reader;
    reader.add_stream(ifs);
    reader.read_root_markup();
    return reader.parse<MeshT<Shape_>>(atlas, pset);
  }

  // factory meshes: {"fac":"unitcube","level":n} | {"fac":"struct","nx":..,"ny":..,"nz":..} | {"fac":"star"}
  template<class Shape_> std::unique_ptr<MeshT<Shape_>> build_factory(const vj::Value& s)
  {
    typedef MeshT<Shape_> MeshType;
    const std::string fac = s["fac"].as_str();
    if(fac == "unitcube")
    {
      Geometry::RefinedUnitCubeFactory<MeshType> f(Index(s.get_int("level", 0)));
      return f.make_unique();
    }
    if(fac == "struct")
    {
      Geometry::StructUnitCubeFactory<MeshType> f(Index(s.get_int("nx", 1)), Index(s.get_int("ny", 1)), Index(s.get_int("nz", 1)));
      return f.make_unique();
    }
    if constexpr (Shape_::dimension == 2)
    {
      if(fac == "star")
      {
        Geometry::UnitStarCubeFactory<MeshType> f;
        return f.make_unique();
      }
    }
    throw std::runtime_error("unknown factory " + fac);
  }

  // ---------------------------------------------------------------------------------------------------------
  // entity lookup by vertex set, mesh parts from a specification
  // ---------------------------------------------------------------------------------------------------------
  template<class Mesh_> struct EntityFinder
  {
    static constexpr int dim = Mesh_::shape_dim;
    std::map<std::vector<Index>, Index> maps[4];
    template<int d_> void fill(const Mesh_& m)
    {
      if constexpr (d_ >= 1)
      {
        const auto& is = m.template get_index_set<d_, 0>();
        for(Index i(0); i < is.get_num_entities(); ++i)
        {
          std::vector<Index> key;
          for(int k(0); k < is.get_num_indices(); ++k) key.push_back(is[i][k]);
          std::sort(key.begin(), key.end());
          maps[d_][key] = i;
        }
        fill<d_ - 1>(m);
      }
    }
    explicit EntityFinder(const Mesh_& m) { fill<dim>(m); }
    Index find(int d, std::vector<long long> verts) const
    {
      if(d == 0) return Index(verts.at(0));
      std::vector<Index> key(verts.begin(), verts.end());
      std::sort(key.begin(), key.end());
      auto it = maps[d].find(key);
      if(it == maps[d].end()) throw std::runtime_error("part specification: entity not found in the mesh");
      return it->second;
    }
  };

  template<int hi_, class Part_, class ISH_> void deduct_top(Part_& p, const ISH_& ish, int top)
  {
    if constexpr (hi_ >= 1)
    {
      if(top == hi_) p.template deduct_target_sets_from_top<hi_>(ish);
      else deduct_top<hi_ - 1>(p, ish, top);
    }
  }
  template<int lo_, int dim_, class Part_, class ISH_> void deduct_bottom(Part_& p, const ISH_& ish, int bot)
  {
    if constexpr (lo_ < dim_)
    {
      if(bot == lo_) p.template deduct_target_sets_from_bottom<lo_>(ish);
      else deduct_bottom<lo_ + 1, dim_>(p, ish, bot);
    }
  }
  template<int d_, class TSH_> Geometry::TargetSet& tset(TSH_& h, int d)
  {
    if constexpr (d_ == 0) return h.template get_target_set<0>();
    else { if(d == d_) return h.template get_target_set<d_>(); return tset<d_ - 1>(h, d); }
  }

  // spec: {"name":..,"ents":[[[v]..],[[a,b]..],..],"deduce":"none|top|bottom","topo":bool} or {"name":..,"boundary":true}
  template<class Mesh_> std::unique_ptr<Geometry::MeshPart<Mesh_>> make_part(const Mesh_& mesh, const EntityFinder<Mesh_>& ef, const vj::Value& spec)
  {
    typedef Geometry::MeshPart<Mesh_> PartType;
    constexpr int dim = Mesh_::shape_dim;
    if(spec.has("boundary") && spec["boundary"].as_bool())
    {
      Geometry::BoundaryFactory<Mesh_> bf(mesh);
      return bf.make_unique();
    }
    if(spec.has("cellidx"))
    {
      // {"name":..,"cellidx":[c..],"deduce":"none|top"}: a set of cells given by index (with or without their closure)
      const auto ci = spec["cellidx"].ints();
      Index nc[] = {0, 0, 0, 0};
      nc[dim] = Index(ci.size());
      std::unique_ptr<PartType> cp(new PartType(nc, false));
      auto& cts = tset<dim>(cp->get_target_set_holder(), dim);
      for(std::size_t i(0); i < ci.size(); ++i)
      {
        if(ci[i] < 0 || Index(ci[i]) >= mesh.get_num_elements()) throw std::runtime_error("part specification: cell index out of range");
        cts[Index(i)] = Index(ci[i]);
      }
      if(spec.get_str("deduce", "none") == "top") deduct_top<dim>(*cp, mesh.get_index_set_holder(), dim);
      return cp;
    }
    const vj::Value& ents = spec["ents"];
    const bool topo = spec.has("topo") && spec["topo"].as_bool();
    const std::string ded = spec.get_str("deduce", "none");
    Index ne[] = {0, 0, 0, 0};
    int top = -1, bot = dim + 1;
    for(int d(0); d <= dim && std::size_t(d) < ents.size(); ++d)
    {
      ne[d] = Index(ents[std::size_t(d)].size());
      if(ne[d] > 0) { top = std::max(top, d); bot = std::min(bot, d); }
    }
    if(top < 0) throw std::runtime_error("part specification: empty");
    std::unique_ptr<PartType> part(new PartType(ne, topo));
    for(int d(0); d <= dim && std::size_t(d) < ents.size(); ++d)
    {
      auto& ts = tset<dim>(part->get_target_set_holder(), d);
      for(Index i(0); i < ne[d]; ++i) ts[i] = ef.find(d, ents[std::size_t(d)][std::size_t(i)].ints());
    }
    if(ded == "top" && top >= 1) deduct_top<dim>(*part, mesh.get_index_set_holder(), top);
    if(ded == "bottom" && bot < dim) deduct_bottom<0, dim>(*part, mesh.get_index_set_holder(), bot);
    if(topo) part->deduct_topology(mesh.get_index_set_holder());
    return part;
  }

  // ---------------------------------------------------------------------------------------------------------
  // geometry in long double (projection) -- same formulas as spec/RefCell.tla, evaluated in floating point
  // ---------------------------------------------------------------------------------------------------------
  template<int n_> struct Vec { LD v[n_ > 0 ? n_ : 1]; };
  inline LD det2(const LD* a, const LD* b) { return a[0] * b[1] - a[1] * b[0]; }
  inline LD det3(const LD* a, const LD* b, const LD* c)
  {
    return a[0] * (b[1] * c[2] - b[2] * c[1]) - a[1] * (b[0] * c[2] - b[2] * c[0]) + a[2] * (b[0] * c[1] - b[1] * c[0]);
  }
  template<int dim_> LD detn(const LD (*col)[3])
  {
    if constexpr (dim_ == 2) return det2(col[0], col[1]); else return det3(col[0], col[1], col[2]);
  }

  template<class Shape_> struct Geo
  {
    static constexpr int dim = Shape_::dimension;
    static constexpr int nv = Shape::FaceTraits<Shape_, 0>::count;
    typedef MeshT<Shape_> MeshType;

    static void cell_points(const MeshType& m, Index c, LD P[][3])
    {
      const auto& is = m.template get_index_set<dim, 0>();
      const auto& vs = m.get_vertex_set();
      for(int k(0); k < nv; ++k) for(int a(0); a < dim; ++a) P[k][a] = LD(vs[is[c][k]][a]) - LD(vs[is[c][0]][a]);
    }
    // Jacobian of a hypercube cell at the half-lattice point t (t[a] in {0,1,2} = coordinate 0, 1/2, 1), times 2^(dim-1) per column
    static LD cube_jac_half(const LD P[][3], const int t[])
    {
      LD col[3][3];
      for(int a(0); a < dim; ++a)
      {
        for(int x(0); x < dim; ++x) col[a][x] = 0;
        for(int v(0); v < nv; ++v)
        {
          if((v >> a) & 1) continue;
          LD w = 1;
          for(int b(0); b < dim; ++b) if(b != a) w *= LD(((v >> b) & 1) ? t[b] : 2 - t[b]);
          if(w == 0) continue;
          for(int x(0); x < dim; ++x) col[a][x] += w * (P[v + (1 << a)][x] - P[v][x]);
        }
      }
      return detn<dim>(col);
    }
    static LD simplex_jac(const LD P[][3])
    {
      LD col[3][3];
      for(int a(0); a < dim; ++a) for(int x(0); x < dim; ++x) col[a][x] = P[a + 1][x] - P[0][x];
      return detn<dim>(col);
    }
    static LD patch_flux4(const LD* a, const LD* b, const LD* c, const LD* d)
    {
      LD B[3], C[3], D[3];
      for(int x(0); x < 3; ++x) { B[x] = b[x] - a[x]; C[x] = c[x] - a[x]; D[x] = (d[x] - b[x]) - (c[x] - a[x]); }
      return 4 * det3(a, B, C) + 2 * det3(a, B, D) + 2 * det3(a, D, C) - det3(B, C, D);
    }
    // true volume of a cell
    static LD cell_volume(const LD P[][3])
    {
      if constexpr (!Fam<Shape_>::cube) return simplex_jac(P) / LD(dim == 2 ? 2 : 6);
      else if constexpr (dim == 2)
      {
        return (det2(P[1], P[3]) + det2(P[3], P[2])) / LD(2);
      }
      else
      {
        static const int F[6][4] = {{0, 1, 2, 3}, {4, 5, 6, 7}, {0, 1, 4, 5}, {2, 3, 6, 7}, {0, 2, 4, 6}, {1, 3, 5, 7}};
        static const int sg[6] = {-1, 1, 1, -1, -1, 1};
        LD s = 0;
        for(int k(0); k < 6; ++k) s += LD(sg[k]) * patch_flux4(P[F[k][0]], P[F[k][1]], P[F[k][2]], P[F[k][3]]);
        return s / LD(12);
      }
    }
    struct Stats { LD vol = 0, absvol = 0; LD minjac_rel = 1e30L; LD mincorner_rel = 1e30L; Index ncells = 0; };
    // minjac_rel: min over cells and all half-lattice points (hypercube) / the vertex-0 Jacobian (simplex) of J / h^dim,
    // mincorner_rel: the same over the corners only (hypercube) -- h = longest edge-vector from local vertex 0
    static Stats stats(const MeshType& m)
    {
      Stats s; s.ncells = m.get_num_elements();
      LD P[nv][3];
      for(Index c(0); c < s.ncells; ++c)
      {
        for(int k(0); k < nv; ++k) for(int a(0); a < 3; ++a) P[k][a] = 0;
        cell_points(m, c, P);
        LD vol = cell_volume(P);
        s.vol += vol; s.absvol += std::fabs(vol);
        LD h = 0;
        for(int k(1); k < nv; ++k) { LD q = 0; for(int a(0); a < dim; ++a) q += P[k][a] * P[k][a]; h = std::max(h, std::sqrt(q)); }
        LD hd = 1; for(int a(0); a < dim; ++a) hd *= h;
        if(hd == 0) hd = 1;
        if constexpr (!Fam<Shape_>::cube)
        {
          LD j = simplex_jac(P) / hd;
          s.minjac_rel = std::min(s.minjac_rel, j); s.mincorner_rel = std::min(s.mincorner_rel, j);
        }
        else
        {
          int t[3] = {0, 0, 0};
          int npts = (dim == 2 ? 9 : 27);
          for(int q(0); q < npts; ++q)
          {
            int r = q; bool corner = true;
            for(int a(0); a < dim; ++a) { t[a] = r % 3; r /= 3; if(t[a] == 1) corner = false; }
            LD j = cube_jac_half(P, t) / hd / LD(dim == 2 ? 4 : 64);
            s.minjac_rel = std::min(s.minjac_rel, j);
            if(corner) s.mincorner_rel = std::min(s.mincorner_rel, j);
          }
        }
      }
      return s;
    }
  };

  // snap all coordinates to multiples of 2^-G; returns the number of coordinates changed
  template<class Mesh_> Index snap(Mesh_& m, int G)
  {
    auto& vs = m.get_vertex_set(); Index changed = 0;
    for(Index i(0); i < vs.get_num_vertices(); ++i)
      for(int k(0); k < Mesh_::world_dim; ++k)
      {
        double x = double(vs[i][k]);
        double y = std::ldexp(std::nearbyint(std::ldexp(x, G)), -G);
        if(x != y) { ++changed; vs[i][k] = y; }
      }
    return changed;
  }
  template<class Mesh_> bool distinct_vertices(const Mesh_& m)
  {
    std::vector<std::vector<double>> pts;
    const auto& vs = m.get_vertex_set();
    for(Index i(0); i < vs.get_num_vertices(); ++i) { std::vector<double> pt; for(int k(0); k < Mesh_::world_dim; ++k) pt.push_back(double(vs[i][k])); pts.push_back(pt); }
    std::sort(pts.begin(), pts.end());
    return std::adjacent_find(pts.begin(), pts.end()) == pts.end();
  }
  template<class Mesh_> double max_abs_coord(const Mesh_& m)
  {
    const auto& vs = m.get_vertex_set(); double r = 0;
    for(Index i(0); i < vs.get_num_vertices(); ++i)
      for(int k(0); k < Mesh_::world_dim; ++k) r = std::max(r, std::fabs(double(vs[i][k])));
    return r;
  }
}
