// C08x: the saddle-point systems of spec/PrecondVanka.tla as real LAFEM containers.  The specification numbers the unknowns
// flat (velocity 1..NV, pressure NV+1..NV+m); a Layout maps the flat numbering to the containers:
//   LayCsr    dim 1   SaddlePointMatrix<SparseMatrixCSR x 3>,                      TupleVector<DenseVector, DenseVector>
//   LayBcsr   dim 2   SaddlePointMatrix<BCSR<2,2>, BCSR<2,1>, BCSR<1,2>>,          TupleVector<DenseVectorBlocked<2>, DenseVector>   (node-major)
//   LayPDiag  dim 2   SaddlePointMatrix<PowerDiag<CSR,2>, PowerCol<CSR,2>, PowerRow<CSR,2>>, TupleVector<PowerVector<DenseVector,2>, DenseVector> (component-major)
//   LayPFull  dim 2   the same with PowerFullMatrix<CSR,2,2> for A
// every layout offers: build(n, m, patA, patB, patD), set_values(dense M), set / get of flat vectors, filter(FV nodes, FP dofs, mean)
// The pressure filter is the chain  UnitFilter(FP) ; MeanFilter(prim, dual)  (PFil; an empty MeanFilter is the identity).
#pragma once
#include "vc08x.hpp"
#include <kernel/lafem/sparse_matrix_bcsr.hpp>
#include <kernel/lafem/dense_vector_blocked.hpp>
#include <kernel/lafem/saddle_point_matrix.hpp>
#include <kernel/lafem/tuple_vector.hpp>
#include <kernel/lafem/tuple_filter.hpp>
#include <kernel/lafem/power_vector.hpp>
#include <kernel/lafem/power_filter.hpp>
#include <kernel/lafem/power_diag_matrix.hpp>
#include <kernel/lafem/power_full_matrix.hpp>
#include <kernel/lafem/power_row_matrix.hpp>
#include <kernel/lafem/power_col_matrix.hpp>
#include <kernel/lafem/unit_filter.hpp>
#include <kernel/lafem/unit_filter_blocked.hpp>
#include <kernel/lafem/mean_filter.hpp>
#include <kernel/lafem/filter_chain.hpp>

namespace vx
{
  typedef double DT;
  typedef Index IT;
  typedef std::vector<std::vector<int>> Pat;
  typedef LAFEM::SparseMatrixCSR<DT, IT> Csr;
  typedef LAFEM::DenseVector<DT, IT> DVecT;
  typedef LAFEM::UnitFilter<DT, IT> UFil;
  typedef LAFEM::MeanFilter<DT, IT> MFil;
  typedef LAFEM::FilterChain<UFil, MFil> PFil;
  // pressure filter: unit filter on the dofs fp (1-based), then - if given - the mean filter with primal / dual vector mp / md
  inline PFil pressure_filter(Index m, const std::vector<long long>& fp, const DVec& mp, const DVec& md)
  {
    UFil p(m);
    for(long long i : fp) p.add(Index(i - 1), DT(0));
    PFil f;
    f.at<0>() = std::move(p);
    if(!mp.empty())
    {
      DVecT vp(m), vd(m);
      for(Index i = 0; i < m; ++i) { vp(i, mp[i]); vd(i, md[i]); }
      f.at<1>() = MFil(std::move(vp), std::move(vd));
    }
    return f;
  }

  inline Adjacency::Graph graph_of(Index rows, Index cols, const Pat& pat)
  {
    Index nnz = 0;
    for(Index i = 0; i < rows; ++i) for(Index j = 0; j < cols; ++j) nnz += Index(pat[i][j] != 0);
    Adjacency::Graph g(rows, cols, nnz);
    Index* p = g.get_domain_ptr(); Index* q = g.get_image_idx();
    Index k = 0;
    for(Index i = 0; i < rows; ++i) { p[i] = k; for(Index j = 0; j < cols; ++j) if(pat[i][j]) q[k++] = j; }
    p[rows] = k;
    return g;
  }
  // values of a CSR sub-matrix: entry (i, j) := M[ro + i * rs][co + j * cs]
  inline void fill_csr(Csr& a, const DMat& M, Index ro, Index rs, Index co, Index cs)
  {
    if(a.used_elements() == Index(0)) return;
    DT* v = a.val(); const IT* rp = a.row_ptr(); const IT* ci = a.col_ind();
    for(Index i = 0; i < a.rows(); ++i) for(IT k = rp[i]; k < rp[i + 1]; ++k) v[k] = M[ro + i * rs][co + Index(ci[k]) * cs];
  }
  template<int BH, int BW>
  inline void fill_bcsr(LAFEM::SparseMatrixBCSR<DT, IT, BH, BW>& a, const DMat& M, Index ro, Index co)
  {
    if(a.used_elements() == Index(0)) return;
    auto* v = a.val(); const IT* rp = a.row_ptr(); const IT* ci = a.col_ind();
    for(Index i = 0; i < a.rows(); ++i) for(IT k = rp[i]; k < rp[i + 1]; ++k)
      for(int ii = 0; ii < BH; ++ii) for(int jj = 0; jj < BW; ++jj) v[k][ii][jj] = M[ro + i * Index(BH) + Index(ii)][co + Index(ci[k]) * Index(BW) + Index(jj)];
  }

  struct LayCsr
  {
    static constexpr bool flat = false;
    static constexpr int dim = 1;
    typedef LAFEM::SaddlePointMatrix<Csr, Csr, Csr> Matrix;
    typedef LAFEM::TupleVector<DVecT, DVecT> Vector;
    typedef LAFEM::TupleFilter<UFil, PFil> Filter;
    static const char* name() { return "csr"; }
    static Matrix build(Index n, Index m, const Pat& pa, const Pat& pb, const Pat& pd)
    {
      Csr a(graph_of(n, n, pa)), b(graph_of(n, m, pb)), d(graph_of(m, n, pd));
      return Matrix(std::move(a), std::move(b), std::move(d));
    }
    static void set_values(Matrix& mat, const DMat& M, Index n, Index)
    {
      fill_csr(mat.block_a(), M, 0, 1, 0, 1); fill_csr(mat.block_b(), M, 0, 1, n, 1); fill_csr(mat.block_d(), M, n, 1, 0, 1);
    }
    static void set(Vector& v, const DVec& f, Index n, Index m)
    { for(Index i = 0; i < n; ++i) v.at<0>()(i, f[i]); for(Index i = 0; i < m; ++i) v.at<1>()(i, f[n + i]); }
    static DVec get(const Vector& v, Index n, Index m)
    { DVec f(n + m); for(Index i = 0; i < n; ++i) f[i] = v.at<0>()(i); for(Index i = 0; i < m; ++i) f[n + i] = v.at<1>()(i); return f; }
    static Filter filter(Index n, Index m, const std::vector<long long>& fv, const std::vector<long long>& fp, const DVec& mp = DVec(), const DVec& md = DVec())
    {
      UFil v(n);
      for(long long i : fv) v.add(Index(i - 1), DT(0));
      return Filter(std::move(v), pressure_filter(m, fp, mp, md));
    }
  };

  // the whole saddle-point system as ONE SparseMatrixCSR (dim 1, flat numbering of the specification; the pressure-pressure block is
  // structurally empty), DenseVector, filter = FilterChain<UnitFilter, MeanFilter> on the flat vector (the mean filter acts on the
  // pressure dofs: its primal / dual vectors vanish on the velocity dofs)
  struct LayFlatCsr
  {
    static constexpr int dim = 1;
    static constexpr bool flat = true;
    typedef Csr Matrix;
    typedef DVecT Vector;
    typedef PFil Filter;
    static const char* name() { return "csr"; }
    static Matrix build(Index n, Index m, const Pat& pa, const Pat& pb, const Pat& pd)
    {
      Pat p(n + m, std::vector<int>(n + m, 0));
      for(Index i = 0; i < n; ++i) { for(Index j = 0; j < n; ++j) p[i][j] = pa[i][j]; for(Index q = 0; q < m; ++q) { p[i][n + q] = pb[i][q]; p[n + q][i] = pd[q][i]; } }
      return Csr(graph_of(n + m, n + m, p));
    }
    static void set_values(Matrix& mat, const DMat& M, Index, Index) { fill_csr(mat, M, 0, 1, 0, 1); }
    static void set(Vector& v, const DVec& f, Index n, Index m) { for(Index i = 0; i < n + m; ++i) v(i, f[i]); }
    static DVec get(const Vector& v, Index n, Index m) { DVec f(n + m); for(Index i = 0; i < n + m; ++i) f[i] = v(i); return f; }
    static Filter filter(Index n, Index m, const std::vector<long long>& fv, const std::vector<long long>& fp, const DVec& mp = DVec(), const DVec& md = DVec())
    {
      std::vector<long long> fd(fv);
      for(long long q : fp) fd.push_back((long long)n + q);
      DVec p, d;
      if(!mp.empty()) { p.assign(n, 0.0); d.assign(n, 0.0); p.insert(p.end(), mp.begin(), mp.end()); d.insert(d.end(), md.begin(), md.end()); }
      return pressure_filter(n + m, fd, p, d);
    }
  };

  struct LayBcsr
  {
    static constexpr bool flat = false;
    static constexpr int dim = 2;
    typedef LAFEM::SparseMatrixBCSR<DT, IT, 2, 2> MA; typedef LAFEM::SparseMatrixBCSR<DT, IT, 2, 1> MB; typedef LAFEM::SparseMatrixBCSR<DT, IT, 1, 2> MD;
    typedef LAFEM::SaddlePointMatrix<MA, MB, MD> Matrix;
    typedef LAFEM::DenseVectorBlocked<DT, IT, 2> VV;
    typedef LAFEM::TupleVector<VV, DVecT> Vector;
    typedef LAFEM::TupleFilter<LAFEM::UnitFilterBlocked<DT, IT, 2>, PFil> Filter;
    static const char* name() { return "bcsr"; }
    static Matrix build(Index n, Index m, const Pat& pa, const Pat& pb, const Pat& pd)
    {
      MA a(graph_of(n, n, pa)); MB b(graph_of(n, m, pb)); MD d(graph_of(m, n, pd));
      return Matrix(std::move(a), std::move(b), std::move(d));
    }
    static void set_values(Matrix& mat, const DMat& M, Index n, Index)
    {
      fill_bcsr(mat.block_a(), M, 0, 0); fill_bcsr(mat.block_b(), M, 0, 2 * n); fill_bcsr(mat.block_d(), M, 2 * n, 0);
    }
    static void set(Vector& v, const DVec& f, Index n, Index m)
    {
      DT* e = v.at<0>().template elements<LAFEM::Perspective::pod>();
      for(Index i = 0; i < 2 * n; ++i) e[i] = f[i];
      for(Index i = 0; i < m; ++i) v.at<1>()(i, f[2 * n + i]);
    }
    static DVec get(const Vector& v, Index n, Index m)
    {
      DVec f(2 * n + m); const DT* e = v.at<0>().template elements<LAFEM::Perspective::pod>();
      for(Index i = 0; i < 2 * n; ++i) f[i] = e[i];
      for(Index i = 0; i < m; ++i) f[2 * n + i] = v.at<1>()(i);
      return f;
    }
    static Filter filter(Index n, Index m, const std::vector<long long>& fv, const std::vector<long long>& fp, const DVec& mp = DVec(), const DVec& md = DVec())
    {
      LAFEM::UnitFilterBlocked<DT, IT, 2> v(n);
      Tiny::Vector<DT, 2> z; z.format();
      for(long long i : fv) v.add(Index(i - 1), z);
      return Filter(std::move(v), pressure_filter(m, fp, mp, md));
    }
  };

  template<bool full_>
  struct LayPower
  {
    static constexpr bool flat = false;
    static constexpr int dim = 2;
    typedef typename std::conditional<full_, LAFEM::PowerFullMatrix<Csr, 2, 2>, LAFEM::PowerDiagMatrix<Csr, 2>>::type MA;
    typedef LAFEM::PowerColMatrix<Csr, 2> MB; typedef LAFEM::PowerRowMatrix<Csr, 2> MD;
    typedef LAFEM::SaddlePointMatrix<MA, MB, MD> Matrix;
    typedef LAFEM::PowerVector<DVecT, 2> VV;
    typedef LAFEM::TupleVector<VV, DVecT> Vector;
    typedef LAFEM::TupleFilter<LAFEM::PowerFilter<UFil, 2>, PFil> Filter;
    static const char* name() { return full_ ? "pfull" : "pdiag"; }
    static void build_a(LAFEM::PowerFullMatrix<Csr, 2, 2>& a, Index n, const Pat& pa)
    {
      a.template at<0, 0>() = Csr(graph_of(n, n, pa)); a.template at<0, 1>() = Csr(graph_of(n, n, pa));
      a.template at<1, 0>() = Csr(graph_of(n, n, pa)); a.template at<1, 1>() = Csr(graph_of(n, n, pa));
    }
    static void build_a(LAFEM::PowerDiagMatrix<Csr, 2>& a, Index n, const Pat& pa)
    {
      a.template at<0, 0>() = Csr(graph_of(n, n, pa)); a.template at<1, 1>() = Csr(graph_of(n, n, pa));
    }
    static void fill_a(LAFEM::PowerFullMatrix<Csr, 2, 2>& a, const DMat& M, Index n)
    {
      fill_csr(a.template at<0, 0>(), M, 0, 1, 0, 1); fill_csr(a.template at<0, 1>(), M, 0, 1, n, 1);
      fill_csr(a.template at<1, 0>(), M, n, 1, 0, 1); fill_csr(a.template at<1, 1>(), M, n, 1, n, 1);
    }
    static void fill_a(LAFEM::PowerDiagMatrix<Csr, 2>& a, const DMat& M, Index n)
    {
      fill_csr(a.template at<0, 0>(), M, 0, 1, 0, 1); fill_csr(a.template at<1, 1>(), M, n, 1, n, 1);
    }
    static Matrix build(Index n, Index m, const Pat& pa, const Pat& pb, const Pat& pd)
    {
      MA a; build_a(a, n, pa);
      MB b; b.template at<0, 0>() = Csr(graph_of(n, m, pb)); b.template at<1, 0>() = Csr(graph_of(n, m, pb));
      MD d; d.template at<0, 0>() = Csr(graph_of(m, n, pd)); d.template at<0, 1>() = Csr(graph_of(m, n, pd));
      return Matrix(std::move(a), std::move(b), std::move(d));
    }
    static void set_values(Matrix& mat, const DMat& M, Index n, Index)
    {
      fill_a(mat.block_a(), M, n);
      fill_csr(mat.block_b().template at<0, 0>(), M, 0, 1, 2 * n, 1); fill_csr(mat.block_b().template at<1, 0>(), M, n, 1, 2 * n, 1);
      fill_csr(mat.block_d().template at<0, 0>(), M, 2 * n, 1, 0, 1); fill_csr(mat.block_d().template at<0, 1>(), M, 2 * n, 1, n, 1);
    }
    static void set(Vector& v, const DVec& f, Index n, Index m)
    {
      for(Index i = 0; i < n; ++i) { v.template at<0>().template at<0>()(i, f[i]); v.template at<0>().template at<1>()(i, f[n + i]); }
      for(Index i = 0; i < m; ++i) v.template at<1>()(i, f[2 * n + i]);
    }
    static DVec get(const Vector& v, Index n, Index m)
    {
      DVec f(2 * n + m);
      for(Index i = 0; i < n; ++i) { f[i] = v.template at<0>().template at<0>()(i); f[n + i] = v.template at<0>().template at<1>()(i); }
      for(Index i = 0; i < m; ++i) f[2 * n + i] = v.template at<1>()(i);
      return f;
    }
    static Filter filter(Index n, Index m, const std::vector<long long>& fv, const std::vector<long long>& fp, const DVec& mp = DVec(), const DVec& md = DVec())
    {
      UFil v0(n), v1(n);
      for(long long i : fv) { v0.add(Index(i - 1), DT(0)); v1.add(Index(i - 1), DT(0)); }
      LAFEM::PowerFilter<UFil, 2> pv; pv.template at<0>() = std::move(v0); pv.template at<1>() = std::move(v1);
      return Filter(std::move(pv), pressure_filter(m, fp, mp, md));
    }
  };
  typedef LayPower<false> LayPDiag;
  typedef LayPower<true> LayPFull;
}
