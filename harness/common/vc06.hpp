// C06 harness pieces shared by c06_filters.cpp and c06_into.cpp: capabilities of the tree, vectors on the dyadic grid,
// the run-time selected atom holder VarFilter, builders of the real atoms from the specification's filter records,
// reading vectors back, the two compared calls of a behaviour.
#pragma once
#include "vharness.hpp"
#include "vlafem.hpp"
#include <kernel/lafem/none_filter.hpp>
#include <kernel/lafem/unit_filter.hpp>
#include <kernel/lafem/unit_filter_blocked.hpp>
#include <kernel/lafem/slip_filter.hpp>
#include <kernel/lafem/mean_filter.hpp>
#include <kernel/lafem/mean_filter_blocked.hpp>
#include <kernel/lafem/filter_chain.hpp>
#include <kernel/lafem/filter_sequence.hpp>
#include <kernel/lafem/tuple_filter.hpp>
#include <kernel/lafem/power_filter.hpp>
#include <kernel/lafem/tuple_vector.hpp>
#include <kernel/lafem/power_vector.hpp>
#include <limits>

// Capabilities of the tree under verification: calls of the filter classes that can be instantiated only on a
// revision where the corresponding compile-time defect is fixed.  checks/C06.py try-compiles each call against the
// tree and writes c06_caps.hpp (one 0/1 macro per capability) into the build include directory; the specification
// gets the same set (FiltersLife: capability tokens in LCs) and requests exactly the calls that exist.
#if __has_include("c06_caps.hpp")
#include "c06_caps.hpp"
#endif
#ifndef C06_CAP_MEANB_CONVERT
#define C06_CAP_MEANB_CONVERT 0
#endif
#ifndef C06_CAP_UNITB_CONVERT_OTHER
#define C06_CAP_UNITB_CONVERT_OTHER 0
#endif
#ifndef C06_CAP_CHAIN_CLONE_INTO
#define C06_CAP_CHAIN_CLONE_INTO 0
#endif
#ifndef C06_CAP_POWER_CLONE_INTO
#define C06_CAP_POWER_CLONE_INTO 0
#endif
#ifndef C06_CAP_SEQ_CLONE_INTO
#define C06_CAP_SEQ_CLONE_INTO 0
#endif
static constexpr bool cap_meanb_convert = (C06_CAP_MEANB_CONVERT != 0), cap_unitb_convert_other = (C06_CAP_UNITB_CONVERT_OTHER != 0),
  cap_chain_clone_into = (C06_CAP_CHAIN_CLONE_INTO != 0), cap_power_clone_into = (C06_CAP_POWER_CLONE_INTO != 0), cap_seq_clone_into = (C06_CAP_SEQ_CLONE_INTO != 0);

using namespace vl;

static std::string vs(const IVec& v) { return vj::dump(vj::from_vec(v)); }

// ------------------------------------------------------------------------------------------------
// vectors on the dyadic grid
// ------------------------------------------------------------------------------------------------
template<class DT, class IT, int BS> struct VecOf
{
  typedef DenseVectorBlocked<DT, IT, BS> Type;
  static Type make(const IVec& num, long long den)
  {
    Type r(Index(num.size() / BS));
    DT* e = r.template elements<Perspective::pod>();
    for(std::size_t k = 0; k < num.size(); ++k) e[k] = DT(double(num[k]) / double(den));
    return r;
  }
};
template<class DT, class IT> struct VecOf<DT, IT, 1>
{
  typedef DenseVector<DT, IT> Type;
  static Type make(const IVec& num, long long den)
  {
    Type r(Index(num.size()));
    for(std::size_t k = 0; k < num.size(); ++k) r(Index(k), DT(double(num[k]) / double(den)));
    return r;
  }
};

// ------------------------------------------------------------------------------------------------
// the atom filters of one block size and the run-time selected holder
// ------------------------------------------------------------------------------------------------
template<class DT, class IT, int BS> struct Atoms
{
  NoneFilterBlocked<DT, IT, BS> none; UnitFilterBlocked<DT, IT, BS> unit; SlipFilter<DT, IT, BS> slip; MeanFilterBlocked<DT, IT, BS> mean;
};
template<class DT, class IT> struct Atoms<DT, IT, 1>
{
  NoneFilter<DT, IT> none; UnitFilter<DT, IT> unit; MeanFilter<DT, IT> mean;
};

enum { K_NONE = 0, K_UNIT = 1, K_SLIP = 2, K_MEAN = 3 };

template<class DT, class IT, int BS>
class VarFilter
{
public:
  typedef DT DataType; typedef IT IndexType;
  typedef typename VecOf<DT, IT, BS>::Type VectorType;
  template<typename DT2_ = DT, typename IT2_ = IT> using FilterType = VarFilter<DT2_, IT2_, BS>;
  int kind = K_NONE;
  Atoms<DT, IT, BS> a;
  VarFilter() {}
  VarFilter(VarFilter&& o) : kind(o.kind), a(std::move(o.a)) {}
  VarFilter& operator=(VarFilter&& o) { if(this != &o) { kind = o.kind; a = std::move(o.a); } return *this; }
  // life-cycle operations: forwarded to the real atom that is held
  void clone(const VarFilter& o, CloneMode cm = CloneMode::Deep)
  {
    kind = o.kind;
    switch(kind)
    {
      case K_NONE: a.none.clone(o.a.none, cm); break;
      case K_UNIT: a.unit.clone(o.a.unit, cm); break;
      case K_MEAN: a.mean.clone(o.a.mean, cm); break;
      case K_SLIP: if constexpr (BS > 1) a.slip.clone(o.a.slip, cm); break;
    }
  }
  VarFilter clone(CloneMode cm = CloneMode::Deep) const
  {
    VarFilter r; r.kind = kind;
    switch(kind)
    {
      case K_NONE: r.a.none = a.none.clone(cm); break;
      case K_UNIT: r.a.unit = a.unit.clone(cm); break;
      case K_MEAN: r.a.mean = a.mean.clone(cm); break;
      case K_SLIP: if constexpr (BS > 1) r.a.slip = a.slip.clone(cm); break;
    }
    return r;
  }
  template<class DT2, class IT2> void convert(const VarFilter<DT2, IT2, BS>& o)
  {
    kind = o.kind;
    // MeanFilterBlocked::convert and the cross-type UnitFilterBlocked::convert can be instantiated only where the
    // capability exists (see Filters!OfferedWith); the specification requests them exactly then
    switch(kind)
    {
      case K_NONE: a.none.convert(o.a.none); break;
      case K_UNIT:
        if constexpr (BS == 1 || std::is_same<DT, DT2>::value || cap_unitb_convert_other) a.unit.convert(o.a.unit);
        else throw std::runtime_error("cross-type UnitFilterBlocked::convert does not compile");
        break;
      case K_MEAN:
        if constexpr (BS == 1 || cap_meanb_convert) a.mean.convert(o.a.mean); else throw std::runtime_error("MeanFilterBlocked::convert does not compile");
        break;
      case K_SLIP: if constexpr (BS > 1) a.slip.convert(o.a.slip); break;
    }
  }
#define C06_FWD(OP) \
  void filter_##OP(VectorType& v) const \
  { \
    switch(kind) \
    { \
      case K_NONE: a.none.filter_##OP(v); break; \
      case K_UNIT: a.unit.filter_##OP(v); break; \
      case K_MEAN: a.mean.filter_##OP(v); break; \
      case K_SLIP: if constexpr (BS > 1) a.slip.filter_##OP(v); break; \
    } \
  }
  C06_FWD(rhs) C06_FWD(sol) C06_FWD(def) C06_FWD(cor)
#undef C06_FWD
  template<class MT> void filter_mat(MT& m) const
  {
    switch(kind)
    {
      case K_NONE: a.none.filter_mat(m); break;
      case K_UNIT: a.unit.filter_mat(m); break;
      case K_MEAN: a.mean.filter_mat(m); break;
      default: throw std::runtime_error("slip filter has no filter_mat");
    }
  }
};

template<class F, class V> void call_op(const F& f, const std::string& op, V& v)
{
  if(op == "rhs") f.filter_rhs(v); else if(op == "sol") f.filter_sol(v); else if(op == "def") f.filter_def(v); else f.filter_cor(v);
}

// ---- builders of the real atoms from the specification's filter records ----------------------------
// mode 0: indices added one by one in DESCENDING order through add() (exercises the sorting of the inner
//         sparse vector);  mode 1: array constructors / alternative constructors
template<class DT, class IT>
UnitFilter<DT, IT> build_unit1(const vj::Value& f, Index nb, int mode)
{
  IVec idx = f["idx"].ints(), val = f["val"].ints();
  if(idx.empty()) { if(mode == 1) return UnitFilter<DT, IT>(); return UnitFilter<DT, IT>(nb); }
  if(mode == 1)
  {
    auto vv = make_vec<DT, IT>(val); auto vi = make_ivec<IT>(idx);
    return UnitFilter<DT, IT>(nb, vv, vi);
  }
  UnitFilter<DT, IT> u(nb);
  for(std::size_t t = idx.size(); t-- > 0;) u.add(IT(idx[t]), DT(val[t]));
  return u;
}
template<class DT, class IT, int BS>
UnitFilterBlocked<DT, IT, BS> build_unitb(const vj::Value& f, Index nb, int mode)
{
  IVec idx = f["idx"].ints(), val = f["val"].ints(), msk = f["msk"].ints(); bool ign = f["ign"].as_bool();
  if(idx.empty()) { if(mode == 1) { UnitFilterBlocked<DT, IT, BS> u; u.set_ignore_nans(ign); return u; } return UnitFilterBlocked<DT, IT, BS>(nb, ign); }
  const DT nan = std::numeric_limits<DT>::quiet_NaN();
  if(mode == 1)
  {
    DenseVectorBlocked<DT, IT, BS> vv(Index(idx.size()));
    DT* e = vv.template elements<Perspective::pod>();
    for(std::size_t k = 0; k < val.size(); ++k) e[k] = msk[k] ? DT(val[k]) : nan;
    auto vi = make_ivec<IT>(idx);
    UnitFilterBlocked<DT, IT, BS> u(nb, vv, vi);
    u.set_ignore_nans(ign);
    return u;
  }
  UnitFilterBlocked<DT, IT, BS> u(nb, ign);
  for(std::size_t t = idx.size(); t-- > 0;)
  {
    Tiny::Vector<DT, BS> x;
    for(int c = 0; c < BS; ++c) x[c] = msk[t * BS + c] ? DT(val[t * BS + c]) : nan;
    u.add(IT(idx[t]), x);
  }
  return u;
}
// the slip filter object also carries the vertex normal vector _nu (vidx/vnu of the specification), which
// lives on nb + 1 "vertices" and differs from the filter vector in indices and values
template<class DT, class IT, int BS>
SlipFilter<DT, IT, BS> build_slip(const vj::Value& f, Index nb, int mode)
{
  IVec idx = f["idx"].ints(), nu = f["nu"].ints();
  if(idx.empty() && mode == 1) return SlipFilter<DT, IT, BS>();
  SlipFilter<DT, IT, BS> s(nb + 1, nb);
  for(std::size_t q = 0; q < idx.size(); ++q)
  {
    std::size_t t = (mode == 0) ? idx.size() - 1 - q : q;
    Tiny::Vector<DT, BS> x;
    for(int c = 0; c < BS; ++c) x[c] = DT(nu[t * BS + c]);
    s.add(IT(idx[t]), x);
  }
  if(f.has("vidx"))
  {
    IVec vidx = f["vidx"].ints(), vnu = f["vnu"].ints();
    for(std::size_t t = 0; t < vidx.size(); ++t)
    {
      Tiny::Vector<DT, BS> x;
      for(int c = 0; c < BS; ++c) x[c] = DT(vnu[t * BS + c]);
      s.get_nu()(Index(vidx[t]), x);
    }
  }
  return s;
}
template<class DT, class IT>
MeanFilter<DT, IT> build_mean1(const vj::Value& f, int mode)
{
  IVec p = f["p"].ints(), d = f["d"].ints();
  if(p.empty()) return MeanFilter<DT, IT>();
  DT mu = DT(double(f["mun"][0].as_int()) / double(f["mud"].as_int()));
  if(mode == 1) return MeanFilter<DT, IT>(make_vec<DT, IT>(p), make_vec<DT, IT>(d), mu, DT(f["vol"][0].as_int()));
  return MeanFilter<DT, IT>(make_vec<DT, IT>(p), make_vec<DT, IT>(d), mu);
}
template<class DT, class IT, int BS>
MeanFilterBlocked<DT, IT, BS> build_meanb(const vj::Value& f, int mode)
{
  IVec p = f["p"].ints(), d = f["d"].ints();
  if(p.empty()) return MeanFilterBlocked<DT, IT, BS>();
  Tiny::Vector<DT, BS> mu, vol;
  for(int c = 0; c < BS; ++c) { mu[c] = DT(double(f["mun"][std::size_t(c)].as_int()) / double(f["mud"].as_int())); vol[c] = DT(f["vol"][std::size_t(c)].as_int()); }
  if(mode == 1) return MeanFilterBlocked<DT, IT, BS>(make_bvec<DT, IT, BS>(p), make_bvec<DT, IT, BS>(d), mu, vol);
  return MeanFilterBlocked<DT, IT, BS>(make_bvec<DT, IT, BS>(p), make_bvec<DT, IT, BS>(d), mu);
}

template<class DT, class IT, int BS>
VarFilter<DT, IT, BS> build_var(const vj::Value& f, Index nb, int mode)
{
  VarFilter<DT, IT, BS> r;
  const std::string kind = f["kind"].as_str();
  if(int(f["bs"].as_int()) != BS) throw std::runtime_error("block size of atom does not match the instantiation");
  if(kind == "none") r.kind = K_NONE;
  else if(kind == "unit")
  {
    r.kind = K_UNIT;
    if constexpr (BS == 1) r.a.unit = build_unit1<DT, IT>(f, nb, mode); else r.a.unit = build_unitb<DT, IT, BS>(f, nb, mode);
  }
  else if(kind == "slip")
  {
    r.kind = K_SLIP;
    if constexpr (BS > 1) r.a.slip = build_slip<DT, IT, BS>(f, nb, mode); else throw std::runtime_error("scalar slip filter");
  }
  else if(kind == "mean")
  {
    r.kind = K_MEAN;
    if constexpr (BS == 1) r.a.mean = build_mean1<DT, IT>(f, mode); else r.a.mean = build_meanb<DT, IT, BS>(f, mode);
  }
  else throw std::runtime_error("not an atom: " + kind);
  return r;
}

// ------------------------------------------------------------------------------------------------
// reading vectors back (numerators over den); tuple / power vectors give one IVec per component
// ------------------------------------------------------------------------------------------------
template<class DT, class IT> void read_into(const DenseVector<DT, IT>& v, long long den, std::vector<IVec>& out, bool& exact) { out.push_back(read_pod(v, den, exact)); }
template<class DT, class IT, int BS> void read_into(const DenseVectorBlocked<DT, IT, BS>& v, long long den, std::vector<IVec>& out, bool& exact) { out.push_back(read_pod(v, den, exact)); }
template<class A, class B> void read_into(const TupleVector<A, B>& v, long long den, std::vector<IVec>& out, bool& exact)
{ read_into(v.template at<0>(), den, out, exact); read_into(v.template at<1>(), den, out, exact); }
template<class A> void read_into(const PowerVector<A, 2>& v, long long den, std::vector<IVec>& out, bool& exact)
{ read_into(v.template at<0>(), den, out, exact); read_into(v.template at<1>(), den, out, exact); }

static std::vector<IVec> spec_vec(const vj::Value& v, bool tuple)
{
  std::vector<IVec> r;
  if(tuple) { for(std::size_t j = 0; j < v.size(); ++j) r.push_back(v[j].ints()); }
  else r.push_back(v.ints());
  return r;
}
static std::string vvs(const std::vector<IVec>& v) { std::string s; for(const auto& x : v) s += vs(x); return s; }

struct Ctx
{
  const vj::Value& c; std::string why; std::string lc;
  explicit Ctx(const vj::Value& cc) : c(cc) { lc = cc.get_str("lc", "none"); }
  bool fail(const std::string& w) { if(why.empty()) why = w; return false; }
};

// the two calls of the behaviour and the comparison with the predicted vectors
template<class F, class V>
bool two_calls(Ctx& k, const F& flt, V& vec, bool tuple, const std::string& tag)
{
  const std::string op = k.c["op"].as_str(); long long den = k.c["den"].as_int();
  std::vector<IVec> e1 = spec_vec(k.c["v1"], tuple), e2 = spec_vec(k.c["v2"], tuple);
  for(int call = 1; call <= 2; ++call)
  {
    call_op(flt, op, vec);
    std::vector<IVec> got; bool exact = true; read_into(vec, den, got, exact);
    const std::vector<IVec>& e = (call == 1) ? e1 : e2;
    if(!exact) return k.fail(tag + ": filter_" + op + " call " + std::to_string(call) + ": result off the dyadic grid 1/" + std::to_string(den) + ": " + vvs(got));
    if(got != e) return k.fail(tag + ": filter_" + op + " call " + std::to_string(call) + ": vector*den = " + vvs(got) + " expected " + vvs(e));
  }
  return true;
}

// ------------------------------------------------------------------------------------------------
// life-cycle: the filter that is applied is obtained from the built one by clone / convert / move
// ------------------------------------------------------------------------------------------------
template<class D, class I> struct TT { typedef D DT; typedef I IT; };
// which convert calls of a class can be instantiated at all
template<class FT> struct LcCaps { static constexpr bool conv_same = true, conv_other = true; };
template<class D, class I, int B> struct LcCaps<MeanFilterBlocked<D, I, B>> { static constexpr bool conv_same = cap_meanb_convert, conv_other = cap_meanb_convert; };
template<class D, class I, int B> struct LcCaps<UnitFilterBlocked<D, I, B>> { static constexpr bool conv_same = true, conv_other = cap_unitb_convert_other; };
template<class D, class I, int B> struct LcCaps<FilterChain<SlipFilter<D, I, B>, UnitFilterBlocked<D, I, B>>> { static constexpr bool conv_same = true, conv_other = cap_unitb_convert_other; };
template<class D, class I, int B> struct LcCaps<FilterChain<UnitFilterBlocked<D, I, B>, SlipFilter<D, I, B>>> { static constexpr bool conv_same = true, conv_other = cap_unitb_convert_other; };
template<class DT, class IT> struct OtherT { typedef TT<float, std::uint32_t> Type; };
template<> struct OtherT<float, std::uint32_t> { typedef TT<double, std::uint64_t> Type; };

// the vertex normal vector of a slip filter after the life-cycle operation
template<class DT, class IT, int BS>
bool slip_nu_is(Ctx& k, const SlipFilter<DT, IT, BS>& s, const vj::Value& f, const std::string& tag)
{
  if(!f.has("vidx")) return true;
  IVec vidx = f["vidx"].ints(), vnu = f["vnu"].ints();
  const auto& nu = s.get_nu();
  if(nu.used_elements() != Index(vidx.size())) return k.fail(tag + ": vertex normal vector has " + std::to_string(nu.used_elements()) + " entries, expected " + std::to_string(vidx.size()));
  for(std::size_t t = 0; t < vidx.size(); ++t)
  {
    if((long long)nu.indices()[t] != vidx[t]) return k.fail(tag + ": vertex normal vector index " + std::to_string(t));
    for(int c = 0; c < BS; ++c) if(double(nu.elements()[t][c]) != double(vnu[t * BS + c])) return k.fail(tag + ": vertex normal vector value " + std::to_string(t));
  }
  return true;
}

