// C10 only (harness/c10_mesh.cpp, harness/c10_adapt.cpp): mesh parts that are given WITH their own topology.
#pragma once
#include "vmesh.hpp"

namespace vm
{
  // a mesh part given WITH its own topology (spec/MeshGenX.tla!OrientedPart): {"name","ents":[[[v]..],..],"tidx":{"i10":..,"i20":..,"i21":..}}
  // the parent entities are looked up by their vertex sets, the topology is filled in verbatim (nothing is deduced)
  template<class Mesh_> std::unique_ptr<Geometry::MeshPart<Mesh_>> make_part10(const Mesh_& mesh, const EntityFinder<Mesh_>& ef, const vj::Value& spec)
  {
    typedef Geometry::MeshPart<Mesh_> PartType;
    constexpr int dim = Mesh_::shape_dim;
    if(!spec.has("tidx")) return make_part<Mesh_>(mesh, ef, spec);
    const vj::Value& ents = spec["ents"];
    Index ne[] = {0, 0, 0, 0};
    for(int d(0); d <= dim && std::size_t(d) < ents.size(); ++d) ne[d] = Index(ents[std::size_t(d)].size());
    std::unique_ptr<PartType> part(new PartType(ne, true));
    for(int d(0); d <= dim && std::size_t(d) < ents.size(); ++d)
    {
      auto& ts = tset<dim>(part->get_target_set_holder(), d);
      for(Index i(0); i < ne[d]; ++i) ts[i] = ef.find(d, ents[std::size_t(d)][std::size_t(i)].ints());
    }
    auto fill = [&](auto& is, const char* key)
    {
      const auto rows = spec["tidx"][key].int_rows();
      if(Index(rows.size()) != is.get_num_entities()) throw std::runtime_error(std::string("oriented part: size of ") + key);
      for(std::size_t i(0); i < rows.size(); ++i)
      {
        if(int(rows[i].size()) != is.get_num_indices()) throw std::runtime_error(std::string("oriented part: row of ") + key);
        for(int k(0); k < is.get_num_indices(); ++k) is[Index(i)][k] = Index(rows[i][std::size_t(k)]);
      }
    };
    auto* topo = part->get_topology();
    fill(topo->template get_index_set<1, 0>(), "i10");
    if constexpr (dim >= 2)
    {
      fill(topo->template get_index_set<2, 0>(), "i20");
      fill(topo->template get_index_set<2, 1>(), "i21");
    }
    if(ne[3] != 0) throw std::runtime_error("oriented part: 3D part entities are outside the documented precondition");
    return part;
  }
}
