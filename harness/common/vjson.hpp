// Minimal JSON value / parser / writer for the conformance harnesses (no dependencies).
#pragma once
#include <cstdint>
#include <cstdlib>
#include <cstring>
#include <map>
#include <memory>
#include <sstream>
#include <stdexcept>
#include <string>
#include <vector>
#include <cmath>

namespace vj
{
  struct Value;
  using Array = std::vector<Value>;
  using Object = std::map<std::string, Value>;

  struct Value
  {
    enum Kind { Null, Bool, Int, Real, Str, Arr, Obj } kind = Null;
    bool b = false;
    long long i = 0;
    double d = 0.0;
    std::string s;
    std::shared_ptr<Array> a;
    std::shared_ptr<Object> o;

    Value() {}
    Value(bool v) : kind(Bool), b(v) {}
    Value(int v) : kind(Int), i(v), d(double(v)) {}
    Value(long v) : kind(Int), i(v), d(double(v)) {}
    Value(long long v) : kind(Int), i(v), d(double(v)) {}
    Value(unsigned v) : kind(Int), i((long long)v), d(double(v)) {}
    Value(unsigned long v) : kind(Int), i((long long)v), d(double(v)) {}
    Value(unsigned long long v) : kind(Int), i((long long)v), d(double(v)) {}
    Value(double v) : kind(Real), i((long long)v), d(v) {}
    Value(const char* v) : kind(Str), s(v) {}
    Value(const std::string& v) : kind(Str), s(v) {}
    static Value array() { Value v; v.kind = Arr; v.a = std::make_shared<Array>(); return v; }
    static Value object() { Value v; v.kind = Obj; v.o = std::make_shared<Object>(); return v; }

    bool is_null() const { return kind == Null; }
    bool is_obj() const { return kind == Obj; }
    bool is_arr() const { return kind == Arr; }
    bool is_str() const { return kind == Str; }
    bool is_num() const { return kind == Int || kind == Real; }
    bool has(const std::string& k) const { return kind == Obj && o->count(k) > 0; }
    const Value& operator[](const std::string& k) const
    {
      if(kind != Obj) throw std::runtime_error("vj: not an object (key " + k + ")");
      auto it = o->find(k);
      if(it == o->end()) throw std::runtime_error("vj: missing key " + k);
      return it->second;
    }
    Value& operator[](const std::string& k)
    {
      if(kind == Null) { kind = Obj; o = std::make_shared<Object>(); }
      if(kind != Obj) throw std::runtime_error("vj: not an object (key " + k + ")");
      return (*o)[k];
    }
    const Value& operator[](std::size_t k) const
    {
      if(kind != Arr) throw std::runtime_error("vj: not an array");
      return a->at(k);
    }
    std::size_t size() const { return kind == Arr ? a->size() : (kind == Obj ? o->size() : 0u); }
    void push(const Value& v)
    {
      if(kind == Null) { kind = Arr; a = std::make_shared<Array>(); }
      a->push_back(v);
    }
    long long as_int() const
    {
      if(kind == Int) return i;
      if(kind == Real) return (long long)d;
      if(kind == Bool) return b ? 1 : 0;
      throw std::runtime_error("vj: not a number");
    }
    double as_real() const
    {
      if(kind == Int) return double(i);
      if(kind == Real) return d;
      throw std::runtime_error("vj: not a number");
    }
    bool as_bool() const { if(kind == Bool) return b; if(kind == Int) return i != 0; throw std::runtime_error("vj: not a bool"); }
    const std::string& as_str() const { if(kind != Str) throw std::runtime_error("vj: not a string"); return s; }
    long long get_int(const std::string& k, long long def) const { return has(k) ? (*this)[k].as_int() : def; }
    std::string get_str(const std::string& k, const std::string& def) const { return has(k) ? (*this)[k].as_str() : def; }

    // TLC's ToJson prints a sequence as an array, but a function with domain 1..n also as an array
    // and an empty sequence/function as [] -- helper views:
    std::vector<long long> ints() const
    {
      std::vector<long long> r;
      if(kind == Arr) for(const auto& x : *a) r.push_back(x.as_int());
      return r;
    }
    std::vector<std::vector<long long>> int_rows() const
    {
      std::vector<std::vector<long long>> r;
      if(kind == Arr) for(const auto& x : *a) r.push_back(x.ints());
      return r;
    }
  };

  inline bool operator==(const Value& x, const Value& y)
  {
    if(x.is_num() && y.is_num())
    {
      if(x.kind == Value::Int && y.kind == Value::Int) return x.i == y.i;
      return x.as_real() == y.as_real();
    }
    if(x.kind != y.kind) return false;
    switch(x.kind)
    {
      case Value::Null: return true;
      case Value::Bool: return x.b == y.b;
      case Value::Str: return x.s == y.s;
      case Value::Arr:
        if(x.a->size() != y.a->size()) return false;
        for(std::size_t k = 0; k < x.a->size(); ++k) if(!((*x.a)[k] == (*y.a)[k])) return false;
        return true;
      case Value::Obj:
        if(x.o->size() != y.o->size()) return false;
        for(const auto& kv : *x.o) { auto it = y.o->find(kv.first); if(it == y.o->end() || !(kv.second == it->second)) return false; }
        return true;
      default: return false;
    }
  }
  inline bool operator!=(const Value& x, const Value& y) { return !(x == y); }

  class Parser
  {
    const char* p; const char* e;
    void ws() { while(p < e && (*p == ' ' || *p == '\t' || *p == '\n' || *p == '\r')) ++p; }
    [[noreturn]] void fail(const char* m) { throw std::runtime_error(std::string("vj parse: ") + m); }
  public:
    Parser(const char* b, const char* en) : p(b), e(en) {}
    Value parse()
    {
      ws();
      if(p >= e) fail("eof");
      char c = *p;
      if(c == '{')
      {
        ++p; Value v = Value::object(); ws();
        if(p < e && *p == '}') { ++p; return v; }
        for(;;)
        {
          ws(); Value k = parse(); if(k.kind != Value::Str) fail("key");
          ws(); if(p >= e || *p != ':') fail(":"); ++p;
          (*v.o)[k.s] = parse(); ws();
          if(p < e && *p == ',') { ++p; continue; }
          if(p < e && *p == '}') { ++p; return v; }
          fail("object");
        }
      }
      if(c == '[')
      {
        ++p; Value v = Value::array(); ws();
        if(p < e && *p == ']') { ++p; return v; }
        for(;;)
        {
          v.a->push_back(parse()); ws();
          if(p < e && *p == ',') { ++p; continue; }
          if(p < e && *p == ']') { ++p; return v; }
          fail("array");
        }
      }
      if(c == '"')
      {
        ++p; std::string s;
        while(p < e && *p != '"')
        {
          if(*p == '\\')
          {
            ++p; if(p >= e) fail("escape");
            switch(*p)
            {
              case 'n': s += '\n'; break; case 't': s += '\t'; break; case 'r': s += '\r'; break;
              case 'b': s += '\b'; break; case 'f': s += '\f'; break;
              case 'u': { if(e - p < 5) fail("\\u"); unsigned cp = (unsigned)std::strtoul(std::string(p+1, p+5).c_str(), nullptr, 16); p += 4;
                          if(cp < 0x80) s += char(cp); else if(cp < 0x800) { s += char(0xC0 | (cp >> 6)); s += char(0x80 | (cp & 0x3F)); }
                          else { s += char(0xE0 | (cp >> 12)); s += char(0x80 | ((cp >> 6) & 0x3F)); s += char(0x80 | (cp & 0x3F)); } break; }
              default: s += *p;
            }
            ++p;
          }
          else s += *p++;
        }
        if(p >= e) fail("string"); ++p;
        return Value(s);
      }
      if(c == 't' && e - p >= 4 && !std::strncmp(p, "true", 4)) { p += 4; return Value(true); }
      if(c == 'f' && e - p >= 5 && !std::strncmp(p, "false", 5)) { p += 5; return Value(false); }
      if(c == 'n' && e - p >= 4 && !std::strncmp(p, "null", 4)) { p += 4; return Value(); }
      // number
      const char* q = p; bool real = false;
      if(q < e && (*q == '-' || *q == '+')) ++q;
      while(q < e && ((*q >= '0' && *q <= '9') || *q == '.' || *q == 'e' || *q == 'E' || *q == '-' || *q == '+')) { if(*q == '.' || *q == 'e' || *q == 'E') real = true; ++q; }
      if(q == p) fail("value");
      std::string t(p, q); p = q;
      if(real) return Value(std::strtod(t.c_str(), nullptr));
      return Value((long long)std::strtoll(t.c_str(), nullptr, 10));
    }
  };

  inline Value parse(const std::string& s) { Parser ps(s.data(), s.data() + s.size()); return ps.parse(); }

  inline void write(std::ostream& os, const Value& v)
  {
    switch(v.kind)
    {
      case Value::Null: os << "null"; break;
      case Value::Bool: os << (v.b ? "true" : "false"); break;
      case Value::Int: os << v.i; break;
      case Value::Real:
        if(std::isfinite(v.d)) { std::ostringstream t; t.precision(17); t << v.d; os << t.str(); }
        else os << (std::isnan(v.d) ? "\"nan\"" : (v.d > 0 ? "\"inf\"" : "\"-inf\""));
        break;
      case Value::Str:
        os << '"';
        for(char c : v.s)
        {
          switch(c)
          {
            case '"': os << "\\\""; break; case '\\': os << "\\\\"; break; case '\n': os << "\\n"; break;
            case '\t': os << "\\t"; break; case '\r': os << "\\r"; break;
            default: if((unsigned char)c < 0x20) { char b[8]; std::snprintf(b, 8, "\\u%04x", (unsigned)(unsigned char)c); os << b; } else os << c;
          }
        }
        os << '"'; break;
      case Value::Arr:
        os << '[';
        for(std::size_t k = 0; k < v.a->size(); ++k) { if(k) os << ','; write(os, (*v.a)[k]); }
        os << ']'; break;
      case Value::Obj:
      {
        os << '{'; bool first = true;
        for(const auto& kv : *v.o) { if(!first) os << ','; first = false; write(os, Value(kv.first)); os << ':'; write(os, kv.second); }
        os << '}'; break;
      }
    }
  }
  inline std::string dump(const Value& v) { std::ostringstream os; write(os, v); return os.str(); }

  template<class T> Value from_vec(const std::vector<T>& x) { Value v = Value::array(); for(const auto& t : x) v.push(Value((long long)t)); return v; }
}
