// C16 harness, special routes: burgers (Assembly::BurgersAssembler::assemble_scalar_matrix / assemble_matrix),
// burgersjob (BurgersScalar/BlockedMatrixAssemblyJob on a DomainAssembler with 0 worker threads), voxel
// (VoxelAssembly::VoxelPoissonAssembler / VoxelBurgersAssembler), voxeldefo (VoxelDefoAssembler), and the blocked
// common operators (Identity/Laplace/DuDvOperatorBlocked, and the user operator UGradOperatorBlocked) on the classic and domain routes.
// Matrix-free routes (spec/Assembly.tla: MatrixFreeRoutes): apply / apply2 (BilinearOperatorAssembler::apply1/2 with blocked vectors),
// burgersvec (BurgersAssembler::assemble_vector), burgersjobvec / burgersjobself (Burgers{Blocked,Scalar}VectorAssemblyJob),
// voxelvec (VoxelBurgersAssembler::assemble_vector), gradopvec (GradOperatorAssembler::assemble with vectors): the harness reports
// route(x) against (matrix of the reference route) * x, both repeat semantics, and the scaled integers of (v e_row)^T route(P).
// Included by harness/c16_assembly_s<shape>.cpp after defining C16_VOXEL (1 for hypercube shapes).
#pragma once
#include "vasm16.hpp"
#include <kernel/assembly/burgers_assembler.hpp>
#include <kernel/assembly/burgers_assembly_job.hpp>
#include <kernel/assembly/gpdv_assembler.hpp>
#include <kernel/assembly/grad_operator_assembler.hpp>
#include <kernel/lafem/sparse_matrix_bcsr.hpp>
#include <kernel/lafem/dense_vector_blocked.hpp>
#if C16_VOXEL
#include <kernel/voxel_assembly/poisson_assembler.hpp>
#include <kernel/voxel_assembly/defo_assembler.hpp>
#include <kernel/voxel_assembly/burgers_assembler.hpp>
#endif

namespace va
{
  inline bool has_route(const vj::Value& job, const char* r)
  {
    const vj::Value& rs = job["routes"];
    for(std::size_t k = 0; k < rs.size(); ++k) if(rs[k].as_str() == r) return true;
    return false;
  }

  // the convection fields of the catalogue (spec/Assembly.tla: ConvField), component k as list of (coefficient, exponent)
  inline std::vector<std::vector<std::pair<double, std::vector<long long>>>> conv_field(int dim, int n)
  {
    std::vector<std::vector<std::pair<double, std::vector<long long>>>> b((std::size_t(dim)));
    for(int k = 0; k < dim; ++k)
    {
      std::vector<long long> e(std::size_t(dim), 0);
      double c = 1.0;
      if(n == 0) c = double(k + 1);
      else if(n == 1) e[std::size_t(k)] = 1;
      else { c = (k == 0) ? 1.0 : -1.0; e[std::size_t(k == 0 ? 1 : 0)] = 1; }
      b[std::size_t(k)].push_back(std::make_pair(c, e));
    }
    return b;
  }

  // a USER operator written against the documented BilinearOperator interface (spec/Assembly.tla: ugrad_b):
  // block (r,c) = (r + 2c - 2) * d_c(trial) * test   (r, c = 1..dim) -- gradient-type, no symmetry of any kind
  template<int dim_>
  class UGradOperatorBlocked : public Assembly::BilinearOperator
  {
  public:
    static constexpr int BlockHeight = dim_;
    static constexpr int BlockWidth = dim_;
    static constexpr TrafoTags trafo_config = TrafoTags::none;
    static constexpr SpaceTags test_config = SpaceTags::value;
    static constexpr SpaceTags trial_config = SpaceTags::grad;
    template<typename AsmTraits_>
    class Evaluator : public Assembly::BilinearOperator::Evaluator<AsmTraits_>
    {
    public:
      typedef typename AsmTraits_::DataType DataType;
      typedef Tiny::Matrix<DataType, dim_, dim_> ValueType;
      typedef typename AsmTraits_::TestBasisData TestBasisData;
      typedef typename AsmTraits_::TrialBasisData TrialBasisData;
      explicit Evaluator(const UGradOperatorBlocked&) {}
      ValueType eval(const TrialBasisData& phi, const TestBasisData& psi)
      {
        ValueType m(DataType(0));
        for(int r = 0; r < dim_; ++r) for(int c = 0; c < dim_; ++c) m[r][c] = DataType(r + 2 * c + 1) * phi.grad[c] * psi.value;
        return m;
      }
    };
  };

  // greedy colouring of the cells (cells sharing a vertex get different colours): what the voxel assemblers require
  template<class Mesh_> std::vector<int> greedy_coloring(const Mesh_& mesh)
  {
    const auto& vc = mesh.template get_index_set<Mesh_::shape_dim, 0>();
    const Index nc = mesh.get_num_elements();
    std::vector<std::vector<Index>> cells_at_vertex(mesh.get_num_vertices());
    for(Index c = 0; c < nc; ++c) for(int j = 0; j < vc.get_num_indices(); ++j) cells_at_vertex[vc(c, j)].push_back(c);
    std::vector<int> col(nc, -1);
    for(Index c = 0; c < nc; ++c)
    {
      std::set<int> used;
      for(int j = 0; j < vc.get_num_indices(); ++j) for(Index d : cells_at_vertex[vc(c, j)]) if(col[d] >= 0) used.insert(col[d]);
      int k = 0; while(used.count(k)) ++k;
      col[c] = k;
    }
    return col;
  }

  template<class Ctx_>
  struct SpecialRunner
  {
    typedef typename Ctx_::W W;
    typedef typename Ctx_::Test SpaceT;
    typedef typename W::TrafoType TrafoType;
    static constexpr int dim = W::dim;
    typedef LAFEM::SparseMatrixBCSR<DT, IT, dim, dim> BMat;
    typedef LAFEM::DenseVectorBlocked<DT, IT, dim> BVec;
    static constexpr bool voxel_ok = (C16_VOXEL != 0) && !W::simplex && std::is_same<SpaceT, FEAT::Space::Lagrange2::Element<TrafoType>>::value;

    Ctx_& ctx;
    Assembly::DomainAssembler<TrafoType>& dom;
    const Mat& pattern;
    const BMat& bpattern;
    std::vector<int> coloring;

    struct Par { DT nu = 0, theta = 0, beta = 0, frechet = 0, sd = 0; bool defo = false; int field = 0; };

    BVec conv_vector(int n)
    {
      const Index nd = ctx.test.get_num_dofs();
      BVec v(nd);
      const auto f = conv_field(dim, n);
      for(Index i = 0; i < nd; ++i) { typename BVec::ValueType z(DT(0)); v(i, z); }
      for(int k = 0; k < dim; ++k)
        for(const auto& t : f[std::size_t(k)])
        {
          const auto& u = ctx.tvec(t.second);
          for(Index i = 0; i < nd; ++i) { auto x = v(i); x[k] += t.first * u[i]; v(i, x); }
        }
      return v;
    }
    static double field_max(int n, double R, int d) { return n == 0 ? double(d) : R; }

    // parameters of the Burgers assemblers realising  scale * (scalar or blocked operator)
    static Par par_of(const std::string& name, const std::vector<long long>& p, DT scale)
    {
      Par q;
      if(name == "mass" || name == "mass_b") q.theta = scale;
      else if(name == "laplace" || name == "laplace_b") q.nu = scale;
      else if(name == "dudv_b") { q.nu = scale; q.defo = true; }
      else if(name == "conv" || name == "conv_b") { q.beta = scale; q.field = int(p.at(0)); }
      else if(name == "frechet_b") { q.frechet = scale; q.field = int(p.at(0)); }
      else throw std::runtime_error("no Burgers parameters for operator " + name);
      return q;
    }
    template<class B_> static void set_par(B_& b, const Par& q)
    {
      b.deformation = q.defo; b.nu = q.nu; b.theta = q.theta; b.beta = q.beta; b.frechet_beta = q.frechet;
      b.sd_delta = q.sd; b.sd_nu = (q.sd != DT(0)) ? DT(1) : DT(0); b.sd_v_norm = DT(0);
    }
    // streamline diffusion needs the norm of the convection field: every route computes it through its own set_sd_v_norm
    template<class B_> static void set_sd(B_& b, const Par& q, const BVec& cv) { if(q.sd != DT(0)) b.set_sd_v_norm(cv); }

    // ---- scalar routes ------------------------------------------------------------------------------------
    void burgers_scalar(Mat& m, const Par& q, const Cubature::DynamicFactory& cf)
    {
      Assembly::BurgersAssembler<DT, IT, dim> b; set_par(b, q);
      BVec cv = conv_vector(q.field); set_sd(b, q, cv);
      b.assemble_scalar_matrix(m, cv, ctx.test, cf, DT(1));
    }
    void burgersjob_scalar(Mat& m, const Par& q, const String& cub)
    {
      BVec cv = conv_vector(q.field);
      Assembly::BurgersScalarMatrixAssemblyJob<Mat, SpaceT, BVec> job(m, cv, ctx.test, cub);
      set_par(job, q); set_sd(job, q, cv);
      dom.assemble(job);
    }
    template<class Op_> void classic_scalar(Mat& m, Op_& op, const Cubature::DynamicFactory& cf, DT alpha)
    {
      Assembly::BilinearOperatorAssembler::assemble_matrix1(m, op, ctx.test, cf, alpha);
    }
    // the scalar matrix of an operator of the catalogue, on its reference route
    Mat scalar_ref(const std::string& name, const std::vector<long long>& p, const Cubature::DynamicFactory& cf)
    {
      Mat A = pattern.clone(LAFEM::CloneMode::Layout); A.format();
      if(name == "mass") { Assembly::Common::IdentityOperator op; classic_scalar(A, op, cf, DT(1)); }
      else if(name == "laplace") { Assembly::Common::LaplaceOperator op; classic_scalar(A, op, cf, DT(1)); }
      else if(name == "dudv") { Assembly::Common::DuDvOperator op(int(p.at(0)), int(p.at(1))); classic_scalar(A, op, cf, DT(1)); }
      else if(name == "trialderiv") { Assembly::Common::TrialDerivativeOperator op(int(p.at(0))); classic_scalar(A, op, cf, DT(1)); }
      else if(name == "conv") burgers_scalar(A, par_of(name, p, DT(1)), cf);
      else throw std::runtime_error("scalar_ref: operator " + name);
      return A;
    }

    vj::Value mat_job(const vj::Value& job)
    {
      vj::Value obs = vj::Value::object();
      const String cub = "auto-degree:" + stringify(job["deg"].as_int());
      Cubature::DynamicFactory cf(cub);
      const std::string opn = job["op"]["name"].as_str();
      const auto p = job["op"]["p"].ints();
      const double bmax = opn == "conv" ? field_max(int(p.at(0)), ctx.w.R, dim) * std::sqrt(double(dim)) : 1.0;
      const double mag = op_mag(opn, ctx.ti, ctx.ri, bmax);
      const double tole = CK * EPS * mag;
      const Index nnz = pattern.used_elements();
      const std::string ref = job["ref"].as_str();

      Mat A = scalar_ref(opn, p, cf);
      bool nz = false; for(Index k = 0; k < nnz; ++k) if(A.val()[k] != 0.0) nz = true;
      obs["nz"] = nz;
      vj::Value routes = vj::Value::array(), pairs = vj::Value::array();
      Mat Bu, Bj;
      if(has_route(job, "burgers") && ref != "burgers")
      {
        Bu = pattern.clone(LAFEM::CloneMode::Layout); Bu.format();
        burgers_scalar(Bu, par_of(opn, p, DT(1)), cf);
        routes.push(cmp_arrays("burgers", A.val(), Bu.val(), nnz, 1.0, 2 * tole));
      }
      if(has_route(job, "burgersjob"))
      {
        Bj = pattern.clone(LAFEM::CloneMode::Layout); Bj.format();
        burgersjob_scalar(Bj, par_of(opn, p, DT(1)), cub);
        routes.push(cmp_arrays("burgersjob", A.val(), Bj.val(), nnz, 1.0, 2 * tole));
        if(ref != "burgers" && has_route(job, "burgers"))
        {
          vj::Value pr = cmp_arrays("burgersjob", Bu.val(), Bj.val(), nnz, 1.0, 2 * tole);
          pr["a"] = "burgers"; pr["b"] = "burgersjob";
          pairs.push(pr);
        }
      }
#if C16_VOXEL
      if constexpr (voxel_ok)
      {
        if(has_route(job, "voxel"))
        {
          VoxelAssembly::VoxelPoissonAssembler<SpaceT, DT, IT> vox(ctx.test, coloring);
          Mat V = pattern.clone(LAFEM::CloneMode::Layout); V.format();
          vox.assemble_matrix1(V, ctx.test, cf, DT(1));
          routes.push(cmp_arrays("voxel", A.val(), V.val(), nnz, 1.0, 2 * tole));
        }
      }
#endif
      obs["routes"] = routes; obs["pairs"] = pairs;

      vj::Value twice = vj::Value::array();
      for(const char* r : {"classic", "burgers", "burgersjob", "voxel"})
      {
        if(!has_route(job, r)) continue;
        const std::string rs(r);
        for(long long a2 : job["alphas"].ints())
        {
          const DT alpha = DT(a2) / DT(2);
          Mat B = A.clone(LAFEM::CloneMode::Deep);
          if(rs == "classic")
          {
            if(opn == "mass") { Assembly::Common::IdentityOperator op; classic_scalar(B, op, cf, alpha); }
            else { Assembly::Common::LaplaceOperator op; classic_scalar(B, op, cf, alpha); }
          }
          else if(rs == "burgers") burgers_scalar(B, par_of(opn, p, alpha), cf);
          else if(rs == "burgersjob") burgersjob_scalar(B, par_of(opn, p, alpha), cub);
#if C16_VOXEL
          else
          {
            if constexpr (voxel_ok)
            {
              VoxelAssembly::VoxelPoissonAssembler<SpaceT, DT, IT> vox(ctx.test, coloring);
              vox.assemble_matrix1(B, ctx.test, cf, alpha);
            }
          }
#endif
          vj::Value t = cmp_arrays(r, A.val(), B.val(), nnz, 1.0 + alpha, 4 * tole * (1.0 + std::fabs(alpha)));
          t["a"] = a2;
          twice.push(t);
        }
      }
      obs["twice"] = twice;
      // matrix-free: BurgersScalarVectorAssemblyJob adds A x onto the vector (the scaling is in the parameters)
      vj::Value vr = vj::Value::array();
      if(job.has("vroutes"))
      {
        for(std::size_t k = 0; k < job["vroutes"].size(); ++k)
        {
          const std::string r = job["vroutes"][k].as_str();
          if(r != "burgersjobvec") throw std::runtime_error("scalar matrix-free route " + r + " is not compiled into this harness");
          const Index n = A.rows();
          Vec x(n), y(n, DT(0));
          for(Index j = 0; j < n; ++j) x(j, DT(double(long((j * 7 + 3) % 16) - 8) / 8.0));
          std::vector<DT> refv(n);
          for(Index i = 0; i < n; ++i)
          {
            LD s = 0; for(IT q = A.row_ptr()[i]; q < A.row_ptr()[i + 1]; ++q) s += LD(A.val()[q]) * LD(x(A.col_ind()[q]));
            refv[i] = DT(s);
          }
          auto call = [&](DT alpha)
          {
            const Par q = par_of(opn, p, alpha);
            BVec cv = conv_vector(q.field);
            Assembly::BurgersScalarVectorAssemblyJob<Vec, SpaceT, BVec> vjob(y, x, cv, ctx.test, cub);
            set_par(vjob, q);
            dom.assemble(vjob);
          };
          const double rl = double(max_row_len(A));
          call(DT(1));
          vj::Value o = vj::Value::object(); o["r"] = r;
          o["mv"] = cmp_arrays(r.c_str(), refv.data(), y.elements(), n, 1.0, 2 * tole * rl)["within"];
          call(DT(-0.5));
          o["ow"] = cmp_arrays(r.c_str(), refv.data(), y.elements(), n, -0.5, 4 * tole * rl)["within"];
          o["acc"] = cmp_arrays(r.c_str(), refv.data(), y.elements(), n, 0.5, 4 * tole * rl)["within"];
          o["probes"] = vj::Value::array();
          vr.push(o);
        }
      }
      obs["vr"] = vr;
      matrix_identities(ctx, job, A, mag, obs);
      vj::Value coup = vj::Value::object(); coup["done"] = false; obs["coup"] = coup;
      return obs;
    }

    // ---- blocked routes -----------------------------------------------------------------------------------
    void burgers_blocked(BMat& m, const Par& q, const Cubature::DynamicFactory& cf)
    {
      Assembly::BurgersAssembler<DT, IT, dim> b; set_par(b, q);
      BVec cv = conv_vector(q.field); set_sd(b, q, cv);
      b.assemble_matrix(m, cv, ctx.test, cf, DT(1));
    }
    void burgersjob_blocked(BMat& m, const Par& q, const String& cub)
    {
      BVec cv = conv_vector(q.field);
      Assembly::BurgersBlockedMatrixAssemblyJob<BMat, SpaceT, BVec> job(m, cv, ctx.test, cub);
      set_par(job, q); set_sd(job, q, cv);
      dom.assemble(job);
    }
    void common_blocked(BMat& m, const std::string& name, bool domain, const Cubature::DynamicFactory& cf, const String& cub, DT alpha)
    {
      auto go = [&](auto& op)
      {
        if(domain) Assembly::assemble_bilinear_operator_matrix_1(dom, m, op, ctx.test, cub, alpha);
        else Assembly::BilinearOperatorAssembler::assemble_matrix1(m, op, ctx.test, cf, alpha);
      };
      if(name == "mass_b") { Assembly::Common::IdentityOperatorBlocked<dim> op; go(op); }
      else if(name == "laplace_b") { Assembly::Common::LaplaceOperatorBlocked<dim> op; go(op); }
      else if(name == "dudv_b") { Assembly::Common::DuDvOperatorBlocked<dim> op; go(op); }
      else if(name == "ugrad_b") { UGradOperatorBlocked<dim> op; go(op); }
      else throw std::runtime_error("no blocked common operator " + name);
    }

    // ---- matrix-free routes (spec/Assembly.tla: MatrixFreeRoutes): y (+)= alpha * A x without a matrix ----------------
    void run_vroute(BVec& y, const BVec& x, const std::string& route, const std::string& name, const std::vector<long long>& p, DT alpha,
      const Cubature::DynamicFactory& cf, const String& cub)
    {
      if(route == "apply" || route == "apply2")
      {
        auto go = [&](auto& op)
        {
          if(route == "apply") Assembly::BilinearOperatorAssembler::apply1(y, x, op, ctx.test, cf, alpha);
          else Assembly::BilinearOperatorAssembler::apply2(y, x, op, ctx.test, ctx.test, cf, alpha);
        };
        if(name == "dudv_b") { Assembly::Common::DuDvOperatorBlocked<dim> op; go(op); }
        else if(name == "ugrad_b") { UGradOperatorBlocked<dim> op; go(op); }
        else throw std::runtime_error("apply1/apply2 are not compiled for the blocked operator " + name);
      }
      else if(route == "burgersvec")
      {
        const Par q = par_of(name, p, DT(1));
        Assembly::BurgersAssembler<DT, IT, dim> b; set_par(b, q);
        BVec cv = conv_vector(q.field);
        b.assemble_vector(y, cv, x, ctx.test, cf, alpha);
      }
      else if(route == "burgersjobvec")
      {
        const Par q = par_of(name, p, alpha);
        BVec cv = conv_vector(q.field);
        Assembly::BurgersBlockedVectorAssemblyJob<BVec, SpaceT, BVec> job(y, x, cv, ctx.test, cub);
        set_par(job, q);
        dom.assemble(job);
      }
      else if(route == "burgersjobself")
      {
        // the solution vector and the convection vector are one object (x is ignored: the argument is the field itself)
        const Par q = par_of(name, p, alpha);
        BVec cv = conv_vector(q.field);
        Assembly::BurgersBlockedVectorAssemblyJob<BVec, SpaceT, BVec> job(y, cv, cv, ctx.test, cub);
        set_par(job, q);
        dom.assemble(job);
      }
#if C16_VOXEL
      else if(route == "voxelvec")
      {
        if constexpr (voxel_ok)
        {
          const Par q = par_of(name, p, DT(1));
          VoxelAssembly::VoxelBurgersAssembler<SpaceT, DT, IT> vox(ctx.test, coloring);
          set_par(vox, q);
          BVec cv = conv_vector(q.field);
          vox.assemble_vector(y, cv, x, ctx.test, cf, alpha);
        }
        else throw std::runtime_error("voxel route is not compiled for this space");
      }
#endif
      else throw std::runtime_error("matrix-free route " + route + " is not compiled into this harness");
    }

    static void bflat(const BVec& v, std::vector<DT>& out)
    {
      out.resize(v.size() * Index(dim));
      for(Index i = 0; i < v.size(); ++i) { const auto b = v(i); for(int r = 0; r < dim; ++r) out[i * Index(dim) + Index(r)] = b[r]; }
    }
    // A x for the flattened block matrix A on bpattern (long double row sums), and per row the sum of |x_j|_1 over the pattern
    void bmatvec(const std::vector<DT>& A, const BVec& x, std::vector<DT>& y, std::vector<double>& w) const
    {
      const Index n = bpattern.rows();
      y.assign(n * Index(dim), DT(0)); w.assign(n, 0.0);
      for(Index i = 0; i < n; ++i)
      {
        LD s[dim]; for(int r = 0; r < dim; ++r) s[r] = 0;
        for(IT k = bpattern.row_ptr()[i]; k < bpattern.row_ptr()[i + 1]; ++k)
        {
          const auto xb = x(bpattern.col_ind()[k]);
          for(int c = 0; c < dim; ++c) w[i] += std::fabs(double(xb[c]));
          for(int r = 0; r < dim; ++r) for(int c = 0; c < dim; ++c) s[r] += LD(A[(Index(k) * Index(dim) + Index(r)) * Index(dim) + Index(c)]) * LD(xb[c]);
        }
        for(int r = 0; r < dim; ++r) y[i * Index(dim) + Index(r)] = DT(s[r]);
      }
    }
    BVec zero_bvec() const
    {
      BVec y(ctx.test.get_num_dofs());
      for(Index i = 0; i < y.size(); ++i) { typename BVec::ValueType z(DT(0)); y(i, z); }
      return y;
    }

    // observations of the matrix-free routes of a blocked job; A = the flattened matrix of the reference route
    vj::Value vroute_obs(const vj::Value& job, const std::string& name, const std::vector<long long>& p, const std::vector<DT>& A, double tole,
      const Cubature::DynamicFactory& cf, const String& cub)
    {
      vj::Value vr = vj::Value::array();
      if(!job.has("vroutes")) return vr;
      const Index n = ctx.test.get_num_dofs();
      // the generic argument: component-wise different, not smooth, dyadic
      BVec x(n);
      for(Index i = 0; i < n; ++i)
      {
        typename BVec::ValueType b;
        for(int c = 0; c < dim; ++c) b[c] = DT(double(long((i * 7 + 3 + Index(5 * c)) % 16) - 8) / 8.0);
        x(i, b);
      }
      const vj::Value& rs = job["vroutes"];
      for(std::size_t k = 0; k < rs.size(); ++k)
      {
        const std::string r = rs[k].as_str();
        vj::Value o = vj::Value::object(); o["r"] = r;
        const bool self = (r == "burgersjobself");
        const BVec xs = self ? conv_vector(par_of(name, p, DT(1)).field) : x.clone(LAFEM::CloneMode::Deep);
        std::vector<DT> ref, got; std::vector<double> w;
        bmatvec(A, xs, ref, w);
        double rl = 1.0; for(double t : w) rl = std::max(rl, t);       // row-wise sum of |x_j|_1 over the pattern
        const double xm = 1.0;
        BVec y = zero_bvec();
        run_vroute(y, xs, r, name, p, DT(1), cf, cub);
        bflat(y, got);
        vj::Value mv = cmp_arrays(r.c_str(), ref.data(), got.data(), Index(ref.size()), 1.0, 2 * tole * rl * xm);
        o["mv"] = mv["within"];
        // a second call with alpha = -1/2 into the filled vector: alpha * A x (overwrite) or y + alpha * A x (accumulate)
        run_vroute(y, xs, r, name, p, DT(-0.5), cf, cub);
        bflat(y, got);
        double dow = 0, dac = 0;
        for(std::size_t q = 0; q < ref.size(); ++q) { dow = std::max(dow, std::fabs(got[q] + 0.5 * ref[q])); dac = std::max(dac, std::fabs(got[q] - 0.5 * ref[q])); if(!std::isfinite(got[q])) dow = dac = HUGE_VAL; }
        o["ow"] = (dow <= 4 * tole * rl * xm); o["acc"] = (dac <= 4 * tole * rl * xm);
        note_margin(std::min(dow, dac), 4 * tole * rl * xm);
        // ApplyBilinear: (v e_row)^T r(P) for the probe fields P of the job, as scaled integers
        vj::Value probes = vj::Value::array();
        if(!self)
        {
          const vj::Value& pl = job["probes"];
          for(std::size_t f = 0; f < pl.size(); ++f)
          {
            const BVec P = conv_vector(int(pl[f]["field"].as_int()));
            BVec yp = zero_bvec();
            run_vroute(yp, P, r, name, p, DT(1), cf, cub);
            std::vector<DT> dummy; bmatvec(A, P, dummy, w);      // w[i] = sum over the row pattern of |P_j|_1
            vj::Value ids = vj::Value::array();
            const vj::Value& il = pl[f]["ids"];
            for(std::size_t q = 0; q < il.size(); ++q)
            {
              const auto& v = ctx.tvec(il[q]["v"].ints());
              const int row = int(il[q]["row"].as_int()) - 1;
              LD val = 0; LD W = 0;
              for(Index i = 0; i < n; ++i) { val += LD(v[i]) * LD(yp(i)[row]); W += LD(std::fabs(v[i])) * LD(w[i]); }
              ids.push(scaled(val, spec_scale(il[q]["mode"].as_str(), ctx.w.K, int(il[q]["fd"].as_int()), dim), tole * double(W)));
            }
            probes.push(ids);
          }
        }
        o["probes"] = probes;
        vr.push(o);
      }
      return vr;
    }
    void run_blocked(BMat& m, const std::string& route, const std::string& name, const std::vector<long long>& p, DT alpha,
      const Cubature::DynamicFactory& cf, const String& cub)
    {
      if(route == "classic") common_blocked(m, name, false, cf, cub, alpha);
      else if(route == "domain") common_blocked(m, name, true, cf, cub, alpha);
      else if(route == "burgers") burgers_blocked(m, par_of(name, p, alpha), cf);
      else if(route == "burgersjob") burgersjob_blocked(m, par_of(name, p, alpha), cub);
#if C16_VOXEL
      else if(route == "voxel")
      {
        if constexpr (voxel_ok)
        {
          VoxelAssembly::VoxelBurgersAssembler<SpaceT, DT, IT> vox(ctx.test, coloring);
          set_par(vox, par_of(name, p, alpha));
          BVec cv = conv_vector(par_of(name, p, alpha).field);
          vox.assemble_matrix1(m, cv, ctx.test, cf, DT(1));
        }
      }
      else if(route == "voxeldefo")
      {
        if constexpr (voxel_ok)
        {
          VoxelAssembly::VoxelDefoAssembler<SpaceT, DT, IT> vox(ctx.test, coloring);
          vox.nu = DT(1);
          vox.assemble_matrix1(m, ctx.test, cf, alpha);
        }
      }
#endif
      else throw std::runtime_error("blocked route " + route + " is not compiled into this harness");
    }

    static void flat(const BMat& m, std::vector<DT>& out)
    {
      const Index nb = m.used_elements();
      out.resize(nb * Index(dim * dim));
      for(Index k = 0; k < nb; ++k) for(int r = 0; r < dim; ++r) for(int c = 0; c < dim; ++c) out[(k * Index(dim) + Index(r)) * Index(dim) + Index(c)] = m.val()[k][r][c];
    }

    vj::Value blk_job(const vj::Value& job)
    {
      vj::Value obs = vj::Value::object();
      const String cub = "auto-degree:" + stringify(job["deg"].as_int());
      Cubature::DynamicFactory cf(cub);
      const std::string name = job["bop"]["name"].as_str();
      const auto p = job["bop"]["p"].ints();
      const std::string ref = job["ref"].as_str();
      const Index nb = bpattern.used_elements();

      // scalar reference matrices of the blocks and the magnitude of the largest block
      std::vector<Mat> S; std::vector<double> sc; double mag = 0.0;
      for(int r = 0; r < dim; ++r) for(int c = 0; c < dim; ++c)
      {
        const vj::Value& b = job["blocks"][std::size_t(r)][std::size_t(c)];
        const std::string on = b["op"]["name"].as_str();
        const auto op = b["op"]["p"].ints();
        const double s = double(b["s"].as_int());
        sc.push_back(s);
        const double bmax = on == "conv" ? field_max(int(op.at(0)), ctx.w.R, dim) * std::sqrt(double(dim)) : 1.0;
        mag = std::max(mag, std::max(1.0, std::fabs(s)) * op_mag(on, ctx.ti, ctx.ri, bmax));
        if(s != 0.0) S.push_back(scalar_ref(on, op, cf)); else S.push_back(Mat());
      }
      const double tole = CK * EPS * mag;

      std::map<std::string, std::vector<DT>> M;
      const vj::Value& rs = job["routes"];
      for(std::size_t k = 0; k < rs.size(); ++k)
      {
        BMat m = bpattern.clone(LAFEM::CloneMode::Layout); m.format();
        run_blocked(m, rs[k].as_str(), name, p, DT(1), cf, cub);
        flat(m, M[rs[k].as_str()]);
      }
      if(!M.count(ref)) throw std::runtime_error("blocked job without its reference route");
      const std::vector<DT>& A = M[ref];
      bool nz = false; for(DT x : A) if(x != 0.0) nz = true;
      obs["nz"] = nz;

      vj::Value routes = vj::Value::array(), pairs = vj::Value::array(), blk = vj::Value::array();
      for(const auto& kv : M)
      {
        if(kv.first != ref) routes.push(cmp_arrays(kv.first.c_str(), A.data(), kv.second.data(), Index(A.size()), 1.0, 2 * tole));
        // blocked = scalar (x) structure
        double md = 0.0;
        for(Index k = 0; k < nb; ++k) for(int r = 0; r < dim; ++r) for(int c = 0; c < dim; ++c)
        {
          const std::size_t q = std::size_t(r * dim + c);
          const double want = sc[q] == 0.0 ? 0.0 : sc[q] * S[q].val()[k];
          md = std::max(md, std::fabs(kv.second[(k * Index(dim) + Index(r)) * Index(dim) + Index(c)] - want));
        }
        vj::Value b = vj::Value::object(); b["r"] = kv.first; b["within"] = (md <= 2 * tole); note_margin(md, 2 * tole);
        blk.push(b);
      }
      if(ref != "burgers" && M.count("burgers") && M.count("burgersjob"))
      {
        vj::Value pr = cmp_arrays("burgersjob", M["burgers"].data(), M["burgersjob"].data(), Index(A.size()), 1.0, 2 * tole);
        pr["a"] = "burgers"; pr["b"] = "burgersjob";
        pairs.push(pr);
      }
      obs["routes"] = routes; obs["pairs"] = pairs; obs["blk"] = blk;

      vj::Value twice = vj::Value::array();
      for(std::size_t k = 0; k < rs.size(); ++k)
      {
        const std::string r = rs[k].as_str();
        if(r == "voxeldefo" && false) continue;
        for(long long a2 : job["alphas"].ints())
        {
          const DT alpha = DT(a2) / DT(2);
          BMat m = bpattern.clone(LAFEM::CloneMode::Layout);
          for(Index q = 0; q < nb; ++q) for(int i = 0; i < dim; ++i) for(int j = 0; j < dim; ++j) m.val()[q][i][j] = A[(q * Index(dim) + Index(i)) * Index(dim) + Index(j)];
          run_blocked(m, r, name, p, alpha, cf, cub);
          std::vector<DT> f; flat(m, f);
          vj::Value t = cmp_arrays(r.c_str(), A.data(), f.data(), Index(A.size()), 1.0 + alpha, 4 * tole * (1.0 + std::fabs(alpha)));
          t["a"] = a2;
          twice.push(t);
        }
      }
      obs["twice"] = twice;
      obs["vr"] = vroute_obs(job, name, p, A, tole, cf, cub);
      return obs;
    }

    // ---- Burgers parameter combinations (kind "bpar") ------------------------------------------------------
    void voxel_blocked_par(BMat& m, const Par& q, const Cubature::DynamicFactory& cf)
    {
#if C16_VOXEL
      if constexpr (voxel_ok)
      {
        VoxelAssembly::VoxelBurgersAssembler<SpaceT, DT, IT> vox(ctx.test, coloring);
        set_par(vox, q);
        BVec cv = conv_vector(q.field); set_sd(vox, q, cv);
        vox.assemble_matrix1(m, cv, ctx.test, cf, DT(1));
        return;
      }
#endif
      (void)m; (void)q; (void)cf;
      throw std::runtime_error("voxel route is not compiled for this space");
    }
    // the matrix of a parameter set on a route, flattened (scalar: nnz values, blocked: nnz * dim * dim values)
    std::vector<DT> par_flat(const std::string& route, bool blocked, const Par& q, const Cubature::DynamicFactory& cf, const String& cub)
    {
      std::vector<DT> f;
      if(blocked)
      {
        BMat m = bpattern.clone(LAFEM::CloneMode::Layout); m.format();
        if(route == "burgers") burgers_blocked(m, q, cf);
        else if(route == "burgersjob") burgersjob_blocked(m, q, cub);
        else if(route == "voxel") voxel_blocked_par(m, q, cf);
        else throw std::runtime_error("bpar: route " + route);
        flat(m, f);
      }
      else
      {
        Mat m = pattern.clone(LAFEM::CloneMode::Layout); m.format();
        if(route == "burgers") burgers_scalar(m, q, cf);
        else if(route == "burgersjob") burgersjob_scalar(m, q, cub);
        else throw std::runtime_error("bpar: scalar route " + route);
        f.assign(m.val(), m.val() + m.used_elements());
      }
      return f;
    }
    static void set_one(Par& q, const std::string& p, DT v)
    {
      if(p == "nu") q.nu = v; else if(p == "theta") q.theta = v; else if(p == "beta") q.beta = v;
      else if(p == "frechet") q.frechet = v; else if(p == "sd") q.sd = v; else throw std::runtime_error("bpar: parameter " + p);
    }
    // rigorous magnitude of the entries of one term (see vasm16.hpp); streamline diffusion: local_delta <= 2 sd_delta h_T |v_T| / |v|_max
    // <= 2 sd_delta * diam, |(v.grad phi_j)(v.grad phi_i)| summed <= |v|^2 Lmax
    double term_mag(const std::string& p, DT v, int field) const
    {
      const double vm = field_max(field, ctx.w.R, dim) * std::sqrt(double(dim));
      const double a = std::fabs(double(v));
      if(p == "nu") return 2.0 * a * ctx.ti.Lmax;
      if(p == "theta") return a * ctx.ti.Mmax;
      if(p == "beta") return a * vm * std::sqrt(ctx.ti.Mmax * ctx.ti.Lmax);
      if(p == "frechet") return a * double(dim) * ctx.ti.Mmax;
      return 2.0 * a * (2.0 * ctx.w.R * double(dim)) * vm * vm * ctx.ti.Lmax;
    }

    vj::Value bpar_job(const vj::Value& job)
    {
      vj::Value obs = vj::Value::object();
      const String cub = "auto-degree:" + stringify(job["deg"].as_int());
      Cubature::DynamicFactory cf(cub);
      const bool blocked = job["blocked"].as_bool();
      const int field = int(job["field"].as_int());
      const int bd = blocked ? dim : 1;
      Par q; q.defo = job["defo"].as_bool(); q.field = field;
      std::vector<std::pair<std::string, DT>> on;
      double mag = 0.0;
      for(std::size_t k = 0; k < job["on"].size(); ++k)
      {
        const std::string p = job["on"][k].as_str(); const DT v = DT(job["vals"][k].as_int()) / DT(4);
        on.push_back(std::make_pair(p, v)); set_one(q, p, v); mag += term_mag(p, v, field);
      }
      const double tole = CK * EPS * mag;
      const std::string ref = job["ref"].as_str();
      const vj::Value& rs = job["routes"];
      std::map<std::string, std::vector<DT>> M;
      for(std::size_t k = 0; k < rs.size(); ++k) M[rs[k].as_str()] = par_flat(rs[k].as_str(), blocked, q, cf, cub);
      const std::vector<DT>& A = M.at(ref);
      bool nz = false; for(DT x : A) if(x != 0.0) nz = true;
      obs["nz"] = nz;
      vj::Value routes = vj::Value::array(), sum = vj::Value::array(), sd = vj::Value::array();
      for(const auto& kv : M)
      {
        if(kv.first != ref) routes.push(cmp_arrays(kv.first.c_str(), A.data(), kv.second.data(), Index(A.size()), 1.0, 2 * tole));
        // SumOfTerms on the same route
        std::vector<DT> acc(A.size(), DT(0));
        for(const auto& t : on)
        {
          Par q1; q1.field = field; q1.defo = (t.first == "nu") ? q.defo : false; set_one(q1, t.first, t.second);
          const std::vector<DT> f = par_flat(kv.first, blocked, q1, cf, cub);
          for(std::size_t i = 0; i < acc.size(); ++i) acc[i] += f[i];
        }
        vj::Value sv = cmp_arrays(kv.first.c_str(), acc.data(), kv.second.data(), Index(A.size()), 1.0, 4 * tole);
        sum.push(sv);
        // the streamline diffusion operator alone: symmetric, constants in the kernel, positive on x_1, linear in sd_delta
        if(on.size() == 1 && on[0].first == "sd")
        {
          const std::vector<DT>& S = kv.second;
          auto at = [&](Index k, int r, int c) -> double { return S[(k * Index(bd) + Index(r)) * Index(bd) + Index(c)]; };
          const Index n = pattern.rows();
          double asym = 0.0, ker = 0.0; LD quad = 0; double W = 0.0;
          std::vector<long long> e1(std::size_t(dim), 0); e1[0] = 1;
          const std::vector<double> w = interpolate(ctx.w, ctx.test, ctx.tname, e1);
          for(Index i = 0; i < n; ++i)
          {
            std::vector<LD> rowsum(std::size_t(bd * bd), 0);
            for(IT k = pattern.row_ptr()[i]; k < pattern.row_ptr()[i + 1]; ++k)
            {
              const Index jx = pattern.col_ind()[k];
              IT kt = pattern.row_ptr()[jx]; while(kt < pattern.row_ptr()[jx + 1] && pattern.col_ind()[kt] != i) ++kt;
              for(int r = 0; r < bd; ++r) for(int c = 0; c < bd; ++c)
              {
                asym = std::max(asym, kt < pattern.row_ptr()[jx + 1] ? std::fabs(at(k, r, c) - at(kt, c, r)) : HUGE_VAL);
                rowsum[std::size_t(r * bd + c)] += LD(at(k, r, c));
              }
              quad += LD(w[i]) * LD(at(k, 0, 0)) * LD(w[jx]); W += std::fabs(w[i]) * std::fabs(w[jx]);
            }
            for(LD x : rowsum) ker = std::max(ker, std::fabs(double(x)));
          }
          Par q2 = q; q2.sd = DT(2) * q.sd;
          const std::vector<DT> S2 = par_flat(kv.first, blocked, q2, cf, cub);
          vj::Value lin = cmp_arrays(kv.first.c_str(), S.data(), S2.data(), Index(S.size()), 2.0, 4 * tole);
          vj::Value o = vj::Value::object();
          o["r"] = kv.first; o["sym"] = (asym <= 2 * tole); o["ker"] = (ker <= tole * double(max_row_len(pattern)));
          o["pos"] = (double(quad) > 16.0 * tole * W); o["lin"] = lin["within"];
          sd.push(o);
        }
      }
      obs["routes"] = routes; obs["pairs"] = vj::Value::array(); obs["twice"] = vj::Value::array(); obs["sum"] = sum; obs["sd"] = sd;
      return obs;
    }
  };

  template<class W_> void dump_mesh_min(const W_& w, vj::Value& out)
  {
    constexpr int dim = W_::dim;
    const auto& mesh = *w.mesh;
    vj::Value n = vj::Value::array();
    for(int d = 0; d <= dim; ++d) n.push(vj::Value((long long)mesh.get_num_entities(d)));
    out["n"] = n;
    out["G"] = vj::Value((long long)(1ll << w.K));
    vj::Value X = vj::Value::array();
    const auto& vs = mesh.get_vertex_set();
    for(Index i = 0; i < vs.get_num_vertices(); ++i)
    {
      vj::Value row = vj::Value::array();
      for(int k = 0; k < dim; ++k) row.push(vj::Value((long long)std::llround(std::ldexp(double(vs[i][k]), w.K))));
      X.push(row);
    }
    out["X"] = X;
    out["vc"] = jindex(mesh.template get_index_set<dim, 0>());
    out["ec"] = jindex(mesh.template get_index_set<dim, 1>());
    if constexpr (dim == 3) out["fc"] = jindex(mesh.template get_index_set<dim, 2>());
    else out["fc"] = vj::Value::array();
  }

  template<class W_, class TS_>
  vj::Value run_special_space(const vj::Value& c, W_& w)
  {
    typedef typename TS_::Type Space;
    Space space(*w.trafo);
    vj::Value out = vj::Value::object();
    for(const char* k : {"id", "shape", "dim", "class", "test", "trial"}) out[k] = c[k];
    dump_mesh_min(w, out);
    out["nt"] = vj::Value((long long)space.get_num_dofs());
    out["nr"] = vj::Value((long long)space.get_num_dofs());
    out["td"] = jdofs(space);
    out["rd"] = out["td"];
    out["pats"] = vj::Value::array();

    Mat pattern;
    Assembly::SymbolicAssembler::assemble_matrix_std1(pattern, space);
    typedef PairCtx<W_, Space, Space> Ctx;
    Ctx ctx{w, space, space, TS_::name(), TS_::name(), c["class"].as_str(), true, SpaceInfo(), SpaceInfo(), {}, {}};
    ctx.ti = space_info(space, 6, true);
    ctx.ri = ctx.ti;
    typename SpecialRunner<Ctx>::BMat bpattern;
    Assembly::SymbolicAssembler::assemble_matrix_std1(bpattern, space);

    Assembly::DomainAssembler<typename W_::TrafoType> dom(*w.trafo);
    dom.set_max_worker_threads(0);
    dom.compile_all_elements();

    SpecialRunner<Ctx> run{ctx, dom, pattern, bpattern, greedy_coloring(*w.mesh)};
    vj::Value jobs = vj::Value::array();
    const vj::Value& jl = c["jobs"];
    for(std::size_t k = 0; k < jl.size(); ++k)
    {
      vj::Value j = vj::Value::object();
      j["spec"] = jl[k];
      const std::string kind = jl[k]["k"].as_str();
      j["obs"] = (kind == "mat") ? run.mat_job(jl[k]) : (kind == "bpar") ? run.bpar_job(jl[k]) : run.blk_job(jl[k]);
      jobs.push(j);
    }
    out["jobs"] = jobs;
    return out;
  }

  // -------------------------------------------------------------------------------------------------------
  // gradient / divergence special assemblers on a velocity/pressure pair (test = velocity, trial = pressure)
  // -------------------------------------------------------------------------------------------------------
  template<class W_, class VS_, class PS_>
  vj::Value run_gd_pair(const vj::Value& c, W_& w)
  {
    typedef typename VS_::Type Velo; typedef typename PS_::Type Pres;
    constexpr int dim = W_::dim;
    typedef LAFEM::SparseMatrixBCSR<DT, IT, dim, 1> MatB;
    typedef LAFEM::SparseMatrixBCSR<DT, IT, 1, dim> MatD;
    Velo velo(*w.trafo); Pres pres(*w.trafo);
    vj::Value out = vj::Value::object();
    for(const char* k : {"id", "shape", "dim", "class", "test", "trial"}) out[k] = c[k];
    dump_mesh_min(w, out);
    out["nt"] = vj::Value((long long)velo.get_num_dofs());
    out["nr"] = vj::Value((long long)pres.get_num_dofs());
    out["td"] = jdofs(velo);
    out["rd"] = jdofs(pres);
    out["pats"] = vj::Value::array();
    Mat pattern;
    Assembly::SymbolicAssembler::assemble_matrix_std2(pattern, velo, pres);
    const SpaceInfo ti = space_info(velo, 6, true), ri = space_info(pres, 6, std::string(PS_::name()) != "disc0");
    const double mag = op_mag("testderiv", ti, ri, 1.0);
    const Index nnz = pattern.used_elements();

    vj::Value jobs = vj::Value::array();
    const vj::Value& jl = c["jobs"];
    for(std::size_t q = 0; q < jl.size(); ++q)
    {
      const vj::Value& job = jl[q];
      if(job["k"].as_str() != "gd") throw std::runtime_error("only gd jobs on mixed pairs in the special harness");
      Cubature::DynamicFactory cf("auto-degree:" + stringify(job["deg"].as_int()));
      // the scalar matrices S_m = int p d_m v on the classic route
      std::vector<Mat> S;
      for(int m = 0; m < dim; ++m)
      {
        Mat a = pattern.clone(LAFEM::CloneMode::Layout); a.format();
        Assembly::Common::TestDerivativeOperator op(int(job["blk"][std::size_t(m)]["p"][0].as_int()));
        if(job["blk"][std::size_t(m)]["name"].as_str() != "testderiv") throw std::runtime_error("gd job: unexpected block operator");
        Assembly::BilinearOperatorAssembler::assemble_matrix2(a, op, velo, pres, cf, DT(1));
        S.push_back(std::move(a));
      }
      auto s_at = [&](int m, Index i, Index j) -> double
      {
        for(IT k = pattern.row_ptr()[i]; k < pattern.row_ptr()[i + 1]; ++k) if(pattern.col_ind()[k] == j) return S[std::size_t(m)].val()[k];
        return 0.0;
      };
      vj::Value sc = vj::Value::array(), vrobs = vj::Value::array();
      const vj::Value& sl = job["scales"];
      for(std::size_t z = 0; z < sl.size(); ++z)
      {
        const DT sb = DT(sl[z][0].as_int()) / DT(2), sd = DT(sl[z][1].as_int()) / DT(2);
        const double tol = 2 * CK * EPS * mag * std::max(1.0, std::max(std::fabs(sb), std::fabs(sd)));
        MatB B; MatD D;
        Assembly::GradPresDivVeloAssembler::assemble(B, D, velo, pres, cf, sb, sd);
        vj::Value o = vj::Value::object();
        // B_m = sb * S_m (same graph std2(V, P), same order)
        double mb = (B.used_elements() == nnz) ? 0.0 : HUGE_VAL;
        if(mb == 0.0)
          for(Index k = 0; k < nnz; ++k)
          {
            if(B.col_ind()[k] != pattern.col_ind()[k]) mb = HUGE_VAL;
            for(int m = 0; m < dim; ++m) mb = std::max(mb, std::fabs(B.val()[k][m][0] - sb * S[std::size_t(m)].val()[k]));
          }
        o["b"] = (mb <= tol); note_margin(mb, tol);
        // D = (sd / sb) * B^T entrywise (GradDivAdjoint), through the scalar matrices: D_m(i,j) = sd * S_m(j,i)
        double md = 0.0; Index cnt = 0;
        for(Index i = 0; i < D.rows(); ++i)
          for(IT k = D.row_ptr()[i]; k < D.row_ptr()[i + 1]; ++k, ++cnt)
            for(int m = 0; m < dim; ++m) md = std::max(md, std::fabs(D.val()[k][0][m] - sd * s_at(m, D.col_ind()[k], i)));
        if(cnt != nnz || D.rows() != pres.get_num_dofs() || D.columns() != velo.get_num_dofs()) md = HUGE_VAL;
        o["adj"] = (md <= tol); note_margin(md, tol);
        // GradOperatorAssembler with test = pressure, trial = velocity:  G_m(i,j) = scale * int d_m(u_j) q_i = scale * S_m(j,i)
        MatB G;
        Assembly::SymbolicAssembler::assemble_matrix_std2(G, pres, velo);
        G.format();
        Assembly::GradOperatorAssembler::assemble(G, pres, velo, cf, sd);
        double mg = 0.0;
        for(Index i = 0; i < G.rows(); ++i)
          for(IT k = G.row_ptr()[i]; k < G.row_ptr()[i + 1]; ++k)
            for(int m = 0; m < dim; ++m) mg = std::max(mg, std::fabs(G.val()[k][m][0] - sd * s_at(m, G.col_ind()[k], i)));
        o["g"] = (mg <= tol); note_margin(mg, tol);
        // a repeated call into the same, already filled matrices: both assemblers document overwrite semantics
        vj::Value rep = vj::Value::array();
        {
          MatB B1 = B.clone(LAFEM::CloneMode::Deep); MatD D1 = D.clone(LAFEM::CloneMode::Deep);
          Assembly::GradPresDivVeloAssembler::assemble(B, D, velo, pres, cf, sb, sd);      // onto the first result
          bool same = true;
          for(Index k = 0; k < B.used_elements(); ++k) for(int m = 0; m < dim; ++m) if(B.val()[k][m][0] != B1.val()[k][m][0]) same = false;
          for(Index k = 0; k < D.used_elements(); ++k) for(int m = 0; m < dim; ++m) if(D.val()[k][0][m] != D1.val()[k][0][m]) same = false;
          for(Index k = 0; k < B.used_elements(); ++k) for(int m = 0; m < dim; ++m) B.val()[k][m][0] = DT(7);
          for(Index k = 0; k < D.used_elements(); ++k) for(int m = 0; m < dim; ++m) D.val()[k][0][m] = DT(-3);
          Assembly::GradPresDivVeloAssembler::assemble(B, D, velo, pres, cf, sb, sd);      // onto foreign contents
          for(Index k = 0; k < B.used_elements(); ++k) for(int m = 0; m < dim; ++m) if(B.val()[k][m][0] != B1.val()[k][m][0]) same = false;
          for(Index k = 0; k < D.used_elements(); ++k) for(int m = 0; m < dim; ++m) if(D.val()[k][0][m] != D1.val()[k][0][m]) same = false;
          vj::Value r1 = vj::Value::object(); r1["r"] = "gpdv"; r1["same"] = same; rep.push(r1);
          MatB G1 = G.clone(LAFEM::CloneMode::Deep);
          Assembly::GradOperatorAssembler::assemble(G, pres, velo, cf, sd);
          bool sameg = true;
          for(Index k = 0; k < G.used_elements(); ++k) for(int m = 0; m < dim; ++m) if(G.val()[k][m][0] != G1.val()[k][m][0]) sameg = false;
          for(Index k = 0; k < G.used_elements(); ++k) for(int m = 0; m < dim; ++m) G.val()[k][m][0] = DT(5);
          Assembly::GradOperatorAssembler::assemble(G, pres, velo, cf, sd);
          for(Index k = 0; k < G.used_elements(); ++k) for(int m = 0; m < dim; ++m) if(G.val()[k][m][0] != G1.val()[k][m][0]) sameg = false;
          vj::Value r2 = vj::Value::object(); r2["r"] = "gradop"; r2["same"] = sameg; rep.push(r2);
        }
        o["rep"] = rep;
        sc.push(o);
        // matrix-free: GradOperatorAssembler::assemble(blocked vector, scalar vector) adds scale * G x onto the vector
        if(z + 1 == sl.size() && job.has("vroutes") && job["vroutes"].size() > 0)
        {
          typedef LAFEM::DenseVectorBlocked<DT, IT, dim> BV;
          const Index np = pres.get_num_dofs(), nv = velo.get_num_dofs();
          auto zero_bv = [&]() { BV y(np); for(Index i = 0; i < np; ++i) { typename BV::ValueType t(DT(0)); y(i, t); } return y; };
          auto gx = [&](const std::vector<double>& x, std::vector<DT>& y, std::vector<double>& wr)
          {
            y.assign(np * Index(dim), DT(0)); wr.assign(np, 0.0);
            for(Index i = 0; i < np; ++i)
            {
              LD a[dim]; for(int m = 0; m < dim; ++m) a[m] = 0;
              for(IT k = G.row_ptr()[i]; k < G.row_ptr()[i + 1]; ++k)
              {
                wr[i] += std::fabs(x[G.col_ind()[k]]);
                for(int m = 0; m < dim; ++m) a[m] += LD(G.val()[k][m][0]) * LD(x[G.col_ind()[k]]);
              }
              for(int m = 0; m < dim; ++m) y[i * Index(dim) + Index(m)] = DT(a[m]);
            }
          };
          auto call = [&](BV& y, const std::vector<double>& x, DT scale)
          {
            Vec xv(nv); for(Index jx = 0; jx < nv; ++jx) xv(jx, DT(x[jx]));
            Assembly::GradOperatorAssembler::assemble(y, xv, pres, velo, cf, scale);
          };
          auto flatv = [&](const BV& y, std::vector<DT>& out) { out.resize(np * Index(dim)); for(Index i = 0; i < np; ++i) { const auto t = y(i); for(int m = 0; m < dim; ++m) out[i * Index(dim) + Index(m)] = t[m]; } };
          std::vector<double> x(nv); for(Index jx = 0; jx < nv; ++jx) x[jx] = double(long((jx * 7 + 3) % 16) - 8) / 8.0;
          std::vector<DT> ref, got; std::vector<double> wr;
          gx(x, ref, wr);
          double rl = 1.0; for(double t : wr) rl = std::max(rl, t);
          const double asd = std::max(1.0, std::fabs(double(sd)));
          BV y = zero_bv(); call(y, x, sd); flatv(y, got);
          vj::Value v1 = vj::Value::object(); v1["r"] = "gradopvec";
          v1["mv"] = cmp_arrays("gradopvec", ref.data(), got.data(), Index(ref.size()), 1.0, 2 * CK * EPS * mag * asd * rl)["within"];
          call(y, x, DT(-0.5) * sd); flatv(y, got);
          v1["ow"] = cmp_arrays("gradopvec", ref.data(), got.data(), Index(ref.size()), -0.5, 4 * CK * EPS * mag * asd * rl)["within"];
          v1["acc"] = cmp_arrays("gradopvec", ref.data(), got.data(), Index(ref.size()), 0.5, 4 * CK * EPS * mag * asd * rl)["within"];
          // ApplyBilinear: (q e_row)^T gradopvec(u) / scale = int d_row(u) q
          vj::Value ids = vj::Value::array();
          std::map<std::vector<long long>, std::pair<std::vector<DT>, std::vector<double>>> ycache;
          std::map<std::vector<long long>, std::vector<double>> qcache;
          const vj::Value& il = job["vids"];
          for(std::size_t q = 0; q < il.size(); ++q)
          {
            const auto ue = il[q]["u"].ints(), qe = il[q]["v"].ints();
            if(!ycache.count(ue))
            {
              const std::vector<double> U = interpolate(w, velo, VS_::name(), ue);
              BV yu = zero_bv(); call(yu, U, sd);
              std::vector<DT> fy; flatv(yu, fy);
              std::vector<DT> dummy; std::vector<double> wu; gx(U, dummy, wu);
              ycache[ue] = std::make_pair(fy, wu);
            }
            if(!qcache.count(qe)) qcache[qe] = interpolate(w, pres, PS_::name(), qe);
            const auto& yu = ycache[ue]; const auto& Q = qcache[qe];
            const int row = int(il[q]["row"].as_int()) - 1;
            LD val = 0, W = 0;
            for(Index i = 0; i < np; ++i) { val += LD(Q[i]) * LD(yu.first[i * Index(dim) + Index(row)]); W += LD(std::fabs(Q[i])) * LD(yu.second[i]); }
            ids.push(scaled(val / LD(sd), spec_scale(il[q]["mode"].as_str(), w.K, int(il[q]["fd"].as_int()), dim), CK * EPS * mag * double(W)));
          }
          v1["ids"] = ids; v1["probes"] = vj::Value::array();
          vrobs.push(v1);
        }
      }
      vj::Value j = vj::Value::object(), obs = vj::Value::object();
      obs["sc"] = sc; obs["vr"] = vrobs;
      bool nz = false; for(int m = 0; m < dim; ++m) for(Index k = 0; k < nnz; ++k) if(S[std::size_t(m)].val()[k] != 0.0) nz = true;
      obs["nz"] = nz;
      j["spec"] = job; j["obs"] = obs;
      jobs.push(j);
    }
    out["jobs"] = jobs;
    return out;
  }

  template<class Shape_>
  vj::Value run_special_case(const vj::Value& c)
  {
    typedef World<Shape_> W;
    typedef typename W::TrafoType Trafo;
    g_margin = 0.0;
    W w;
    w.build(c["mesh"]);
    const std::string s = c["test"].as_str(), t = c["trial"].as_str();
    vj::Value out;
    if(s == "lagrange2" && t == "disc1") out = run_gd_pair<W, SpL2<Trafo>, SpD1<Trafo>>(c, w);
    else if(s == "crrt" && t == "disc0") out = run_gd_pair<W, SpCR<Trafo>, SpD0<Trafo>>(c, w);
    else if(s != t) throw std::runtime_error("pair " + s + "/" + t + " is not compiled into the special-route harness");
    else if(s == "lagrange1") out = run_special_space<W, SpL1<Trafo>>(c, w);
    else if(s == "lagrange2") out = run_special_space<W, SpL2<Trafo>>(c, w);
    else if(s == "crrt") out = run_special_space<W, SpCR<Trafo>>(c, w);
    else throw std::runtime_error("space " + s + " is not compiled into the special-route harness");
    std::ofstream f(c["out"].as_str());
    vj::write(f, out);
    f << "\n";
    if(!f) throw std::runtime_error("cannot write " + c["out"].as_str());
    vj::Value r = vh::ok();
    r["margin"] = g_margin;
    return r;
  }
}
