#define C15_LINE_GROUP 1
#include "c15_line.cpp"
