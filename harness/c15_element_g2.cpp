#define C15_GROUP 2
#include "c15_element.cpp"
