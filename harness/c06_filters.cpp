// C06 replayer: executes the behaviours generated from spec/FiltersVec.tla and spec/FiltersMat.tla on the
// real LAFEM filter classes and compares the vector / matrix after every call with the state predicted by
// the specification.  All values are dyadic (integer numerators over the power-of-two denominator `den`
// chosen by the specification), so every correct floating point evaluation is exact and the comparison
// is ==.  The float instantiation is run only when the specification certifies (field f32) that every
// intermediate quantity fits a 24 bit mantissa.
//
// Composed filters: FilterChain / FilterSequence / TupleFilter / PowerFilter are instantiated over
// VarFilter<DT,IT,BS>, a thin duck-typed holder that forwards every call to ONE of the real atom filters
// (None, Unit, Slip, Mean) selected at run time - so every order of parts the specification enumerates
// runs through the real meta-filter code with a bounded number of template instantiations.  A few
// heterogeneous chains of the real classes are instantiated in addition (real_pair_*).
#include "vc06.hpp"

// mk(TT<D,I>()) builds the filter of the behaviour for data/index types D, I; use(f) applies it.
// clone_into (the in-place clone(other, mode)) is only requested for classes whose in-place clone can be instantiated.
template<class DT, class IT, class MK, class USE>
bool with_lifecycle(Ctx& k, MK mk, USE use, const std::string& tag)
{
  typedef decltype(mk(TT<DT, IT>())) FT;
  const std::string& lc = k.lc;
  if(lc == "none") { FT f = mk(TT<DT, IT>()); return use(f, tag); }
  if(lc == "clone_deep" || lc == "clone_weak" || lc == "clone_shallow")
  {
    CloneMode cm = lc == "clone_deep" ? CloneMode::Deep : (lc == "clone_weak" ? CloneMode::Weak : CloneMode::Shallow);
    FT f = mk(TT<DT, IT>());
    FT g = f.clone(cm);
    return use(g, tag + "/" + lc);          // the source stays alive (shared arrays)
  }
  if constexpr (LcCaps<FT>::conv_same)
  {
    if(lc == "convert_same") { FT f = mk(TT<DT, IT>()); FT g; g.convert(f); return use(g, tag + "/" + lc); }
  }
  if constexpr (LcCaps<FT>::conv_other)
  {
    if(lc == "convert_other")
    {
      typedef typename OtherT<DT, IT>::Type O;
      auto f = mk(O()); FT g; g.convert(f);
      return use(g, tag + "/" + lc);
    }
  }
  if(lc == "move_ctor") { FT f = mk(TT<DT, IT>()); FT g(std::move(f)); return use(g, tag + "/" + lc); }
  if(lc == "move_assign") { FT f = mk(TT<DT, IT>()); FT g; g = std::move(f); return use(g, tag + "/" + lc); }
  return k.fail("life-cycle operation " + lc + " is not offered by this class");
}
template<class DT, class IT, class MK, class USE>
bool with_lifecycle_ci(Ctx& k, MK mk, USE use, const std::string& tag)     // ... including the in-place clone
{
  typedef decltype(mk(TT<DT, IT>())) FT;
  if(k.lc == "clone_into") { FT f = mk(TT<DT, IT>()); FT g; g.clone(f, CloneMode::Deep); return use(g, tag + "/clone_into"); }
  return with_lifecycle<DT, IT>(k, mk, use, tag);
}

// ... including the in-place clone only where the class offers an instantiable one (capability CI)
template<bool CI, class DT, class IT, class MK, class USE>
bool with_lifecycle_if(Ctx& k, MK mk, USE use, const std::string& tag)
{
  if constexpr (CI) return with_lifecycle_ci<DT, IT>(k, mk, use, tag);
  else return with_lifecycle<DT, IT>(k, mk, use, tag);
}

template<class DT, class IT, int BS>
bool run_flat(Ctx& k, int mode, const std::string& tag)
{
  const vj::Value& f = k.c["f"]; const std::string kind = f["kind"].as_str();
  Index nb = Index(k.c["n"].as_int()); long long den = k.c["den"].as_int();
  IVec v0 = k.c["v0"].ints();
  auto vec = VecOf<DT, IT, BS>::make(v0, den);
  auto use = [&](const auto& g, const std::string& t) { return two_calls(k, g, vec, false, t); };
  if(kind == "chain")
  {
    const vj::Value& fs = f["fs"];
    if(fs.size() == 1)
      return with_lifecycle_if<cap_chain_clone_into, DT, IT>(k, [&](auto t) { typedef decltype(t) T; typedef VarFilter<typename T::DT, typename T::IT, BS> VF;
        FilterChain<VF> ch; ch.template at<0>() = build_var<typename T::DT, typename T::IT, BS>(fs[0], nb, mode); return ch; }, use, tag + "/chain1");
    if(fs.size() == 2)
      return with_lifecycle_if<cap_chain_clone_into, DT, IT>(k, [&](auto t) { typedef decltype(t) T; typedef typename T::DT D; typedef typename T::IT I; typedef VarFilter<D, I, BS> VF;
        if(mode == 1) return FilterChain<VF, VF>(build_var<D, I, BS>(fs[0], nb, mode), build_var<D, I, BS>(fs[1], nb, mode));   // the public two-part constructor
        FilterChain<VF, VF> ch; ch.template at<0>() = build_var<D, I, BS>(fs[0], nb, mode); ch.template at<1>() = build_var<D, I, BS>(fs[1], nb, mode); return ch; }, use, tag + "/chain2");
    if(fs.size() == 3)
      return with_lifecycle_if<cap_chain_clone_into, DT, IT>(k, [&](auto t) { typedef decltype(t) T; typedef typename T::DT D; typedef typename T::IT I; typedef VarFilter<D, I, BS> VF;
        FilterChain<VF, VF, VF> ch; ch.template at<0>() = build_var<D, I, BS>(fs[0], nb, mode); ch.template at<1>() = build_var<D, I, BS>(fs[1], nb, mode);
        ch.template at<2>() = build_var<D, I, BS>(fs[2], nb, mode); return ch; }, use, tag + "/chain3");
    return k.fail("unsupported chain length");
  }
  if(kind == "seq")
  {
    const vj::Value& fs = f["fs"]; const vj::Value& names = f["names"];
    bool dup = false;
    bool ok = with_lifecycle_if<cap_seq_clone_into, DT, IT>(k, [&](auto t) { typedef decltype(t) T; typedef typename T::DT D; typedef typename T::IT I; typedef VarFilter<D, I, BS> VF;
      FilterSequence<VF> sq;
      if(mode == 0) { for(std::size_t j = 0; j < fs.size(); ++j) sq.push_back(std::make_pair(String(names[j].as_str()), build_var<D, I, BS>(fs[j], nb, mode))); return sq; }
      // create the named slots first (in order), then fill them in reverse order through find_or_add
      std::deque<String> ids; for(std::size_t j = 0; j < fs.size(); ++j) ids.push_back(String(names[j].as_str()));
      FilterSequence<VF> s2(ids);
      for(std::size_t j = fs.size(); j-- > 0;) s2.find_or_add(String(names[j].as_str())) = build_var<D, I, BS>(fs[j], nb, mode);
      if(s2.size() != fs.size()) dup = true;
      return s2; }, use, tag + "/seq");
    if(dup) return k.fail(tag + ": find_or_add created a duplicate slot");
    return ok;
  }
  // a single atom: called directly on the real class
  if(kind == "none")
  {
    if constexpr (BS == 1) return with_lifecycle_ci<DT, IT>(k, [&](auto t) { typedef decltype(t) T; return NoneFilter<typename T::DT, typename T::IT>(); }, use, tag + "/none");
    else return with_lifecycle_ci<DT, IT>(k, [&](auto t) { typedef decltype(t) T; return NoneFilterBlocked<typename T::DT, typename T::IT, BS>(); }, use, tag + "/none");
  }
  if(kind == "unit")
  {
    if constexpr (BS == 1) return with_lifecycle_ci<DT, IT>(k, [&](auto t) { typedef decltype(t) T; return build_unit1<typename T::DT, typename T::IT>(f, nb, mode); }, use, tag + "/unit");
    else return with_lifecycle_ci<DT, IT>(k, [&](auto t) { typedef decltype(t) T; return build_unitb<typename T::DT, typename T::IT, BS>(f, nb, mode); }, use, tag + "/unit");
  }
  if(kind == "mean")
  {
    if constexpr (BS == 1) return with_lifecycle_ci<DT, IT>(k, [&](auto t) { typedef decltype(t) T; return build_mean1<typename T::DT, typename T::IT>(f, mode); }, use, tag + "/mean");
    else return with_lifecycle_ci<DT, IT>(k, [&](auto t) { typedef decltype(t) T; return build_meanb<typename T::DT, typename T::IT, BS>(f, mode); }, use, tag + "/mean");
  }
  if(kind == "slip")
  {
    if constexpr (BS > 1)
      return with_lifecycle_ci<DT, IT>(k, [&](auto t) { typedef decltype(t) T; return build_slip<typename T::DT, typename T::IT, BS>(f, nb, mode); },
        [&](const SlipFilter<DT, IT, BS>& g, const std::string& t) { return two_calls(k, g, vec, false, t) && ((mode == 1 && f["idx"].size() == 0) || slip_nu_is(k, g, f, t)); }, tag + "/slip");
  }
  return k.fail("unknown atom");
}

// chains of the real classes (no holder in between) for the part orders that occur in applications
template<class DT, class IT, int BS>
bool run_real_pairs(Ctx& k, int mode, const std::string& tag)
{
  const vj::Value& f = k.c["f"];
  if(f["kind"].as_str() != "chain" || f["fs"].size() != 2) return true;
  const vj::Value& f0 = f["fs"][0]; const vj::Value& f1 = f["fs"][1];
  const std::string k0 = f0["kind"].as_str(), k1 = f1["kind"].as_str();
  Index nb = Index(k.c["n"].as_int()); long long den = k.c["den"].as_int();
  auto vec = VecOf<DT, IT, BS>::make(k.c["v0"].ints(), den);
  auto use = [&](const auto& g, const std::string& t) { return two_calls(k, g, vec, false, t); };
  if constexpr (BS == 1)
  {
    if(k0 == "unit" && k1 == "mean") return with_lifecycle_if<cap_chain_clone_into, DT, IT>(k, [&](auto t) { typedef decltype(t) T; typedef typename T::DT D; typedef typename T::IT I;
      return FilterChain<UnitFilter<D, I>, MeanFilter<D, I>>(build_unit1<D, I>(f0, nb, mode), build_mean1<D, I>(f1, mode)); }, use, tag + "/real<unit,mean>");
    if(k0 == "mean" && k1 == "unit") return with_lifecycle_if<cap_chain_clone_into, DT, IT>(k, [&](auto t) { typedef decltype(t) T; typedef typename T::DT D; typedef typename T::IT I;
      return FilterChain<MeanFilter<D, I>, UnitFilter<D, I>>(build_mean1<D, I>(f0, mode), build_unit1<D, I>(f1, nb, mode)); }, use, tag + "/real<mean,unit>");
    if(k0 == "unit" && k1 == "unit") return with_lifecycle_if<cap_chain_clone_into, DT, IT>(k, [&](auto t) { typedef decltype(t) T; typedef typename T::DT D; typedef typename T::IT I;
      return FilterChain<UnitFilter<D, I>, UnitFilter<D, I>>(build_unit1<D, I>(f0, nb, mode), build_unit1<D, I>(f1, nb, mode)); }, use, tag + "/real<unit,unit>");
  }
  else
  {
    if(k0 == "slip" && k1 == "unit") return with_lifecycle_if<cap_chain_clone_into, DT, IT>(k, [&](auto t) { typedef decltype(t) T; typedef typename T::DT D; typedef typename T::IT I;
      return FilterChain<SlipFilter<D, I, BS>, UnitFilterBlocked<D, I, BS>>(build_slip<D, I, BS>(f0, nb, mode), build_unitb<D, I, BS>(f1, nb, mode)); }, use, tag + "/real<slip,unit>");
    if(k0 == "unit" && k1 == "slip") return with_lifecycle_if<cap_chain_clone_into, DT, IT>(k, [&](auto t) { typedef decltype(t) T; typedef typename T::DT D; typedef typename T::IT I;
      return FilterChain<UnitFilterBlocked<D, I, BS>, SlipFilter<D, I, BS>>(build_unitb<D, I, BS>(f0, nb, mode), build_slip<D, I, BS>(f1, nb, mode)); }, use, tag + "/real<unit,slip>");
  }
  return true;
}

template<class DT, class IT, int BS>
bool run_tuple(Ctx& k, int mode, const std::string& tag)
{
  const vj::Value& f = k.c["f"]; const std::string fam = k.c["fam"].as_str();
  long long den = k.c["den"].as_int();
  Index n0 = Index(k.c["n"][0].as_int()), n1 = Index(k.c["n"][1].as_int());
  IVec a0 = k.c["v0"][0].ints(), a1 = k.c["v0"][1].ints();
  typedef TupleVector<typename VecOf<DT, IT, 1>::Type, typename VecOf<DT, IT, BS>::Type> TV;
  TV vec(VecOf<DT, IT, 1>::make(a0, den), VecOf<DT, IT, BS>::make(a1, den));
  auto use = [&](const auto& g, const std::string& t) { return two_calls(k, g, vec, true, t); };
  if(fam == "tuple")
    return with_lifecycle_ci<DT, IT>(k, [&](auto t) { typedef decltype(t) T; typedef typename T::DT D; typedef typename T::IT I; typedef VarFilter<D, I, 1> VF1; typedef VarFilter<D, I, BS> VFB;
      if(mode == 1) return TupleFilter<VF1, VFB>(build_var<D, I, 1>(f["fs"][0], n0, mode), build_var<D, I, BS>(f["fs"][1], n1, mode));
      TupleFilter<VF1, VFB> tf; tf.template at<0>() = build_var<D, I, 1>(f["fs"][0], n0, mode); tf.template at<1>() = build_var<D, I, BS>(f["fs"][1], n1, mode); return tf; }, use, tag + "/tuple");
  if(fam == "nest")
    return with_lifecycle_if<cap_chain_clone_into, DT, IT>(k, [&](auto t) { typedef decltype(t) T; typedef typename T::DT D; typedef typename T::IT I; typedef VarFilter<D, I, 1> VF1; typedef VarFilter<D, I, BS> VFB;
      TupleFilter<FilterChain<VF1, VF1>, VFB> tf;
      tf.template at<0>().template at<0>() = build_var<D, I, 1>(f["fs"][0]["fs"][0], n0, mode);
      tf.template at<0>().template at<1>() = build_var<D, I, 1>(f["fs"][0]["fs"][1], n0, mode);
      tf.template at<1>() = build_var<D, I, BS>(f["fs"][1], n1, mode); return tf; }, use, tag + "/nest");
  return k.fail("unknown tuple family " + fam);
}

template<class DT, class IT>
bool run_power(Ctx& k, int mode, const std::string& tag)
{
  const vj::Value& f = k.c["f"]; long long den = k.c["den"].as_int();
  Index n0 = Index(k.c["n"][0].as_int()), n1 = Index(k.c["n"][1].as_int());
  PowerVector<typename VecOf<DT, IT, 1>::Type, 2> vec;
  vec.template at<0>() = VecOf<DT, IT, 1>::make(k.c["v0"][0].ints(), den);
  vec.template at<1>() = VecOf<DT, IT, 1>::make(k.c["v0"][1].ints(), den);
  auto use = [&](const auto& g, const std::string& t) { return two_calls(k, g, vec, true, t); };
  return with_lifecycle_if<cap_power_clone_into, DT, IT>(k, [&](auto t) { typedef decltype(t) T; typedef typename T::DT D; typedef typename T::IT I;
    PowerFilter<VarFilter<D, I, 1>, 2> pf; pf.template at<0>() = build_var<D, I, 1>(f["fs"][0], n0, mode); pf.template at<1>() = build_var<D, I, 1>(f["fs"][1], n1, mode); return pf; }, use, tag + "/power");
}

template<class DT, class IT>
bool run_vec_typed(Ctx& k, const std::string& tag)
{
  const std::string fam = k.c["fam"].as_str();
  for(int mode = 0; mode < 2; ++mode)
  {
    std::string t = tag + "/m" + std::to_string(mode);
    bool ok = true;
    if(fam == "tuple" || fam == "nest")
    {
      int bs = int(k.c["f"]["fs"][1]["bs"].as_int());
      if(bs == 2) ok = run_tuple<DT, IT, 2>(k, mode, t); else if(bs == 3) ok = run_tuple<DT, IT, 3>(k, mode, t); else return k.fail("tuple block size");
    }
    else if(fam == "power") ok = run_power<DT, IT>(k, mode, t);
    else
    {
      int bs = int(k.c["f"]["bs"].as_int());
      if(bs == 1) ok = run_flat<DT, IT, 1>(k, mode, t) && run_real_pairs<DT, IT, 1>(k, mode, t);
      else if(bs == 2) ok = run_flat<DT, IT, 2>(k, mode, t) && run_real_pairs<DT, IT, 2>(k, mode, t);
      else if(bs == 3) ok = run_flat<DT, IT, 3>(k, mode, t) && run_real_pairs<DT, IT, 3>(k, mode, t);
      else return k.fail("block size");
    }
    if(!ok) return false;
  }
  return true;
}

// ------------------------------------------------------------------------------------------------
// matrix cases
// ------------------------------------------------------------------------------------------------
// entry-free matrices: arrays = 0 -> the dimension-only container (no arrays at all; this is also what the
// graph constructor produces for an empty graph), arrays = 1 -> allocated arrays with zero stored entries
template<class DT, class IT>
SparseMatrixCSR<DT, IT> build_csr(Index m, Index n, const vj::Value& rep, int arrays)
{
  if(rep["ci"].size() > 0) return make_csr<DT, IT>(m, n, rep, 0);
  if(arrays == 0 || m == 0 || n == 0) return SparseMatrixCSR<DT, IT>(m, n);
  SparseMatrixCSR<DT, IT> a(m, n, Index(0));
  for(Index i = 0; i <= m; ++i) a.row_ptr()[i] = IT(0);
  return a;
}
template<class DT, class IT, int BH, int BW>
SparseMatrixBCSR<DT, IT, BH, BW> build_bcsr(Index m, Index n, const vj::Value& rep, int arrays)
{
  if(rep["ci"].size() > 0) return make_bcsr<DT, IT, BH, BW>(m, n, rep);
  if(arrays == 0 || m == 0 || n == 0) return SparseMatrixBCSR<DT, IT, BH, BW>(m, n);
  SparseMatrixBCSR<DT, IT, BH, BW> a(m, n, Index(0));
  for(Index i = 0; i <= m; ++i) a.row_ptr()[i] = IT(0);
  return a;
}

template<class MT> IVec raw_vals(const MT& a)
{
  IVec r; const auto& es = a.get_elements(); const auto& ess = a.get_elements_size();
  if(es.empty()) return r;
  for(Index t = 0; t < ess[0]; ++t) { double x = double(es[0][t]); long long q = (long long)std::llround(x); if(double(q) != x) q = 987654321; r.push_back(q); }
  return r;
}
template<class MT> bool layout_is(const MT& a, const vj::Value& rep)
{
  const auto& is = a.get_indices(); const auto& iss = a.get_indices_size();
  IVec rp = rep["rp"].ints(), ci = rep["ci"].ints();
  if(is.empty()) return ci.empty();
  if(iss[0] != ci.size() || iss[1] != rp.size()) return false;
  for(std::size_t t = 0; t < ci.size(); ++t) if((long long)is[0][t] != ci[t]) return false;
  for(std::size_t t = 0; t < rp.size(); ++t) if((long long)is[1][t] != rp[t]) return false;
  return true;
}
static IVec flat_va(const vj::Value& va, bool blocks) { return blocks ? flatten_blocks(va) : va.ints(); }

// exact determinant (Laplace) of a small integer matrix
static long long det_of(std::vector<IVec> a)
{
  std::size_t n = a.size();
  if(n == 0) return 1;
  if(n == 1) return a[0][0];
  long long d = 0;
  for(std::size_t j = 0; j < n; ++j)
  {
    std::vector<IVec> mi;
    for(std::size_t r = 1; r < n; ++r) { IVec row; for(std::size_t c = 0; c < n; ++c) if(c != j) row.push_back(a[r][c]); mi.push_back(row); }
    d += ((j % 2) ? -1 : 1) * a[0][j] * det_of(mi);
  }
  return d;
}

template<class F, class MT>
void call_mat(const F& f, const std::string& act, MT& a)
{
  if(act == "mat") f.filter_mat(a); else throw std::runtime_error("offdiag on a composed filter");
}

// runs the two calls through `callf` and compares arrays / dense view
template<class MT, class CALL, class DENSE>
bool mat_two_calls(Ctx& k, MT& a, CALL callf, DENSE densef, bool blocks, const std::string& tag)
{
  const vj::Value& rep = k.c["rep"];
  IVec e1 = flat_va(k.c["va1"], blocks), e2 = flat_va(k.c["va2"], blocks);
  for(int call = 1; call <= 2; ++call)
  {
    callf(a);
    IVec got = raw_vals(a);
    const IVec& e = call == 1 ? e1 : e2;
    if(!layout_is(a, rep)) return k.fail(tag + ": call " + std::to_string(call) + ": layout arrays (row_ptr/col_ind) changed");
    if(got != e) return k.fail(tag + ": call " + std::to_string(call) + ": val = " + vs(got) + " expected " + vs(e));
    if(call == 1)
    {
      bool exact = true; std::vector<IVec> d = densef(a, exact);
      std::vector<IVec> ed = k.c["dense1"].int_rows();
      if(!exact || d != ed) return k.fail(tag + ": represented matrix after filtering " + vj::dump(to_json(d)) + " expected " + vj::dump(k.c["dense1"]));
    }
  }
  return true;
}

template<class DT, class IT>
bool run_csr_case(Ctx& k, int mode, int arrays, const std::string& tag)
{
  typedef VarFilter<DT, IT, 1> VF; typedef SparseMatrixCSR<DT, IT> MT;
  const vj::Value& f = k.c["f"]; const std::string kind = f["kind"].as_str(), act = k.c["act"].as_str();
  Index m = Index(k.c["m"].as_int()), n = Index(k.c["n"].as_int());
  MT a = build_csr<DT, IT>(m, n, k.c["rep"], arrays);
  auto densef = [](const MT& x, bool& ex) { return dense_of(x, ex); };
  bool solvable = k.c["solvable"].as_bool();
  IVec b0 = k.c["b0"].ints(), b1 = k.c["b1"].ints(), xs = k.c["xs"].ints();
  auto solve_part = [&](auto& flt) -> bool
  {
    if(!solvable) return true;
    auto b = make_vec<DT, IT>(b0);
    flt.filter_rhs(b);
    bool ex = true; IVec gb = read_pod(b, 1, ex);
    if(!ex || gb != b1) return k.fail(tag + ": filtered right hand side " + vs(gb) + " expected " + vs(b1));
    auto x = make_vec<DT, IT>(xs); auto r = make_vec<DT, IT>(IVec(xs.size(), 77));
    if(m > 0) { a.apply(r, x); IVec gr = read_pod(r, 1, ex); if(!ex || gr != gb) return k.fail(tag + ": A'x* = " + vs(gr) + " differs from the filtered rhs " + vs(gb) + " (x* takes the prescribed values)"); }
    if(k.c["unique"].as_bool() && m > 0)
    {
      // Cramer's rule on the dense view of the REAL filtered matrix with the REAL filtered rhs
      bool e2 = true; std::vector<IVec> d = dense_of(a, e2);
      long long dt = det_of(d);
      if(dt == 0) return k.fail(tag + ": filtered matrix singular although the specification's is regular");
      for(std::size_t j = 0; j < xs.size(); ++j)
      {
        std::vector<IVec> dj = d; for(std::size_t i = 0; i < xs.size(); ++i) dj[i][j] = gb[i];
        if(det_of(dj) != xs[j] * dt) return k.fail(tag + ": solution of the filtered system: x[" + std::to_string(j) + "] = " + std::to_string(det_of(dj)) + "/" + std::to_string(dt) + " expected " + std::to_string(xs[j]));
      }
    }
    return true;
  };
  if(kind == "unit")
  {
    UnitFilter<DT, IT> u = build_unit1<DT, IT>(f, m, mode);
    bool ok = mat_two_calls(k, a, [&](MT& x) { if(act == "mat") u.filter_mat(x); else u.filter_offdiag_row_mat(x); }, densef, false, tag + "/unit/" + act);
    return ok && solve_part(u);
  }
  const vj::Value& fs = f["fs"];
  if(kind == "chain" && fs.size() == 3)
  {
    FilterChain<VF, VF, VF> ch; ch.template at<0>() = build_var<DT, IT, 1>(fs[0], m, mode); ch.template at<1>() = build_var<DT, IT, 1>(fs[1], m, mode); ch.template at<2>() = build_var<DT, IT, 1>(fs[2], m, mode);
    bool ok = mat_two_calls(k, a, [&](MT& x) { call_mat(ch, act, x); }, densef, false, tag + "/chain3/" + act);
    return ok && solve_part(ch);
  }
  if(kind == "seq")
  {
    FilterSequence<VF> sq;
    for(std::size_t j = 0; j < fs.size(); ++j) sq.push_back(std::make_pair(String(f["names"][j].as_str()), build_var<DT, IT, 1>(fs[j], m, mode)));
    bool ok = mat_two_calls(k, a, [&](MT& x) { call_mat(sq, act, x); }, densef, false, tag + "/seq/" + act);
    return ok && solve_part(sq);
  }
  return k.fail("unsupported composed filter for csr");
}

template<class DT, class IT, int BH, int BW>
bool run_bcsr_case(Ctx& k, int mode, int arrays, const std::string& tag0)
{
  typedef SparseMatrixBCSR<DT, IT, BH, BW> MT;
  const vj::Value& f = k.c["f"]; const std::string kind = f["kind"].as_str(), act = k.c["act"].as_str();
  Index m = Index(k.c["m"].as_int()), n = Index(k.c["n"].as_int());
  MT a = build_bcsr<DT, IT, BH, BW>(m, n, k.c["rep"], arrays);
  std::string tag = tag0 + "/bcsr" + std::to_string(BH) + "x" + std::to_string(BW);
  auto densef = [](const MT& x, bool& ex) { return dense_of_bcsr(x, ex); };
  if constexpr (BH == 1)
  {
    if(kind != "unit" || act != "offdiag") return k.fail("only the off-diagonal variant of the scalar unit filter exists for BCSR<1,bw>");
    UnitFilter<DT, IT> u = build_unit1<DT, IT>(f, m, mode);
    return mat_two_calls(k, a, [&](MT& x) { u.filter_offdiag_row_mat(x); }, densef, true, tag + "/unit/" + act);
  }
  else
  {
    typedef VarFilter<DT, IT, BH> VF;
    if(kind == "unit")
    {
      UnitFilterBlocked<DT, IT, BH> u = build_unitb<DT, IT, BH>(f, m, mode);
      return mat_two_calls(k, a, [&](MT& x) { if(act == "mat") u.filter_mat(x); else u.filter_offdiag_row_mat(x); }, densef, true, tag + "/unitb/" + act);
    }
    const vj::Value& fs = f["fs"];
    if(kind == "chain" && fs.size() == 3)
    {
      FilterChain<VF, VF, VF> ch; ch.template at<0>() = build_var<DT, IT, BH>(fs[0], m, mode); ch.template at<1>() = build_var<DT, IT, BH>(fs[1], m, mode); ch.template at<2>() = build_var<DT, IT, BH>(fs[2], m, mode);
      return mat_two_calls(k, a, [&](MT& x) { call_mat(ch, act, x); }, densef, true, tag + "/chain3/" + act);
    }
    if(kind == "seq")
    {
      FilterSequence<VF> sq;
      for(std::size_t j = 0; j < fs.size(); ++j) sq.push_back(std::make_pair(String(f["names"][j].as_str()), build_var<DT, IT, BH>(fs[j], m, mode)));
      return mat_two_calls(k, a, [&](MT& x) { call_mat(sq, act, x); }, densef, true, tag + "/seq/" + act);
    }
    return k.fail("unsupported composed filter for bcsr");
  }
}

template<class DT, class IT>
bool run_mat_typed(Ctx& k, const std::string& tag)
{
  const std::string fmt = k.c["fmt"].as_str();
  int arrays = int(k.c.get_int("arrays", 1));
  for(int mode = 0; mode < 2; ++mode)
  {
    std::string t = tag + "/m" + std::to_string(mode);
    bool ok;
    if(fmt == "csr") ok = run_csr_case<DT, IT>(k, mode, arrays, t);
    else
    {
      int bh = int(k.c["bh"].as_int()), bw = int(k.c["bw"].as_int());
      if(bh == 1 && bw == 2) ok = run_bcsr_case<DT, IT, 1, 2>(k, mode, arrays, t);
      else if(bh == 2 && bw == 2) ok = run_bcsr_case<DT, IT, 2, 2>(k, mode, arrays, t);
      else if(bh == 2 && bw == 3) ok = run_bcsr_case<DT, IT, 2, 3>(k, mode, arrays, t);
      else if(bh == 3 && bw == 2) ok = run_bcsr_case<DT, IT, 3, 2>(k, mode, arrays, t);
      else return k.fail("unsupported block shape");
    }
    if(!ok) return false;
  }
  return true;
}

vj::Value run_case(const vj::Value& c)
{
  Ctx k(c);
  bool ok;
  if(c.has("act"))
    ok = run_mat_typed<double, std::uint64_t>(k, "f64/u64") && run_mat_typed<float, std::uint32_t>(k, "f32/u32");
  else
  {
    ok = run_vec_typed<double, std::uint64_t>(k, "f64/u64");
    if(ok && c["f32"].as_bool()) ok = run_vec_typed<float, std::uint32_t>(k, "f32/u32");
  }
  if(ok) return vh::ok();
  return vh::bad(k.why);
}

int main(int argc, char** argv) { return vh::main_loop(argc, argv); }
