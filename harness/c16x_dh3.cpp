// C16x harness, domain part (error computers, function-integral jobs, filter assemblers, remaining common operators):
// Hypercube<3> meshes; see common/vasm16x_dom.hpp
#include "vasm16x_dom.hpp"
vj::Value run_case(const vj::Value& c) { return vx::run_dom_case<FEAT::Shape::Hypercube<3>>(c); }
int main(int argc, char** argv) { return vh::main_loop(argc, argv); }
