// C06 MPI replayer (cases of spec/Gen_FilterGlobal.tla): global filters on 1..n processes whose patches share dofs.
//   Global::MeanFilter(prim, dual, gate frequencies, comm)                 (kind "mean")
//   Global::Filter<UnitFilter, Mirror>                                      (kind "unit")
//   FilterChain<UnitFilter, Global::MeanFilter> / <Global::MeanFilter, UnitFilter>, also inside Global::Filter   (kind "chain")
// Every process builds its LOCAL filter data (field loc, local numbering of the patch), the gate from the mirrors of the case, and
// the distributed type-1 input vector x0; for every life-cycle route of the case (field lcs) and every operation rhs/sol/def/cor
// the filter is applied twice and the local vector compared after each call with the restriction of the undecomposed result the
// specification predicts (v1, v2): bit-exact when every sharer count is a power of two (all quantities dyadic, the volume a power of
// two), else within 512 eps * (largest magnitude of the evaluation, supplied by the specification).
// Routes: none | clone_deep | clone_weak | clone_shallow (returning clone) | clone_into | clone_into_weak | convert_into |
//         convert_other_into (source of float/unsigned int; dyadic cases only) | move_assign      - the in-place ones start from an
//         object that holds the previous content loct0 -                and the same through the Global::Filter wrapper on a
//         Global::Vector: wrap | wrap_clone | wrap_clone_into | wrap_convert_into
//
// run as:  mpirun -np <nr> c06_gfilter --cases FILE [--start K]
#include "vmpi.hpp"
#include <kernel/global/gate.hpp>
#include <kernel/global/vector.hpp>
#include <kernel/global/filter.hpp>
#include <kernel/global/mean_filter.hpp>
#include <kernel/lafem/dense_vector.hpp>
#include <kernel/lafem/vector_mirror.hpp>
#include <kernel/lafem/unit_filter.hpp>
#include <kernel/lafem/filter_chain.hpp>
#include <cmath>
#include <limits>

using namespace FEAT;
using vmpi::key;
typedef double DT; typedef Index IT;
typedef LAFEM::DenseVector<DT, IT> SVec;
typedef LAFEM::VectorMirror<DT, IT> SMir;
typedef Global::Gate<SVec, SMir> GateT;
typedef Global::Vector<SVec, SMir> GVec;
typedef std::vector<long long> IVec;
static const double EPS = std::numeric_limits<DT>::epsilon();

struct Env
{
  const vj::Value& c; const Dist::Comm& comm; GateT& gate; vmpi::Fail& fail;
  int me; Index nloc; long long den; double tol; bool dyadic;
};

static std::string istr(const std::vector<double>& v, long long den)
{
  std::string s = "[";
  for(std::size_t i = 0; i < v.size(); ++i) { char b[48]; std::snprintf(b, sizeof(b), "%s%.17g", i ? "," : "", v[i] * double(den)); s += b; }
  return s + "]";
}

// ---- local filters from the specification's records ----------------------------------------------------------------------------
template<class D, class I> LAFEM::DenseVector<D, I> dvec(const IVec& v, Index n)
{
  LAFEM::DenseVector<D, I> r(n);
  for(Index i = 0; i < n; ++i) r(i, D(v[i]));
  return r;
}
template<class D, class I> LAFEM::UnitFilter<D, I> mk_unit(const Env& e, const vj::Value& f, int route)
{
  IVec idx = f["idx"].ints(), val = f["val"].ints();
  LAFEM::UnitFilter<D, I> u(e.nloc);
  if(route == 0) { for(std::size_t t = idx.size(); t-- > 0;) u.add(I(idx[t]), D(val[t])); }      // descending: the inner sparse vector sorts
  else { for(std::size_t t = 0; t < idx.size(); ++t) u.add(I(idx[t]), D(val[t])); }
  return u;
}
template<class D, class I> Global::MeanFilter<D, I> mk_mean(const Env& e, const vj::Value& f, int)
{
  LAFEM::DenseVector<D, I> fr; fr.convert(e.gate.get_freqs());
  return Global::MeanFilter<D, I>(dvec<D, I>(f["p"].ints(), e.nloc), dvec<D, I>(f["d"].ints(), e.nloc), std::move(fr), &e.comm);
}
template<class D, class I> struct TUnit
{
  typedef LAFEM::UnitFilter<D, I> LF;
  static LF make(const Env& e, const vj::Value& f, int route) { return mk_unit<D, I>(e, f, route); }
};
template<class D, class I> struct TMean
{
  typedef Global::MeanFilter<D, I> LF;
  static LF make(const Env& e, const vj::Value& f, int route) { return mk_mean<D, I>(e, f, route); }
};
template<class D, class I> struct TChainUM
{
  typedef LAFEM::FilterChain<LAFEM::UnitFilter<D, I>, Global::MeanFilter<D, I>> LF;
  static LF make(const Env& e, const vj::Value& f, int route) { return LF(mk_unit<D, I>(e, f["fs"][std::size_t(0)], route), mk_mean<D, I>(e, f["fs"][std::size_t(1)], route)); }
};
template<class D, class I> struct TChainMU
{
  typedef LAFEM::FilterChain<Global::MeanFilter<D, I>, LAFEM::UnitFilter<D, I>> LF;
  static LF make(const Env& e, const vj::Value& f, int route) { return LF(mk_mean<D, I>(e, f["fs"][std::size_t(0)], route), mk_unit<D, I>(e, f["fs"][std::size_t(1)], route)); }
};

template<class F, class V> void call_op(const F& f, const std::string& op, V& v)
{
  if(op == "rhs") f.filter_rhs(v); else if(op == "sol") f.filter_sol(v); else if(op == "def") f.filter_def(v); else f.filter_cor(v);
}

static void compare(Env& e, const SVec& got, const char* field, const std::string& op, const std::string& what)
{
  const IVec ex = e.c[field][op][key(e.me)].ints();
  std::vector<double> g(got.elements(), got.elements() + got.size()), x;
  for(long long q : ex) x.push_back(double(q) / double(e.den));
  bool ok = g.size() == x.size();
  for(std::size_t i = 0; ok && i < g.size(); ++i) if(!(std::fabs(g[i] - x[i]) <= e.tol)) ok = false;
  if(!ok) e.fail(what + ": local vector*den = " + istr(g, e.den) + " expected " + istr(x, e.den));
}

static SVec input(const Env& e)
{
  const IVec x0 = e.c["x0"][key(e.me)].ints();
  SVec v(e.nloc);
  for(Index i = 0; i < e.nloc; ++i) v(i, DT(double(x0[i]) / double(e.den)));
  return v;
}

// the four operations, each twice, on the local filter (local vectors) resp. on the Global::Filter wrapper (Global::Vector)
template<class LF> void apply_local(Env& e, const LF& f, const std::string& tag)
{
  for(const char* op : {"rhs", "sol", "def", "cor"})
  {
    SVec v = input(e);
    call_op(f, op, v); compare(e, v, "v1", op, tag + ": filter_" + op + " call 1");
    call_op(f, op, v); compare(e, v, "v2", op, tag + ": filter_" + op + " call 2");
  }
}
template<class GF> void apply_global(Env& e, const GF& f, const std::string& tag)
{
  for(const char* op : {"rhs", "sol", "def", "cor"})
  {
    GVec g(&e.gate, input(e));
    call_op(f, op, g); compare(e, g.local(), "v1", op, tag + ": Global::Filter::filter_" + op + " call 1");
    call_op(f, op, g); compare(e, g.local(), "v2", op, tag + ": Global::Filter::filter_" + op + " call 2");
  }
}

template<template<class, class> class T_>
void run_routes(Env& e, const std::string& name)
{
  typedef T_<DT, IT> TT; typedef typename TT::LF LF; typedef Global::Filter<LF, SMir> GF;
  const vj::Value& f = e.c["loc"][key(e.me)]; const vj::Value& t0 = e.c["loct0"][key(e.me)];
  const vj::Value& lcs = e.c["lcs"];
  for(std::size_t q = 0; q < lcs.size(); ++q)
  {
    const std::string lc = lcs[q].as_str();
    for(int route = 0; route < 2; ++route)
    {
      const std::string tag = name + "/" + lc + "/m" + std::to_string(route);
      if(lc == "none") { LF a = TT::make(e, f, route); apply_local(e, a, tag); }
      else if(lc == "clone_deep" || lc == "clone_weak" || lc == "clone_shallow")
      {
        LAFEM::CloneMode cm = lc == "clone_deep" ? LAFEM::CloneMode::Deep : (lc == "clone_weak" ? LAFEM::CloneMode::Weak : LAFEM::CloneMode::Shallow);
        LF a = TT::make(e, f, route);
        LF b = a.clone(cm);
        apply_local(e, b, tag);
      }
      else if(lc == "clone_into" || lc == "clone_into_weak")
      {
        LF b = TT::make(e, t0, 1 - route);
        { LF a = TT::make(e, f, lc == "clone_into" ? route : 1); b.clone(a, lc == "clone_into" ? LAFEM::CloneMode::Deep : LAFEM::CloneMode::Weak); apply_local(e, a, tag + "/the source after the call"); }
        apply_local(e, b, tag);
      }
      else if(lc == "convert_into")
      {
        LF b = TT::make(e, t0, 1 - route);
        { LF a = TT::make(e, f, route); b.convert(a); apply_local(e, a, tag + "/the source after the call"); }
        apply_local(e, b, tag);
      }
      else if(lc == "convert_other_into")
      {
        if(!e.dyadic) continue;              // a float volume is exact only on the dyadic domain
        typedef T_<float, unsigned int> TO;
        LF b = TT::make(e, t0, 1 - route);
        { typename TO::LF a = TO::make(e, f, route); b.convert(a); }
        apply_local(e, b, tag);
      }
      else if(lc == "move_assign")
      {
        LF b = TT::make(e, t0, 1 - route);
        { LF a = TT::make(e, f, route); b = std::move(a); }
        apply_local(e, b, tag);
      }
      else if(lc == "wrap") { GF g(TT::make(e, f, route)); apply_global(e, g, tag); apply_local(e, g.local(), tag + "/local()"); }
      else if(lc == "wrap_clone") { GF g(TT::make(e, f, 1)); GF h = g.clone(); apply_global(e, h, tag); apply_global(e, g, tag + "/the source after the call"); }
      else if(lc == "wrap_clone_into")
      {
        GF h(TT::make(e, t0, 1 - route));
        { GF g(TT::make(e, f, 1)); h.clone(g); apply_global(e, g, tag + "/the source after the call"); }
        apply_global(e, h, tag);
      }
      else if(lc == "wrap_convert_into")
      {
        GF h(TT::make(e, t0, 1 - route));
        { GF g(TT::make(e, f, route)); h.convert(g); }
        apply_global(e, h, tag);
      }
      else e.fail("harness: unknown life-cycle route " + lc);
    }
  }
}

static std::string run_case(const vj::Value& c, const Dist::Comm& comm)
{
  vmpi::Fail fail(comm.rank());
  const int nr = comm.size(), me = comm.rank();
  if(c["kind"].as_str() != "gfilter") { fail("harness: unknown case kind"); return fail.why; }
  const Index nloc = Index(c["dofs"][key(me)].size());
  GateT gate(comm);
  for(int s = 0; s < nr; ++s)
  {
    if(s == me) continue;
    const IVec idx = c["mir"][key(me)][key(s)].ints();
    if(idx.empty()) continue;
    SMir mir(nloc, Index(idx.size()));
    for(std::size_t k = 0; k < idx.size(); ++k) mir.indices()[k] = IT(idx[k]);
    gate.push(s, std::move(mir));
  }
  gate.compile(SVec(nloc));
  bool dyadic = true;
  for(int r = 0; r < nr; ++r) for(long long n : c["count"][key(r)].ints()) if(!vmpi::pow2(n)) dyadic = false;
  // the frequencies of the gate are what the specification counts with: 1 / #sharers
  {
    const IVec cnt = c["count"][key(me)].ints();
    for(Index i = 0; i < nloc; ++i) if(!(std::fabs(gate.get_freqs()(i) * double(cnt[i]) - 1.0) <= 4.0 * EPS)) fail("gate frequency of local dof " + std::to_string(i) + " is not 1/" + std::to_string(cnt[i]));
  }
  const long long den = c["den"].as_int();
  Env e{c, comm, gate, fail, me, nloc, den, dyadic ? 0.0 : 512.0 * EPS * double(c["mx"].as_int()) / double(den), dyadic};
  const std::string kind = c["f"]["kind"].as_str();
  if(kind == "mean") run_routes<TMean>(e, "Global::MeanFilter");
  else if(kind == "unit") run_routes<TUnit>(e, "UnitFilter");
  else if(kind == "chain")
  {
    if(c["f"]["fs"][std::size_t(0)]["kind"].as_str() == "unit") run_routes<TChainUM>(e, "FilterChain<UnitFilter,Global::MeanFilter>");
    else run_routes<TChainMU>(e, "FilterChain<Global::MeanFilter,UnitFilter>");
  }
  else fail("harness: unknown filter kind " + kind);
  return fail.why;
}

int main(int argc, char** argv) { return vmpi::main_loop(argc, argv, &run_case); }
