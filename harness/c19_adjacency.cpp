// C19 replayer: executes the calls generated from spec/AdjacencyGraph.tla, spec/AdjacencyPerm.tla (direction G:
// the result predicted by the specification is attached and compared) and spec/AdjacencyUG.tla / the seeded random
// driver (direction V: the real result is recorded in "out" and judged afterwards by spec/AdjacencyV.tla) on the
// real classes Adjacency::Graph, CompositeAdjactor, Permutation, Coloring, CuthillMcKee, plus
// SparseMatrixCSR::permute / DenseVector::permute for the graph/vector/matrix consistency clause.
#include "vharness.hpp"
#include "vlafem.hpp"
#include <kernel/adjacency/graph.hpp>
#include <kernel/adjacency/adjactor.hpp>
#include <kernel/adjacency/dynamic_graph.hpp>
#include <kernel/adjacency/permutation.hpp>
#include <kernel/adjacency/coloring.hpp>
#include <kernel/adjacency/cuthill_mckee.hpp>
#include <kernel/util/random.hpp>
#include <algorithm>

using namespace FEAT;
using namespace FEAT::Adjacency;
typedef std::vector<long long> IVec;
typedef std::vector<Index> XVec;

static XVec to_idx(const vj::Value& a) { XVec r; for(long long v : a.ints()) r.push_back(Index(v)); return r; }
static std::string js(const vj::Value& v) { return vj::dump(v); }

// ---- graphs ------------------------------------------------------------------------------------------------
static Graph make_g(const vj::Value& g, int route = 0)
{
  Index nd = Index(g["nd"].as_int()), ni = Index(g["ni"].as_int());
  XVec ptr = to_idx(g["ptr"]), idx = to_idx(g["idx"]);
  if(route == 1) return Graph(ni, ptr, idx);                                   // "copy-vector" constructor
  return Graph(nd, ni, Index(idx.size()), ptr.data(), idx.data());            // "copy-arrays" constructor
}

static vj::Value g_json(const Graph& g)
{
  vj::Value r = vj::Value::object();
  Index nd = g.get_num_nodes_domain();
  r["nd"] = (long long)nd; r["ni"] = (long long)g.get_num_nodes_image();
  vj::Value p = vj::Value::array(), x = vj::Value::array();
  const Index* dp = g.get_domain_ptr(); const Index* ix = g.get_image_idx();
  if(dp == nullptr) p.push(vj::Value(0ll));    // a graph without pointer array (default / deserialised empty graph)
  else for(Index i = 0; i <= nd; ++i) p.push(vj::Value((long long)dp[i]));
  for(Index k = 0; k < g.get_num_indices(); ++k) x.push(vj::Value((long long)ix[k]));
  r["ptr"] = p; r["idx"] = x;
  return r;
}

// compare a graph with the predicted one; `ordered` = the order of the images is contractual, otherwise every
// adjacency list is compared as a bag
static bool same_graph(const vj::Value& got, const vj::Value& exp, bool ordered, std::string& why)
{
  if(!(got["nd"] == exp["nd"]) || !(got["ni"] == exp["ni"])) { why = "node counts " + js(got["nd"]) + "x" + js(got["ni"]); return false; }
  if(!(got["ptr"] == exp["ptr"])) { why = "domain_ptr " + js(got["ptr"]) + " expected " + js(exp["ptr"]); return false; }
  IVec a = got["idx"].ints(), b = exp["idx"].ints(), p = exp["ptr"].ints();
  if(a.size() != b.size()) { why = "index count"; return false; }
  if(!ordered)
    for(std::size_t i = 0; i + 1 < p.size(); ++i)
    {
      std::sort(a.begin() + p[i], a.begin() + p[i + 1]); std::sort(b.begin() + p[i], b.begin() + p[i + 1]);
    }
  if(a != b) { why = std::string("image_idx ") + js(got["idx"]) + " expected " + js(exp["idx"]) + (ordered ? "" : " (as bags)"); return false; }
  return true;
}

static RenderType rtype(const std::string& t)
{
  if(t == "as_is") return RenderType::as_is;
  if(t == "as_is_sorted") return RenderType::as_is_sorted;
  if(t == "injectify") return RenderType::injectify;
  if(t == "injectify_sorted") return RenderType::injectify_sorted;
  if(t == "transpose") return RenderType::transpose;
  if(t == "transpose_sorted") return RenderType::transpose_sorted;
  if(t == "injectify_transpose") return RenderType::injectify_transpose;
  if(t == "injectify_transpose_sorted") return RenderType::injectify_transpose_sorted;
  throw std::runtime_error("render type " + t);
}

static Permutation make_perm(const XVec& p)
{
  return Permutation(Index(p.size()), Permutation::ConstrType::perm, p.data());
}

static vj::Value perm_json(const Permutation& p)
{
  vj::Value r = vj::Value::object(), a = vj::Value::array(), s = vj::Value::array();
  Index n = p.size();
  for(Index i = 0; i < n; ++i) { a.push(vj::Value((long long)p.get_perm_pos()[i])); s.push(vj::Value((long long)p.get_swap_pos()[i])); }
  r["perm"] = a; r["swap"] = s;
  return r;
}

template<class IT>
static bool matperm_typed(const vj::Value& c, std::string& why)
{
  using namespace vl;
  const vj::Value& m = c["g1"];
  Index nr = Index(m["nd"].as_int()), nc = Index(m["ni"].as_int());
  auto a = make_csr<double, IT>(nr, nc, m["rep"], 1);
  XVec pr = to_idx(c["dp"]), pc = to_idx(c["ip"]);
  Permutation prow = make_perm(pr), pcol = make_perm(pc);
  a.permute(prow, pcol);
  if(a.rows() != nr || a.columns() != nc) { why = "matrix dimensions after permute"; return false; }
  bool exact = true; auto d = dense_of(a, exact);
  std::vector<IVec> e = c["exp"]["D"].int_rows();
  if(!exact || d != e) { why = "permuted matrix " + js(to_json(d)) + " expected " + js(c["exp"]["D"]); return false; }
  if(a.used_elements() > Index(0))   // (a container without entries has no arrays at all)
  for(Index i = 0; i < nr; ++i) for(IT k = a.row_ptr()[i]; k + 1 < a.row_ptr()[i + 1]; ++k)
    if(!(a.col_ind()[k] < a.col_ind()[k + 1])) { why = "column indices of the permuted matrix not ascending"; return false; }
  if(perm_json(prow)["perm"].ints() != c["dp"].ints() || perm_json(pcol)["perm"].ints() != c["ip"].ints()) { why = "permutation modified by permute"; return false; }
  // vector
  IVec v0; for(Index i = 0; i < nr; ++i) v0.push_back(11 + (long long)i);
  auto v = make_vec<double, IT>(v0);
  v.permute(prow);
  bool ex2 = true; IVec got = read_pod(v, 1, ex2);
  if(!ex2 || got != c["exp"]["v"].ints()) { why = "permuted vector " + js(to_json(got)) + " expected " + js(c["exp"]["v"]); return false; }
  return true;
}


// ---- DynamicGraph (set-valued relation): its value as a graph record through the adjactor interface ---------------
static vj::Value dyn_json(const DynamicGraph& d)
{
  vj::Value r = vj::Value::object(), p = vj::Value::array(), x = vj::Value::array();
  r["nd"] = (long long)d.get_num_nodes_domain(); r["ni"] = (long long)d.get_num_nodes_image();
  long long cnt = 0; p.push(vj::Value(0ll));
  for(Index i = 0; i < d.get_num_nodes_domain(); ++i)
  {
    for(auto it = d.image_begin(i); it != d.image_end(i); ++it) { x.push(vj::Value((long long)*it)); ++cnt; }
    p.push(vj::Value(cnt));
  }
  r["ptr"] = p; r["idx"] = x;
  return r;
}

// every observer of the DynamicGraph must agree with the predicted value
static bool dyn_is(const DynamicGraph& d, const vj::Value& exp, std::string& why, const std::string& what)
{
  vj::Value got = dyn_json(d);
  if(!same_graph(got, exp, true, why)) { why = what + ": " + why; return false; }
  IVec p = exp["ptr"].ints(), x = exp["idx"].ints();
  const long long nd = exp["nd"].as_int(), ni = exp["ni"].as_int();
  long long maxdeg = 0;
  for(long long i = 0; i < nd; ++i)
  {
    const long long deg = p[i + 1] - p[i]; maxdeg = std::max(maxdeg, deg);
    if((long long)d.degree(Index(i)) != deg) { why = what + ": degree(" + std::to_string(i) + ") = " + std::to_string(d.degree(Index(i))); return false; }
    for(long long j = 0; j < ni; ++j)
    {
      const bool want = std::find(x.begin() + p[i], x.begin() + p[i + 1], j) != x.begin() + p[i + 1];
      if(d.exists(Index(i), Index(j)) != want) { why = what + ": exists(" + std::to_string(i) + "," + std::to_string(j) + ") = " + (want ? "false" : "true"); return false; }
    }
  }
  if((long long)d.degree() != maxdeg) { why = what + ": degree() = " + std::to_string(d.degree()); return false; }
  if((long long)d.get_num_indices() != (long long)x.size()) { why = what + ": get_num_indices() = " + std::to_string(d.get_num_indices()); return false; }
  // conversion back to a Graph, and a DynamicGraph of the DynamicGraph
  Graph back(RenderType::as_is, d);
  if(!same_graph(g_json(back), exp, true, why)) { why = what + ": Graph(as_is, dynamic graph): " + why; return false; }
  DynamicGraph cl = d.clone();
  if(!same_graph(dyn_json(cl), exp, true, why)) { why = what + ": clone(): " + why; return false; }
  return true;
}

static vj::Value run_dyn(const vj::Value& c)
{
  const std::string op = c["op"].as_str(), t = c["t"].as_str();
  std::string why;
  Graph g1 = make_g(c["g1"], 0);
  const vj::Value snap1 = g_json(g1);
  if(op == "dyn_render")
  {
    DynamicGraph d(rtype(t), g1);
    if(!dyn_is(d, c["exp"], why, "DynamicGraph(" + t + ", g)")) return vh::bad(why, c["exp"], dyn_json(d));
  }
  else if(op == "dyn_render2")
  {
    Graph g2 = make_g(c["g2"], 1);
    DynamicGraph d(rtype(t), g1, g2);
    if(!dyn_is(d, c["exp"], why, "DynamicGraph(" + t + ", g1, g2)")) return vh::bad(why, c["exp"], dyn_json(d));
    // the same through a DynamicGraph as first / second adjactor
    DynamicGraph d1(RenderType::as_is, g1), d2(RenderType::as_is, g2);
    DynamicGraph dd(rtype(t), d1, d2);
    if(!dyn_is(dd, c["exp"], why, "DynamicGraph(" + t + ", dyn1, dyn2)")) return vh::bad(why, c["exp"], dyn_json(dd));
    if(g_json(g2) != c["g2"]) return vh::bad("second adjactor modified");
  }
  else if(op == "dyn_compose")
  {
    Graph g2 = make_g(c["g2"], 1);
    DynamicGraph d(RenderType::as_is, g1);
    d.compose(g2);
    if(!dyn_is(d, c["exp"], why, "DynamicGraph(as_is, g1).compose(g2)")) return vh::bad(why, c["exp"], dyn_json(d));
  }
  else if(op == "dyn_edit")
  {
    DynamicGraph d(RenderType::as_is, g1);
    const Index i = Index(c["ei"].as_int()), j = Index(c["ej"].as_int());
    const bool ret = (t == "insert") ? d.insert(i, j) : d.erase(i, j);
    if(ret != c["ret"].as_bool()) return vh::bad(t + "(" + std::to_string(i) + "," + std::to_string(j) + ") returned " + (ret ? "true" : "false"));
    if(!dyn_is(d, c["exp"], why, "after " + t + "(" + std::to_string(i) + "," + std::to_string(j) + ")")) return vh::bad(why, c["exp"], dyn_json(d));
    // undo: the opposite edit restores the rendering of g1
    const bool ret2 = (t == "insert") ? (ret ? d.erase(i, j) : true) : (ret ? d.insert(i, j) : true);
    DynamicGraph d0(RenderType::as_is, g1);
    if(!ret2 || dyn_json(d) != dyn_json(d0)) return vh::bad("undoing " + t + " does not restore the graph");
  }
  else if(op == "dyn_clear")
  {
    DynamicGraph d(RenderType::as_is, g1);
    d.clear();
    if(!dyn_is(d, c["exp"], why, "after clear()")) return vh::bad(why, c["exp"], dyn_json(d));
    DynamicGraph e(Index(c["g1"]["nd"].as_int()), Index(c["g1"]["ni"].as_int()));
    if(!dyn_is(e, c["exp"], why, "DynamicGraph(nd, ni)")) return vh::bad(why, c["exp"], dyn_json(e));
  }
  else return vh::bad("unknown DynamicGraph op " + op);
  if(g_json(g1) != snap1) return vh::bad("source graph modified by " + op);
  return vh::ok();
}

static vj::Value run_graph(const vj::Value& c)
{
  const std::string op = c["op"].as_str();
  if(op.compare(0, 4, "dyn_") == 0) return run_dyn(c);
  std::string why;
  if(op == "matperm")
  {
    if(!matperm_typed<std::uint64_t>(c, why)) return vh::bad("u64: " + why);
    if(!matperm_typed<std::uint32_t>(c, why)) return vh::bad("u32: " + why);
    return vh::ok();
  }
  const bool rec = c.has("rec") && c["rec"].as_bool();   // record the result instead of comparing (direction V)
  const vj::Value& exp = rec ? c["g1"] : c["exp"];
  const bool ordered = rec ? true : c["ordered"].as_bool();
  Graph g1 = make_g(c["g1"], 0);
  const vj::Value snap1 = g_json(g1);
  if(snap1 != c["g1"]) return vh::bad("constructed graph differs from its arrays: " + js(snap1));
  vj::Value got;
  if(op == "render")
  {
    Graph h(rtype(c["t"].as_str()), g1);
    got = g_json(h);
  }
  else if(op == "sort")
  {
    Graph h = g1.clone(); h.sort_indices(); got = g_json(h);
  }
  else if(op == "inspect")
  {
    IVec deg = c["deg"].ints();
    for(std::size_t i = 0; i < deg.size(); ++i)
      if((long long)g1.degree(Index(i)) != deg[i]) return vh::bad("degree(" + std::to_string(i) + ") = " + std::to_string(g1.degree(Index(i))));
    if((long long)g1.degree() != c["maxdeg"].as_int()) return vh::bad("degree() = " + std::to_string(g1.degree()));
    if((long long)g1.get_num_indices() != (long long)c["g1"]["idx"].size()) return vh::bad("get_num_indices");
    Graph h2 = make_g(c["g1"], 1);
    if(g_json(h2) != c["g1"]) return vh::bad("copy-vector constructor: " + js(g_json(h2)));
    Graph h3 = g1.clone();
    if(g_json(h3) != c["g1"]) return vh::bad("clone: " + js(g_json(h3)));
    Graph h4(std::move(h3));
    if(g_json(h4) != c["g1"]) return vh::bad("move constructor: " + js(g_json(h4)));
    std::vector<char> buf = g1.serialize();
    Graph h5(buf);
    vj::Value r5 = g_json(h5);
    if(r5 != c["g1"]) { vj::Value r = vh::bad("serialize/deserialize round trip: " + js(r5)); r["sub"] = "serialize"; return r; }
    got = g_json(g1);
  }
  else if(op == "render2")
  {
    Graph g2 = make_g(c["g2"], 1);
    Graph h(rtype(c["t"].as_str()), g1, g2);
    got = g_json(h);
    if(g_json(g2) != c["g2"]) return vh::bad("second adjactor modified");
  }
  else if(op == "compadj")
  {
    Graph g2 = make_g(c["g2"], 0);
    CompositeAdjactor<Graph, Graph> ca(g1, g2);
    if((long long)ca.get_num_nodes_domain() != c["g1"]["nd"].as_int() || (long long)ca.get_num_nodes_image() != c["g2"]["ni"].as_int())
      return vh::bad("CompositeAdjactor node counts");
    // iterate by hand with a step bound: a wrong iterator must not run away
    IVec ep = exp["ptr"].ints(), ei = exp["idx"].ints();
    for(Index i = 0; i < ca.get_num_nodes_domain(); ++i)
    {
      IVec row; std::size_t want = std::size_t(ep[i + 1] - ep[i]);
      auto it = ca.image_begin(i); auto en = ca.image_end(i);
      for(; it != en && row.size() <= want + 2; ++it) row.push_back((long long)*it);
      IVec erow(ei.begin() + ep[i], ei.begin() + ep[i + 1]);
      if(row != erow) return vh::bad("CompositeAdjactor images of node " + std::to_string(i) + ": " + js(vj::from_vec(row)) + (row.size() > want ? "..." : "") + " expected " + js(vj::from_vec(erow)));
    }
    return vh::ok();
  }
  else if(op == "permute")
  {
    XVec dp = to_idx(c["dp"]), ip = to_idx(c["ip"]);
    Permutation pd = make_perm(dp), pi = make_perm(ip);
    Graph h(g1, pd, pi);
    got = g_json(h);
  }
  else if(op == "rename")
  {
    XVec q = to_idx(c["ip"]);
    Permutation pq = make_perm(q);
    Graph h = g1.clone(); h.permute_indices(pq); got = g_json(h);
  }
  else return vh::bad("unknown graph op " + op);
  if(g_json(g1) != snap1) return vh::bad("source graph modified by " + op);
  if(rec) { vj::Value r = vh::ok(); r["out"] = got; return r; }
  if(!same_graph(got, exp, ordered, why)) return vh::bad(op + " " + c["t"].as_str() + ": " + why, exp, got);
  return vh::ok();
}

// ---- permutations ------------------------------------------------------------------------------------------
static bool perm_is(const Permutation& p, const vj::Value& e, std::string& why, const std::string& what)
{
  IVec ep = e["perm"].ints(), es = e["swap"].ints();
  if((long long)p.size() != (long long)ep.size()) { why = what + ": size " + std::to_string(p.size()); return false; }
  if(p.empty() != ep.empty()) { why = what + ": empty()"; return false; }
  vj::Value g = perm_json(p);
  if(g["perm"].ints() != ep) { why = what + ": perm_pos " + js(g["perm"]) + " expected " + js(e["perm"]); return false; }
  if(g["swap"].ints() != es) { why = what + ": swap_pos " + js(g["swap"]) + " expected " + js(e["swap"]); return false; }
  return true;
}

static Permutation construct(const std::string& kind, Index n, const XVec& v)
{
  typedef Permutation::ConstrType CT;
  if(kind == "default") return Permutation();
  if(kind == "identity") return Permutation(n, CT::identity);
  if(kind == "perm") return Permutation(n, CT::perm, v.data());
  if(kind == "inv_perm") return Permutation(n, CT::inv_perm, v.data());
  if(kind == "swap") return Permutation(n, CT::swap, v.data());
  if(kind == "inv_swap") return Permutation(n, CT::inv_swap, v.data());
  throw std::runtime_error("constructor kind " + kind);
}

static vj::Value run_perm(const vj::Value& c)
{
  const std::string op = c["op"].as_str(), kind = c["kind"].as_str();
  Index n = Index(c["n"].as_int());
  XVec v = to_idx(c["v"]);
  std::string why;
  Permutation p = construct(kind, n, v);
  if(!perm_is(p, c["P"], why, "constructor " + kind)) return vh::bad(why);
  const bool invert = c["invert"].as_bool();
  if(op == "apply_out")
  {
    IVec x = c["x"].ints(), y = c["y0"].ints();
    p.apply(y.data(), x.data(), invert);
    if(y != c["exp"].ints()) return vh::bad("apply(y, x, " + std::string(invert ? "true" : "false") + ") = " + js(vj::from_vec(y)) + " expected " + js(c["exp"]));
    if(x != c["x"].ints()) return vh::bad("apply(y, x) modified x");
    // a second element type
    IVec y0 = c["y0"].ints();
    std::vector<double> xd(x.begin(), x.end()), yd(y0.begin(), y0.end());
    p.apply(yd.data(), xd.data(), invert);
    for(std::size_t i = 0; i < yd.size(); ++i) if(yd[i] != double(y[i])) return vh::bad("apply(y, x) on double differs from the integer result");
  }
  else if(op == "apply_insitu")
  {
    IVec x = c["x"].ints();
    p.apply(x.data(), invert);
    if(x != c["exp"].ints()) return vh::bad("in-situ apply(x, " + std::string(invert ? "true" : "false") + ") = " + js(vj::from_vec(x)) + " expected " + js(c["exp"]));
  }
  else if(op == "inverse")
  {
    Permutation q = p.inverse();
    if(!perm_is(q, c["exp"], why, "inverse()")) return vh::bad(why);
  }
  else if(op == "clone")
  {
    Permutation q = p.clone();
    if(!perm_is(q, c["exp"], why, "clone()")) return vh::bad(why);
    Permutation q2(std::move(q));
    if(!perm_is(q2, c["exp"], why, "move constructor")) return vh::bad(why);
  }
  else if(op == "map")
  {
    IVec e = c["exp"].ints();
    for(std::size_t i = 0; i < e.size(); ++i) if((long long)p.map(Index(i)) != e[i]) return vh::bad("map(" + std::to_string(i) + ") = " + std::to_string(p.map(Index(i))));
  }
  else if(op == "concat")
  {
    XVec qa = to_idx(c["q"]);
    Permutation q = make_perm(qa);
    p.concat(q);
    if(!perm_is(p, c["exp"], why, "concat")) return vh::bad(why);
    if(perm_json(q)["perm"].ints() != c["q"].ints()) return vh::bad("concat modified its argument");
    return vh::ok();
  }
  else return vh::bad("unknown permutation op " + op);
  if(!perm_is(p, c["P"], why, "object after " + op)) return vh::bad(why);
  return vh::ok();
}

// ---- colouring / Cuthill-McKee / random permutation: record the result --------------------------------------
static vj::Value run_record(const vj::Value& c)
{
  const std::string op = c["op"].as_str();
  vj::Value r = vh::ok();
  if(op == "randperm")
  {
    Random rng(Random::SeedType(c["seed"].as_int()));
    Permutation p(Index(c["n"].as_int()), rng);
    r["out"] = perm_json(p);
    return r;
  }
  Graph g = make_g(c["g"], 0);
  const vj::Value snap = g_json(g);
  const vj::Value& call = c["call"];
  if(op == "coloring")
  {
    XVec order = to_idx(call["order"]);
    Coloring col = call["ordered"].as_bool() ? Coloring(g, order.data()) : Coloring(g);
    vj::Value o = vj::Value::object(), a = vj::Value::array();
    for(Index i = 0; i < col.get_num_nodes(); ++i) a.push(vj::Value((long long)col.get_coloring()[i]));
    o["col"] = a; o["ncol"] = (long long)col.get_num_colors();
    if(col.get_num_colors() > 0 && col.get_max_color() + 1 != col.get_num_colors()) return vh::bad("get_max_color inconsistent with get_num_colors");
    if(col.size() != std::size_t(col.get_num_nodes()) || col.empty() != (col.get_num_nodes() == 0)) return vh::bad("size()/empty() inconsistent");
    for(Index i = 0; i < col.get_num_nodes(); ++i) if(col[i] != col.get_coloring()[i]) return vh::bad("operator[] differs from get_coloring");
    Graph pg = col.create_partition_graph();
    o["pg"] = g_json(pg);
    r["out"] = o;
  }
  else if(op == "cmk")
  {
    const std::string rt = call["rt"].as_str(), st = call["st"].as_str();
    CuthillMcKee::RootType R = rt == "standard" ? CuthillMcKee::RootType::standard : (rt == "minimum_degree" ? CuthillMcKee::RootType::minimum_degree : CuthillMcKee::RootType::maximum_degree);
    CuthillMcKee::SortType S = st == "standard" ? CuthillMcKee::SortType::standard : (st == "asc" ? CuthillMcKee::SortType::asc : CuthillMcKee::SortType::desc);
    Permutation p = CuthillMcKee::compute(g, call["reverse"].as_bool(), R, S);
    r["out"] = perm_json(p);
  }
  else return vh::bad("unknown op " + op);
  if(g_json(g) != snap) return vh::bad("graph modified by " + op);
  return r;
}

// ---- Coloring objects built from explicit colour arrays (spec/AdjacencyColor.tla) ---------------------------------
static bool coloring_is(const Coloring& col, const vj::Value& e, std::string& why, const std::string& what)
{
  IVec ec = e["col"].ints(); const long long encol = e["ncol"].as_int();
  if((long long)col.get_num_nodes() != (long long)ec.size() || col.size() != ec.size()) { why = what + ": get_num_nodes() = " + std::to_string(col.get_num_nodes()); return false; }
  if(col.empty() != ec.empty()) { why = what + ": empty()"; return false; }
  if((long long)col.get_num_colors() != encol) { why = what + ": get_num_colors() = " + std::to_string(col.get_num_colors()) + " expected " + std::to_string(encol); return false; }
  if(encol > 0 && (long long)col.get_max_color() != encol - 1) { why = what + ": get_max_color() = " + std::to_string(col.get_max_color()); return false; }
  for(std::size_t i = 0; i < ec.size(); ++i)
    if((long long)col.get_coloring()[i] != ec[i] || (long long)col[Index(i)] != ec[i]) { why = what + ": colour of node " + std::to_string(i) + " is " + std::to_string(col[Index(i)]); return false; }
  return true;
}

static Coloring construct_coloring(const std::string& ctor, Index n, Index c, const XVec& colv)
{
  if(ctor == "default") return Coloring();
  if(ctor == "vector") return Coloring(c, colv);
  if(ctor == "alloc")
  {
    Coloring col(n, c);
    for(Index i = 0; i < n; ++i) { if(i % 2) col[i] = colv[i]; else col.get_coloring()[i] = colv[i]; }
    return col;
  }
  if(ctor == "array") { XVec tmp(colv); return Coloring(n, static_cast<Index*>(tmp.data())); }
  throw std::runtime_error("coloring constructor " + ctor);
}

static vj::Value run_coloring(const vj::Value& c)
{
  const std::string op = c["op"].as_str(), ctor = c["ctor"].as_str();
  XVec colv = to_idx(c["col"]);
  std::string why;
  Coloring col = construct_coloring(ctor, Index(c["n"].as_int()), Index(c["c"].as_int()), colv);
  if(op == "inspect")
  {
    if(!coloring_is(col, c["exp"], why, "constructor " + ctor)) return vh::bad(why);
    return vh::ok();
  }
  if(op == "clone")
  {
    Coloring c2 = col.clone();
    if(!coloring_is(c2, c["exp"], why, "clone()")) return vh::bad(why);
    Coloring c3(std::move(c2));
    if(!coloring_is(c3, c["exp"], why, "move constructor")) return vh::bad(why);
    return vh::ok();
  }
  if(op == "partition")
  {
    Graph pg = col.create_partition_graph();
    vj::Value got = g_json(pg);
    // every node once under its colour: the lists are compared as bags, the offsets exactly
    if(!same_graph(got, c["exp"], false, why)) return vh::bad("create_partition_graph: " + why, c["exp"], got);
    if(!coloring_is(col, c["obj"], why, "object after create_partition_graph")) return vh::bad(why);
    return vh::ok();
  }
  return vh::bad("unknown coloring op " + op);
}

vj::Value run_case(const vj::Value& c)
{
  const std::string h = c["h"].as_str();
  if(h == "g") return run_graph(c);
  if(h == "p") return run_perm(c);
  if(h == "v") return run_record(c);
  if(h == "c") return run_coloring(c);
  return vh::bad("unknown case class " + h);
}

int main(int argc, char** argv) { return vh::main_loop(argc, argv); }
