// C05 extension, replayer for spec/PersistPack.tla: FEAT::Pack (kernel/util/pack.hpp).
//
//  kind "codec":  Pack::estimate_size, Pack::encode<T>, Pack::decode<T2> for one (machine type T, pack type, machine
//                 type T2, swap flag, value array).  The source array is BUILT from the specification's abstract values
//                 (integer: sign + base-256 digits, float: sign + mantissa bits + exponent - input construction only);
//                 the produced buffer is compared BYTE BY BYTE with the buffer the specification predicts, the return
//                 values with the predicted byte counts, guard bytes behind the estimated size must stay untouched,
//                 the source must stay unmodified; then the buffer is decoded into T2 and compared bit by bit with the
//                 predicted values, the buffer must stay unmodified and guard elements behind dst untouched.
//  kind "reject": a call outside the domain (class mismatch, F16/F128/zlib/zfp types in a build without them,
//                 Type::None): the specification demands that it is REPORTED - FEAT does that by aborting the process.
//                 Reaching the end of the case is the failure ("answered instead of rejected").
//  kind "table":  Pack::element_size, operator<< / operator>> (also lower case, unknown names set failbit),
//                 Pack::deduct_type<T>() against the specification's tables; Type & Mask_T.
#include "vharness.hpp"
#include <kernel/util/pack.hpp>
#include <cmath>
#include <cstring>
#include <sstream>

using namespace FEAT;

static std::string hex(const unsigned char* p, std::size_t n)
{
  static const char* d = "0123456789abcdef"; std::string s;
  for(std::size_t i = 0; i < n; ++i) { if(i) s += ' '; s += d[p[i] >> 4]; s += d[p[i] & 15]; }
  return s;
}

// ---- abstract value -> machine value (input construction) ---------------------------------------------------
template<class T> struct IsFloat { static constexpr bool value = false; };
template<> struct IsFloat<float> { static constexpr bool value = true; };
template<> struct IsFloat<double> { static constexpr bool value = true; };

template<class T> T make_int(const vj::Value& v)
{
  std::uint64_t mag = 0; std::vector<long long> d = v["mag"].ints();
  for(std::size_t i = d.size(); i-- > 0;) mag = (mag << 8) | std::uint64_t(d[i]);
  if(v["neg"].as_bool()) mag = std::uint64_t(0) - mag;       // two's complement, then truncation to the width of T
  return static_cast<T>(mag);
}
template<class T> T make_float(const vj::Value& v)
{
  const std::string k = v["k"].as_str(); double x = 0.0;
  if(k == "inf") x = HUGE_VAL;
  else if(k == "num")
  {
    std::vector<long long> mb = v["mb"].ints(); double m = 0.0;
    for(long long b : mb) m = 2.0 * m + double(b);           // <= 53 bits: exact
    x = std::ldexp(m, int(v["e"].as_int()));
  }
  if(v["neg"].as_bool()) x = -x;
  return static_cast<T>(x);                                   // the value is representable in T (enabling condition)
}
template<class T> T make_val(const vj::Value& v)
{
  if constexpr(IsFloat<T>::value) return make_float<T>(v); else return make_int<T>(v);
}

template<class T, class T2>
vj::Value run_codec(const vj::Value& c, const std::string& tag)
{
  const std::size_t n = std::size_t(c["count"].as_int());
  const Pack::Type pt = Pack::Type(Pack::u16(c["pcode"].as_int()));
  const bool swap = c["swap"].as_bool();
  std::vector<T> src(n + 1), src0;
  for(std::size_t i = 0; i < n; ++i) src[i] = make_val<T>(c["vals"][i]);
  src0 = src;
  // estimate
  const std::size_t est = Pack::estimate_size(n, pt);
  if((long long)est != c["estimate"].as_int()) return vh::bad(tag + "/estimate_size: returned " + std::to_string(est) + " expected " + std::to_string(c["estimate"].as_int()));
  const std::size_t guard = 24;
  std::vector<unsigned char> buf(est + guard, 0xA5);
  const std::size_t ret = Pack::encode(buf.data(), src.data(), est, n, pt, swap);
  if((long long)ret != c["encret"].as_int()) return vh::bad(tag + "/encode: returned " + std::to_string(ret) + " expected " + std::to_string(c["encret"].as_int()));
  std::vector<long long> eb = c["buf"].ints();
  if(eb.size() != est) return vh::bad(tag + ": harness: predicted buffer length differs from the predicted estimate");
  for(std::size_t i = 0; i < eb.size(); ++i)
    if(buf[i] != (unsigned char)eb[i])
    {
      std::vector<unsigned char> e(eb.begin(), eb.end());
      return vh::bad(tag + "/encode: buffer byte " + std::to_string(i) + " (element " + std::to_string(i / std::max<std::size_t>(1, est / std::max<std::size_t>(1, n))) + ") differs: got [" + hex(buf.data(), est) + "] expected [" + hex(e.data(), est) + "]");
    }
  for(std::size_t i = est; i < buf.size(); ++i) if(buf[i] != 0xA5) return vh::bad(tag + "/encode: wrote behind the estimated buffer size (byte " + std::to_string(i) + ")");
  if(n > 0 && std::memcmp(src.data(), src0.data(), n * sizeof(T)) != 0) return vh::bad(tag + "/encode: modified the source array");
  // decode
  std::vector<unsigned char> buf0 = buf;
  std::vector<T2> dst(n + 2); std::memset(dst.data(), 0x5A, dst.size() * sizeof(T2));
  const std::size_t dret = Pack::decode(dst.data(), buf.data(), n, est, pt, swap);
  if((long long)dret != c["decret"].as_int()) return vh::bad(tag + "/decode: returned " + std::to_string(dret) + " expected " + std::to_string(c["decret"].as_int()));
  if(buf != buf0) return vh::bad(tag + "/decode: modified the packed buffer");
  for(std::size_t i = 0; i < n; ++i)
  {
    const T2 e = make_val<T2>(c["back"][i]);
    if(std::memcmp(&e, &dst[i], sizeof(T2)) != 0)
      return vh::bad(tag + "/decode: element " + std::to_string(i) + " is [" + hex(reinterpret_cast<const unsigned char*>(&dst[i]), sizeof(T2)) + "] expected [" + hex(reinterpret_cast<const unsigned char*>(&e), sizeof(T2)) + "] (memory image of the value)");
  }
  for(std::size_t i = n; i < dst.size(); ++i)
  {
    const unsigned char* p = reinterpret_cast<const unsigned char*>(&dst[i]);
    for(std::size_t b = 0; b < sizeof(T2); ++b) if(p[b] != 0x5A) return vh::bad(tag + "/decode: wrote behind the destination array");
  }
  return vh::ok();
}

template<class T> vj::Value run_codec_dst(const vj::Value& c, const std::string& cls, const std::string& tag)
{
  const int dw = int(c["dw"].as_int());
  if(cls == "F") { if(dw == 4) return run_codec<T, float>(c, tag); if(dw == 8) return run_codec<T, double>(c, tag); }
  if(cls == "I") { if(dw == 1) return run_codec<T, std::int8_t>(c, tag); if(dw == 2) return run_codec<T, std::int16_t>(c, tag); if(dw == 4) return run_codec<T, std::int32_t>(c, tag); if(dw == 8) return run_codec<T, std::int64_t>(c, tag); }
  if(cls == "U") { if(dw == 1) return run_codec<T, std::uint8_t>(c, tag); if(dw == 2) return run_codec<T, std::uint16_t>(c, tag); if(dw == 4) return run_codec<T, std::uint32_t>(c, tag); if(dw == 8) return run_codec<T, std::uint64_t>(c, tag); }
  return vh::bad("harness: unsupported destination type");
}

// machine types of a class may only be combined within the class (the template would not even instantiate a sensible
// conversion otherwise), so the dispatch is per class
static vj::Value run_codec_any(const vj::Value& c)
{
  const std::string cls = c["cls"].as_str(); const int sw = int(c["sw"].as_int());
  const std::string tag = cls + std::to_string(8 * sw) + "->" + cls + std::to_string(8 * c["pw"].as_int()) + (c["swap"].as_bool() ? "(swapped)" : "") + "->" + cls + std::to_string(8 * c["dw"].as_int()) + " n=" + std::to_string(c["count"].as_int());
  if(cls == "F") { if(sw == 4) return run_codec_dst<float>(c, cls, tag); if(sw == 8) return run_codec_dst<double>(c, cls, tag); }
  if(cls == "I") { if(sw == 1) return run_codec_dst<std::int8_t>(c, cls, tag); if(sw == 2) return run_codec_dst<std::int16_t>(c, cls, tag); if(sw == 4) return run_codec_dst<std::int32_t>(c, cls, tag); if(sw == 8) return run_codec_dst<std::int64_t>(c, cls, tag); }
  if(cls == "U") { if(sw == 1) return run_codec_dst<std::uint8_t>(c, cls, tag); if(sw == 2) return run_codec_dst<std::uint16_t>(c, cls, tag); if(sw == 4) return run_codec_dst<std::uint32_t>(c, cls, tag); if(sw == 8) return run_codec_dst<std::uint64_t>(c, cls, tag); }
  return vh::bad("harness: unsupported source type");
}

// ---- calls outside the domain ----------------------------------------------------------------------------------
template<class T> vj::Value run_reject_t(const vj::Value& c)
{
  const std::string what = c["what"].as_str(); const std::size_t n = std::size_t(c["count"].as_int());
  const Pack::Type pt = Pack::Type(Pack::u16(c["pcode"].as_int()));
  std::vector<T> arr(n, T(1)); std::vector<unsigned char> buf(16 * n + 4096, 0);
  std::size_t r = 0;
  if(what == "estimate") r = Pack::estimate_size(n, pt);
  else if(what == "encode") r = Pack::encode(buf.data(), arr.data(), buf.size(), n, pt, false);
  else if(what == "decode") r = Pack::decode(arr.data(), buf.data(), n, buf.size(), pt, false);
  else return vh::bad("harness: unknown call " + what);
  std::ostringstream os; os << pt;
  return vh::bad("reject/" + what + ": the call with pack type " + os.str() + " (code " + std::to_string(c["pcode"].as_int()) + ") was answered (returned " + std::to_string(r) + ") instead of being rejected");
}
static vj::Value run_reject(const vj::Value& c)
{
  const std::string cls = c["cls"].as_str(); const int sw = int(c["sw"].as_int());
  if(cls == "F") return sw == 4 ? run_reject_t<float>(c) : run_reject_t<double>(c);
  if(cls == "I") return sw == 4 ? run_reject_t<std::int32_t>(c) : (sw == 8 ? run_reject_t<std::int64_t>(c) : run_reject_t<std::int8_t>(c));
  return sw == 4 ? run_reject_t<std::uint32_t>(c) : (sw == 8 ? run_reject_t<std::uint64_t>(c) : run_reject_t<std::uint8_t>(c));
}

// ---- tables ------------------------------------------------------------------------------------------------------
template<class T> long long ded() { return (long long)Pack::u16(Pack::deduct_type<T>()); }
static vj::Value run_table(const vj::Value& c)
{
  const vj::Value& ty = c["types"];
  for(std::size_t k = 0; k < ty.size(); ++k)
  {
    const long long code = ty[k]["code"].as_int(); const std::string name = ty[k]["name"].as_str();
    const Pack::Type t = Pack::Type(Pack::u16(code));
    if((long long)Pack::element_size(t) != ty[k]["esize"].as_int()) return vh::bad("table/element_size(" + name + ") = " + std::to_string(Pack::element_size(t)) + " expected " + std::to_string(ty[k]["esize"].as_int()));
    if((long long)Pack::u16(t & Pack::Type::Mask_T) != ty[k]["raw"].as_int()) return vh::bad("table/" + name + " & Mask_T is not the raw type");
    std::ostringstream os; os << t;
    if(os.str() != name) return vh::bad("table/operator<<: type code " + std::to_string(code) + " prints as '" + os.str() + "' expected '" + name + "'");
    std::string lower = name; for(char& ch : lower) ch = char(std::tolower((unsigned char)ch));
    for(const std::string& s : { name, lower })
    {
      std::istringstream is(s + " rest"); Pack::Type r = Pack::Type::None; is >> r;
      if(is.fail() || (long long)Pack::u16(r) != code) return vh::bad("table/operator>>: '" + s + "' parses to code " + std::to_string((long long)Pack::u16(r)) + (is.fail() ? " (failbit)" : "") + " expected " + std::to_string(code));
      std::string rest; is >> rest; if(rest != "rest") return vh::bad("table/operator>>: '" + s + "' consumed more than the type name");
    }
    { std::istringstream is(name + "x"); Pack::Type r = Pack::Type::None; is >> r; if(!is.fail()) return vh::bad("table/operator>>: the unknown name '" + name + "x' is accepted"); }
  }
  { std::istringstream is("F8"); Pack::Type r = Pack::Type::None; is >> r; if(!is.fail()) return vh::bad("table/operator>>: the unknown name 'F8' is accepted"); }
  const vj::Value& de = c["deduct"];
  for(std::size_t k = 0; k < de.size(); ++k)
  {
    const std::string cls = de[k]["cls"].as_str(); const int w = int(de[k]["w"].as_int()); long long got = -1;
    if(cls == "I") got = w == 1 ? ded<std::int8_t>() : w == 2 ? ded<std::int16_t>() : w == 4 ? ded<std::int32_t>() : ded<std::int64_t>();
    if(cls == "U") got = w == 1 ? ded<std::uint8_t>() : w == 2 ? ded<std::uint16_t>() : w == 4 ? ded<std::uint32_t>() : ded<std::uint64_t>();
    if(cls == "F") got = w == 4 ? ded<float>() : ded<double>();
    if(got != de[k]["code"].as_int()) return vh::bad("table/deduct_type<" + cls + std::to_string(8 * w) + "> = " + std::to_string(got) + " expected " + std::to_string(de[k]["code"].as_int()));
  }
  // the standard integer types map onto the sized ones
  if(ded<int>() != ded<std::int32_t>() || ded<unsigned long>() != ded<std::uint64_t>() || ded<long long>() != ded<std::int64_t>() || ded<Index>() != ded<std::uint64_t>())
    return vh::bad("table/deduct_type of int / unsigned long / long long / Index");
  return vh::ok();
}

vj::Value run_case(const vj::Value& c)
{
  const std::string kind = c["kind"].as_str();
  if(kind == "codec") return run_codec_any(c);
  if(kind == "reject") return run_reject(c);
  if(kind == "table") return run_table(c);
  return vh::bad("harness: unknown case kind " + kind);
}

int main(int argc, char** argv) { return vh::main_loop(argc, argv); }
