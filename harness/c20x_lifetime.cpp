// C20 (extension) replayer: executes the histories generated from spec/LifetimeX.tla on real LAFEM containers and, after
// EVERY step, compares the real world with the world predicted by the specification:
//   aliasing classes of all arrays (chunk ids <-> pointers), the null chunk <-> nullptr, array sizes (SparseVector: the
//   capacity the class' allocation policy gives, and its used-entries scalar), the allocated size of every chunk,
//   MemoryPool reference counters (hook H1), number of live chunks, contents (one token per chunk).
// At the end of a history marked "dofin" a forked child calls Runtime::finalize() with the containers of the history still
// alive: the specification predicts the outcome class ("clean": returns 0, "leak": MemoryPool reports the chunks, exit code 1).
// The harness does projection only: every expected value is in the case (computed by TLC from the specification).
// Built in the `asan` variant, so use-after-free / double free / leaks inside an operation are outcomes.
//
// Families (spec constant Fams): dv DenseVector, dvb DenseVectorBlocked<.,.,2>, sv SparseVector, csr SparseMatrixCSR,
// bcsr SparseMatrixBCSR<.,.,2,2>, cscr SparseMatrixCSCR, banded SparseMatrixBanded, dm DenseMatrix,
// tv TupleVector<DenseVector, DenseVector>, lay SparseLayout<IT, lt_csr> (shared by csr and bcsr).
#include "vharness.hpp"
#include <kernel/lafem/dense_vector.hpp>
#include <kernel/lafem/dense_vector_blocked.hpp>
#include <kernel/lafem/sparse_vector.hpp>
#include <kernel/lafem/sparse_matrix_csr.hpp>
#include <kernel/lafem/sparse_matrix_bcsr.hpp>
#include <kernel/lafem/sparse_matrix_cscr.hpp>
#include <kernel/lafem/sparse_matrix_banded.hpp>
#include <kernel/lafem/dense_matrix.hpp>
#include <kernel/lafem/tuple_vector.hpp>
#include <kernel/lafem/sparse_layout.hpp>
#include <kernel/adjacency/graph.hpp>
#include <kernel/util/memory_pool.hpp>
#include <map>
#include <memory>
#include <sys/wait.h>

using namespace FEAT;
using namespace FEAT::LAFEM;

typedef std::uint64_t u64; typedef std::uint32_t u32;

enum { F_DV = 0, F_CSR = 1, F_LAY = 2, F_BCSR = 3, F_DVB = 4, F_SV = 5, F_CSCR = 6, F_BAND = 7, F_DM = 8, F_TV = 9 };

static int fam_id(const std::string& f)
{
  if(f == "dv") return F_DV; if(f == "csr") return F_CSR; if(f == "lay") return F_LAY; if(f == "bcsr") return F_BCSR;
  if(f == "dvb") return F_DVB; if(f == "sv") return F_SV; if(f == "cscr") return F_CSCR; if(f == "banded") return F_BAND;
  if(f == "dm") return F_DM; if(f == "tv") return F_TV;
  throw std::runtime_error("unknown family " + f);
}

// one array of a container: kind, address, length the container records, element size
struct ArrInfo { bool el; const void* ptr; Index n; std::size_t esize; };

// content token of the first cnt values of a value array: the common value, -2 if they differ, -1 if there is nothing to read
static long long tok_of(const ArrInfo& a, Index cnt)
{
  if(!a.el || a.ptr == nullptr || cnt == 0) return -1;
  if(a.esize == sizeof(double))
  {
    const double* p = static_cast<const double*>(a.ptr);
    for(Index t = 1; t < cnt; ++t) if(p[t] != p[0]) return -2;
    return (long long)p[0];
  }
  const float* p = static_cast<const float*>(a.ptr);
  for(Index t = 1; t < cnt; ++t) if(p[t] != p[0]) return -2;
  return (long long)p[0];
}

template<class DT, class IT> using DV = DenseVector<DT, IT>;
template<class DT, class IT> using DVB = DenseVectorBlocked<DT, IT, 2>;
template<class DT, class IT> using SV = SparseVector<DT, IT>;
template<class DT, class IT> using CSR = SparseMatrixCSR<DT, IT>;
template<class DT, class IT> using BCSR = SparseMatrixBCSR<DT, IT, 2, 2>;
template<class DT, class IT> using CSCR = SparseMatrixCSCR<DT, IT>;
template<class DT, class IT> using BAND = SparseMatrixBanded<DT, IT>;
template<class DT, class IT> using DM = DenseMatrix<DT, IT>;
template<class DT, class IT> using TV = TupleVector<DenseVector<DT, IT>, DenseVector<DT, IT>>;

template<class DT, class IT>
static void collect(const Container<DT, IT>& c, std::vector<ArrInfo>& r)
{
  const auto& es = c.get_elements(); const auto& ess = c.get_elements_size();
  if(es.size() != ess.size()) throw std::runtime_error("element array list and size list differ in length");
  for(std::size_t k = 0; k < es.size(); ++k) { ArrInfo a; a.el = true; a.ptr = es[k]; a.n = ess[k]; a.esize = sizeof(DT); r.push_back(a); }
  const auto& is = c.get_indices(); const auto& iss = c.get_indices_size();
  if(is.size() != iss.size()) throw std::runtime_error("index array list and size list differ in length");
  for(std::size_t k = 0; k < is.size(); ++k) { ArrInfo a; a.el = false; a.ptr = is[k]; a.n = iss[k]; a.esize = sizeof(IT); r.push_back(a); }
}
template<class DT, class IT>
static void collect_any(const TV<DT, IT>& c, std::vector<ArrInfo>& r)
{
  collect(static_cast<const Container<DT, IT>&>(c.template at<0>()), r);
  collect(static_cast<const Container<DT, IT>&>(c.template at<1>()), r);
}
template<class DT, class IT>
static void collect_any(const Container<DT, IT>& c, std::vector<ArrInfo>& r) { collect(c, r); }

struct ISlot
{
  int fam = 0, ty = 0;
  virtual ~ISlot() {}
  virtual std::vector<ArrInfo> arrays() const = 0;
};
// SparseVector slots: the number of used entries, read from the scalar list directly (used_elements() would sort)
struct SvSlotBase : ISlot { virtual long long used_scalar() const = 0; };

template<class CT> struct IsSV { static constexpr bool value = false; };
template<class DT, class IT> struct IsSV<SV<DT, IT>> { static constexpr bool value = true; };

template<class CT>
struct SlotT : std::conditional<IsSV<CT>::value, SvSlotBase, ISlot>::type
{
  CT c;
  SlotT() : c() {}
  explicit SlotT(CT&& x) : c(std::move(x)) {}
  std::vector<ArrInfo> arrays() const override { std::vector<ArrInfo> r; collect_any(c, r); return r; }
  long long used_scalar() const
  {
    if constexpr (IsSV<CT>::value) { const auto& si = c.get_scalar_index(); return si.size() > 1 ? (long long)si[1] : 0ll; }
    else return -1;
  }
};

// a SparseLayout object as a slot: holds references to index arrays only
template<class IT>
struct LaySlot : ISlot
{
  typedef SparseLayout<IT, SparseLayoutId::lt_csr> LT;
  LT l;
  explicit LaySlot(LT&& x) : l(std::move(x)) {}
  std::vector<ArrInfo> arrays() const override
  {
    std::vector<ArrInfo> r;
    for(std::size_t k = 0; k < l._indices.size(); ++k) { ArrInfo a; a.el = false; a.ptr = l._indices[k]; a.n = l._indices_size[k]; a.esize = sizeof(IT); r.push_back(a); }
    return r;
  }
};

template<class T> struct Tag { typedef T type; };
template<int F> struct FTag { static constexpr int value = F; };

template<int F, class DT, class IT> struct FamT;
template<class DT, class IT> struct FamT<F_DV, DT, IT> { typedef DV<DT, IT> type; };
template<class DT, class IT> struct FamT<F_DVB, DT, IT> { typedef DVB<DT, IT> type; };
template<class DT, class IT> struct FamT<F_SV, DT, IT> { typedef SV<DT, IT> type; };
template<class DT, class IT> struct FamT<F_CSR, DT, IT> { typedef CSR<DT, IT> type; };
template<class DT, class IT> struct FamT<F_BCSR, DT, IT> { typedef BCSR<DT, IT> type; };
template<class DT, class IT> struct FamT<F_CSCR, DT, IT> { typedef CSCR<DT, IT> type; };
template<class DT, class IT> struct FamT<F_BAND, DT, IT> { typedef BAND<DT, IT> type; };
template<class DT, class IT> struct FamT<F_DM, DT, IT> { typedef DM<DT, IT> type; };
template<class DT, class IT> struct FamT<F_TV, DT, IT> { typedef TV<DT, IT> type; };

// call f(FTag<F>) for the family id
template<class Fn> void with_fam(int fam, Fn&& f)
{
  switch(fam)
  {
    case F_DV: f(FTag<F_DV>()); break; case F_DVB: f(FTag<F_DVB>()); break; case F_SV: f(FTag<F_SV>()); break;
    case F_CSR: f(FTag<F_CSR>()); break; case F_BCSR: f(FTag<F_BCSR>()); break; case F_CSCR: f(FTag<F_CSCR>()); break;
    case F_BAND: f(FTag<F_BAND>()); break; case F_DM: f(FTag<F_DM>()); break; case F_TV: f(FTag<F_TV>()); break;
    default: throw std::runtime_error("no container family " + std::to_string(fam));
  }
}
// call f(Tag<ContainerType>) for type tag ty (1 = double/u64, 2 = float/u64, 3 = double/u32) of family F
template<int F, class Fn> void with_ty(int ty, Fn&& f)
{
  if(ty == 1) f(Tag<typename FamT<F, double, u64>::type>()); else if(ty == 2) f(Tag<typename FamT<F, float, u64>::type>()); else f(Tag<typename FamT<F, double, u32>::type>());
}
// call f(Tag<Source>, Tag<Target>) for the type tags ty1 of family FS and ty2 of family FD
template<int FS, int FD, class Fn> void with_ty2(int ty1, int ty2, Fn&& f)
{
  with_ty<FS>(ty1, [&](auto ts) { with_ty<FD>(ty2, [&](auto td) { f(ts, td); }); });
}
template<class Fn> void with_type(int fam, int ty, Fn&& f)
{
  with_fam(fam, [&](auto ft) { with_ty<decltype(ft)::value>(ty, f); });
}

static CloneMode mode_of(const std::string& m)
{
  if(m == "shallow") return CloneMode::Shallow; if(m == "layout") return CloneMode::Layout; if(m == "weak") return CloneMode::Weak;
  if(m == "deep") return CloneMode::Deep; return CloneMode::Allocate;
}

// ---- constructors: the variants of spec/LifetimeX.tla (operators Shapes / MatShape / Layout) --------------------------
// patterns (MatShape):  full = {(0,0),(0,2),(1,1)}   band = {(0,0),(0,1),(1,1),(1,2)}   on 2 x 3 (block) matrices
template<class IT> static DenseVector<IT, IT> ivec(std::initializer_list<int> v)
{
  DenseVector<IT, IT> r{Index(v.size())}; Index k = 0; for(int x : v) r(k++, IT(x)); return r;
}
template<class CT> struct Maker;
template<class DT, class IT> struct Maker<DV<DT, IT>> { static DV<DT, IT> make(const std::string& v, long long t)
{
  if(v == "n3") return DV<DT, IT>(Index(3), DT(t));
  if(v == "n4") return DV<DT, IT>(Index(4), DT(t));
  if(v == "n0") return DV<DT, IT>(Index(0));
  throw std::runtime_error("unknown variant " + v);
} };
template<class DT, class IT> struct Maker<DVB<DT, IT>> { static DVB<DT, IT> make(const std::string& v, long long t)
{
  if(v == "b2") return DVB<DT, IT>(Index(2), DT(t));
  if(v == "b3") return DVB<DT, IT>(Index(3), DT(t));
  if(v == "b0") return DVB<DT, IT>(Index(0));
  throw std::runtime_error("unknown variant " + v);
} };
template<class DT, class IT> struct Maker<SV<DT, IT>> { static SV<DT, IT> make(const std::string& v, long long t)
{
  if(v == "e") return SV<DT, IT>(Index(4));
  if(v != "f") throw std::runtime_error("unknown variant " + v);
  DenseVector<DT, IT> el(Index(2), DT(t)); DenseVector<IT, IT> ix = ivec<IT>({0, 1});
  return SV<DT, IT>(Index(4), el, ix);
} };
template<class DT, class IT> struct Maker<CSR<DT, IT>> { static CSR<DT, IT> make(const std::string& var, long long tok)
{
  if(var == "bare") return CSR<DT, IT>(Index(2), Index(3));
  if(var == "nz0") return CSR<DT, IT>(Index(2), Index(3), Index(0));   // allocated, but with size-0 value / column index arrays
  if(var == "band")
  {
    DenseVector<IT, IT> ci = ivec<IT>({0, 1, 1, 2}), rp = ivec<IT>({0, 2, 4}); DenseVector<DT, IT> va(Index(4), DT(tok));
    return CSR<DT, IT>(Index(2), Index(3), ci, va, rp);
  }
  if(var != "full") throw std::runtime_error("unknown variant " + var);
  DenseVector<IT, IT> ci = ivec<IT>({0, 2, 1}), rp = ivec<IT>({0, 2, 3}); DenseVector<DT, IT> va(Index(3), DT(tok));
  return CSR<DT, IT>(Index(2), Index(3), ci, va, rp);
} };
template<class DT, class IT> struct Maker<BCSR<DT, IT>> { static BCSR<DT, IT> make(const std::string& var, long long tok)
{
  if(var == "bare") return BCSR<DT, IT>(Index(2), Index(3));
  if(var == "nz0") return BCSR<DT, IT>(Index(2), Index(3), Index(0));
  if(var == "band")
  {
    DenseVector<IT, IT> ci = ivec<IT>({0, 1, 1, 2}), rp = ivec<IT>({0, 2, 4}); DenseVector<DT, IT> va(Index(16), DT(tok));
    return BCSR<DT, IT>(Index(2), Index(3), ci, va, rp);
  }
  if(var != "full") throw std::runtime_error("unknown variant " + var);
  DenseVector<IT, IT> ci = ivec<IT>({0, 2, 1}), rp = ivec<IT>({0, 2, 3}); DenseVector<DT, IT> va(Index(12), DT(tok));
  return BCSR<DT, IT>(Index(2), Index(3), ci, va, rp);
} };
template<class DT, class IT> struct Maker<CSCR<DT, IT>> { static CSCR<DT, IT> make(const std::string& var, long long tok)
{
  if(var == "bare") return CSCR<DT, IT>(Index(2), Index(3));
  if(var == "nz0") return CSCR<DT, IT>(Index(2), Index(3), Index(0), Index(0));
  if(var != "full") throw std::runtime_error("unknown variant " + var);
  DenseVector<IT, IT> ci = ivec<IT>({0, 2, 1}), rp = ivec<IT>({0, 2, 3}), rn = ivec<IT>({0, 1}); DenseVector<DT, IT> va(Index(3), DT(tok));
  return CSCR<DT, IT>(Index(2), Index(3), ci, va, rp, rn);
} };
template<class DT, class IT> struct Maker<BAND<DT, IT>> { static BAND<DT, IT> make(const std::string& var, long long tok)
{
  if(var == "o1") { DenseVector<IT, IT> of = ivec<IT>({2}); DenseVector<DT, IT> va(Index(3), DT(tok)); return BAND<DT, IT>(Index(3), Index(3), va, of); }
  if(var != "o2") throw std::runtime_error("unknown variant " + var);
  DenseVector<IT, IT> of = ivec<IT>({2, 3}); DenseVector<DT, IT> va(Index(6), DT(tok));
  return BAND<DT, IT>(Index(3), Index(3), va, of);
} };
template<class DT, class IT> struct Maker<DM<DT, IT>> { static DM<DT, IT> make(const std::string& var, long long tok)
{
  if(var == "m13") return DM<DT, IT>(Index(1), Index(3), DT(tok));
  if(var != "m22") throw std::runtime_error("unknown variant " + var);
  return DM<DT, IT>(Index(2), Index(2), DT(tok));
} };
template<class DT, class IT> struct Maker<TV<DT, IT>> { static TV<DT, IT> make(const std::string& var, long long tok)
{
  if(var == "t32") return TV<DT, IT>(DV<DT, IT>(Index(3), DT(tok)), DV<DT, IT>(Index(2), DT(tok)));
  if(var == "t30") return TV<DT, IT>(DV<DT, IT>(Index(3), DT(tok)), DV<DT, IT>(Index(0)));
  if(var != "t00") throw std::runtime_error("unknown variant " + var);
  return TV<DT, IT>(DV<DT, IT>(Index(0)), DV<DT, IT>(Index(0)));
} };

struct World
{
  std::map<int, std::unique_ptr<ISlot>> slots;
  Index base_chunks = 0;
};

static std::string compare_world(const World& w, const vj::Value& pred)
{
  const vj::Value& ps = pred["slots"];
  std::map<long long, const void*> cmap; std::map<const void*, long long> pmap;
  std::size_t nslots = ps.size();
  for(std::size_t s = 0; s < nslots; ++s)
  {
    const vj::Value& e = ps[s];
    bool live = e[0].as_bool(); int sid = int(s) + 1;
    auto it = w.slots.find(sid);
    if(live != (it != w.slots.end())) return "slot " + std::to_string(sid) + ": liveness";
    if(!live) continue;
    const bool is_sv = (it->second->fam == F_SV);
    std::vector<ArrInfo> ar = it->second->arrays();
    const vj::Value& pa = e[4];
    const long long used = e[5].as_int();   // SparseVector: number of entries held (else -1)
    if(is_sv)
    {
      const long long got_used = static_cast<SvSlotBase*>(it->second.get())->used_scalar();
      if(got_used != used) return "slot " + std::to_string(sid) + ": used entries " + std::to_string(got_used) + " expected " + std::to_string(used);
    }
    if(ar.size() != pa.size()) return "slot " + std::to_string(sid) + ": number of arrays " + std::to_string(ar.size()) + " expected " + std::to_string(pa.size());
    for(std::size_t k = 0; k < ar.size(); ++k)
    {
      const vj::Value& a = pa[k];
      bool el = (a[0].as_str() == "el"); long long c = a[1].as_int(), n = a[2].as_int(), off = a[3].as_int(), tok = a[4].as_int(), cnt = a[5].as_int();
      std::string where = "slot " + std::to_string(sid) + " array " + std::to_string(k);
      if(el != ar[k].el) return where + ": kind";
      if(Index(n) != ar[k].n) return where + ": size " + std::to_string(ar[k].n) + " expected " + std::to_string(n);
      if((c == 0) != (ar[k].ptr == nullptr)) return where + ": null chunk <-> null pointer";
      if(c == 0) continue;
      const void* basep = static_cast<const char*>(ar[k].ptr) - std::size_t(off) * ar[k].esize;
      auto ci = cmap.find(c);
      if(ci == cmap.end())
      {
        if(pmap.count(basep)) return where + ": shares memory with chunk " + std::to_string(pmap[basep]) + " but the specification says it is a different array (chunk " + std::to_string(c) + ")";
        cmap[c] = basep; pmap[basep] = c;
      }
      else if(ci->second != basep) return where + ": does not share memory with the other holders of chunk " + std::to_string(c);
      if(MemoryPool::verif_refcount(basep) == Index(0)) return where + ": its memory is not a live chunk of the memory pool";
      // allocated size of the chunk: the count the specification gives (allocate_memory rounds up to a multiple of 4) times the element size
      const Index have = MemoryPool::allocated_size(const_cast<void*>(basep)), want = Index(cnt) * Index(ar[k].esize);
      if(have != want) return where + ": allocated size " + std::to_string(have) + " expected " + std::to_string(want);
      // contents: the values the container holds (SparseVector: its used entries) all equal the token
      if(el && tok >= 0) { long long got = tok_of(ar[k], is_sv ? Index(used) : Index(n)); if(got != tok && !(is_sv && used == 0)) return where + ": content " + std::to_string(got) + " expected " + std::to_string(tok); }
    }
  }
  // reference counters: refs is a function chunk -> count, printed as object {"c": n} (or [] when empty, or an array when the domain is 1..k)
  const vj::Value& pr = pred["refs"];
  std::size_t nref = 0;
  auto check = [&](long long c, long long refs) -> std::string {
    ++nref;
    auto ci = cmap.find(c);
    if(ci == cmap.end()) return "chunk " + std::to_string(c) + " is live in the specification but no live container refers to it";
    Index rc = MemoryPool::verif_refcount(ci->second);
    if((long long)rc != refs) return "chunk " + std::to_string(c) + ": reference counter " + std::to_string(rc) + " expected " + std::to_string(refs);
    return "";
  };
  if(pr.is_obj()) { for(const auto& kv : *pr.o) { std::string r = check(std::atoll(kv.first.c_str()), kv.second.as_int()); if(!r.empty()) return r; } }
  else if(pr.is_arr()) { for(std::size_t k = 0; k < pr.size(); ++k) { std::string r = check((long long)k + 1, pr[k].as_int()); if(!r.empty()) return r; } }
  Index live_chunks = MemoryPool::verif_num_chunks() - w.base_chunks;
  if(live_chunks != Index(nref)) return "number of live pool chunks " + std::to_string(live_chunks) + " expected " + std::to_string(nref);
  return "";
}

template<class CT> CT& cont(ISlot* s) { return static_cast<SlotT<CT>*>(s)->c; }
template<class CT> void put(World& w, int dst, int fam, int ty, CT&& x) { auto* p = new SlotT<CT>(std::move(x)); p->fam = fam; p->ty = ty; w.slots[dst].reset(p); }
template<class CT> void put_default(World& w, int dst, int fam, int ty) { auto* p = new SlotT<CT>(); p->fam = fam; p->ty = ty; w.slots[dst].reset(p); }

// clone / convert within family F: (source type, target type)
template<int F>
static void clone_or_convert(World& w, const std::string& op, const vj::Value& a, ISlot* ps, int dst)
{
  const int ty2 = (int)a["ty"].as_int(); const bool fresh = a["fresh"].as_bool();
  with_ty2<F, F>(ps->ty, ty2, [&](auto tags, auto tagd) {
      typedef typename decltype(tags)::type CS; typedef typename decltype(tagd)::type CD;
      constexpr bool same = std::is_same<CS, CD>::value;
      if(op == "clone")
      {
        const CloneMode mode = mode_of(a["mode"].as_str());
        if constexpr (same)
        {
          // a new object of the same type: the value-returning clone(mode) of the class, stored by move construction
          if(fresh) { put<CD>(w, dst, F, ty2, cont<CS>(ps).clone(mode)); return; }
        }
        if constexpr (same || F != F_TV)   // TupleVector::clone(other, mode) exists for its own type only (the specification does not ask for more)
        {
          if(fresh) put_default<CD>(w, dst, F, ty2);
          cont<CD>(w.slots.at(dst).get()).clone(cont<CS>(ps), mode);
        }
        return;
      }
      if(fresh) put_default<CD>(w, dst, F, ty2);
      cont<CD>(w.slots.at(dst).get()).convert(cont<CS>(ps));
  });
}

// conversion between families: FS source family, FD target family (spec: XTargets)
//   dv <-> dvb (same data type), bcsr -> csr and banded -> csr (same types: the conversion reads the source arrays through
//   pointers of the target's types), csr -> banded, csr -> cscr, cscr -> csr (any types)
template<int FS, int FD>
static void convert_x(World& w, const vj::Value& a, ISlot* ps, int dst)
{
  const int ty2 = (int)a["ty"].as_int(); const bool fresh = a["fresh"].as_bool();
  with_ty2<FS, FD>(ps->ty, ty2, [&](auto tags, auto tagd) {
      typedef typename decltype(tags)::type CS; typedef typename decltype(tagd)::type CD;
      constexpr bool same_dt = std::is_same<typename CS::DataType, typename CD::DataType>::value;
      constexpr bool same_it = std::is_same<typename CS::IndexType, typename CD::IndexType>::value;
      constexpr bool vec = (FS == F_DV || FS == F_DVB);
      constexpr bool typed = (FS == F_BCSR || FS == F_BAND);
      if constexpr ((vec && same_dt) || (typed && same_dt && same_it) || (!vec && !typed))
      {
        if constexpr (!vec || same_it)
        {
          // a new object: the converting constructor of the class (vectors: declared for equal index types only)
          if(fresh) { put<CD>(w, dst, FD, ty2, CD(cont<CS>(ps))); return; }
        }
        if(fresh) put_default<CD>(w, dst, FD, ty2);
        cont<CD>(w.slots.at(dst).get()).convert(cont<CS>(ps));
      }
      else throw std::runtime_error("convertx: the specification never asks for this pair of types");
  });
}

// the layout operations of the matrix family F (csr / bcsr), both built on SparseLayout<IT, lt_csr>
template<int F>
static void layout_op(World& w, const std::string& op, const vj::Value& a, ISlot* ps, int dst)
{
  if(op == "takelayout")
  {
    with_ty<F>(ps->ty, [&](auto tags) {
      typedef typename decltype(tags)::type CS; typedef typename CS::IndexType IT;
      // L = M.layout(), then stored by MOVE construction (as when kept in a std::vector or a member)
      SparseLayout<IT, SparseLayoutId::lt_csr> tmp(cont<CS>(ps).layout());
      auto* p = new LaySlot<IT>(std::move(tmp)); p->fam = F_LAY; p->ty = std::is_same<IT, u64>::value ? 1 : 3; w.slots[dst].reset(p);
    });
    return;
  }
  if(op == "assignlayout")
  {
    ISlot* pd = w.slots.at(dst).get();
    with_ty<F>(pd->ty, [&](auto tagd) {
      typedef typename decltype(tagd)::type CD; typedef typename CD::IndexType IT;
      cont<CD>(pd) = static_cast<LaySlot<IT>*>(ps)->l;
    });
    return;
  }
  // fromlayout: F is the family of the new matrix
  const int ty2 = (int)a["ty"].as_int();
  if(ps->fam == F_LAY)
  {
    with_ty<F>(ty2, [&](auto tagd) {
      typedef typename decltype(tagd)::type CD; typedef typename CD::IndexType IT;
      if((ps->ty == 1) != std::is_same<IT, u64>::value) throw std::runtime_error("fromlayout: index type mismatch");
      put<CD>(w, dst, F, ty2, CD(static_cast<LaySlot<IT>*>(ps)->l));
    });
    return;
  }
  with_ty2<F, F>(ps->ty, ty2, [&](auto tags, auto tagd) {
      typedef typename decltype(tags)::type CS; typedef typename decltype(tagd)::type CD;
      if constexpr (std::is_same<typename CS::IndexType, typename CD::IndexType>::value) put<CD>(w, dst, F, ty2, CD(cont<CS>(ps).layout()));
      else throw std::runtime_error("fromlayout: index type mismatch");
  });
}

// returns "" or a disagreement noticed while applying the step (SparseVector insertion taking another branch than predicted)
static std::string apply_step(World& w, const vj::Value& st)
{
  const std::string op = st["op"].as_str(); const vj::Value& a = st["args"];
  if(op == "create")
  {
    int s = (int)a["s"].as_int(), fam = fam_id(a["fam"].as_str()), ty = (int)a["ty"].as_int();
    std::string var = a["var"].as_str(); long long tok = -1;
    // the token of a fresh container is in the predicted world (first element array)
    const vj::Value& pa = st["world"]["slots"][std::size_t(s - 1)][4];
    for(std::size_t k = 0; k < pa.size(); ++k) if(pa[k][0].as_str() == "el" && pa[k][4].as_int() >= 0) tok = pa[k][4].as_int();
    if(tok < 0) tok = 1;
    with_type(fam, ty, [&](auto tag) { typedef typename decltype(tag)::type CT; put<CT>(w, s, fam, ty, Maker<CT>::make(var, tok)); });
    return "";
  }
  if(op == "clear") { int s = (int)a["s"].as_int(); ISlot* p = w.slots.at(s).get(); with_type(p->fam, p->ty, [&](auto tag) { typedef typename decltype(tag)::type CT; cont<CT>(p).clear(); }); return ""; }
  if(op == "destroy") { w.slots.erase((int)a["s"].as_int()); return ""; }
  if(op == "poke")
  {
    int s = (int)a["s"].as_int(); long long tok = a["tok"].as_int(); ISlot* p = w.slots.at(s).get();
    with_type(p->fam, p->ty, [&](auto tag) { typedef typename decltype(tag)::type CT; cont<CT>(p).format(typename CT::DataType(tok)); });
    return "";
  }
  if(op == "push")
  {
    // append an entry with the next free index; the branch (first allocation / in place / reallocation) is predicted by the specification
    int s = (int)a["s"].as_int(); long long val = a["val"].as_int(); const std::string br = a["br"].as_str(); ISlot* p = w.slots.at(s).get();
    std::string note;
    with_ty<F_SV>(p->ty, [&](auto tag) {
      typedef typename decltype(tag)::type CT; typedef typename CT::DataType DT;
      CT& v = cont<CT>(p);
      const void* before = v.get_elements().empty() ? nullptr : (const void*)v.get_elements().at(0);
      const Index used = v.get_scalar_index().at(1);
      v(used, DT(val));
      const void* after = v.get_elements().empty() ? nullptr : (const void*)v.get_elements().at(0);
      if(br == "inplace" && after != before) note = "the implementation reallocated, the specification says the entry is stored in place";
      if(br != "inplace" && after == before) note = "the implementation stored the entry in place, the specification says new arrays are allocated";
    });
    return note;
  }
  int src = (int)a["src"].as_int(), dst = (int)a["dst"].as_int();
  ISlot* ps = w.slots.at(src).get();
  if(op == "move" || op == "movector")
  {
    with_type(ps->fam, ps->ty, [&](auto tag) {
      typedef typename decltype(tag)::type CT;
      if(op == "move") cont<CT>(w.slots.at(dst).get()) = std::move(cont<CT>(ps));   // move assignment operator of the class
      else put<CT>(w, dst, ps->fam, ps->ty, CT(std::move(cont<CT>(ps))));
    });
    return "";
  }
  if(op == "range")
  {
    if(ps->fam == F_DV) with_ty<F_DV>(ps->ty, [&](auto tag) { typedef typename decltype(tag)::type CT; put<CT>(w, dst, F_DV, ps->ty, CT(cont<CT>(ps), Index(2), Index(1))); });
    else with_ty<F_DVB>(ps->ty, [&](auto tag) { typedef typename decltype(tag)::type CT; put<CT>(w, dst, F_DVB, ps->ty, CT(cont<CT>(ps), Index(1), Index(1))); });
    return "";
  }
  if(op == "movelayout")
  {
    if(ps->ty == 1) static_cast<LaySlot<u64>*>(w.slots.at(dst).get())->l = std::move(static_cast<LaySlot<u64>*>(ps)->l);
    else static_cast<LaySlot<u32>*>(w.slots.at(dst).get())->l = std::move(static_cast<LaySlot<u32>*>(ps)->l);
    return "";
  }
  if(op == "takelayout") { if(ps->fam == F_BCSR) layout_op<F_BCSR>(w, op, a, ps, dst); else layout_op<F_CSR>(w, op, a, ps, dst); return ""; }
  if(op == "assignlayout") { if(w.slots.at(dst)->fam == F_BCSR) layout_op<F_BCSR>(w, op, a, ps, dst); else layout_op<F_CSR>(w, op, a, ps, dst); return ""; }
  if(op == "fromlayout")
  {
    // the family of the new matrix
    int f2 = fam_id(a["fam"].as_str());
    if(ps->fam != F_LAY && ps->fam != f2) throw std::runtime_error("fromlayout: family mismatch");
    if(f2 == F_BCSR) layout_op<F_BCSR>(w, op, a, ps, dst); else layout_op<F_CSR>(w, op, a, ps, dst);
    return "";
  }
  if(op == "convertx")
  {
    const int f2 = fam_id(a["fam"].as_str());
    if(ps->fam == F_DV && f2 == F_DVB) convert_x<F_DV, F_DVB>(w, a, ps, dst);
    else if(ps->fam == F_DVB && f2 == F_DV) convert_x<F_DVB, F_DV>(w, a, ps, dst);
    else if(ps->fam == F_BCSR && f2 == F_CSR) convert_x<F_BCSR, F_CSR>(w, a, ps, dst);
    else if(ps->fam == F_BAND && f2 == F_CSR) convert_x<F_BAND, F_CSR>(w, a, ps, dst);
    else if(ps->fam == F_CSCR && f2 == F_CSR) convert_x<F_CSCR, F_CSR>(w, a, ps, dst);
    else if(ps->fam == F_CSR && f2 == F_BAND) convert_x<F_CSR, F_BAND>(w, a, ps, dst);
    else if(ps->fam == F_CSR && f2 == F_CSCR) convert_x<F_CSR, F_CSCR>(w, a, ps, dst);
    else throw std::runtime_error("convertx: no such conversion");
    return "";
  }
  if(op == "clone" || op == "convert")
  {
    with_fam(ps->fam, [&](auto ft) { clone_or_convert<decltype(ft)::value>(w, op, a, ps, dst); });
    return "";
  }
  throw std::runtime_error("unknown operation " + op);
}

// Runtime::finalize() in a forked child, with the containers of the history still alive in it.  Returns the outcome class:
// "clean" (finalize returned EXIT_SUCCESS), "leak" (MemoryPool::finalize reported remaining chunks and ended the process with
// exit code 1), or a description of anything else.
static std::string finalize_class()
{
  int fd[2];
  if(::pipe(fd) != 0) throw std::runtime_error("pipe failed");
  std::fflush(stdout); std::fflush(stderr); std::cout.flush(); std::cerr.flush();
  const pid_t pid = ::fork();
  if(pid < 0) throw std::runtime_error("fork failed");
  if(pid == 0)
  {
    ::close(fd[0]); ::dup2(fd[1], 1); ::dup2(fd[1], 2); ::close(fd[1]);
    const int rc = FEAT::Runtime::finalize();
    std::cout.flush(); std::fflush(stdout);
    ::_exit(rc == 0 ? 0 : 3);
  }
  ::close(fd[1]);
  std::string text; char buf[512]; ssize_t n;
  while((n = ::read(fd[0], buf, sizeof(buf))) > 0) text.append(buf, std::size_t(n));
  ::close(fd[0]);
  int st = 0;
  if(::waitpid(pid, &st, 0) != pid) throw std::runtime_error("waitpid failed");
  const bool said = text.find("MemoryPool still contains memory chunks") != std::string::npos;
  if(WIFEXITED(st) && WEXITSTATUS(st) == 0 && !said) return "clean";
  if(WIFEXITED(st) && WEXITSTATUS(st) == 1 && said) return "leak";
  return "finalize ended with status " + std::to_string(st) + (said ? " after" : " without") + " the leak message: " + text.substr(0, 300);
}

vj::Value run_case(const vj::Value& c)
{
  World w; w.base_chunks = MemoryPool::verif_num_chunks();
  const vj::Value& steps = c["steps"];
  for(std::size_t k = 0; k < steps.size(); ++k)
  {
    std::string r; bool threw = false;
    try { r = apply_step(w, steps[k]); }
    catch(const std::exception& e) { threw = true; r = std::string("uncaught exception ") + typeid(e).name() + ": " + e.what(); }
    if(r.empty()) r = compare_world(w, steps[k]["world"]);
    if(!r.empty())
    {
      vj::Value res = vh::bad("step " + std::to_string(k + 1) + " (" + steps[k]["op"].as_str() + "): " + r);
      res["step"] = (long long)(k + 1); res["op"] = steps[k]["op"].as_str();
      if(threw) res["outcome"] = std::string("exception");
      return res;
    }
  }
  // Runtime::finalize with the world of the last step: outcome class predicted by the specification (FinClass)
  if(c.has("dofin") && c["dofin"].as_bool() && w.base_chunks == Index(0))
  {
    const std::string got = finalize_class(), exp = c["fin"].as_str();
    if(got != exp)
    {
      vj::Value res = vh::bad("Runtime::finalize at the end of the history: " + got + ", expected " + exp);
      res["step"] = (long long)(steps.size()); res["op"] = std::string("finalize");
      return res;
    }
  }
  // EmptyAtEnd: destroy what is left (slots whose arrays are foreign first, their owners afterwards) - the pool must be back at its baseline
  if(steps.size() > 0)
  {
    const vj::Value& last = steps[steps.size() - 1]["world"]["slots"];
    for(std::size_t s = 0; s < last.size(); ++s) if(last[s][0].as_bool() && last[s][3].as_bool()) w.slots.erase(int(s) + 1);
  }
  w.slots.clear();
  if(MemoryPool::verif_num_chunks() != w.base_chunks)
  {
    vj::Value res = vh::bad("after destroying all containers the memory pool still holds " + std::to_string(MemoryPool::verif_num_chunks() - w.base_chunks) + " chunk(s)");
    res["step"] = (long long)(steps.size()); res["op"] = std::string("end");
    return res;
  }
  return vh::ok();
}

int main(int argc, char** argv) { return vh::main_loop(argc, argv); }
