// C16 harness, two-level (inter-mesh) sparsity contract on all four shapes, with mesh permutations
// (see common/vasm16.hpp, vasm16_twolevel.hpp)
#include "vasm16_twolevel.hpp"
vj::Value run_case(const vj::Value& c) { return va::run_2lvl_case(c); }
int main(int argc, char** argv) { return vh::main_loop(argc, argv); }
