// C14 replayer, second build configuration: the cubature factories compiled with FEAT_CUBATURE_TENSOR_PREFIX and
// FEAT_CUBATURE_SCALAR_PREFIX (as tools/cub_list does), i.e. the "tensor:" / "scalar:" prefixes are part of the language.
#define C14_WITH_PREFIXES 1
#include "c14_cubature.cpp"
