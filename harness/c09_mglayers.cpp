// C09 (G, multigrid over process layers): replays the configurations of spec/MGCycleLayers.tla on the REAL
// Solver::MultiGrid over Global::Matrix / Global::Vector / Global::Transfer with a Global::Muxer:
//   level 0 on every rank; levels 1 and 2 on the PARENTS (first rank of every group of consecutive ranks) only,
//   the other ranks are ghosts on the coarser levels (size_physical = 1 < size_virtual = 3):
//   MultiGrid::_apply_rest -> Global::Transfer::rest (local product, Muxer::join over the children of the group,
//   sync_0 over the coarse gate of the PARENTS) resp. rest_send on the ghosts; prol / prol_recv on the way up.
// All distributed data (patches, gate and muxer mirrors, type-0 local matrices that sum up to the global Z_p operators)
// and the expected values (the correction and the call sequence of the SINGLE-PROCESS cycle, Apply of spec/MGCycle.tla)
// come from the specification; the harness builds the objects, runs the cycles and compares at every dof of the finest
// patch of every rank, exactly: the matrices hold residues modulo p = 32003 as doubles, all arithmetic of the real
// code is exact integer arithmetic, the (mock) system filters and smoothers / coarse solver are the global Z_p maps of
// the specification (they gather the type-1 vector of their level from the owners of the dofs, apply the map modulo p
// and write the local part back) and thereby reduce the vectors modulo p.
//
// run as:  mpirun -np <nr> c09_mglayers --cases FILE [--start K]
#include "vmpi.hpp"
#include <kernel/global/gate.hpp>
#include <kernel/global/vector.hpp>
#include <kernel/global/matrix.hpp>
#include <kernel/global/muxer.hpp>
#include <kernel/global/transfer.hpp>
#include <kernel/lafem/dense_vector.hpp>
#include <kernel/lafem/vector_mirror.hpp>
#include <kernel/lafem/sparse_matrix_csr.hpp>
#include <kernel/lafem/transfer.hpp>
#include <kernel/solver/multigrid.hpp>
#include <cmath>
#include <memory>

using namespace FEAT;
typedef double DT; typedef Index IT;
typedef LAFEM::DenseVector<DT, IT> LVec;
typedef LAFEM::VectorMirror<DT, IT> Mirror;
typedef LAFEM::SparseMatrixCSR<DT, IT> LMat;
typedef LAFEM::Transfer<LMat> LTra;
typedef Global::Gate<LVec, Mirror> GateT;
typedef Global::Vector<LVec, Mirror> GVec;
typedef Global::Matrix<LMat, Mirror, Mirror> GMat;
typedef Global::Muxer<LVec, Mirror> GMux;
typedef Global::Transfer<LTra, Mirror> GTra;
typedef std::vector<long long> IVec;
typedef std::vector<std::vector<long long>> Rows;

namespace
{
  const long long P = 32003;
  inline long long md(long long x) { x %= P; return x < 0 ? x + P : x; }
  bool g_inexact = false; double g_badval = 0.0;
  IVec g_log;
  inline long long to_mod(double x)
  {
    if(!(std::fabs(x) < 1.0e15) || x != std::floor(x)) { if(!g_inexact) g_badval = x; g_inexact = true; return 0; }
    return md((long long)x);
  }

  Mirror mk_mirror(const vj::Value& idx, Index size)
  {
    const IVec v = idx.ints();
    Mirror m(size, Index(v.size()));
    for(std::size_t k = 0; k < v.size(); ++k) m.indices()[k] = IT(v[k]);
    return m;
  }
  // dense rows -> CSR (full pattern)
  LMat mk_mat(const vj::Value& rows, Index nrow, Index ncol)
  {
    LAFEM::DenseVector<IT, IT> ci(nrow * ncol), rp(nrow + 1); LVec va(nrow * ncol);
    for(Index i = 0; i < nrow; ++i)
    {
      rp(i, IT(i * ncol));
      for(Index j = 0; j < ncol; ++j) { ci(i * ncol + j, IT(j)); va(i * ncol + j, DT(rows[i][std::size_t(j)].as_int())); }
    }
    rp(nrow, IT(nrow * ncol));
    return LMat(nrow, ncol, ci, va, rp);
  }

  // a level as this rank sees it: communicator, global ids of the local dofs, which of them this rank owns (lowest holder)
  struct LevelCtx
  {
    const Dist::Comm* comm = nullptr; int level = 0; Index dim = 0; IVec dofs; std::vector<char> owner;
    // the global vector of a type-1 vector: every dof from its owner
    IVec gather(const LVec& v) const
    {
      XASSERTM(v.size() == Index(dofs.size()), "mock: wrong level vector");
      std::vector<double> loc(dim, 0.0), full(dim, 0.0);
      for(std::size_t k = 0; k < dofs.size(); ++k) if(owner[k]) loc[std::size_t(dofs[k] - 1)] = double(to_mod(v(Index(k))));
      comm->allreduce(loc.data(), full.data(), std::size_t(dim), Dist::op_sum);
      IVec r(dim); for(Index i = 0; i < dim; ++i) r[i] = md((long long)full[i]);
      return r;
    }
    void scatter(LVec& v, const IVec& full) const { for(std::size_t k = 0; k < dofs.size(); ++k) v(Index(k), double(full[std::size_t(dofs[k] - 1)])); }
  };

  struct ModFilter
  {
    const LevelCtx* L = nullptr; int kind = 0; IVec p, d;
    void run(GVec& gv, bool cor) const
    {
      IVec v = L->gather(gv.local());
      if(kind != 0)
      {
        const IVec& a = cor ? d : p; const IVec& b = cor ? p : d;
        long long s = 0; for(std::size_t i = 0; i < v.size(); ++i) s = md(s + v[i] * a[i]);
        for(std::size_t i = 0; i < v.size(); ++i) v[i] = md(v[i] - s * b[i]);
      }
      L->scatter(gv.local(), v);
    }
    void filter_def(GVec& v) const { run(v, false); }
    void filter_cor(GVec& v) const { run(v, true); }
    void filter_rhs(GVec& v) const { run(v, false); }
    void filter_sol(GVec& v) const { run(v, true); }
  };

  struct ModSolver : public Solver::SolverBase<GVec>
  {
    const LevelCtx* L; int kind; Rows s;
    ModSolver(const LevelCtx* l, int k, const Rows& ss) : L(l), kind(k), s(ss) {}
    virtual String name() const override { return "ModSolver"; }
    virtual Solver::Status apply(GVec& cor, const GVec& def) override
    {
      g_log.push_back(kind * 16 + L->level);
      const IVec x = L->gather(def.local());
      IVec y(s.size(), 0);
      for(std::size_t i = 0; i < s.size(); ++i) for(std::size_t j = 0; j < x.size(); ++j) y[i] = md(y[i] + s[i][j] * x[j]);
      L->scatter(cor.local(), y);
      return Solver::Status::success;
    }
  };

  std::string istr(const IVec& v) { std::string s = "["; for(std::size_t i = 0; i < v.size(); ++i) s += (i ? "," : "") + std::to_string(v[i]); return s + "]"; }
}

static std::string run_case(const vj::Value& c, const Dist::Comm& comm)
{
  vmpi::Fail fail(comm.rank());
  if(c["kind"].as_str() != "layers" || c["p"].as_int() != P) { fail("harness: unknown case kind"); return fail.why; }
  const int me = comm.rank(), nr = comm.size();
  const std::size_t sme = std::size_t(me);
  const bool parent = c["isparent"][sme].as_bool();
  const IVec members = c["members"][sme].ints();
  const int NL = 3;

  // communicators: siblings of the group (the parent is its first rank); the parents
  Dist::Comm sib = comm.comm_split(int(c["grp"][sme].as_int()), me);
  Dist::Comm pcomm = comm.comm_split(parent ? 0 : 1, me);
  if(sib.size() != int(members.size()) || (sib.rank() == 0) != parent) { fail("harness: sibling communicator does not match the case"); return fail.why; }
  if(parent && pcomm.size() != int(c["nparents"].as_int())) { fail("harness: communicator of the parents does not match the case"); return fail.why; }
  const int nphys = parent ? NL : 1;

  // levels
  LevelCtx lc[3]; std::unique_ptr<GateT> gate[3]; std::unique_ptr<GMat> mat[3]; ModFilter fil[3];
  for(int l = 0; l < nphys; ++l)
  {
    const std::size_t sl = std::size_t(l);
    const vj::Value& lv = c["lev"][sl];
    lc[l].comm = (l == 0) ? &comm : &pcomm; lc[l].level = l; lc[l].dim = Index(c["dims"][sl].as_int());
    lc[l].dofs = lv["dofs"][sme].ints();
    const Index n = Index(lc[l].dofs.size());
    for(long long g : lc[l].dofs)
    {
      bool own = true;
      for(int s = 0; s < me; ++s) for(long long h : lv["dofs"][std::size_t(s)].ints()) if(h == g) own = false;
      lc[l].owner.push_back(own ? 1 : 0);
    }
    gate[l].reset(new GateT(*lc[l].comm));
    int q = 0;   // rank of s in the communicator of the level
    for(int s = 0; s < nr; ++s)
    {
      if(l > 0 && !c["isparent"][std::size_t(s)].as_bool()) continue;
      if(s != me && lv["mir"][sme][std::size_t(s)].size() != 0u) gate[l]->push(q, mk_mirror(lv["mir"][sme][std::size_t(s)], n));
      ++q;
    }
    gate[l]->compile(LVec(n));
    mat[l].reset(new GMat(gate[l].get(), gate[l].get(), mk_mat(lv["A"][sme], n, n)));
    const std::string fk = c["fkind"][sl].as_str();
    fil[l].L = &lc[l]; fil[l].kind = fk == "none" ? 0 : (fk == "unit" ? 1 : 2);
    fil[l].p = c["fp"][sl].ints(); fil[l].d = c["fd"][sl].ints();
  }
  const Index nfine = Index(lc[0].dofs.size());
  const Index nchild = Index(c["cdofs"][sme].size());
  const Index npar = parent ? Index(lc[1].dofs.size()) : Index(0);

  // muxer of the transfer 0 -> 1: parent mirror on every child (child vector -> buffer), child mirrors on the parent
  GMux mux;
  {
    Mirror pm(nchild, nchild); for(Index k = 0; k < nchild; ++k) pm.indices()[k] = IT(k);
    mux.set_parent(&sib, 0, std::move(pm));
    if(parent) for(long long m : members) mux.push_child(mk_mirror(c["muxp"][std::size_t(m)], npar));
    mux.compile(LVec(nchild));
  }
  if(mux.is_parent() != parent || mux.is_ghost() != !parent || !mux.is_child()) { fail("Muxer::is_parent/is_ghost/is_child"); return fail.why; }

  GTra tra01(&mux, mk_mat(c["P01"][sme], nfine, nchild), mk_mat(c["R01"][sme], nchild, nfine), mk_mat(c["T01"][sme], nchild, nfine));
  std::unique_ptr<GTra> tra12;
  if(parent)
  {
    const Index n2 = Index(lc[2].dofs.size());
    tra12.reset(new GTra(nullptr, mk_mat(c["P12"][sme], npar, n2), mk_mat(c["R12"][sme], n2, npar)));
  }

  const IVec defect = c["defect"].ints();
  const vj::Value& apps = c["apps"];
  for(std::size_t a = 0; a < apps.size(); ++a)
  {
    const vj::Value& ap = apps[a];
    const int cyc = int(ap["cyc"].as_int()); const bool peak = ap["peak"].as_bool();
    auto hier = std::make_shared<Solver::MultiGridHierarchy<GMat, ModFilter, GTra>>(std::size_t(NL));
    for(int l = 0; l < nphys; ++l)
    {
      const std::size_t sl = std::size_t(l);
      if(l + 1 < NL)
      {
        std::shared_ptr<Solver::SolverBase<GVec>> s1 = std::make_shared<ModSolver>(&lc[l], 1, c["Spre"][sl].int_rows());
        std::shared_ptr<Solver::SolverBase<GVec>> s2 = std::make_shared<ModSolver>(&lc[l], 2, c["Spost"][sl].int_rows());
        std::shared_ptr<Solver::SolverBase<GVec>> s3; if(peak) s3 = std::make_shared<ModSolver>(&lc[l], 3, c["Speak"][sl].int_rows());
        hier->push_level(*mat[l], fil[l], l == 0 ? tra01 : *tra12, s1, s2, s3);
      }
      else
      {
        std::shared_ptr<Solver::SolverBase<GVec>> cs = std::make_shared<ModSolver>(&lc[l], 4, c["C"][sl].int_rows());
        hier->push_level(*mat[l], fil[l], cs);
      }
    }
    if(int(hier->size_physical()) != nphys || int(hier->size_virtual()) != NL) { fail("harness: hierarchy sizes"); return fail.why; }
    auto mg = Solver::new_multigrid(hier, cyc == 0 ? Solver::MultiGridCycle::V : (cyc == 1 ? Solver::MultiGridCycle::F : Solver::MultiGridCycle::W));
    hier->init(); mg->init();
    GVec vd(gate[0].get(), LVec(nfine)), vc(gate[0].get(), LVec(nfine, DT(55)));
    for(Index k = 0; k < nfine; ++k) vd.local()(k, double(defect[std::size_t(lc[0].dofs[k] - 1)]));
    g_log.clear(); g_inexact = false;
    Solver::Status st = mg->apply(vc, vd);
    IVec got(nfine), exp(nfine);
    const IVec ecor = ap["cor"].ints();
    for(Index k = 0; k < nfine; ++k) { got[k] = to_mod(vc.local()(k)); exp[k] = ecor[std::size_t(lc[0].dofs[k] - 1)]; }
    mg->done(); hier->done();
    const std::string at = "application " + std::to_string(a) + " (cycle " + std::to_string(cyc) + (peak ? "" : ", no peak smoother") + ")";
    if(st != Solver::Status::success) fail(at + ": status is not success");
    // the calls of this rank: those of the documented cycle on the levels it holds
    IVec ecalls; for(long long e : ap["calls"].ints()) if(int(e % 16) < nphys) ecalls.push_back(e);
    if(g_log != ecalls) fail(at + ": smoother / coarse solver calls " + istr(g_log) + " differ from the documented cycle " + istr(ecalls));
    if(g_inexact) fail(at + ": a non-integral or huge value (" + std::to_string(g_badval) + ") reached a filter / smoother where the specification predicts residues");
    if(got != exp) fail(at + ": correction " + istr(got) + " at dofs " + istr(lc[0].dofs) + " differs from the single-process cycle " + istr(exp));
  }
  return fail.why;
}

int main(int argc, char** argv) { return vmpi::main_loop(argc, argv, &run_case); }
