#define C18_ONLY_SIMPLEX
#include "c18dev_transfer.cpp"
