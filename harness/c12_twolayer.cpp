// C12 harness, two-layer (recursive) partitioning - the route of Control::Domain::PartiDomainControl for more than
// one layer, driven serially: the base mesh is split into PARENT patches (RootMeshNode::extract_patch), every parent patch
// node is split again into CHILD patches (extract_patch on the parent node, which also runs PatchMeshPartSplitter on the
// already split mesh parts), sibling halos are renamed to global child ranks (rename_halos, as PartiDomainControl does with
// the progeny group offset), and the halos between children of DIFFERENT parents are computed exactly as
// PartiDomainControlBase::_split_basemesh_halos does: one Geometry::PatchHaloSplitter per child, add_halo for every parent
// halo, serialize_split_halo of all children of the neighbour parent concatenated in rank order, intersect_split_halo +
// make_unique one after another, add_halo on the child node.  Base node, parent nodes and child nodes are then refined
// jointly.  Dumped per level: base mesh with the parent patch parts, every parent mesh with its child patch parts, comm
// ranks and halos, every child mesh with its comm ranks (siblings + cross) and halos.  TLC composes the maps
// child -> parent -> base and judges the child layer with the invariants of spec/Partition.tla (spec/Partition2L.tla).
#include "vmesh.hpp"
#include <kernel/geometry/patch_halo_splitter.hpp>

using namespace vm;

template<class Shape_> struct Child2L
{
  typedef MeshT<Shape_> MeshType;
  int parent = 0, local = 0, rank = 0;
  std::unique_ptr<Geometry::RootMeshNode<MeshType>> node;
  std::unique_ptr<Geometry::PatchHaloSplitter<MeshType>> splitter;
  std::map<int, std::size_t> halo_sizes;
  std::vector<int> comm;
};

static Adjacency::Graph make_graph(Index num_elems, const std::vector<std::vector<long long>>& cells)
{
  Index tot = 0; for(const auto& r : cells) tot += Index(r.size());
  Adjacency::Graph graph(Index(cells.size()), num_elems, tot);
  Index* ptr = graph.get_domain_ptr(); Index* idx = graph.get_image_idx();
  Index k = 0; ptr[0] = 0;
  for(std::size_t r(0); r < cells.size(); ++r) { for(long long e : cells[r]) idx[k++] = Index(e); ptr[r + 1] = k; }
  return graph;
}

template<int dim_, class Node_> void put_comm_halos(FILE* f, const Node_& p, const std::vector<int>& comm)
{
  std::fputs(",\"comm\":[", f);
  for(std::size_t i(0); i < comm.size(); ++i) std::fprintf(f, i ? ",%d" : "%d", comm[i]);
  std::fputs("],\"halos\":[", f);
  bool first = true;
  for(const auto& h : p.get_halo_map())
  {
    if(!h.second) continue;
    if(!first) std::fputc(',', f);
    first = false;
    std::fprintf(f, "{\"rank\":%d,\"t\":", h.first);
    put_tsh<dim_>(f, h.second->get_target_set_holder());
    std::fputc('}', f);
  }
  std::fputs("]", f);
}

template<class Shape_> vj::Value run_two(const vj::Value& c)
{
  typedef MeshT<Shape_> MeshType;
  typedef Geometry::MeshPart<MeshType> PartType;
  typedef Geometry::RootMeshNode<MeshType> NodeType;
  typedef std::vector<std::pair<std::string, const PartType*>> PartList;
  constexpr int dim = Shape_::dimension;
  const int L = (int)c.get_int("nref", 1);
  const vj::Value& src = c["src"];
  const vj::Value& pa = c["parti"];

  Geometry::MeshAtlas<MeshType> atlas;
  std::unique_ptr<NodeType> base;
  if(src.has("file"))
  {
    try { base = build_file<Shape_>(src["file"].as_str(), atlas); }
    catch(const std::exception& e) { vj::Value r = vh::ok(); r["skip"] = true; r["why"] = std::string("mesh file cannot be loaded standalone: ") + e.what(); return r; }
  }
  else if(src.has("raw")) base = NodeType::make_unique(build_raw<Shape_>(src["raw"]));
  else base = NodeType::make_unique(build_factory<Shape_>(src));
  if(c.get_int("fileparts", 1) == 0)
    for(const auto& nm : base->get_mesh_part_names(true)) base->remove_mesh_part(nm);
  if(c.get_int("bndpart", 0) != 0)
  {
    Geometry::BoundaryFactory<MeshType> bf(*base->get_mesh());
    base->add_mesh_part("vbnd", bf.make_unique());
  }
  {
    const int q = Fam<Shape_>::cube ? dim : (dim == 3 ? 2 : 1);
    const double ma = std::max(1.0, max_abs_coord(*base->get_mesh()));
    int G = int(std::floor(std::log2(4194304.0 / ma))) - q * L;
    if(G > 30) G = 30;
    if(G < 3) { vj::Value r = vh::ok(); r["skip"] = true; r["why"] = "coordinates too large for the integer domain"; return r; }
    snap(*base->get_mesh(), G);
    if(!distinct_vertices(*base->get_mesh())) { vj::Value r = vh::ok(); r["skip"] = true; r["why"] = "snapping merges vertices"; return r; }
  }
  const Index ncells = base->get_mesh()->get_num_elements();

  // parents[p][k] = base cells of child k of parent p
  const vj::Value& pj = pa["parents"];
  const std::size_t np = pj.size();
  std::vector<std::vector<std::vector<long long>>> child_cells(np);
  std::vector<std::vector<long long>> parent_cells(np);
  for(std::size_t p(0); p < np; ++p)
  {
    child_cells[p] = pj[p].int_rows();
    for(const auto& cc : child_cells[p]) for(long long e : cc) parent_cells[p].push_back(e);
  }
  const Adjacency::Graph parent_graph = make_graph(ncells, parent_cells);

  std::vector<std::string> fnames;
  for(const auto& nm : base->get_mesh_part_names(true)) fnames.push_back(nm);

  // ---- layer 1: parent patches ----
  std::vector<std::unique_ptr<NodeType>> parents(np);
  std::vector<std::vector<int>> pcomm(np);
  for(std::size_t p(0); p < np; ++p) parents[p] = base->extract_patch(pcomm[p], parent_graph, int(p));

  // ---- layer 2: child patches of every parent ----
  std::vector<Child2L<Shape_>> children;
  std::vector<std::vector<std::size_t>> children_of(np);
  std::vector<int> first_child(np);
  for(std::size_t p(0); p < np; ++p)
  {
    NodeType& pnode = *parents[p];
    const auto& pts = base->get_patch(int(p))->template get_target_set<dim>();
    std::map<long long, long long> glob2loc;
    for(Index i(0); i < pts.get_num_entities(); ++i) glob2loc[(long long)pts[i]] = (long long)i;
    std::vector<std::vector<long long>> loc_cells;
    for(const auto& cc : child_cells[p]) { loc_cells.emplace_back(); for(long long e : cc) loc_cells.back().push_back(glob2loc.at(e)); }
    const Adjacency::Graph child_graph = make_graph(pts.get_num_entities(), loc_cells);
    const int group = int(children.size());      // progeny group offset: global rank of the first child of this parent
    first_child[p] = group;
    for(int k(0); k < int(loc_cells.size()); ++k)
    {
      Child2L<Shape_> ch;
      ch.parent = int(p); ch.local = k; ch.rank = group + k;
      std::vector<int> nb;
      ch.node = pnode.extract_patch(nb, child_graph, k);
      // translate the sibling ranks by the progeny group (PartiDomainControl::_create_multi_layered)
      std::map<int, int> ren;
      for(auto& i : nb) { int old(i); ren.emplace(old, i += group); }
      ch.node->rename_halos(ren);
      ch.comm = nb;
      ch.splitter.reset(new Geometry::PatchHaloSplitter<MeshType>(*pnode.get_mesh(), *pnode.get_patch(k)));
      for(const auto& h : pnode.get_halo_map()) ch.halo_sizes[h.first] = ch.splitter->add_halo(h.first, *h.second);
      children_of[p].push_back(children.size());
      children.push_back(std::move(ch));
    }
  }
  // ---- cross halos: PartiDomainControlBase::_split_basemesh_halos, serially ----
  for(auto& ch : children)
  {
    for(const auto& h : parents[std::size_t(ch.parent)]->get_halo_map())      // ascending halo rank, as the real loop
    {
      const int s = h.first;
      if(ch.halo_sizes.at(s) == std::size_t(0)) continue;
      std::vector<Index> buffer; std::vector<Index> offsets;
      for(std::size_t di : children_of[std::size_t(s)])
      {
        auto& d = children[di];
        if(d.halo_sizes.at(ch.parent) == std::size_t(0)) continue;
        std::vector<Index> data = d.splitter->serialize_split_halo(ch.parent, d.rank);
        if(data.size() != d.halo_sizes.at(ch.parent)) return vh::bad("serialize_split_halo size differs from the size reported by add_halo");
        offsets.push_back(Index(buffer.size()));
        buffer.insert(buffer.end(), data.begin(), data.end());
      }
      for(Index off : offsets)
      {
        if(!ch.splitter->intersect_split_halo(s, buffer, off)) continue;
        const int nrank = int(buffer.at(off));
        ch.comm.push_back(nrank);
        ch.node->add_halo(nrank, ch.splitter->make_unique());
      }
    }
  }
  for(auto& ch : children) ch.splitter.reset();   // the splitters refer to the coarse parent nodes

  // ---- joint refinement ----
  std::vector<std::unique_ptr<NodeType>> bases; bases.push_back(std::move(base));
  std::vector<std::vector<std::unique_ptr<NodeType>>> plev; plev.push_back(std::move(parents));
  std::vector<std::vector<std::unique_ptr<NodeType>>> clev;
  { std::vector<std::unique_ptr<NodeType>> cn; for(auto& ch : children) cn.push_back(std::move(ch.node)); clev.push_back(std::move(cn)); }
  for(int l(0); l < L; ++l)
  {
    bases.push_back(bases.back()->refine_unique(Geometry::AdaptMode::none));
    std::vector<std::unique_ptr<NodeType>> pn, cn;
    for(auto& x : plev.back()) pn.push_back(x->refine_unique(Geometry::AdaptMode::none));
    for(auto& x : clev.back()) cn.push_back(x->refine_unique(Geometry::AdaptMode::none));
    plev.push_back(std::move(pn)); clev.push_back(std::move(cn));
  }
  const int K = min_scale(*bases.back()->get_mesh(), 40);
  if(K < 0) return vh::bad("refined coordinates are not exact dyadic averages of the coarse ones");

  // ---- dump ----
  const std::string out = c["out"].as_str();
  FILE* f = std::fopen(out.c_str(), "w");
  if(!f) throw std::runtime_error("cannot write " + out);
  const std::size_t nch = children.size();
  std::fputs("{\"id\":", f); put_str(f, c["id"].as_str());
  std::fprintf(f, ",\"fam\":\"%s\",\"dim\":%d,\"K\":%d,\"layers\":2,\"np\":%llu,\"nranks\":%llu,\"assign\":[", Fam<Shape_>::name(), dim, K,
    (unsigned long long)np, (unsigned long long)nch);
  {
    bool first = true;
    for(std::size_t p(0); p < np; ++p) for(const auto& cc : child_cells[p])
    {
      std::fputs(first ? "[" : ",[", f); first = false;
      for(std::size_t i(0); i < cc.size(); ++i) std::fprintf(f, i ? ",%lld" : "%lld", cc[i]);
      std::fputc(']', f);
    }
  }
  std::fputs("],\"passign\":[", f);
  for(std::size_t p(0); p < np; ++p)
  {
    std::fputs(p ? ",[" : "[", f);
    for(std::size_t i(0); i < parent_cells[p].size(); ++i) std::fprintf(f, i ? ",%lld" : "%lld", parent_cells[p][i]);
    std::fputc(']', f);
  }
  std::fprintf(f, "],\"parti\":{\"kind\":\"twolayer\",\"n\":%llu,\"success\":true,\"level\":0,\"ncoarse\":%llu,\"ncells\":%llu,\"graph_cells\":%llu},\"levels\":[",
    (unsigned long long)nch, (unsigned long long)ncells, (unsigned long long)ncells, (unsigned long long)parent_graph.get_num_nodes_image());
  bool exact = true;
  for(std::size_t l(0); l < bases.size(); ++l)
  {
    if(l) std::fputc(',', f);
    const NodeType& b = *bases[l];
    PartList bp;
    for(std::size_t p(0); p < np; ++p) bp.emplace_back("P" + std::to_string(p), b.get_patch(int(p)));
    for(const auto& nm : fnames) bp.emplace_back(nm, b.find_mesh_part(nm));
    for(const auto& x : bp) if(x.second == nullptr) { std::fclose(f); return vh::bad("mesh part " + x.first + " missing on level " + std::to_string(l)); }
    std::fputs("{\"base\":", f);
    exact = put_level(f, *b.get_mesh(), K, bp, false) && exact;
    std::fputs(",\"parents\":[", f);
    for(std::size_t p(0); p < np; ++p)
    {
      if(p) std::fputc(',', f);
      const NodeType& pn = *plev[l][p];
      PartList pp;
      for(std::size_t k(0); k < children_of[p].size(); ++k) pp.emplace_back("q" + std::to_string(k), pn.get_patch(int(k)));
      for(std::size_t k(0); k < children_of[p].size(); ++k) if(pp[k].second == nullptr) { std::fclose(f); return vh::bad("child patch part missing in parent node"); }
      for(const auto& nm : fnames) pp.emplace_back(nm, pn.find_mesh_part(nm));
      std::fprintf(f, "{\"rank\":%llu,\"first\":%d,\"nchild\":%llu,\"mesh\":", (unsigned long long)p, first_child[p], (unsigned long long)children_of[p].size());
      exact = put_level(f, *pn.get_mesh(), K, pp, false) && exact;
      put_comm_halos<dim>(f, pn, pcomm[p]);
      std::fputc('}', f);
    }
    std::fputs("],\"patches\":[", f);
    for(std::size_t ci(0); ci < nch; ++ci)
    {
      if(ci) std::fputc(',', f);
      const NodeType& cn = *clev[l][ci];
      PartList pp;
      for(const auto& nm : fnames) pp.emplace_back(nm, cn.find_mesh_part(nm));
      std::fprintf(f, "{\"rank\":%d,\"parent\":%d,\"local\":%d,\"mesh\":", children[ci].rank, children[ci].parent, children[ci].local);
      exact = put_level(f, *cn.get_mesh(), K, pp, false) && exact;
      put_comm_halos<dim>(f, cn, children[ci].comm);
      std::fputc('}', f);
    }
    std::fputs("]}", f);
  }
  std::fputs("]}\n", f);
  std::fclose(f);
  if(!exact) return vh::bad("a coordinate left the integer domain at scale 2^K");
  vj::Value r = vh::ok();
  r["success"] = true; r["nranks"] = (long long)nch; r["cells"] = (long long)bases.back()->get_mesh()->get_num_elements();
  return r;
}

vj::Value run_case(const vj::Value& c)
{
  const std::string fam = c["fam"].as_str(); const int dim = (int)c["dim"].as_int();
  if(fam == "simplex" && dim == 2) return run_two<Shape::Simplex<2>>(c);
  if(fam == "simplex" && dim == 3) return run_two<Shape::Simplex<3>>(c);
  if(fam == "hypercube" && dim == 2) return run_two<Shape::Hypercube<2>>(c);
  if(fam == "hypercube" && dim == 3) return run_two<Shape::Hypercube<3>>(c);
  return vh::bad("unsupported shape");
}

int main(int argc, char** argv) { return vh::main_loop(argc, argv); }
