// C16x harness: the result objects of the error computers / function-integral jobs (ScalarErrorInfo,
// FunctionCellIntegralInfo; the converting members of VectorErrorInfo do not compile for different data types and cannot be executed) are value objects: converting or assigning one copies every field (cases of kind "info" of
// spec/AssemblyErr.tla; all values are dyadic, so they are exact in float and double).  Kept in its own binary.
#include "vharness.hpp"
#include <kernel/assembly/error_computer.hpp>
#include <kernel/assembly/function_integral_jobs.hpp>
#include <kernel/lafem/dense_vector.hpp>

using namespace FEAT;

template<class A_, class B_> static bool same_scalar(const A_& a, const B_& b)
{
  return a.have_h0 == b.have_h0 && a.have_h1 == b.have_h1 && a.have_h2 == b.have_h2 && a.have_l1 == b.have_l1 && a.have_lmax == b.have_lmax
    && double(a.norm_h0) == double(b.norm_h0) && double(a.norm_h1) == double(b.norm_h1) && double(a.norm_h2) == double(b.norm_h2)
    && double(a.norm_l1) == double(b.norm_l1) && double(a.norm_lmax) == double(b.norm_lmax);
}
template<class I_> static void fill(I_& s, const vj::Value& c)
{
  typedef decltype(s.norm_h0) T;
  const auto fl = c["flags"].ints(); const auto v = c["vals"].ints();
  s.have_h0 = fl[0] != 0; s.have_h1 = fl[1] != 0; s.have_h2 = fl[2] != 0; s.have_l1 = fl[3] != 0; s.have_lmax = fl[4] != 0;
  s.norm_h0 = T(double(v[0]) / 8.0); s.norm_h1 = T(double(v[1]) / 8.0); s.norm_h2 = T(double(v[2]) / 8.0);
  s.norm_l1 = T(double(v[3]) / 8.0); s.norm_lmax = T(double(v[4]) / 8.0);
}

vj::Value run_case(const vj::Value& c)
{
  const std::string cls = c["cls"].as_str();
  const std::string how = c["how"].as_str();
  if(cls == "scalar")
  {
    Assembly::ScalarErrorInfo<float> src; fill(src, c);
    if(how == "construct") { Assembly::ScalarErrorInfo<double> dst(src); if(!same_scalar(src, dst)) return vh::bad("info:scalar construct"); }
    else { Assembly::ScalarErrorInfo<double> dst; dst = src; if(!same_scalar(src, dst)) return vh::bad("info:scalar assign"); }
    return vh::ok();
  }
  if(cls == "cell")
  {
    typedef Assembly::FunctionIntegralInfo<double, double, Tiny::Vector<double, 2>, Tiny::Matrix<double, 2, 2>> FI;
    typedef LAFEM::DenseVector<double, Index> CV;
    typedef Assembly::FunctionCellIntegralInfo<FI, CV> CI;
    const auto v = c["vals"].ints();
    FI fi; fi.value = double(v[0]) / 8.0; fi.norm_h0_sqr = double(v[1]) / 8.0; fi.norm_h1_sqr = double(v[2]) / 8.0; fi.norm_l1 = double(v[3]) / 8.0; fi.norm_lmax = double(v[4]) / 8.0;
    CV vec(3); for(Index i = 0; i < 3; ++i) vec(i, double(v[i]) / 8.0);
    CI src(fi, vec);
    CI d0, d1(src);
    CI* dst = &d1;
    if(how != "construct") { d0 = src; dst = &d0; }
    bool ok = dst->integral_info.value == fi.value && dst->integral_info.norm_h0_sqr == fi.norm_h0_sqr && dst->integral_info.norm_h1_sqr == fi.norm_h1_sqr
      && dst->integral_info.norm_l1 == fi.norm_l1 && dst->integral_info.norm_lmax == fi.norm_lmax && dst->vec.size() == 3;
    for(Index i = 0; ok && i < 3; ++i) ok = dst->vec(i) == vec(i);
    return ok ? vh::ok() : vh::bad("info:cell " + how);
  }
  return vh::bad("unknown info class " + cls);
}
int main(int argc, char** argv) { return vh::main_loop(argc, argv); }
