// C08x replayer, part 3 (MPI): Solver::SchwarzPrecond (kernel/solver/schwarz_precond.hpp) on Global::Vector<DenseVector>
// with a Global::Gate built from the patch decomposition of the case and a Global::Filter<UnitFilter>.
// Cases come from spec/PrecondSchwarz.tla: every decomposition of ND dofs over NR processes, the local solver flavour
// (mock: dense local map captured at init_numeric, logs its calls, may fail on one rank; jacobi: Solver::JacobiPrecond on the
// local CSR matrix), ignore_status, a filtered dof, and the life-cycle history with a value update.
// Expected entries are pairs (numerator, count) from the specification: compared with == where count is a power of two, within
// 4 eps relative otherwise.  Also checked: status on every rank (one failing local solver => Status::aborted everywhere unless
// ignore_status), input unchanged, forwarding of the life-cycle calls.
//
// run as:  mpirun -np <nr> c08x_schwarz --cases FILE [--start K]
#include "vmpi.hpp"
#include "vc08x.hpp"
#include <kernel/global/gate.hpp>
#include <kernel/global/vector.hpp>
#include <kernel/global/filter.hpp>
#include <kernel/lafem/vector_mirror.hpp>
#include <kernel/lafem/unit_filter.hpp>
#include <kernel/lafem/none_filter.hpp>
#include <kernel/solver/schwarz_precond.hpp>
#include <kernel/solver/jacobi_precond.hpp>
#include <algorithm>

using namespace FEAT;
using vx::DVec; using vx::DMat;
typedef double DT; typedef Index IT;
typedef LAFEM::DenseVector<DT, IT> SVec;
typedef LAFEM::VectorMirror<DT, IT> SMir;
typedef LAFEM::SparseMatrixCSR<DT, IT> MatT;
typedef LAFEM::UnitFilter<DT, IT> UFil;
typedef LAFEM::NoneFilter<DT, IT> NFil;
typedef Global::Gate<SVec, SMir> GateT;
typedef Global::Vector<SVec, SMir> GVec;
typedef Global::Filter<UFil, SMir> GFil;
using vmpi::key;

struct App { int cur = 0; DMat L[2]; std::vector<std::string> log; };

class MockLocal : public Solver::SolverBase<SVec>
{
  App& _app; bool _fail; DMat _cached; bool _have = false;
public:
  MockLocal(App& app, bool fail) : _app(app), _fail(fail) {}
  virtual String name() const override { return "MockLocal"; }
  virtual void init_symbolic() override { _app.log.push_back("IS"); }
  virtual void init_numeric() override { _app.log.push_back("IN"); _cached = _app.L[_app.cur]; _have = true; }
  virtual void done_numeric() override { _app.log.push_back("DN"); _have = false; }
  virtual void done_symbolic() override { _app.log.push_back("DS"); }
  virtual Solver::Status apply(SVec& cor, const SVec& def) override
  {
    _app.log.push_back("AP");
    if(!_have) throw std::runtime_error("mock local solver applied without init_numeric");
    const Index k = def.size();
    for(Index i = 0; i < k; ++i) { DT s = DT(0); for(Index j = 0; j < k; ++j) s += _cached[i][j] * def(j); cor(i, s); }
    return _fail ? Solver::Status::aborted : Solver::Status::success;
  }
};

static std::string join(const std::vector<std::string>& v) { std::string s; for(const auto& x : v) s += (s.empty() ? "" : ",") + x; return "[" + s + "]"; }

static std::string run_case(const vj::Value& c, const Dist::Comm& comm)
{
  const int me = comm.rank(), nr = comm.size();
  vmpi::Fail fail(me);
  const std::vector<long long> mine = c["dofs"][key(me)].ints();
  const Index nloc = Index(mine.size());
  const std::string flav = c["flav"].as_str();
  const long long failr = c["failr"].as_int();
  const bool ign = c["ign"].as_bool(), aborts = c["aborts"].as_bool(), exact = c["exact"].as_bool();

  GateT gate(comm);
  for(int s = 0; s < nr; ++s)
  {
    if(s == me) continue;
    const std::vector<long long> other = c["dofs"][key(s)].ints();
    std::vector<Index> idx;
    for(std::size_t i = 0; i < mine.size(); ++i) if(std::find(other.begin(), other.end(), mine[i]) != other.end()) idx.push_back(Index(i));
    if(idx.empty()) continue;
    SMir mir(nloc, Index(idx.size()));
    for(std::size_t k = 0; k < idx.size(); ++k) mir.indices()[k] = IT(idx[k]);
    gate.push(s, std::move(mir));
  }
  gate.compile(SVec(nloc));

  GFil gf(nloc);
  if(c["filt"].as_int() == 1)
  {
    auto it = std::find(mine.begin(), mine.end(), 1LL);
    if(it != mine.end()) gf.local().add(IT(it - mine.begin()), DT(0));
  }

  App app;
  app.L[0] = vx::dymat(c["L1"][key(me)]); app.L[1] = vx::dymat(c["L2"][key(me)]);
  MatT lmat = vx::csr_of_pattern<DT, IT>(nloc, nloc, vx::full_pattern(nloc, nloc));
  vx::set_csr_values(lmat, app.L[0]);
  NFil nfil;
  std::shared_ptr<Solver::SolverBase<SVec>> local;
  const bool mock = (flav == "mock");
  if(mock) local = std::make_shared<MockLocal>(app, failr == (long long)me);
  else local = Solver::new_jacobi_precond(lmat, nfil, vx::dy(c["omega"]));
  Solver::SchwarzPrecond<GVec, GFil> schwarz(local, gf, ign);

  const DVec x = vx::dyvec(c["x"][key(me)]);
  const DVec num[2] = { vx::dyvec(c["num1"][key(me)]), vx::dyvec(c["num2"][key(me)]) };
  const std::vector<long long> cnt = c["count"][key(me)].ints();
  const double EPS = std::numeric_limits<DT>::epsilon();

  const vj::Value& steps = c["steps"];
  for(std::size_t s = 0; s < steps.size(); ++s)
  {
    const std::string op = steps[s]["op"].as_str();
    const std::string at = "step " + std::to_string(s) + " (" + op + "): ";
    app.log.clear();
    if(op == "IS") schwarz.init_symbolic();
    else if(op == "IN") schwarz.init_numeric();
    else if(op == "DN") schwarz.done_numeric();
    else if(op == "DS") schwarz.done_symbolic();
    else if(op == "UP") { app.cur = 1 - app.cur; vx::set_csr_values(lmat, app.L[app.cur]); continue; }
    else if(op == "AP")
    {
      const int cv = int(steps[s]["c"].as_int()) - 1;
      SVec ld(nloc), lc(nloc);
      for(Index i = 0; i < nloc; ++i) { ld(i, x[i]); lc(i, 1e30 + double(i)); }
      GVec def(&gate, std::move(ld)), cor(&gate, std::move(lc));
      Solver::Status st = schwarz.apply(cor, def);
      for(Index i = 0; i < nloc; ++i) if(!(def.local()(i) == x[i])) fail("input_modified " + at + "defect vector modified");
      if(aborts)
      {
        if(st != Solver::Status::aborted) fail("status " + at + "the local solver of rank " + std::to_string(failr) + " failed but this rank did not return Status::aborted");
      }
      else
      {
        if(st != Solver::Status::success) fail("status " + at + "apply returned a status other than success");
        DVec got(nloc), exp(nloc);
        bool ok = true;
        for(Index i = 0; i < nloc; ++i)
        {
          got[i] = cor.local()(i); exp[i] = num[cv][i] / double(cnt[i]);
          if(exact) ok = ok && (got[i] == exp[i]);
          else ok = ok && (std::fabs(got[i] - exp[i]) <= 4.0 * EPS * std::fabs(exp[i]));
        }
        if(!ok) fail("result " + at + "got " + vx::show(got) + " expected " + vx::show(exp) + " (values " + std::to_string(cv + 1) + ")");
      }
    }
    else fail("unknown op " + op);
    if(mock && app.log != std::vector<std::string>(1, op)) fail("lifecycle_forwarding " + at + "local solver received " + join(app.log));
  }
  return fail.why;
}

int main(int argc, char** argv) { return vmpi::main_loop(argc, argv, &run_case); }
