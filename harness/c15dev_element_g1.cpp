#define C15_GROUP 1
#include "c15dev_element.cpp"
