// C07 (G) replayer: behaviours of spec/SolverCtl.tla are executed on the real convergence-control code of
// Solver::IterativeSolver<DenseVector<double>> (kernel/solver/iterative.hpp).  A scripted solver class derived
// from it in this harness overrides only _calc_def_norm (returns the scripted norm) and drives the protected
// interface _set_initial_defect / _set_new_defect / _update_defect exactly as the Krylov solvers do.  After every
// call the returned Status and (num_iter, def_init, def_cur, def_prev, num_stag_iter, is_converged, is_diverged)
// are compared with the state predicted by the specification.  Defects are small integers / inf / nan and the
// tolerances dyadic (numerator over 64), so each double comparison in the code has the same outcome as TLC's
// cross-multiplied integer comparison.
#include "vharness.hpp"
#include <kernel/solver/iterative.hpp>
#include <kernel/lafem/dense_vector.hpp>
#include <cmath>
#include <limits>

using namespace FEAT;

typedef LAFEM::DenseVector<double, Index> VecT;

class Scripted : public Solver::IterativeSolver<VecT>
{
public:
  double next = 0.0;
  long ncalc = 0;
  VecT dummy;
  Scripted() : Solver::IterativeSolver<VecT>("Scripted"), dummy(1, 0.0) {}
  virtual String name() const override { return "Scripted"; }
  virtual Solver::Status apply(VecT&, const VecT&) override { return Solver::Status::undefined; }
  virtual Solver::Status correct(VecT&, const VecT&) override { return Solver::Status::undefined; }
  Solver::Status call_init(double d) { next = d; return this->_status = this->_set_initial_defect(dummy, dummy); }
  Solver::Status call_new(double d) { next = d; return this->_status = this->_set_new_defect(dummy, dummy); }
  Solver::Status call_upd(double d) { return this->_status = this->_update_defect(d); }
  double def_prev() const { return this->_def_prev; }
  Index num_stag() const { return this->_num_stag_iter; }
protected:
  virtual double _calc_def_norm(const VecT&, const VecT&) override { ++ncalc; return next; }
};

static double dec(long long v)
{
  if(v == 999) return std::numeric_limits<double>::infinity();
  if(v == 998) return std::numeric_limits<double>::quiet_NaN();
  return double(v);
}
static bool same(double got, long long exp)
{
  if(exp == 998) return std::isnan(got);
  if(exp == 999) return std::isinf(got) && got > 0;
  return got == double(exp);
}
static const char* stname(Solver::Status s)
{
  switch(s)
  {
  case Solver::Status::undefined: return "undefined";
  case Solver::Status::progress: return "progress";
  case Solver::Status::success: return "success";
  case Solver::Status::aborted: return "aborted";
  case Solver::Status::diverged: return "diverged";
  case Solver::Status::max_iter: return "max_iter";
  case Solver::Status::stagnated: return "stagnated";
  }
  return "?";
}

vj::Value run_case(const vj::Value& c)
{
  const vj::Value& g = c["cfg"];
  const double Q = 64.0;
  Scripted s;
  s.set_min_iter(Index(g["minIter"].as_int()));
  s.set_max_iter(Index(g["maxIter"].as_int()));
  s.set_tol_rel(double(g["tolRel"].as_int()) / Q);
  s.set_tol_abs(double(g["tolAbs"].as_int()) / Q);
  s.set_tol_abs_low(double(g["tolAbsLow"].as_int()) / Q);
  s.set_div_rel(double(g["divRel"].as_int()) / Q);
  s.set_div_abs(double(g["divAbs"].as_int()) / Q);
  s.set_stag_rate(double(g["stagRate"].as_int()) / Q);
  s.set_min_stag_iter(Index(g["minStag"].as_int()));
  s.skip_defect_calc(g["skip"].as_bool());
  s.set_plot_mode(Solver::PlotMode::none);
  const vj::Value& steps = c["steps"];
  for(std::size_t k = 0; k < steps.size(); ++k)
  {
    const vj::Value& e = steps[k];
    const std::string op = e[0].as_str();
    const double d = dec(e[1].as_int());
    Solver::Status st;
    if(op == "init") st = s.call_init(d);
    else if(op == "new") st = s.call_new(d);
    else if(op == "upd") st = s.call_upd(d);
    else return vh::bad("unknown op " + op);
    std::string why;
    auto chk = [&](bool ok, const std::string& what) { if(!ok && why.empty()) why = what; };
    chk(e[2].as_str() == stname(st), std::string("status ") + stname(st) + " expected " + e[2].as_str());
    chk((long long)s.get_num_iter() == e[3].as_int(), "num_iter " + std::to_string(s.get_num_iter()) + " expected " + std::to_string(e[3].as_int()));
    chk(same(s.get_def_initial(), e[4].as_int()), "def_init " + std::to_string(s.get_def_initial()) + " expected " + std::to_string(e[4].as_int()));
    chk(same(s.get_def_final(), e[5].as_int()), "def_cur " + std::to_string(s.get_def_final()) + " expected " + std::to_string(e[5].as_int()));
    chk(same(s.def_prev(), e[6].as_int()), "def_prev " + std::to_string(s.def_prev()) + " expected " + std::to_string(e[6].as_int()));
    chk((long long)s.num_stag() == e[7].as_int(), "num_stag_iter " + std::to_string(s.num_stag()) + " expected " + std::to_string(e[7].as_int()));
    chk(s.get_status() == st, "get_status differs from the returned status");
    if(std::isfinite(s.get_def_final()) && std::isfinite(s.get_def_initial()))
    {
      chk(s.is_converged() == e[8].as_bool(), "is_converged() differs");
      chk(s.is_diverged() == e[9].as_bool(), "is_diverged() differs");
    }
    if(!why.empty())
    {
      vj::Value r = vh::bad("step " + std::to_string(k) + " (" + op + " d=" + std::to_string(e[1].as_int()) + "): " + why);
      r["step"] = (long long)k; r["op"] = op; r["exp_status"] = e[2].as_str(); r["got_status"] = stname(st);
      return r;
    }
  }
  return vh::ok();
}

int main(int argc, char** argv) { return vh::main_loop(argc, argv); }
