// C15 harness: finite-element bases on real FEAT spaces.
//
// kind "ref"  (direction G): the specification (spec/RefElementGen.tla) supplies, for a family with an exact reference basis,
//             the integer numerators of all basis values / gradients / Hessians at dyadic lattice points of the reference cell;
//             the harness calls the real Evaluator::eval_ref_values/_gradients/_hessians and compares with == .
// kind "mesh" (direction V): builds a mesh + space, dumps the mesh, the dof mapping (cell-wise) and the dof assignment
//             (entity-wise) for TLC (spec/ElementCheck.tla decides MapMatches / counts / OneIndexPerFunctional / TrafoVolume),
//             and computes the projections the specification judges:
//               Reproduce       interpolate (Assembly::Interpolator = node functionals + dof assignment) each monomial of the local
//                               space named by the specification, evaluate the FE function cell-wise (dof mapping + evaluator) at
//                               lattice points of the reference cell and compare with the monomial  (== for exact families)
//               DerivConsistent gradient / Hessian of that FE function against the monomial's exact derivatives
//               Continuous      a seeded integer coefficient vector evaluated from both sides of every interior facet at facet
//                               lattice points (values; gradients for C1 families; facet integral means for non-conforming ones)
//               TrafoVolume     sum_q w_q |det J| per cell, as integer at the scale VolUnit * 2^(K dim) (TLC compares with RefCell)
//               InverseMapping  Trafo::InverseMapping::unmap_point(map(xi)) must return the cell with xi
// Tolerances (projection principle): tol = 1e-9 * (1 + magnitude), stated in the evidence together with the measured worst value.
//
// Compiled into four binaries through c15_element_g1..g4.cpp (family groups).
#include "vmesh.hpp"
#include <kernel/trafo/standard/mapping.hpp>
#include <kernel/trafo/inverse_mapping.hpp>
#include <kernel/cubature/dynamic_factory.hpp>
#include <kernel/cubature/rule.hpp>
#include <kernel/analytic/function.hpp>
#include <kernel/assembly/interpolator.hpp>
#include <kernel/lafem/dense_vector.hpp>
#include <kernel/lafem/dense_vector_blocked.hpp>
#if C15_GROUP == 1
#include <kernel/space/lagrange1/element.hpp>
#include <kernel/space/lagrange2/element.hpp>
#include <kernel/space/discontinuous/element.hpp>
#elif C15_GROUP == 2
#include <kernel/space/lagrange3/element.hpp>
#include <kernel/space/cro_rav_ran_tur/element.hpp>
#elif C15_GROUP == 3
#include <kernel/space/bernstein2/element.hpp>
#include <kernel/space/p2bubble/element.hpp>
#include <kernel/space/q1tbnp/element.hpp>
#include <kernel/space/cai_dou_san_she_ye/element.hpp>
#else
#include <kernel/space/hermite3/element.hpp>
#include <kernel/space/argyris/element.hpp>
#include <kernel/space/bogner_fox_schmit/element.hpp>
#endif

using namespace FEAT;
using namespace vm;

// ------------------------------------------------------------------------------------------------------------------
// monomial x^e as an analytic function (value, gradient, Hessian in closed form)
// ------------------------------------------------------------------------------------------------------------------
template<int dim_> class Monomial : public Analytic::Function
{
public:
  static constexpr int domain_dim = dim_;
  typedef Analytic::Image::Scalar ImageType;
  static constexpr bool can_value = true, can_grad = true, can_hess = true;
  int e[3];
  explicit Monomial(const std::vector<long long>& ex) { for(int a(0); a < 3; ++a) e[a] = a < int(ex.size()) ? int(ex[std::size_t(a)]) : 0; }
  static double ipow(double x, int k) { double r = 1.0; for(int i(0); i < k; ++i) r *= x; return r; }
  // d^(da) in variable a, d^(db)... : generic derivative of the monomial with derivative orders o[]
  double deriv(const double* x, const int* o) const
  {
    double r = 1.0;
    for(int a(0); a < dim_; ++a)
    {
      if(o[a] > e[a]) return 0.0;
      double c = 1.0; for(int i(0); i < o[a]; ++i) c *= double(e[a] - i);
      r *= c * ipow(x[a], e[a] - o[a]);
    }
    return r;
  }
  template<typename Traits_> class Evaluator : public Analytic::Function::Evaluator<Traits_>
  {
  public:
    typedef typename Traits_::PointType PointType; typedef typename Traits_::ValueType ValueType;
    typedef typename Traits_::GradientType GradientType; typedef typename Traits_::HessianType HessianType;
    const Monomial& f;
    explicit Evaluator(const Monomial& fn) : f(fn) {}
    ValueType value(const PointType& p) { double x[3] = {0, 0, 0}; int o[3] = {0, 0, 0}; for(int a(0); a < dim_; ++a) x[a] = double(p[a]); return ValueType(f.deriv(x, o)); }
    GradientType gradient(const PointType& p)
    {
      double x[3] = {0, 0, 0}; for(int a(0); a < dim_; ++a) x[a] = double(p[a]);
      GradientType g;
      for(int a(0); a < dim_; ++a) { int o[3] = {0, 0, 0}; o[a] = 1; g[a] = f.deriv(x, o); }
      return g;
    }
    HessianType hessian(const PointType& p)
    {
      double x[3] = {0, 0, 0}; for(int a(0); a < dim_; ++a) x[a] = double(p[a]);
      HessianType h;
      for(int a(0); a < dim_; ++a) for(int b(0); b < dim_; ++b) { int o[3] = {0, 0, 0}; o[a] += 1; o[b] += 1; h[a][b] = f.deriv(x, o); }
      return h;
    }
  };
};

// vector field whose component k is the monomial m[k]
template<int dim_> class MonomialField : public Analytic::Function
{
public:
  static constexpr int domain_dim = dim_;
  typedef Analytic::Image::Vector<dim_> ImageType;
  static constexpr bool can_value = true, can_grad = false, can_hess = false;
  std::vector<Monomial<dim_>> m;
  template<typename Traits_> class Evaluator : public Analytic::Function::Evaluator<Traits_>
  {
  public:
    typedef typename Traits_::PointType PointType; typedef typename Traits_::ValueType ValueType;
    const MonomialField& f;
    explicit Evaluator(const MonomialField& fn) : f(fn) {}
    ValueType value(const PointType& p)
    {
      double x[3] = {0, 0, 0}; int o[3] = {0, 0, 0}; for(int a(0); a < dim_; ++a) x[a] = double(p[a]);
      ValueType v; for(int k(0); k < dim_; ++k) v[k] = f.m[std::size_t(k)].deriv(x, o);
      return v;
    }
  };
};

struct Worst { double v = 0.0; long long bad = 0, n = 0; void add(double err, double tol) { ++n; if(!(err <= tol)) ++bad; if(err == err) v = std::max(v, err); else v = 1e300; } };
static void put_worst(FILE* f, const char* name, const Worst& w) { std::fprintf(f, ",\"%s\":{\"n\":%lld,\"bad\":%lld,\"worst\":%.3e}", name, w.n, w.bad, w.v); }

// reference vertex coordinates as documented (simplex: 0 / unit vectors; hypercube: +-1)
template<class Shape_> void ref_vertex(int v, double* x)
{
  constexpr int dim = Shape_::dimension;
  for(int a(0); a < dim; ++a) x[a] = Fam<Shape_>::cube ? (((v >> a) & 1) ? 1.0 : -1.0) : (v == a + 1 ? 1.0 : 0.0);
}
// lattice points of the reference cell: simplex n/4, hypercube {-1,-1/2,0,1/2,1}^dim
template<class Shape_> std::vector<std::array<double, 3>> ref_lattice()
{
  constexpr int dim = Shape_::dimension;
  std::vector<std::array<double, 3>> pts;
  const int m = 5; int tot = 1; for(int a(0); a < dim; ++a) tot *= m;
  for(int q(0); q < tot; ++q)
  {
    int r = q, n[3] = {0, 0, 0}, s = 0;
    for(int a(0); a < dim; ++a) { n[a] = r % m; r /= m; s += n[a]; }
    std::array<double, 3> p = {0, 0, 0};
    if(Fam<Shape_>::cube) { for(int a(0); a < dim; ++a) p[std::size_t(a)] = -1.0 + 0.5 * n[a]; }
    else { if(s > 4) continue; for(int a(0); a < dim; ++a) p[std::size_t(a)] = 0.25 * n[a]; }
    pts.push_back(p);
  }
  return pts;
}

// ------------------------------------------------------------------------------------------------------------------
// FE function evaluation on one cell at one reference point
// ------------------------------------------------------------------------------------------------------------------
template<class Space_> struct CellEval
{
  typedef typename Space_::TrafoType TrafoType; typedef typename Space_::ShapeType ShapeType;
  static constexpr int dim = ShapeType::dimension;
  typedef typename TrafoType::template Evaluator<ShapeType, double>::Type TrafoEval;
  typedef typename Space_::template Evaluator<TrafoEval>::Type SpaceEval;
  static constexpr bool has_grad = *(SpaceEval::eval_caps & SpaceTags::grad);
  static constexpr bool has_hess = *(SpaceEval::eval_caps & SpaceTags::hess);
  static constexpr SpaceTags stags = SpaceTags::value | (has_grad ? SpaceTags::grad : SpaceTags::none) | (has_hess ? SpaceTags::hess : SpaceTags::none);
  typedef typename SpaceEval::template ConfigTraits<stags> SCT;
  static constexpr TrafoTags ttags = SCT::trafo_config | TrafoTags::img_point | TrafoTags::jac_det | TrafoTags::dom_point;
  typename TrafoEval::template ConfigTraits<ttags>::EvalDataType td;
  typename SCT::EvalDataType sd;
  TrafoEval te; SpaceEval se; typename Space_::DofMappingType dm;
  int nl = 0; bool prepared = false;
  explicit CellEval(const Space_& sp) : te(sp.get_trafo()), se(sp), dm(sp) {}
  void prepare(Index c) { if(prepared) finish(); te.prepare(c); se.prepare(te); dm.prepare(c); nl = se.get_num_local_dofs(); prepared = true; }
  void finish() { if(prepared) { dm.finish(); se.finish(); te.finish(); prepared = false; } }
  void at(const double* xi) { typename TrafoEval::DomainPointType p; for(int a(0); a < dim; ++a) p[a] = xi[a]; te(td, p); se(sd, td); }
  double value(const double* coef) const { double s = 0; for(int j(0); j < nl; ++j) s += coef[dm.get_index(j)] * sd.phi[j].value; return s; }
  double absval(const double* coef) const { double s = 0; for(int j(0); j < nl; ++j) s += std::fabs(coef[dm.get_index(j)] * sd.phi[j].value); return s; }
  double grad(const double* coef, int a) const { double s = 0; if constexpr (has_grad) for(int j(0); j < nl; ++j) s += coef[dm.get_index(j)] * sd.phi[j].grad[a]; return s; }
  double absgrad(const double* coef, int a) const { double s = 0; if constexpr (has_grad) for(int j(0); j < nl; ++j) s += std::fabs(coef[dm.get_index(j)] * sd.phi[j].grad[a]); return s; }
  double hess(const double* coef, int a, int b) const { double s = 0; if constexpr (has_hess) for(int j(0); j < nl; ++j) s += coef[dm.get_index(j)] * sd.phi[j].hess[a][b]; return s; }
  double abshess(const double* coef, int a, int b) const { double s = 0; if constexpr (has_hess) for(int j(0); j < nl; ++j) s += std::fabs(coef[dm.get_index(j)] * sd.phi[j].hess[a][b]); return s; }
};

// the same evaluation with ONE requested space tag only (value, grad or hess): what an evaluator returns for a tag must not
// depend on which other tags are requested (the configuration traits have to pull in everything the tag needs)
template<class Space_, SpaceTags tag_> struct SubEval
{
  typedef typename Space_::TrafoType TrafoType; typedef typename Space_::ShapeType ShapeType;
  static constexpr int dim = ShapeType::dimension;
  typedef typename TrafoType::template Evaluator<ShapeType, double>::Type TrafoEval;
  typedef typename Space_::template Evaluator<TrafoEval>::Type SpaceEval;
  typedef typename SpaceEval::template ConfigTraits<tag_> SCT;
  static constexpr TrafoTags ttags = SCT::trafo_config | TrafoTags::dom_point;
  typename TrafoEval::template ConfigTraits<ttags>::EvalDataType td;
  typename SCT::EvalDataType sd;
  TrafoEval te; SpaceEval se; bool prepared = false;
  explicit SubEval(const Space_& sp) : te(sp.get_trafo()), se(sp) {}
  void prepare(Index c) { if(prepared) finish(); te.prepare(c); se.prepare(te); prepared = true; }
  void finish() { if(prepared) { se.finish(); te.finish(); prepared = false; } }
  void at(const double* xi) { typename TrafoEval::DomainPointType p; for(int a(0); a < dim; ++a) p[a] = xi[a]; te(td, p); se(sd, td); }
};

// dof assignment of all entities of dimension d_ ... 0 as JSON: [[ [idx..] per entity ] per dimension]
template<class Space_, int d_> struct AssignDump
{
  static void put(FILE* f, const Space_& sp)
  {
    if constexpr (d_ > 0) { AssignDump<Space_, d_ - 1>::put(f, sp); std::fputc(',', f); }
    typename Space_::template DofAssignment<d_, double>::Type da(sp);
    const Index ne = sp.get_mesh().get_num_entities(d_);
    std::fputc('[', f);
    for(Index i(0); i < ne; ++i)
    {
      da.prepare(i);
      std::fputs(i ? ",[" : "[", f);
      for(int j(0); j < da.get_num_assigned_dofs(); ++j) std::fprintf(f, j ? ",%llu" : "%llu", (unsigned long long)da.get_index(j));
      std::fputc(']', f);
      da.finish();
    }
    std::fputc(']', f);
  }
};

template<class Shape_> bool axis_parallel(const MeshT<Shape_>& m)
{
  constexpr int dim = Shape_::dimension;
  if(!Fam<Shape_>::cube) return false;
  const auto& is = m.template get_index_set<dim, 0>(); const auto& vs = m.get_vertex_set();
  for(Index c(0); c < m.get_num_elements(); ++c)
    for(int v(0); v < (1 << dim); ++v)
      for(int a(0); a < dim; ++a)
        if(!((v >> a) & 1))
          for(int x(0); x < dim; ++x)
            if(x != a && vs[is[c][v]][x] != vs[is[c][v | (1 << a)]][x]) return false;
  return true;
}

// ------------------------------------------------------------------------------------------------------------------
// kind "mesh"
// ------------------------------------------------------------------------------------------------------------------
template<class Shape_, class Space_> vj::Value run_mesh(const vj::Value& c, MeshT<Shape_>& mesh, bool dyadic)
{
  typedef MeshT<Shape_> MeshType;
  typedef Trafo::Standard::Mapping<MeshType> TrafoType;
  typedef CellEval<Space_> CE;
  constexpr int dim = Shape_::dimension;
  constexpr int nv = Shape::FaceTraits<Shape_, 0>::count;
  constexpr int nfv = Shape::FaceTraits<Shape_, dim - 1>::count == 0 ? 0 : Shape::FaceTraits<typename Shape::FaceTraits<Shape_, dim - 1>::ShapeType, 0>::count;
  constexpr int nfac = Shape::FaceTraits<Shape_, dim - 1>::count;
  const bool exact = c.get_int("exact", 0) != 0 && dyadic;
  const std::string conf = c.get_str("conf", "L2");
  const double TOL = 1e-9;

  TrafoType trafo(mesh);
  Space_ space(trafo);
  const Index ncells = mesh.get_num_elements();
  const Index ng = space.get_num_dofs();
  const bool axpar = axis_parallel<Shape_>(mesh);
  int K = dyadic ? min_scale(mesh, 30) : 0;
  if(K < 0) { K = 0; }

  const std::string out = c["out"].as_str();
  FILE* f = std::fopen(out.c_str(), "w");
  if(!f) throw std::runtime_error("cannot write " + out);
  std::fputs("{\"id\":", f); put_str(f, c["id"].as_str());
  std::fprintf(f, ",\"fam\":\"%s\",\"dim\":%d,\"el\":", Fam<Shape_>::name(), dim); put_str(f, c["el"].as_str());
  std::fprintf(f, ",\"K\":%d,\"dyadic\":%s,\"axpar\":%s,\"levels\":[", K, dyadic ? "true" : "false", axpar ? "true" : "false");
  std::vector<std::pair<std::string, const Geometry::MeshPart<MeshType>*>> noparts;
  put_level(f, mesh, K, noparts, false);
  std::fprintf(f, "],\"ng\":%llu,\"G\":[", (unsigned long long)ng);
  {
    typename Space_::DofMappingType dm(space);
    for(Index cc(0); cc < ncells; ++cc)
    {
      dm.prepare(cc);
      std::fputs(cc ? ",[" : "[", f);
      for(int j(0); j < dm.get_num_local_dofs(); ++j) std::fprintf(f, j ? ",%llu" : "%llu", (unsigned long long)dm.get_index(j));
      std::fputc(']', f);
      dm.finish();
    }
  }
  std::fputs("],\"A\":[", f);
  AssignDump<Space_, dim>::put(f, space);
  std::fputc(']', f);

  CE ce(space);
  const auto lattice = ref_lattice<Shape_>();
  const auto& is = mesh.template get_index_set<dim, 0>();
  const auto& vs = mesh.get_vertex_set();

  // ---- Reproduce / DerivConsistent ----
  Worst wrep, wgrad, whess; long long nmono = 0;
  if constexpr (Space_::have_node_func)
  {
    const vj::Value& monos = c["monos"];
    // one coefficient vector for all monomials: every interpolation goes into the vector that holds the previous result
    LAFEM::DenseVector<double, Index> vec;
    for(std::size_t mi(0); mi < monos.size(); ++mi)
    {
      const bool tensor_only = monos[mi]["t"].as_int() != 0;
      if(tensor_only && !axpar) continue;
      Monomial<dim> mono(monos[mi]["e"].ints());
      Assembly::Interpolator::project(vec, mono, space);
      const double* coef = vec.elements();
      ++nmono;
      for(Index cc(0); cc < ncells; ++cc)
      {
        ce.prepare(cc);
        for(const auto& xi : lattice)
        {
          ce.at(xi.data());
          double x[3] = {0, 0, 0}; for(int a(0); a < dim; ++a) x[a] = double(ce.td.img_point[a]);
          int o[3] = {0, 0, 0};
          const double u = mono.deriv(x, o), uh = ce.value(coef);
          if(exact) wrep.add(uh == u ? 0.0 : std::max(std::fabs(uh - u), 1e-300), 0.0);
          else wrep.add(std::fabs(uh - u), TOL * (1.0 + ce.absval(coef)));
          if constexpr (CE::has_grad)
            for(int a(0); a < dim; ++a) { int oo[3] = {0, 0, 0}; oo[a] = 1; wgrad.add(std::fabs(ce.grad(coef, a) - mono.deriv(x, oo)), TOL * (1.0 + ce.absgrad(coef, a))); }
          if constexpr (CE::has_hess)
            for(int a(0); a < dim; ++a) for(int b(0); b < dim; ++b)
            { int oo[3] = {0, 0, 0}; oo[a] += 1; oo[b] += 1; whess.add(std::fabs(ce.hess(coef, a, b) - mono.deriv(x, oo)), TOL * (1.0 + ce.abshess(coef, a, b))); }
        }
      }
      ce.finish();
    }
  }
  // ---- Reproduce for vector fields (DenseVectorBlocked overload), including a repeated interpolation into the same vector ----
  Worst wvrep; bool vecfield = false;
#if C15_GROUP != 4
  if constexpr (Space_::have_node_func)
  {
    vecfield = true;
    const vj::Value& monos = c["monos"];
    std::vector<std::size_t> use;
    for(std::size_t mi(0); mi < monos.size(); ++mi) if(monos[mi]["t"].as_int() == 0 || axpar) use.push_back(mi);
    LAFEM::DenseVectorBlocked<double, Index, dim> vb;
    for(std::size_t round(0); round < std::min<std::size_t>(use.size(), 3) + 1; ++round)
    {
      // component k = monomial use[(round + k) % size]; the last round repeats the first field
      MonomialField<dim> fld;
      for(int k(0); k < dim; ++k) fld.m.emplace_back(monos[use[(round % std::max<std::size_t>(1, std::min<std::size_t>(use.size(), 3)) + std::size_t(k)) % use.size()]]["e"].ints());
      Assembly::Interpolator::project(vb, fld, space);
      const auto* bv = vb.elements();
      std::vector<double> comp(ng);
      for(int k(0); k < dim; ++k)
      {
        for(Index i(0); i < ng; ++i) comp[i] = double(bv[i][k]);
        for(Index cc(0); cc < ncells; ++cc)
        {
          ce.prepare(cc);
          for(std::size_t p(0); p < lattice.size(); p += 2)
          {
            ce.at(lattice[p].data());
            double x[3] = {0, 0, 0}; for(int a(0); a < dim; ++a) x[a] = double(ce.td.img_point[a]);
            int o[3] = {0, 0, 0};
            const double u = fld.m[std::size_t(k)].deriv(x, o), uh = ce.value(comp.data());
            if(exact) wvrep.add(uh == u ? 0.0 : std::max(std::fabs(uh - u), 1e-300), 0.0);
            else wvrep.add(std::fabs(uh - u), TOL * (1.0 + ce.absval(comp.data())));
          }
        }
        ce.finish();
      }
    }
  }
#endif
  // ---- ConfigIndependent: value-only / grad-only / hess-only evaluations against the evaluation with all tags ----
  Worst wcfg;
  {
    SubEval<Space_, SpaceTags::value> sv(space);
    for(Index cc(0); cc < ncells; ++cc)
    {
      ce.prepare(cc); sv.prepare(cc);
      for(std::size_t p(0); p < lattice.size(); p += 3)
      {
        ce.at(lattice[p].data()); sv.at(lattice[p].data());
        for(int j(0); j < ce.nl; ++j) { const double a = double(ce.sd.phi[j].value), b = double(sv.sd.phi[j].value); wcfg.add(std::fabs(a - b), 1e-13 * (1.0 + std::fabs(a))); }
      }
      sv.finish();
    }
    ce.finish();
    if constexpr (CE::has_grad)
    {
      SubEval<Space_, SpaceTags::grad> sg(space);
      for(Index cc(0); cc < ncells; ++cc)
      {
        ce.prepare(cc); sg.prepare(cc);
        for(std::size_t p(0); p < lattice.size(); p += 3)
        {
          ce.at(lattice[p].data()); sg.at(lattice[p].data());
          for(int j(0); j < ce.nl; ++j) for(int a(0); a < dim; ++a)
          { const double u = double(ce.sd.phi[j].grad[a]), v = double(sg.sd.phi[j].grad[a]); wcfg.add(std::fabs(u - v), 1e-13 * (1.0 + std::fabs(u))); }
        }
        sg.finish();
      }
      ce.finish();
    }
    if constexpr (CE::has_hess)
    {
      SubEval<Space_, SpaceTags::hess> sh(space);
      for(Index cc(0); cc < ncells; ++cc)
      {
        ce.prepare(cc); sh.prepare(cc);
        for(std::size_t p(0); p < lattice.size(); p += 3)
        {
          ce.at(lattice[p].data()); sh.at(lattice[p].data());
          for(int j(0); j < ce.nl; ++j) for(int a(0); a < dim; ++a) for(int b(0); b < dim; ++b)
          { const double u = double(ce.sd.phi[j].hess[a][b]), v = double(sh.sd.phi[j].hess[a][b]); wcfg.add(std::fabs(u - v), 1e-13 * (1.0 + std::fabs(u))); }
        }
        sh.finish();
      }
      ce.finish();
    }
  }
  put_worst(f, "cfg", wcfg);
  std::fprintf(f, ",\"vecfield\":%s", vecfield ? "true" : "false");
  put_worst(f, "vrep", wvrep);
  std::fprintf(f, ",\"nodefunc\":%s,\"nmono\":%lld,\"hasgrad\":%s,\"hashess\":%s,\"exactcmp\":%s", Space_::have_node_func ? "true" : "false", nmono,
    CE::has_grad ? "true" : "false", CE::has_hess ? "true" : "false", exact ? "true" : "false");
  put_worst(f, "rep", wrep); put_worst(f, "dgrad", wgrad); put_worst(f, "dhess", whess);

  // ---- Continuous: seeded integer coefficients, both sides of every interior facet ----
  Worst wjump, wgjump, wmean; long long nint = 0, nonplanar = 0;
  {
    unsigned long long st = 0x9E3779B97F4A7C15ull ^ (unsigned long long)c.get_int("seed", 1);
    std::vector<double> coef(ng);
    for(Index i(0); i < ng; ++i) { st = st * 6364136223846793005ull + 1442695040888963407ull; coef[i] = double(int((st >> 33) % 9) - 4); }
    const auto& fs = mesh.template get_index_set<dim, dim - 1>();
    const auto& fv = mesh.template get_index_set<dim - 1, 0>();
    std::map<Index, std::pair<Index, int>> first;   // facet -> (cell, local facet)
    // facet lattice weights on the facet's vertices (local order of the facet's own vertex tuple)
    std::vector<std::array<double, 4>> wts; std::vector<double> qw;   // qw: quadrature weight (0 = lattice point only)
    if(Fam<Shape_>::cube)
    {
      const int nq = (dim == 2 ? 5 : 25);
      for(int q(0); q < nq; ++q)
      {
        double s = 0.25 * (q % 5), t = (dim == 3 ? 0.25 * (q / 5) : 0.0);
        std::array<double, 4> w = {0, 0, 0, 0};
        if(dim == 2) { w[0] = 1 - s; w[1] = s; } else { w[0] = (1 - s) * (1 - t); w[1] = s * (1 - t); w[2] = (1 - s) * t; w[3] = s * t; }
        wts.push_back(w); qw.push_back(0.0);
      }
      // Gauss-Legendre 3 (tensor) for the facet means
      const double gp[3] = {0.5 - 0.5 * std::sqrt(0.6), 0.5, 0.5 + 0.5 * std::sqrt(0.6)}, gw[3] = {5.0 / 18.0, 8.0 / 18.0, 5.0 / 18.0};
      for(int i(0); i < 3; ++i) for(int j(0); j < (dim == 3 ? 3 : 1); ++j)
      {
        double s = gp[i], t = (dim == 3 ? gp[j] : 0.0);
        std::array<double, 4> w = {0, 0, 0, 0};
        if(dim == 2) { w[0] = 1 - s; w[1] = s; } else { w[0] = (1 - s) * (1 - t); w[1] = s * (1 - t); w[2] = (1 - s) * t; w[3] = s * t; }
        wts.push_back(w); qw.push_back(gw[i] * (dim == 3 ? gw[j] : 1.0));
      }
    }
    else
    {
      for(int i(0); i <= 4; ++i) for(int j(0); j <= (dim == 3 ? 4 - i : 0); ++j)
      {
        std::array<double, 4> w = {0, 0, 0, 0};
        if(dim == 2) { w[0] = 1 - 0.25 * i; w[1] = 0.25 * i; } else { w[1] = 0.25 * i; w[2] = 0.25 * j; w[0] = 1 - w[1] - w[2]; }
        wts.push_back(w); qw.push_back(0.0);
      }
      if(dim == 2)
      {
        const double gp[3] = {0.5 - 0.5 * std::sqrt(0.6), 0.5, 0.5 + 0.5 * std::sqrt(0.6)}, gw[3] = {5.0 / 18.0, 8.0 / 18.0, 5.0 / 18.0};
        for(int i(0); i < 3; ++i) { std::array<double, 4> w = {1 - gp[i], gp[i], 0, 0}; wts.push_back(w); qw.push_back(gw[i]); }
      }
      else
      {
        // edge-midpoint rule (exact for degree 2)
        for(int i(0); i < 3; ++i) { std::array<double, 4> w = {0.5, 0.5, 0.5, 0}; w[std::size_t(i)] = 0.0; wts.push_back(w); qw.push_back(1.0 / 3.0); }
      }
    }
    CE ce2(space);
    for(Index cc(0); cc < ncells; ++cc)
      for(int k(0); k < nfac; ++k)
      {
        const Index fi = fs[cc][k];
        auto it = first.find(fi);
        if(it == first.end()) { first[fi] = std::make_pair(cc, k); continue; }
        const Index c1 = it->second.first;
        ++nint;
        // local vertex numbers of the facet's vertices in both cells
        int l1[4], l2[4];
        for(int q(0); q < nfv; ++q)
        {
          l1[q] = l2[q] = -1;
          for(int v(0); v < nv; ++v) { if(is[c1][v] == fv[fi][q]) l1[q] = v; if(is[cc][v] == fv[fi][q]) l2[q] = v; }
          if(l1[q] < 0 || l2[q] < 0) { std::fclose(f); return vh::bad("facet vertex not found in adjacent cell"); }
        }
        double mean1 = 0, mean2 = 0, meanabs = 0, area = 0;
        // facet means are compared on planar facets only: on a non-planar (bilinear) facet the surface element is not polynomial, so
        // neither this reference quadrature nor the node functional's own cubature integrates exactly and the two need not agree
        bool planar = true;
        if(Fam<Shape_>::cube && dim == 3)
        {
          double e1[3], e2[3], e3[3];
          for(int a(0); a < 3; ++a) { e1[a] = vs[fv[fi][1]][a] - vs[fv[fi][0]][a]; e2[a] = vs[fv[fi][2]][a] - vs[fv[fi][0]][a]; e3[a] = vs[fv[fi][3]][a] - vs[fv[fi][0]][a]; }
          const double det = e1[0] * (e2[1] * e3[2] - e2[2] * e3[1]) - e1[1] * (e2[0] * e3[2] - e2[2] * e3[0]) + e1[2] * (e2[0] * e3[1] - e2[1] * e3[0]);
          planar = std::fabs(det) <= 1e-12 * (1.0 + std::fabs(e1[0]) + std::fabs(e2[1]) + std::fabs(e3[2]));
        }
        ce.prepare(c1); ce2.prepare(cc);
        for(std::size_t p(0); p < wts.size(); ++p)
        {
          double x1[3] = {0, 0, 0}, x2[3] = {0, 0, 0}, rv[3];
          for(int q(0); q < nfv; ++q)
          {
            ref_vertex<Shape_>(l1[q], rv); for(int a(0); a < dim; ++a) x1[a] += wts[p][std::size_t(q)] * rv[a];
            ref_vertex<Shape_>(l2[q], rv); for(int a(0); a < dim; ++a) x2[a] += wts[p][std::size_t(q)] * rv[a];
          }
          ce.at(x1); ce2.at(x2);
          const double u1 = ce.value(coef.data()), u2 = ce2.value(coef.data());
          if(qw[p] == 0.0)
          {
            if(exact) wjump.add(u1 == u2 ? 0.0 : std::max(std::fabs(u1 - u2), 1e-300), 0.0);
            else wjump.add(std::fabs(u1 - u2), TOL * (1.0 + ce.absval(coef.data()) + ce2.absval(coef.data())));
            if constexpr (CE::has_grad)
              for(int a(0); a < dim; ++a)
                wgjump.add(std::fabs(ce.grad(coef.data(), a) - ce2.grad(coef.data(), a)), TOL * (1.0 + ce.absgrad(coef.data(), a) + ce2.absgrad(coef.data(), a)));
          }
          else
          {
            // surface element of the facet at this point (own computation from the vertex coordinates)
            double da = 1.0;
            if(Fam<Shape_>::cube && dim == 3)
            {
              // bilinear patch: X_s x X_t; recover (s,t) from the weights
              const double s = wts[p][1] + wts[p][3], t = wts[p][2] + wts[p][3];
              double Xs[3], Xt[3];
              for(int a(0); a < 3; ++a)
              {
                const double p0 = vs[fv[fi][0]][a], p1 = vs[fv[fi][1]][a], p2 = vs[fv[fi][2]][a], p3 = vs[fv[fi][3]][a];
                Xs[a] = (1 - t) * (p1 - p0) + t * (p3 - p2); Xt[a] = (1 - s) * (p2 - p0) + s * (p3 - p1);
              }
              const double cx = Xs[1] * Xt[2] - Xs[2] * Xt[1], cy = Xs[2] * Xt[0] - Xs[0] * Xt[2], cz = Xs[0] * Xt[1] - Xs[1] * Xt[0];
              da = std::sqrt(cx * cx + cy * cy + cz * cz);
            }
            mean1 += qw[p] * da * u1; mean2 += qw[p] * da * u2; area += qw[p] * da;
            meanabs += qw[p] * da * (ce.absval(coef.data()) + ce2.absval(coef.data()));
          }
        }
        if(area > 0 && planar) wmean.add(std::fabs(mean1 - mean2) / area, 1e-8 * (1.0 + meanabs / area));
        if(!planar) ++nonplanar;
      }
    ce.finish(); ce2.finish();
  }
  std::fprintf(f, ",\"nintfacets\":%lld,\"nonplanar\":%lld", nint, nonplanar);
  put_worst(f, "jump", wjump); put_worst(f, "gjump", wgjump); put_worst(f, "mjump", wmean);

  // ---- TrafoVolume ----
  {
    Cubature::DynamicFactory fac("auto-degree:4");
    Cubature::Rule<Shape_, double, double, Tiny::Vector<double, dim>> rule(Cubature::ctor_factory, fac);
    const double unit = (dim == 2 ? 2.0 : (Fam<Shape_>::cube ? 12.0 : 6.0)) * std::ldexp(1.0, K * dim);
    bool volnoise = false; double vdev = 0.0, total = 0.0;
    Worst wvolfn;
    std::fputs(",\"vol\":[", f);
    for(Index cc(0); cc < ncells; ++cc)
    {
      ce.prepare(cc);
      double v = 0;
      for(int q(0); q < rule.get_num_points(); ++q)
      {
        double xi[3] = {0, 0, 0}; for(int a(0); a < dim; ++a) xi[a] = rule.get_coord(q, a);
        ce.at(xi);
        v += rule.get_weight(q) * std::fabs(double(ce.td.jac_det));
      }
      total += v;
      // the evaluator's own volume() (a hard-coded rule per shape) must be the same integral
      { const double vf = double(ce.te.volume()); wvolfn.add(std::fabs(vf - v), 1e-11 * (1.0 + std::fabs(v))); }
      const double s = v * unit, r = std::nearbyint(s);
      const double dev = std::fabs(s - r) / std::max(1.0, std::fabs(r));
      if(!(dev <= 1e-11) || !(std::fabs(r) < 1073741824.0)) volnoise = true;
      vdev = std::max(vdev, dev);
      std::fprintf(f, cc ? ",%lld" : "%lld", (long long)r);
    }
    ce.finish();
    std::fprintf(f, "],\"volnoise\":%s,\"voldev\":%.3e,\"voltotal\":%.17g", volnoise ? "true" : "false", vdev, total);
    put_worst(f, "volfn", wvolfn);
  }

  // ---- InverseMapping ----
  {
    Worst winv; long long notfound = 0;
    Trafo::InverseMapping<TrafoType, double> inv(trafo);
    const Index stride = std::max<Index>(1, ncells / 40);
    for(Index cc(0); cc < ncells; cc += stride)
    {
      for(std::size_t p(0); p < lattice.size(); p += 3)
      {
        ce.prepare(cc);
        ce.at(lattice[p].data());
        typename Trafo::InverseMapping<TrafoType, double>::ImagePointType ip;
        for(int a(0); a < dim; ++a) ip[a] = ce.td.img_point[a];
        ce.finish();
        auto res = inv.unmap_point(ip, true);
        bool found = false; double best = 1e300;
        for(std::size_t r(0); r < res.cells.size(); ++r)
          if(res.cells[r] == cc)
          {
            found = true; double e = 0;
            for(int a(0); a < dim; ++a) e = std::max(e, std::fabs(double(res.dom_points[r][a]) - lattice[p][std::size_t(a)]));
            best = std::min(best, e);
          }
        if(!found) { ++notfound; winv.add(1e300, 0.0); } else winv.add(best, 1e-8);
      }
    }
    std::fprintf(f, ",\"inv_notfound\":%lld", notfound);
    put_worst(f, "inv", winv);
  }
  std::fputs("}\n", f);
  std::fclose(f);
  vj::Value r = vh::ok();
  r["ng"] = (long long)ng; r["rep"] = wrep.v; r["dgrad"] = wgrad.v; r["dhess"] = whess.v; r["jump"] = wjump.v; r["gjump"] = wgjump.v; r["mjump"] = wmean.v;
  return r;
}

// ------------------------------------------------------------------------------------------------------------------
// kind "ref": exact reference values
// ------------------------------------------------------------------------------------------------------------------
template<class Shape_, class Space_> vj::Value run_ref(const vj::Value& c)
{
  typedef MeshT<Shape_> MeshType;
  typedef Trafo::Standard::Mapping<MeshType> TrafoType;
  typedef CellEval<Space_> CE;
  constexpr int dim = Shape_::dimension;
  Geometry::RefinedUnitCubeFactory<MeshType> fac(0);
  std::unique_ptr<MeshType> mesh = fac.make_unique();
  TrafoType trafo(*mesh);
  Space_ space(trafo);
  typename CE::TrafoEval te(trafo); typename CE::SpaceEval se(space);
  te.prepare(0); se.prepare(te);
  constexpr bool rv = *(CE::SpaceEval::eval_caps & SpaceTags::ref_value), rg = *(CE::SpaceEval::eval_caps & SpaceTags::ref_grad), rh = *(CE::SpaceEval::eval_caps & SpaceTags::ref_hess);
  static_assert(rv, "no reference values");
  constexpr SpaceTags rtags = SpaceTags::ref_value | (rg ? SpaceTags::ref_grad : SpaceTags::none) | (rh ? SpaceTags::ref_hess : SpaceTags::none);
  typename CE::SpaceEval::template ConfigTraits<rtags>::EvalDataType sd;
  const double S = double(c["S"].as_int());
  const double den = double(c["den"].as_int());     // common denominator of all numerators: den * S^D
  const int nl = se.get_num_local_dofs();
  if(nl != (int)c["nloc"].as_int()) return vh::bad("number of local dofs differs", c["nloc"], vj::Value((long long)nl));
  const vj::Value& pts = c["pts"];
  long long ncmp = 0;
  for(std::size_t p(0); p < pts.size(); ++p)
  {
    const auto n = pts[p]["n"].ints();
    typename CE::TrafoEval::DomainPointType xi;
    for(int a(0); a < dim; ++a) xi[a] = double(n[std::size_t(a)]) / S;
    se.eval_ref_values(sd, xi);
    if constexpr (rg) se.eval_ref_gradients(sd, xi);
    if constexpr (rh) se.eval_ref_hessians(sd, xi);
    const vj::Value& V = pts[p]["v"]; const vj::Value& G = pts[p]["g"]; const vj::Value& H = pts[p]["h"];
    for(int j(0); j < nl; ++j)
    {
      auto bad = [&](const char* what, double got, long long exp) {
        vj::Value r = vh::bad(std::string("reference ") + what + " of basis function " + std::to_string(j) + " at lattice point " + vj::dump(pts[p]["n"]) + " differs");
        r["exp"] = exp; r["got"] = got * den; r["what"] = what; return r; };
      const double v = double(sd.phi[j].ref_value);
      if(v * den != double(V[std::size_t(j)].as_int())) return bad("value", v, V[std::size_t(j)].as_int());
      ++ncmp;
      if constexpr (rg)
        for(int a(0); a < dim; ++a)
        {
          const double g = double(sd.phi[j].ref_grad[a]);
          if(g * den != double(G[std::size_t(j)][std::size_t(a)].as_int())) return bad("gradient", g, G[std::size_t(j)][std::size_t(a)].as_int());
          ++ncmp;
        }
      if constexpr (rh)
        for(int a(0); a < dim; ++a)
          for(int b(0); b < dim; ++b)
          {
            const double h = double(sd.phi[j].ref_hess[a][b]);
            if(h * den != double(H[std::size_t(j)][std::size_t(a)][std::size_t(b)].as_int())) return bad("hessian", h, H[std::size_t(j)][std::size_t(a)][std::size_t(b)].as_int());
            ++ncmp;
          }
    }
  }
  se.finish(); te.finish();
  vj::Value r = vh::ok(); r["ncmp"] = ncmp; r["caps"] = (long long)(1 + (rg ? 2 : 0) + (rh ? 4 : 0)); return r;
}

// families without reference capabilities (Discontinuous): evaluated through the standard trafo on a mesh that consists of the
// reference cell itself (vertices supplied by the specification), where physical = reference coordinates
template<class Shape_, class Space_> vj::Value run_ref_phys(const vj::Value& c)
{
  typedef MeshT<Shape_> MeshType;
  typedef Trafo::Standard::Mapping<MeshType> TrafoType;
  typedef CellEval<Space_> CE;
  constexpr int dim = Shape_::dimension;
  vj::Value raw = vj::Value::object();
  raw["X"] = c["rv"]; raw["cs"] = 0;
  vj::Value cells = vj::Value::array(), cell = vj::Value::array();
  for(std::size_t k(0); k < c["rv"].size(); ++k) cell.push(vj::Value((long long)k));
  cells.push(cell); raw["cells"] = cells;
  std::unique_ptr<MeshType> mesh = build_raw<Shape_>(raw);
  TrafoType trafo(*mesh);
  Space_ space(trafo);
  CE ce(space);
  ce.prepare(0);
  const double S = double(c["S"].as_int()), den = double(c["den"].as_int());
  if(ce.nl != (int)c["nloc"].as_int()) return vh::bad("number of local dofs differs", c["nloc"], vj::Value((long long)ce.nl));
  const vj::Value& pts = c["pts"];
  long long ncmp = 0;
  for(std::size_t p(0); p < pts.size(); ++p)
  {
    const auto n = pts[p]["n"].ints();
    double xi[3] = {0, 0, 0};
    for(int a(0); a < dim; ++a) xi[a] = double(n[std::size_t(a)]) / S;
    ce.at(xi);
    for(int j(0); j < ce.nl; ++j)
    {
      const double v = double(ce.sd.phi[j].value);
      if(v * den != double(pts[p]["v"][std::size_t(j)].as_int()))
      { vj::Value r = vh::bad("value of basis function " + std::to_string(j) + " on the reference cell at " + vj::dump(pts[p]["n"]) + " differs"); r["exp"] = pts[p]["v"][std::size_t(j)]; r["got"] = v * den; return r; }
      ++ncmp;
      if constexpr (CE::has_grad)
        for(int a(0); a < dim; ++a)
        {
          const double g = double(ce.sd.phi[j].grad[a]);
          if(g * den != double(pts[p]["g"][std::size_t(j)][std::size_t(a)].as_int()))
          { vj::Value r = vh::bad("gradient of basis function " + std::to_string(j) + " on the reference cell at " + vj::dump(pts[p]["n"]) + " differs"); r["exp"] = pts[p]["g"][std::size_t(j)][std::size_t(a)]; r["got"] = g * den; return r; }
          ++ncmp;
        }
    }
  }
  ce.finish();
  vj::Value r = vh::ok(); r["ncmp"] = ncmp; r["caps"] = (long long)(8 + (CE::has_grad ? 2 : 0)); return r;
}

template<class Shape_, class Space_> vj::Value run_space(const vj::Value& c)
{
  typedef MeshT<Shape_> MeshType;
  constexpr int dim = Shape_::dimension;
  if(c["kind"].as_str() == "ref")
  {
    if constexpr (*(CellEval<Space_>::SpaceEval::eval_caps & SpaceTags::ref_value)) return run_ref<Shape_, Space_>(c);
    else return run_ref_phys<Shape_, Space_>(c);
  }
  const vj::Value& src = c["src"];
  std::unique_ptr<MeshType> own; MeshType* mesh = nullptr;
  Geometry::MeshAtlas<MeshType> atlas; std::unique_ptr<Geometry::RootMeshNode<MeshType>> node;
  if(src.has("raw")) { own = build_raw<Shape_>(src["raw"]); mesh = own.get(); }
  else if(src.has("file")) { node = build_file<Shape_>(src["file"].as_str(), atlas); mesh = node->get_mesh(); }
  else { own = build_factory<Shape_>(src); mesh = own.get(); }
  bool dyadic = true;
  if(src.has("file"))
  {
    const int g = (int)c.get_int("snap", 0);
    if(g > 0) snap(*mesh, g); else dyadic = (min_scale(*mesh, 20) >= 0);
  }
  // seeded dyadic distortion of the vertices (offsets in {-1,0,1} * 2^-distort per coordinate): general affine simplices,
  // non-affine (multilinear) hypercubes; the caller chooses the amplitude small enough to keep all cells valid
  const int dist = (int)c.get_int("distort", 0);
  if(dist > 0)
  {
    unsigned long long st = 0xD1B54A32D192ED03ull ^ (unsigned long long)c.get_int("seed", 1);
    auto& vs = mesh->get_vertex_set();
    for(Index i(0); i < vs.get_num_vertices(); ++i)
      for(int k(0); k < dim; ++k)
      { st = st * 6364136223846793005ull + 1442695040888963407ull; vs[i][k] += std::ldexp(double(int((st >> 33) % 3) - 1), -dist); }
  }
  const int nref = (int)c.get_int("nref", 0);
  std::unique_ptr<MeshType> fine;
  for(int l(0); l < nref; ++l) { Geometry::StandardRefinery<MeshType> ref(*mesh); fine = ref.make_unique(); own = std::move(fine); mesh = own.get(); }
  // exact comparisons and integer dumps only for meshes whose coordinates are dyadic (decided on the mesh actually used)
  dyadic = dyadic && (min_scale(*mesh, 24) >= 0);
  if((long long)mesh->get_num_elements() > c.get_int("maxcells", 400)) { vj::Value r = vh::ok(); r["skip"] = true; r["why"] = "too many cells"; return r; }
  (void)dim;
  return run_mesh<Shape_, Space_>(c, *mesh, dyadic);
}

template<class Shape_> vj::Value run_shape(const vj::Value& c)
{
  typedef Trafo::Standard::Mapping<MeshT<Shape_>> TrafoType;
  constexpr bool cube = Fam<Shape_>::cube; constexpr int dim = Shape_::dimension;
  const std::string el = c["el"].as_str();
  (void)cube; (void)dim;
#if C15_GROUP == 1
  if(el == "lagrange1") return run_space<Shape_, Space::Lagrange1::Element<TrafoType>>(c);
  if(el == "lagrange2") return run_space<Shape_, Space::Lagrange2::Element<TrafoType>>(c);
  if(el == "discontinuous0") return run_space<Shape_, Space::Discontinuous::Element<TrafoType, Space::Discontinuous::Variant::StdPolyP<0>>>(c);
  if(el == "discontinuous1") return run_space<Shape_, Space::Discontinuous::Element<TrafoType, Space::Discontinuous::Variant::StdPolyP<1>>>(c);
#elif C15_GROUP == 2
  if(el == "lagrange3") return run_space<Shape_, Space::Lagrange3::Element<TrafoType>>(c);
  if(el == "crorav") return run_space<Shape_, Space::CroRavRanTur::Element<TrafoType>>(c);
#elif C15_GROUP == 3
  if constexpr (cube) { if(el == "bernstein2") return run_space<Shape_, Space::Bernstein2::Element<TrafoType>>(c); }
  if constexpr (cube) { if(el == "q1tbnp") return run_space<Shape_, Space::Q1TBNP::Element<TrafoType>>(c); }
  if constexpr (cube && dim == 2) { if(el == "cdssy") return run_space<Shape_, Space::CaiDouSanSheYe::Element<TrafoType>>(c); }
  if constexpr (!cube && dim == 2) { if(el == "p2bubble") return run_space<Shape_, Space::P2Bubble::Element<TrafoType>>(c); }
#else
  if constexpr (dim == 2) { if(el == "hermite3") return run_space<Shape_, Space::Hermite3::Element<TrafoType>>(c); }
  if constexpr (!cube && dim == 2) { if(el == "argyris") return run_space<Shape_, Space::Argyris::Element<TrafoType>>(c); }
  if constexpr (cube && dim == 2) { if(el == "bfs") return run_space<Shape_, Space::BognerFoxSchmit::Element<TrafoType>>(c); }
#endif
  return vh::bad("element family " + el + " not bound for this shape in this binary");
}

vj::Value run_case(const vj::Value& c)
{
  const std::string fam = c["fam"].as_str(); const int dim = (int)c["dim"].as_int();
  if(fam == "simplex" && dim == 2) return run_shape<Shape::Simplex<2>>(c);
  if(fam == "hypercube" && dim == 2) return run_shape<Shape::Hypercube<2>>(c);
#if C15_GROUP != 4
  if(fam == "simplex" && dim == 3) return run_shape<Shape::Simplex<3>>(c);
  if(fam == "hypercube" && dim == 3) return run_shape<Shape::Hypercube<3>>(c);
#endif
  return vh::bad("unsupported shape in this binary");
}

int main(int argc, char** argv) { return vh::main_loop(argc, argv); }
