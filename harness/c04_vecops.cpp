// C04 replayer: executes the post-states generated from spec/VecOps.tla on the real LAFEM vector classes.
// A case carries the shape of the vector (dense / blocked / sparse / tuple / power, nested), the flat contents of
// three slots before the call, the call (operands named by slot number, so aliasing means "the same object") and
// the contents / scalar results predicted by the specification.  All values are small integers or dyadic, so every
// correct floating point evaluation is exact and the comparison is ==; sqrt based norms are compared through their
// square with the bound supplied below.
#include "vharness.hpp"
#include "vlafem.hpp"
#include <kernel/lafem/sparse_vector.hpp>
#include <kernel/lafem/sparse_vector_blocked.hpp>
#include <kernel/lafem/tuple_vector.hpp>
#include <kernel/lafem/power_vector.hpp>
#include <limits>
#include <set>
#include <sstream>
#include <type_traits>

using namespace vl;

struct Ctx
{
  const vj::Value& c;
  std::string op; int xi, yi; long long an, ad, wden, rden; int blk; std::string rkind; int nleaf;
  IVec pre[3], post[3], res, aux, auxpost, av;
  std::string why;
  explicit Ctx(const vj::Value& cc) : c(cc)
  {
    op = c["op"].as_str(); xi = (int)c["x"].as_int(); yi = (int)c["y"].as_int(); an = c["an"].as_int(); ad = c["ad"].as_int();
    wden = c["wden"].as_int(); rden = c["rden"].as_int(); blk = (int)c["blk"].as_int(); rkind = c["rkind"].as_str();
    nleaf = (int)c["nleaf"].as_int();
    for(int s = 0; s < 3; ++s) { pre[s] = c["pre"][s].ints(); post[s] = c["post"][s].ints(); }
    res = c["res"].ints(); aux = c["aux"].ints(); auxpost = c["auxpost"].ints(); av = c["av"].ints();
  }
  bool fail(const std::string& w) { if(why.empty()) why = w; return false; }
};

static std::string vs(const IVec& v) { return vj::dump(vj::from_vec(v)); }
static std::string ds(const std::vector<double>& v) { std::string r = "["; for(std::size_t i = 0; i < v.size(); ++i) { if(i) r += ","; std::ostringstream o; o.precision(17); o << v[i]; r += o.str(); } return r + "]"; }

// ---------------------------------------------------------------------------------------------------------------
// type signature, construction from (shape, flat) and read-back, by structural recursion (first()/rest())
// ---------------------------------------------------------------------------------------------------------------
template<class VT> struct Sig;
template<class DT, class IT> struct Sig<DenseVector<DT, IT>> { static std::string s() { return "D"; } };
template<class DT, class IT, int BS> struct Sig<DenseVectorBlocked<DT, IT, BS>> { static std::string s() { return "B" + std::to_string(BS); } };
template<class F, class... R> struct Sig<TupleVector<F, R...>> { static std::string s() { std::string r = "T(" + Sig<F>::s(); ((r += "," + Sig<R>::s()), ...); return r + ")"; } };
template<class S, int n> struct Sig<PowerVector<S, n>> { static std::string s() { return "P" + std::to_string(n) + "(" + Sig<S>::s() + ")"; } };

static std::string shape_sig(const vj::Value& sh)
{
  const std::string k = sh["k"].as_str();
  if(k == "dense" || k == "dview") return "D";
  if(k == "blocked" || k == "bview") return "B" + std::to_string(sh["bs"].as_int());
  const vj::Value& p = sh["parts"];
  if(k == "tuple") { std::string r = "T("; for(std::size_t i = 0; i < p.size(); ++i) { if(i) r += ","; r += shape_sig(p[i]); } return r + ")"; }
  if(k == "power") return "P" + std::to_string(p.size()) + "(" + shape_sig(p[0]) + ")";
  return "?";
}

template<class DT, class IT> void vfill(DenseVector<DT, IT>& v, const vj::Value& sh, const IVec& flat, std::size_t& pos);
template<class DT, class IT, int BS> void vfill(DenseVectorBlocked<DT, IT, BS>& v, const vj::Value& sh, const IVec& flat, std::size_t& pos);
template<class F, class... R> void vfill(TupleVector<F, R...>& v, const vj::Value& sh, const IVec& flat, std::size_t& pos);
template<class S, int n> void vfill(PowerVector<S, n>& v, const vj::Value& sh, const IVec& flat, std::size_t& pos);
template<class F, class... R> void vfill_parts(TupleVector<F, R...>& v, const vj::Value& parts, std::size_t k, const IVec& flat, std::size_t& pos);
template<class S, int n> void vfill_parts(PowerVector<S, n>& v, const vj::Value& parts, std::size_t k, const IVec& flat, std::size_t& pos);

template<class DT, class IT> void vfill(DenseVector<DT, IT>& v, const vj::Value& sh, const IVec& flat, std::size_t& pos)
{
  Index n = Index(sh["n"].as_int());
  v = DenseVector<DT, IT>(n);
  for(Index i = 0; i < n; ++i) v(i, DT(flat.at(pos++)));
}
template<class DT, class IT, int BS> void vfill(DenseVectorBlocked<DT, IT, BS>& v, const vj::Value& sh, const IVec& flat, std::size_t& pos)
{
  Index n = Index(sh["n"].as_int());
  if(int(sh["bs"].as_int()) != BS) throw std::runtime_error("block size mismatch");
  v = DenseVectorBlocked<DT, IT, BS>(n);
  DT* e = v.template elements<Perspective::pod>();
  for(Index i = 0; i < n * Index(BS); ++i) e[i] = DT(flat.at(pos++));
}
template<class F, class... R> void vfill_parts(TupleVector<F, R...>& v, const vj::Value& parts, std::size_t k, const IVec& flat, std::size_t& pos)
{
  vfill(v.first(), parts[k], flat, pos);
  if constexpr (sizeof...(R) > 0) vfill_parts(v.rest(), parts, k + 1, flat, pos);
}
template<class F, class... R> void vfill(TupleVector<F, R...>& v, const vj::Value& sh, const IVec& flat, std::size_t& pos)
{
  if(sh["parts"].size() != 1 + sizeof...(R)) throw std::runtime_error("tuple arity mismatch");
  vfill_parts(v, sh["parts"], 0, flat, pos);
}
template<class S, int n> void vfill_parts(PowerVector<S, n>& v, const vj::Value& parts, std::size_t k, const IVec& flat, std::size_t& pos)
{
  vfill(v.first(), parts[k], flat, pos);
  if constexpr (n > 1) vfill_parts(v.rest(), parts, k + 1, flat, pos);
}
template<class S, int n> void vfill(PowerVector<S, n>& v, const vj::Value& sh, const IVec& flat, std::size_t& pos)
{
  if(sh["parts"].size() != std::size_t(n)) throw std::runtime_error("power arity mismatch");
  vfill_parts(v, sh["parts"], 0, flat, pos);
}

template<class DT, class IT> void vread(const DenseVector<DT, IT>& v, std::vector<double>& o);
template<class DT, class IT, int BS> void vread(const DenseVectorBlocked<DT, IT, BS>& v, std::vector<double>& o);
template<class F, class... R> void vread(const TupleVector<F, R...>& v, std::vector<double>& o);
template<class S, int n> void vread(const PowerVector<S, n>& v, std::vector<double>& o);

template<class DT, class IT> void vread(const DenseVector<DT, IT>& v, std::vector<double>& o)
{
  const DT* e = v.elements(); for(Index i = 0; i < v.size(); ++i) o.push_back(double(e[i]));
}
template<class DT, class IT, int BS> void vread(const DenseVectorBlocked<DT, IT, BS>& v, std::vector<double>& o)
{
  const DT* e = v.template elements<Perspective::pod>(); for(Index i = 0; i < v.size() * Index(BS); ++i) o.push_back(double(e[i]));
}
template<class F, class... R> void vread(const TupleVector<F, R...>& v, std::vector<double>& o)
{
  vread(v.first(), o);
  if constexpr (sizeof...(R) > 0) vread(v.rest(), o);
}
template<class S, int n> void vread(const PowerVector<S, n>& v, std::vector<double>& o)
{
  vread(v.first(), o);
  if constexpr (n > 1) vread(v.rest(), o);
}

// got * den must equal exp exactly
static bool same_scaled(const std::vector<double>& got, long long den, const IVec& exp)
{
  if(got.size() != exp.size()) return false;
  for(std::size_t i = 0; i < got.size(); ++i) if(!(got[i] * double(den) == double(exp[i]))) return false;
  return true;
}

// scalar results against the specification's integers
template<class DT>
static bool check_results(Ctx& k, const std::vector<double>& res, const std::string& tag)
{
  if(res.size() != k.res.size()) return k.fail(tag + ": " + k.op + " number of results " + std::to_string(res.size()));
  const long double eps = (long double)std::numeric_limits<DT>::epsilon();
  for(std::size_t j = 0; j < res.size(); ++j)
  {
    const long double N = (long double)k.res[j], r = (long double)res[j];
    bool ok;
    if(k.rkind == "exact") ok = (res[j] * double(k.rden) == double(k.res[j]));
    else
    {
      // N = exact sum of squares.  norm2: r = sqrt(N)(1+d) with a few roundings (one sqrt, plus one addition and one
      // sqr/sqrt pair per leaf of a composed vector): |r^2 - N| <= (4 + 2 leaves) eps N.  norm2sqr analogously for r.
      const long double c = 4.0L + 2.0L * (long double)k.nleaf;
      const long double q = (k.rkind == "sqrt") ? r * r : r;
      ok = (r >= 0.0L) && (N == 0.0L ? r == 0.0L : fabsl(q - N) <= c * eps * N);
    }
    if(!ok) return k.fail(tag + ": " + k.op + " result " + ds(res) + " expected (" + k.rkind + ", scaled by " + std::to_string(k.rden) + ") " + vs(k.res));
  }
  return true;
}

// The three slots of a case.  Ordinary kinds: three vectors built from the flat contents.  Ranged views (family
// "view"): three PARENT vectors and the views DenseVector(parent, n, off) / DenseVectorBlocked(parent, n, off) into
// them (slot 2 = a second view of parent 1 when shape.sib >= 0), plus a twin of view 1 (same parent, same window).
template<class VT>
struct Slots
{
  typedef typename VT::DataType DT;
  static constexpr bool can_view = std::is_constructible<VT, const VT&, Index, Index>::value;
  VT own[3], par[3], view[3], twin;
  bool isview = false; long long n = 0, off = 0, pn = 0, sib = -1, bs = 1;

  VT& at(int s) { return isview ? view[s] : own[s]; }
  // operand named by slot id (0 = unused -> receiver); twin: a second object over the memory of slot 1
  const VT& opnd(int id, bool tw) { if(id <= 0) return at(0); if(isview && tw && id == 1) return twin; return at(id - 1); }

  bool build(Ctx& k, const std::string& tag)
  {
    const vj::Value& sh = k.c["shape"];
    const std::string kind = sh["k"].as_str();
    isview = (kind == "dview" || kind == "bview");
    if(!isview)
    {
      for(int s = 0; s < 3; ++s)
      {
        std::size_t pos = 0; vfill(own[s], sh, k.pre[s], pos);
        std::vector<double> g; vread(own[s], g);
        if(pos != k.pre[s].size() || !same_scaled(g, 1, k.pre[s])) return k.fail(tag + ": construction does not reproduce the flat contents");
      }
    }
    else
    {
      if constexpr (can_view)
      {
        n = sh["n"].as_int(); off = sh["off"].as_int(); pn = sh["pn"].as_int(); sib = sh["sib"].as_int(); bs = sh["bs"].as_int();
        vj::Value psh = vj::Value::object(); psh["k"] = (kind == "dview" ? "dense" : "blocked"); psh["bs"] = bs; psh["n"] = pn;
        for(int s = 0; s < 3; ++s) { std::size_t pos = 0; vfill(par[s], psh, k.c["ppre"][s].ints(), pos); }
        for(int s = 0; s < 3; ++s)
        {
          if(s == 1 && sib >= 0) view[s] = VT(par[0], Index(n), Index(sib));
          else view[s] = VT(par[s], Index(n), Index(off));
        }
        twin = VT(par[0], Index(n), Index(off));
        for(int s = 0; s < 3; ++s)
        {
          std::vector<double> g; vread(view[s], g);
          if(!same_scaled(g, 1, k.pre[s])) return k.fail(tag + ": the view does not show the window of its parent: " + ds(g) + " expected " + vs(k.pre[s]));
        }
      }
      else return k.fail(tag + ": no ranged views for this vector type");
    }
    for(int s = 0; s < 3; ++s)
      if(at(s).template size<Perspective::pod>() != Index(k.pre[s].size())) return k.fail(tag + ": size<pod>() = " + std::to_string(at(s).template size<Perspective::pod>()));
    return true;
  }

  // slots (and parents) against the specification's post-state
  bool check(Ctx& k, const std::string& tag)
  {
    for(int s = 0; s < 3; ++s)
    {
      std::vector<double> g; vread(at(s), g);
      if(!same_scaled(g, s == 0 ? k.wden : 1, k.post[s]))
        return k.fail(tag + ": " + k.op + " slot " + std::to_string(s + 1) + (s == 0 ? " (receiver)" : " (operand)") + " is " + ds(g) + " expected " + vs(k.post[s]) + "/" + std::to_string(s == 0 ? k.wden : 1));
    }
    if(isview)
    {
      for(int s = 0; s < 3; ++s)
      {
        if(s == 1 && sib >= 0) continue;
        std::vector<double> g; vread(par[s], g); IVec e = k.c["ppost"][s].ints();
        if(!same_scaled(g, s == 0 ? k.wden : 1, e))
          return k.fail(tag + ": " + k.op + " parent of slot " + std::to_string(s + 1) + " is " + ds(g) + " expected " + vs(e) + "/" + std::to_string(s == 0 ? k.wden : 1));
      }
      std::vector<double> g; vread(twin, g);
      if(!same_scaled(g, k.wden, k.post[0])) return k.fail(tag + ": " + k.op + " a second view of the same window shows " + ds(g) + " expected " + vs(k.post[0]));
    }
    return true;
  }
};

// ---------------------------------------------------------------------------------------------------------------
// operations common to all vector kinds
// ---------------------------------------------------------------------------------------------------------------
template<class VT>
bool run_generic(Ctx& k, const std::string& tag0)
{
  typedef typename VT::DataType DT; typedef typename VT::IndexType IT;
  const std::string tag = tag0 + "/" + Sig<VT>::s() + (k.c["fam"].as_str() == "view" ? "view" : "");
  Slots<VT> S;
  if(!S.build(k, tag)) return false;
  const bool tw = k.c["twin"].as_bool();
  const DT alpha = DT(double(k.an) / double(k.ad));
  VT& r = S.at(0); const VT& x = S.opnd(k.xi, tw); const VT& y = S.opnd(k.yi, tw);
  std::vector<double> res; bool generic = true;
  const std::string& op = k.op;
  if(op == "axpy") r.axpy(x, alpha);
  else if(op == "scale") r.scale(x, alpha);
  else if(op == "component_product") r.component_product(x, y);
  else if(op == "component_invert") r.component_invert(x, alpha);
  else if(op == "dot") res.push_back(double(r.dot(x)));
  else if(op == "triple_dot") res.push_back(double(r.triple_dot(x, y)));
  else if(op == "norm2") res.push_back(double(r.norm2()));
  else if(op == "norm2sqr") res.push_back(double(r.norm2sqr()));
  else if(op == "max_abs_element") res.push_back(double(r.max_abs_element()));
  else if(op == "min_abs_element") res.push_back(double(r.min_abs_element()));
  else if(op == "max_element") res.push_back(double(r.max_element()));
  else if(op == "min_element") res.push_back(double(r.min_element()));
  else if(op == "copy") r.copy(x);
  else if(op == "format") r.format(alpha);
  else if(op == "copy_to_dense" || op == "copy_from_dense")
  {
    if constexpr (!std::is_same<VT, DenseVector<DT, IT>>::value)
    {
      DenseVector<DT, IT> d = make_vec<DT, IT>(k.aux);
      if(op == "copy_to_dense") d.copy(r); else d.copy_inv(r);
      std::vector<double> g; vread(d, g);
      if(!same_scaled(g, 1, k.auxpost)) return k.fail(tag + ": " + op + " dense vector is " + ds(g) + " expected " + vs(k.auxpost));
    }
  }
  else if(op == "p_format" || op == "p_scale" || op == "p_axpy" || op == "p_copy" || op == "clone_deep")
  {
    if constexpr (Slots<VT>::can_view)
    {
      if(!S.isview) return k.fail(tag + ": " + op + " outside the view family");
      VT& p = S.par[0]; const VT& px = S.par[k.xi > 0 ? k.xi - 1 : 0];
      if(op == "p_format") p.format(alpha);
      else if(op == "p_scale") p.scale(px, alpha);
      else if(op == "p_axpy") p.axpy(px, alpha);
      else if(op == "p_copy") p.copy(px);
      else
      {
        // deep clone of the view: an independent vector with the contents of the view
        VT c = r.clone(CloneMode::Deep);
        std::vector<double> g; vread(c, g);
        if(c.size() != r.size() || !same_scaled(g, 1, k.auxpost)) return k.fail(tag + ": clone(Deep) of the view is " + ds(g) + " expected " + vs(k.auxpost));
        c.format(DT(77));
        if(!S.check(k, tag + " [after formatting the clone]")) return false;
        std::vector<double> g2; vread(c, g2);
        for(double t : g2) if(t != 77.0) return k.fail(tag + ": format of the clone gives " + ds(g2));
        VT c2 = r.clone(CloneMode::Deep);
        r.format(DT(-3));
        std::vector<double> g3; vread(c2, g3);
        if(!same_scaled(g3, 1, k.auxpost)) return k.fail(tag + ": the deep clone changed when the view was formatted: " + ds(g3));
        return true;
      }
    }
    else generic = false;
  }
  else generic = false;
  if(!generic) return k.fail(tag + ": unknown operation " + op);
  if(!check_results<DT>(k, res, tag)) return false;
  return S.check(k, tag);
}

// ---------------------------------------------------------------------------------------------------------------
// DenseVectorBlocked only: per-component variants, component_copy
// ---------------------------------------------------------------------------------------------------------------
template<class DT, class IT, int BS>
bool run_blocked_ops(Ctx& k, const std::string& tag0)
{
  typedef DenseVectorBlocked<DT, IT, BS> VT; typedef typename VT::ValueType BV;
  const std::string tag = tag0 + "/B" + std::to_string(BS) + (k.c["fam"].as_str() == "view" ? "view" : "");
  Slots<VT> S;
  if(!S.build(k, tag)) return false;
  const bool tw = k.c["twin"].as_bool();
  BV alpha; for(int j = 0; j < BS; ++j) alpha[j] = DT(double(k.av.at(j)) / double(k.ad));
  VT& r = S.at(0); const VT& x = S.opnd(k.xi, tw); const VT& y = S.opnd(k.yi, tw);
  std::vector<double> res; const std::string& op = k.op;
  auto put = [&res](const BV& t) { for(int j = 0; j < BS; ++j) res.push_back(double(t[j])); };
  if(op == "axpy_blocked") r.axpy_blocked(x, alpha);
  else if(op == "scale_blocked") r.scale_blocked(x, alpha);
  else if(op == "dot_blocked") put(r.dot_blocked(x));
  else if(op == "triple_dot_blocked") put(r.triple_dot_blocked(x, y));
  else if(op == "norm2_blocked") put(r.norm2_blocked());
  else if(op == "norm2sqr_blocked") put(r.norm2sqr_blocked());
  else if(op == "max_abs_element_blocked") put(r.max_abs_element_blocked());
  else if(op == "min_abs_element_blocked") put(r.min_abs_element_blocked());
  else if(op == "max_element_blocked") put(r.max_element_blocked());
  else if(op == "min_element_blocked") put(r.min_element_blocked());
  else if(op == "component_copy" || op == "component_copy_to")
  {
    DenseVector<DT, IT> d = make_vec<DT, IT>(k.aux);
    if(op == "component_copy") r.component_copy(d, k.blk); else r.component_copy_to(d, k.blk);
    std::vector<double> g; vread(d, g);
    if(!same_scaled(g, 1, k.auxpost)) return k.fail(tag + ": " + op + " dense operand is " + ds(g) + " expected " + vs(k.auxpost));
  }
  else return k.fail(tag + ": unknown operation " + op);
  if(!check_results<DT>(k, res, tag)) return false;
  return S.check(k, tag);
}

// ---------------------------------------------------------------------------------------------------------------
// sparse vectors
// ---------------------------------------------------------------------------------------------------------------
template<class DT, class IT, int BS> struct SparseOf { typedef SparseVectorBlocked<DT, IT, BS> Type; };
template<class DT, class IT> struct SparseOf<DT, IT, 0> { typedef SparseVector<DT, IT> Type; };

template<class DT, class IT> void sp_set(SparseVector<DT, IT>& s, Index i, const long long* val) { s(i, DT(val[0])); }
template<class DT, class IT, int BS> void sp_set(SparseVectorBlocked<DT, IT, BS>& s, Index i, const long long* val)
{ Tiny::Vector<DT, BS> t; for(int j = 0; j < BS; ++j) t[j] = DT(val[j]); s(i, t); }
template<class DT, class IT> void sp_get(const SparseVector<DT, IT>& s, Index i, std::vector<double>& o) { o.push_back(double(s(i))); }
template<class DT, class IT, int BS> void sp_get(const SparseVectorBlocked<DT, IT, BS>& s, Index i, std::vector<double>& o)
{ auto t = s(i); for(int j = 0; j < BS; ++j) o.push_back(double(t[j])); }
template<class DT, class IT> SparseVector<DT, IT> sp_raw(Index n, const IVec& idx, const IVec& vals, bool sorted)
{ auto e = make_vec<DT, IT>(vals); auto ix = make_ivec<IT>(idx); return SparseVector<DT, IT>(n, e, ix, sorted); }

// BS = 0: SparseVector, otherwise SparseVectorBlocked<BS>; mode 0 = the write history of the case replayed through
// operator()(index, value) (superseded writes included), 1 = raw array constructor (histories without overwrite).
// The containers sort and drop superseded writes lazily, on the first access after a write.  Therefore the call
// under test is issued twice on two identically built vectors: (A) as the FIRST access after the writes - nothing,
// not even used_elements() or an element read, touches the vector before it - and (B) after a complete read-back.
template<class DT, class IT, int BS>
bool run_sparse(Ctx& k, int mode, const std::string& tag0)
{
  typedef typename SparseOf<DT, IT, BS>::Type VT;
  const int bs = BS == 0 ? 1 : BS;
  const std::string tag = tag0 + (BS == 0 ? "/S" : "/SB" + std::to_string(BS)) + (mode ? "/raw" : "/writes");
  const vj::Value& sh = k.c["shape"]; const vj::Value& writes = k.c["writes"];
  const Index n = Index(sh["n"].as_int()); IVec ins = sh["ins"].ints();
  const IVec& flat = k.pre[0];
  if(writes.size() != ins.size()) return k.fail(tag + ": malformed case (writes)");
  std::set<long long> distinct(ins.begin(), ins.end());
  const bool dup = distinct.size() != ins.size();
  bool asc = true; for(std::size_t q = 1; q < ins.size(); ++q) if(!(ins[q - 1] < ins[q])) asc = false;
  if(mode == 1 && (dup || ins.empty() || n == 0)) return true; // the raw array constructor takes n > 0 and a duplicate-free non-empty list
  auto build = [&]() -> VT
  {
    if(mode == 1)
    {
      IVec vals; for(std::size_t q = 0; q < ins.size(); ++q) { IVec w = writes[q]["val"].ints(); vals.insert(vals.end(), w.begin(), w.end()); }
      if constexpr (BS == 0) return sp_raw<DT, IT>(n, ins, vals, asc);
      else { auto e = make_bvec<DT, IT, (BS == 0 ? 1 : BS)>(vals); auto ix = make_ivec<IT>(ins); return VT(n, e, ix, asc); }
    }
    VT s(n);
    for(std::size_t q = 0; q < writes.size(); ++q)
    {
      IVec val = writes[q]["val"].ints();
      if(val.size() != std::size_t(bs) || writes[q]["i"].as_int() != ins[q]) throw std::runtime_error("malformed write");
      sp_set(s, Index(ins[q]), val.data());
    }
    return s;
  };
  const DT alpha = DT(double(k.an) / double(k.ad));
  const std::string& op = k.op;
  bool known = true;
  auto call = [&](VT& s, std::vector<double>& res)
  {
    if(op == "build") {}
    else if(op == "format") s.format(alpha);
    else if(op == "max_abs_element") res.push_back(double(s.max_abs_element()));
    else if(op == "min_abs_element") res.push_back(double(s.min_abs_element()));
    else if(op == "max_element") res.push_back(double(s.max_element()));
    else if(op == "min_element") res.push_back(double(s.min_element()));
    else known = false;
  };
  auto readback = [&](const VT& s) { std::vector<double> g; for(Index i = 0; i < n; ++i) sp_get(s, i, g); return g; };
  auto check_post = [&](const VT& s, const std::string& t) -> bool
  {
    auto g = readback(s);
    if(!same_scaled(g, k.wden, k.post[0])) return k.fail(t + ": " + op + " vector is " + ds(g) + " expected " + vs(k.post[0]) + "/" + std::to_string(k.wden));
    if(s.used_elements() != Index(distinct.size())) return k.fail(t + ": used_elements() after " + op + " = " + std::to_string(s.used_elements()) + " expected " + std::to_string(distinct.size()));
    if(s.size() != n) return k.fail(t + ": size() = " + std::to_string(s.size()));
    return true;
  };
  // (A) the call under test is the first access after the writes
  {
    const std::string t = tag + " [first access after the writes]";
    VT s = build();
    std::vector<double> res; call(s, res);
    if(!known) return k.fail(tag + ": unknown operation " + op);
    if(!check_results<DT>(k, res, t)) return false;
    if(!check_post(s, t)) return false;
    // the same query again, now on the accessed vector
    std::vector<double> res2; if(op != "format") call(s, res2);
    if(op != "format" && !check_results<DT>(k, res2, t + " [repeated]")) return false;
  }
  // (B) after a complete read-back of the vector
  {
    const std::string t = tag + " [after read-back]";
    VT s = build();
    if(s.size() != n) return k.fail(t + ": size() = " + std::to_string(s.size()));
    { auto g = readback(s); if(!same_scaled(g, 1, flat)) return k.fail(t + ": elements read back " + ds(g) + " expected " + vs(flat)); }
    if(s.used_elements() != Index(distinct.size())) return k.fail(t + ": used_elements() = " + std::to_string(s.used_elements()) + " expected " + std::to_string(distinct.size()));
    std::vector<double> res; call(s, res);
    if(!check_results<DT>(k, res, t)) return false;
    if(!check_post(s, t)) return false;
  }
  return true;
}

// ---------------------------------------------------------------------------------------------------------------
template<class DT, class IT, bool composed_too>
bool run_typed(Ctx& k, const std::string& tag)
{
  const std::string fam = k.c["fam"].as_str();
  typedef DenseVector<DT, IT> Dv;
  typedef DenseVectorBlocked<DT, IT, 1> B1; typedef DenseVectorBlocked<DT, IT, 2> B2;
  typedef DenseVectorBlocked<DT, IT, 3> B3; typedef DenseVectorBlocked<DT, IT, 4> B4;
  if constexpr (!composed_too) { if(fam == "sparse" || fam == "sblocked") return true; }
  else {
  if(fam == "sparse") return run_sparse<DT, IT, 0>(k, 0, tag) && run_sparse<DT, IT, 0>(k, 1, tag);
  if(fam == "sblocked")
  {
    switch(k.c["shape"]["bs"].as_int())
    {
      case 1: return run_sparse<DT, IT, 1>(k, 0, tag) && run_sparse<DT, IT, 1>(k, 1, tag);
      case 2: return run_sparse<DT, IT, 2>(k, 0, tag) && run_sparse<DT, IT, 2>(k, 1, tag);
      case 3: return run_sparse<DT, IT, 3>(k, 0, tag) && run_sparse<DT, IT, 3>(k, 1, tag);
    }
    return k.fail("unsupported sparse block size");
  }
  }
  const std::string sig = shape_sig(k.c["shape"]);
  const bool blocked_op = k.op.find("_blocked") != std::string::npos || k.op == "component_copy" || k.op == "component_copy_to";
  if(blocked_op)
  {
    if(sig == "B1") return run_blocked_ops<DT, IT, 1>(k, tag);
    if(sig == "B2") return run_blocked_ops<DT, IT, 2>(k, tag);
    if(sig == "B3") return run_blocked_ops<DT, IT, 3>(k, tag);
    if(sig == "B4") return run_blocked_ops<DT, IT, 4>(k, tag);
    return k.fail("blocked operation on " + sig);
  }
#define TRY(T) if(sig == Sig<T>::s()) return run_generic<T>(k, tag);
  TRY(Dv) TRY(B1) TRY(B2) TRY(B3) TRY(B4)
  if(fam == "dense" || fam == "blocked" || fam == "view") return k.fail("unsupported vector type " + sig);
  if constexpr (!composed_too) return true;
  else {
  typedef TupleVector<Dv> T1; typedef TupleVector<Dv, Dv> T2; typedef TupleVector<Dv, B2> T3; typedef TupleVector<B3, Dv, Dv> T4;
  typedef PowerVector<Dv, 2> P2; typedef TupleVector<P2, B2> T5;
  typedef PowerVector<Dv, 1> P1; typedef PowerVector<Dv, 3> P3; typedef PowerVector<B2, 2> PB; typedef PowerVector<T3, 2> PT;
  TRY(T1) TRY(T2) TRY(T3) TRY(T4) TRY(T5) TRY(P1) TRY(P2) TRY(P3) TRY(PB) TRY(PT)
  return k.fail("unsupported vector type " + sig);
  }
#undef TRY
}

vj::Value run_case(const vj::Value& c)
{
  Ctx k(c);
  // composed and all other kinds: double/uint64 and float/uint32; plain and blocked additionally the mixed pairs
  bool ok = run_typed<double, std::uint64_t, true>(k, "f64/u64")
         && run_typed<float, std::uint32_t, true>(k, "f32/u32")
         && run_typed<double, std::uint32_t, false>(k, "f64/u32")
         && run_typed<float, std::uint64_t, false>(k, "f32/u64");
  if(ok) return vh::ok();
  return vh::bad(k.why);
}

int main(int argc, char** argv) { return vh::main_loop(argc, argv); }
