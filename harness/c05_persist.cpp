// C05 replayer: executes the behaviours generated from spec/Persist.tla (write / read of one container in
// one file mode) and spec/PersistCkpt.tla (checkpoints) on the real LAFEM containers and
// Control::CheckpointControl.
//
// For every behaviour the harness
//   (0) builds the container from the specification's raw arrays and checks that the real container state
//       (element arrays, index arrays, scalar_index) IS the state the specification assumes ("precond":
//       a mismatch here is a defect of the binding, reported separately, never as a property violation);
//   (1) lets the real writer produce the byte stream (std::stringstream / std::vector<char> / BinaryStream);
//   (2) parses the stream ITSELF (independent of any FEAT reader) and compares it with the file predicted by
//       the specification: total length, every header word, every array at its predicted byte offset
//       (binary) resp. the header line and the token sequence (text);
//   (3) lets the real reader read the stream into a fresh container and compares the container state with
//       the one predicted by the specification (binary: all arrays and scalars identical; text: identical
//       dimensions, pattern and values).
// Values are dyadic (numerators over den = 4), so text output with 6 digits is exact.
#include "vharness.hpp"
#include "vlafem.hpp"
#include <kernel/lafem/sparse_vector.hpp>
#include <kernel/lafem/sparse_vector_blocked.hpp>
#include <kernel/util/binary_stream.hpp>
#include <control/checkpoint_control.hpp>
#include <sstream>
#include <cstring>
#include <functional>
#include <unistd.h>
#include <fcntl.h>
#include <sys/wait.h>
#include <sys/resource.h>
#include <execinfo.h>

using namespace vl;

struct Ctx
{
  const vj::Value& c; std::string why; bool precond = false;
  explicit Ctx(const vj::Value& cc) : c(cc) {}
  bool fail(const std::string& w) { if(why.empty()) why = w; return false; }
  bool pre(const std::string& w) { if(why.empty()) { why = w; precond = true; } return false; }
};

static const long long DEN = 4;
// The specification's distinguished value NegZero (PersistFmt.tla): IEEE -0, EQUAL to 0 in value but another bit
// pattern.  Binary modes are bit-identical (a stored -0 stays -0, a stored +0 stays +0); text modes are compared by value.
static const long long NEGZERO = 999999937;
template<class DT> DT val_of(long long num) { return num == NEGZERO ? DT(-0.0) : DT(double(num) / double(DEN)); }

// ---- builders (values = numerator / den) ------------------------------------------------------------
template<class DT, class IT> DenseVector<DT, IT> dvec(const IVec& num)
{
  DenseVector<DT, IT> r(Index(num.size()));
  for(std::size_t k = 0; k < num.size(); ++k) r(Index(k), val_of<DT>(num[k]));
  return r;
}
template<class DT, class IT, int BS> DenseVectorBlocked<DT, IT, BS> dbvec(const IVec& num)
{
  DenseVectorBlocked<DT, IT, BS> r(Index(num.size() / BS));
  DT* e = r.template elements<Perspective::pod>();
  for(std::size_t k = 0; k < num.size(); ++k) e[k] = val_of<DT>(num[k]);
  return r;
}

// entry-free container with allocated array slots of length 0 (PersistFmt!Arrays, alloc = TRUE)
static bool is_alloc(const vj::Value& c) { return c.has("alloc") && c["alloc"].as_bool(); }

template<class CT> struct Ops;   // per container type: build(case container), view(container) for text modes

template<class DT, class IT> struct Ops<DenseVector<DT, IT>>
{
  typedef DenseVector<DT, IT> CT;
  static CT build(const vj::Value& c) { return dvec<DT, IT>(c["rep"]["va"].ints()); }
};
template<class DT, class IT, int BS> struct Ops<DenseVectorBlocked<DT, IT, BS>>
{
  typedef DenseVectorBlocked<DT, IT, BS> CT;
  static CT build(const vj::Value& c) { return dbvec<DT, IT, BS>(c["rep"]["va"].ints()); }
};
template<class DT, class IT> struct Ops<SparseVector<DT, IT>>
{
  typedef SparseVector<DT, IT> CT;
  static CT build(const vj::Value& c)
  {
    IVec idx = c["rep"]["idx"].ints(), va = c["rep"]["va"].ints(); Index m = Index(c["m"].as_int());
    // alloc: the array constructor with arrays of length 0 (array slots exist, what the MatrixMarket reader produces)
    if(idx.empty() && !is_alloc(c)) return CT(m);
    auto vv = dvec<DT, IT>(va); auto vi = make_ivec<IT>(idx);
    return CT(m, vv, vi);
  }
};
template<class DT, class IT, int BS> struct Ops<SparseVectorBlocked<DT, IT, BS>>
{
  typedef SparseVectorBlocked<DT, IT, BS> CT;
  static CT build(const vj::Value& c)
  {
    IVec idx = c["rep"]["idx"].ints(), va = c["rep"]["va"].ints(); Index m = Index(c["m"].as_int());
    if(idx.empty() && !is_alloc(c)) return CT(m);
    auto vv = dbvec<DT, IT, BS>(va); auto vi = make_ivec<IT>(idx);
    return CT(m, vv, vi);
  }
};
template<class DT, class IT> struct Ops<DenseMatrix<DT, IT>>
{
  typedef DenseMatrix<DT, IT> CT;
  static CT build(const vj::Value& c)
  {
    IVec va = c["rep"]["va"].ints(); Index m = Index(c["m"].as_int()), n = Index(c["n"].as_int());
    CT a(m, n);
    for(Index i = 0; i < m; ++i) for(Index j = 0; j < n; ++j) a(i, j, val_of<DT>(va[i * n + j]));
    return a;
  }
};
template<class DT, class IT> struct Ops<SparseMatrixCSR<DT, IT>>
{
  typedef SparseMatrixCSR<DT, IT> CT;
  static CT build(const vj::Value& c)
  {
    const vj::Value& r = c["rep"]; Index m = Index(c["m"].as_int()), n = Index(c["n"].as_int());
    IVec ci = r["ci"].ints();
    if(ci.empty() && is_alloc(c))
    {
      // val and col_ind of length 0, row_ptr of length rows + 1
      CT a(m, n, Index(0));
      for(Index i = 0; i <= m; ++i) a.row_ptr()[i] = IT(0);
      return a;
    }
    if(ci.empty()) return CT(m, n);
    auto vci = make_ivec<IT>(ci); auto vrp = make_ivec<IT>(r["rp"].ints()); auto vva = dvec<DT, IT>(r["va"].ints());
    return CT(m, n, vci, vva, vrp);
  }
};
template<class DT, class IT, int BH, int BW> struct Ops<SparseMatrixBCSR<DT, IT, BH, BW>>
{
  typedef SparseMatrixBCSR<DT, IT, BH, BW> CT;
  static CT build(const vj::Value& c)
  {
    const vj::Value& r = c["rep"]; Index m = Index(c["m"].as_int()), n = Index(c["n"].as_int());
    IVec ci = r["ci"].ints();
    if(ci.empty() && is_alloc(c))
    {
      CT a(m, n, Index(0));
      for(Index i = 0; i <= m; ++i) a.row_ptr()[i] = IT(0);
      return a;
    }
    if(ci.empty()) return CT(m, n);
    auto vci = make_ivec<IT>(ci); auto vrp = make_ivec<IT>(r["rp"].ints()); auto vva = dvec<DT, IT>(flatten_blocks(r["va"]));
    return CT(m, n, vci, vva, vrp);
  }
};
template<class DT, class IT> struct Ops<SparseMatrixCSCR<DT, IT>>
{
  typedef SparseMatrixCSCR<DT, IT> CT;
  static CT build(const vj::Value& c)
  {
    const vj::Value& r = c["rep"]; Index m = Index(c["m"].as_int()), n = Index(c["n"].as_int());
    IVec ci = r["ci"].ints();
    if(ci.empty() && is_alloc(c))
    {
      // val, col_ind, row_numbers of length 0, row_ptr of length used_rows + 1 = 1
      CT a(m, n, Index(0), Index(0));
      a.row_ptr()[0] = IT(0);
      return a;
    }
    if(ci.empty()) return CT(m, n);
    auto vci = make_ivec<IT>(ci); auto vrp = make_ivec<IT>(r["rp"].ints()); auto vrn = make_ivec<IT>(r["rn"].ints()); auto vva = dvec<DT, IT>(r["va"].ints());
    return CT(m, n, vci, vva, vrp, vrn);
  }
};
template<class DT, class IT> struct Ops<SparseMatrixBanded<DT, IT>>
{
  typedef SparseMatrixBanded<DT, IT> CT;
  static CT build(const vj::Value& c)
  {
    const vj::Value& r = c["rep"]; Index m = Index(c["m"].as_int()), n = Index(c["n"].as_int());
    auto vo = make_ivec<IT>(r["offs"].ints()); auto vva = dvec<DT, IT>(r["va"].ints());
    return CT(m, n, vva, vo);
  }
};

// ---- container state as the specification's Arrays record -------------------------------------------------
// bit-level view: -0 is reported as the specification's NegZero (used for the raw arrays)
static long long to_num(double x, bool& exact)
{
  if(x == 0.0 && std::signbit(x)) return NEGZERO;
  double t = x * double(DEN); long long q = (long long)std::llround(t);
  if(double(q) != t || !(std::fabs(t) < 1e15)) { exact = false; return 987654321; }
  return q;
}
template<class CT> vj::Value state_of(const CT& c, bool& exact)
{
  vj::Value r = vj::Value::object(); vj::Value el = vj::Value::array(), ix = vj::Value::array(), si = vj::Value::array();
  const auto& es = c.get_elements(); const auto& ess = c.get_elements_size();
  for(std::size_t k = 0; k < es.size(); ++k) { vj::Value a = vj::Value::array(); for(Index t = 0; t < ess[k]; ++t) a.push(vj::Value(to_num(double(es[k][t]), exact))); el.push(a); }
  const auto& is = c.get_indices(); const auto& iss = c.get_indices_size();
  for(std::size_t k = 0; k < is.size(); ++k) { vj::Value a = vj::Value::array(); for(Index t = 0; t < iss[k]; ++t) a.push(vj::Value((long long)is[k][t])); ix.push(a); }
  for(Index x : c.get_scalar_index()) si.push(vj::Value((long long)x));
  r["el"] = el; r["ix"] = ix; r["si"] = si;
  return r;
}
// value-level view (text round trips): +0 and -0 are the same value
static long long to_val(double x, bool& exact) { return x == 0.0 ? 0ll : to_num(x, exact); }
static std::string js(const vj::Value& v) { std::string s = vj::dump(v); if(s.size() > 400) s = s.substr(0, 400) + "..."; return s; }

// ---- comparison of a real byte stream with the specification's binary file -------------------------------
static bool check_bin(Ctx& k, const vj::Value& f, const char* data, std::size_t size, const std::string& tag)
{
  const std::size_t len = std::size_t(f["len"].as_int());
  if(size != len) return k.fail(tag + ": byte length of the stream is " + std::to_string(size) + ", the format prescribes " + std::to_string(len));
  const vj::Value& words = f["words"];
  if(words.size() * 8 > size) return k.fail(tag + ": stream shorter than its header");
  for(std::size_t w = 0; w < words.size(); ++w)
  {
    std::uint64_t x; std::memcpy(&x, data + 8 * w, 8);
    long long lo = (long long)(x & 0xFFFFFFFFull), hi = (long long)(x >> 32);
    if(lo != words[w][0].as_int() || hi != words[w][1].as_int())
      return k.fail(tag + ": header word " + std::to_string(w) + " is " + std::to_string(x) + " expected " + std::to_string(words[w][0].as_int()) + "+2^32*" + std::to_string(words[w][1].as_int()));
  }
  const int sdt = int(f["sdt"].as_int()), sit = int(f["sit"].as_int());
  for(std::size_t a = 0; a < f["el"].size(); ++a)
  {
    IVec e = f["el"][a].ints(); std::size_t off = std::size_t(f["offEl"][a].as_int());
    if(off + e.size() * std::size_t(sdt) > size) return k.fail(tag + ": element array " + std::to_string(a) + " does not fit the stream");
    for(std::size_t t = 0; t < e.size(); ++t)
    {
      double x;
      if(sdt == 8) { double d; std::memcpy(&d, data + off + 8 * t, 8); x = d; } else { float d; std::memcpy(&d, data + off + 4 * t, 4); x = double(d); }
      // bit-identical: also the sign of a stored zero
      const bool good = (e[t] == NEGZERO) ? (x == 0.0 && std::signbit(x)) : (x * double(DEN) == double(e[t]) && !(x == 0.0 && std::signbit(x)));
      if(!good) return k.fail(tag + ": element array " + std::to_string(a) + "[" + std::to_string(t) + "] at byte " + std::to_string(off + std::size_t(sdt) * t) + " is " + std::to_string(x) + " expected " + (e[t] == NEGZERO ? std::string("-0") : std::to_string(double(e[t]) / double(DEN))));
    }
  }
  for(std::size_t a = 0; a < f["ix"].size(); ++a)
  {
    IVec e = f["ix"][a].ints(); std::size_t off = std::size_t(f["offIx"][a].as_int());
    if(off + e.size() * std::size_t(sit) > size) return k.fail(tag + ": index array " + std::to_string(a) + " does not fit the stream");
    for(std::size_t t = 0; t < e.size(); ++t)
    {
      long long x;
      if(sit == 8) { std::uint64_t d; std::memcpy(&d, data + off + 8 * t, 8); x = (long long)d; } else { std::uint32_t d; std::memcpy(&d, data + off + 4 * t, 4); x = (long long)d; }
      if(x != e[t]) return k.fail(tag + ": index array " + std::to_string(a) + "[" + std::to_string(t) + "] at byte " + std::to_string(off + std::size_t(sit) * t) + " is " + std::to_string(x) + " expected " + std::to_string(e[t]));
    }
  }
  return true;
}

// ---- comparison of a real text stream with the specification's line sequence -----------------------------
static bool check_text(Ctx& k, const vj::Value& f, const std::string& text, const std::string& tag)
{
  std::vector<std::string> lines; { std::istringstream is(text); std::string l; while(std::getline(is, l)) lines.push_back(l); }
  if(!text.empty() && text.back() != '\n') return k.fail(tag + ": text output does not end with a newline");
  std::size_t p = 0; const std::string hdr = f["hdr"].as_str();
  if(!hdr.empty())
  {
    if(lines.empty() || lines[0] != hdr) return k.fail(tag + ": header line is '" + (lines.empty() ? std::string() : lines[0]) + "' expected '" + hdr + "'");
    p = 1;
  }
  const vj::Value& ls = f["lines"];
  if(lines.size() - p != ls.size()) return k.fail(tag + ": " + std::to_string(lines.size() - p) + " lines after the header, expected " + std::to_string(ls.size()));
  for(std::size_t q = 0; q < ls.size(); ++q)
  {
    std::istringstream is(lines[p + q]); std::vector<std::string> tok; std::string t; while(is >> t) tok.push_back(t);
    IVec ei = ls[q]["i"].ints(), ex = ls[q]["x"].ints();
    if(tok.size() != ei.size() + ex.size()) return k.fail(tag + ": line " + std::to_string(p + q) + " '" + lines[p + q] + "' has " + std::to_string(tok.size()) + " tokens, expected " + std::to_string(ei.size() + ex.size()));
    for(std::size_t j = 0; j < ei.size(); ++j)
    {
      char* end = nullptr; long long v = std::strtoll(tok[j].c_str(), &end, 10);
      if(*end != 0 || v != ei[j]) return k.fail(tag + ": line " + std::to_string(p + q) + " '" + lines[p + q] + "': integer token " + std::to_string(j) + " expected " + std::to_string(ei[j]));
    }
    for(std::size_t j = 0; j < ex.size(); ++j)
    {
      char* end = nullptr; double v = std::strtod(tok[ei.size() + j].c_str(), &end);
      // (a token for a stored -0 must be a zero; its sign is not part of a text round trip)
      if(*end != 0 || tok[ei.size() + j].empty() || v * double(DEN) != double(ex[j] == NEGZERO ? 0 : ex[j])) return k.fail(tag + ": line " + std::to_string(p + q) + " '" + lines[p + q] + "': value token expected " + std::to_string(double(ex[j]) / double(DEN)));
    }
  }
  return true;
}

static FileMode file_mode(const std::string& m)
{
  if(m == "exp") return FileMode::fm_exp; if(m == "mtx" || m == "mtxsym") return FileMode::fm_mtx; if(m == "dv") return FileMode::fm_dv;
  if(m == "dvb") return FileMode::fm_dvb; if(m == "sv") return FileMode::fm_sv; if(m == "svb") return FileMode::fm_svb;
  if(m == "dm") return FileMode::fm_dm; if(m == "csr") return FileMode::fm_csr; if(m == "bcsr") return FileMode::fm_bcsr;
  if(m == "cscr") return FileMode::fm_cscr; if(m == "bm") return FileMode::fm_bm; if(m == "binary") return FileMode::fm_binary;
  throw std::runtime_error("unknown mode " + m);
}

// ---- abstract views after a text round trip (the specification's AbsView record) --------------------------
template<class DT, class IT> vj::Value view_of(const DenseVector<DT, IT>& v, bool& ex)
{ vj::Value r = vj::Value::object(); r["m"] = vj::Value((long long)v.size()); vj::Value a = vj::Value::array(); for(Index i = 0; i < v.size(); ++i) a.push(vj::Value(to_val(double(v(i)), ex))); r["va"] = a; return r; }
template<class DT, class IT, int BS> vj::Value view_of(const DenseVectorBlocked<DT, IT, BS>& v, bool& ex)
{
  vj::Value r = vj::Value::object(); r["m"] = vj::Value((long long)v.size()); vj::Value a = vj::Value::array();
  const DT* e = v.template elements<Perspective::pod>(); Index n = v.template size<Perspective::pod>();
  // the pod size must be consistent with the element array actually held
  Index have = v.get_elements_size().empty() ? Index(0) : v.get_elements_size()[0];
  for(Index i = 0; i < have; ++i) a.push(vj::Value(to_val(double(e[i]), ex)));
  if(have != n) ex = false;
  r["va"] = a; return r;
}
template<class DT, class IT> vj::Value view_of(const SparseVector<DT, IT>& v, bool& ex)
{
  vj::Value r = vj::Value::object(); r["m"] = vj::Value((long long)v.size()); vj::Value a = vj::Value::array(), x = vj::Value::array();
  // the stored index set is part of the state: used_elements() and the raw arrays, never operator()
  const Index have = v.get_elements_size().empty() ? Index(0) : v.get_elements_size()[0], havei = v.get_indices_size().empty() ? Index(0) : v.get_indices_size()[0];
  if(have < v.used_elements() || havei < v.used_elements()) { ex = false; r["note"] = vj::Value(std::string("used_elements exceeds the arrays held")); }
  for(Index i = 0; i < v.used_elements() && i < have && i < havei; ++i) { x.push(vj::Value((long long)v.indices()[i])); a.push(vj::Value(to_val(double(v.elements()[i]), ex))); }
  r["used"] = vj::Value((long long)v.used_elements());
  r["idx"] = x; r["va"] = a; return r;
}
template<class DT, class IT> vj::Value view_of(const DenseMatrix<DT, IT>& v, bool& ex)
{
  vj::Value r = vj::Value::object(); r["m"] = vj::Value((long long)v.rows()); r["n"] = vj::Value((long long)v.columns()); vj::Value a = vj::Value::array();
  for(Index i = 0; i < v.rows(); ++i) for(Index j = 0; j < v.columns(); ++j) a.push(vj::Value(to_val(double(v(i, j)), ex)));
  r["va"] = a; return r;
}
template<class DT, class IT> vj::Value view_of(const SparseMatrixCSR<DT, IT>& v, bool& ex)
{
  vj::Value r = vj::Value::object(); r["m"] = vj::Value((long long)v.rows()); r["n"] = vj::Value((long long)v.columns());
  vj::Value rep = vj::Value::object(), rp = vj::Value::array(), ci = vj::Value::array(), va = vj::Value::array();
  if(v.row_ptr() != nullptr) for(Index i = 0; i <= v.rows(); ++i) rp.push(vj::Value((long long)v.row_ptr()[i]));
  else for(Index i = 0; i <= v.rows(); ++i) rp.push(vj::Value(0ll));      // a container without arrays represents the zero matrix
  for(Index i = 0; i < v.used_elements(); ++i) { ci.push(vj::Value((long long)v.col_ind()[i])); va.push(vj::Value(to_val(double(v.val()[i]), ex))); }
  r["used"] = vj::Value((long long)v.used_elements());
  rep["rp"] = rp; rep["ci"] = ci; rep["va"] = va; r["rep"] = rep; return r;
}

struct Stream { std::string bytes; };

// write_out(mode, stream); mode "mtxsym" = the symmetric MatrixMarket variant write_out(fm_mtx, stream, true) of SparseMatrixCSR
template<class CT> struct TextWriter
{
  static void write(const CT& a, const std::string& mode, std::ostream& os)
  {
    if(mode == "mtxsym") throw std::runtime_error("symmetric MatrixMarket output exists for SparseMatrixCSR only");
    a.write_out(file_mode(mode), os);
  }
};
template<class DT, class IT> struct TextWriter<SparseMatrixCSR<DT, IT>>
{
  static void write(const SparseMatrixCSR<DT, IT>& a, const std::string& mode, std::ostream& os)
  {
    if(mode == "mtxsym") a.write_out(FileMode::fm_mtx, os, true); else a.write_out(file_mode(mode), os);
  }
};

// one write / read behaviour for container type CT; RT = type reading a text file back (CSR for BCSR matrix market)
template<class CT, class RT, class DT2, class IT2>
bool run_io(Ctx& k, const std::string& tag)
{
  const vj::Value& c = k.c; const std::string mode = c["mode"].as_str(); const vj::Value& f = c["file"];
  CT a = Ops<CT>::build(c);
  bool ex = true; vj::Value pre = state_of(a, ex);
  if(!ex || pre != c["arrays"]) return k.pre(tag + ": container state " + js(pre) + " is not the state the specification assumes " + js(c["arrays"]));
  std::string bytes;
  if(mode == "ser") { std::vector<char> v = a.template serialize<DT2, IT2>(); bytes.assign(v.data(), v.size()); }
  else { std::stringstream ss; TextWriter<CT>::write(a, mode, ss); bytes = ss.str(); }
  // the writer must not modify the container
  { bool e2 = true; if(state_of(a, e2) != pre) return k.fail(tag + ": writing modified the container"); }
  if(f["fmt"].as_str() == "bin")
  {
    if(!check_bin(k, f, bytes.data(), bytes.size(), tag + "/write")) return false;
    CT b;
    if(mode == "ser") { std::vector<char> v(bytes.begin(), bytes.end()); b.template deserialize<DT2, IT2>(v); }
    else { std::stringstream ss(bytes); b.read_from(file_mode(mode), ss); }
    bool e3 = true; vj::Value post = state_of(b, e3);
    if(!e3 || post != c["back"]) return k.fail(tag + "/read: container read back " + js(post) + " expected " + js(c["back"]));
    return true;
  }
  if(!check_text(k, f, bytes, tag + "/write")) return false;
  RT b; { std::stringstream ss(bytes); b.read_from(file_mode(mode), ss); }
  bool e4 = true; vj::Value got = view_of(b, e4);
  if(!e4 || got != c["back"]) return k.fail(tag + "/read: container read back " + js(got) + " expected " + js(c["back"]));
  return true;
}
// kinds without any text mode never reach the text branch; give them a dummy reader type
template<class CT, class RT>
bool run_io_types(Ctx& k, const std::string& tag)
{
  int sdt = int(k.c["sdt"].as_int()), sit = int(k.c["sit"].as_int());
  if(sdt == 8 && sit == 8) return run_io<CT, RT, double, std::uint64_t>(k, tag + (k.c["mode"].as_str() == "ser" ? "/ser<f64,u64>" : "/" + k.c["mode"].as_str()));
  if(k.c["mode"].as_str() != "ser") return k.fail("only serialize<> takes type parameters");
  if(sdt == 8 && sit == 4) return run_io<CT, RT, double, std::uint32_t>(k, tag + "/ser<f64,u32>");
  if(sdt == 4 && sit == 8) return run_io<CT, RT, float, std::uint64_t>(k, tag + "/ser<f32,u64>");
  return run_io<CT, RT, float, std::uint32_t>(k, tag + "/ser<f32,u32>");
}

template<class DT, class IT>
bool run_io_kind(Ctx& k, const std::string& tag)
{
  const std::string kind = k.c["kind"].as_str(); int bh = int(k.c["bh"].as_int()), bw = int(k.c["bw"].as_int());
  typedef DenseVector<DT, IT> DV; typedef SparseMatrixCSR<DT, IT> CSR;
  if(kind == "dv") return run_io_types<DV, DV>(k, tag + "/dv");
  if(kind == "dvb") { if(bh == 2) return run_io_types<DenseVectorBlocked<DT, IT, 2>, DenseVectorBlocked<DT, IT, 2>>(k, tag + "/dvb2"); if(bh == 3) return run_io_types<DenseVectorBlocked<DT, IT, 3>, DenseVectorBlocked<DT, IT, 3>>(k, tag + "/dvb3"); }
  if(kind == "sv") return run_io_types<SparseVector<DT, IT>, SparseVector<DT, IT>>(k, tag + "/sv");
  if(kind == "svb" && bh == 2) return run_io_types<SparseVectorBlocked<DT, IT, 2>, DV>(k, tag + "/svb2");
  if(kind == "dm") return run_io_types<DenseMatrix<DT, IT>, DenseMatrix<DT, IT>>(k, tag + "/dm");
  if(kind == "csr") return run_io_types<CSR, CSR>(k, tag + "/csr");
  if(kind == "bcsr") { if(bh == 2 && bw == 2) return run_io_types<SparseMatrixBCSR<DT, IT, 2, 2>, CSR>(k, tag + "/bcsr2x2"); if(bh == 2 && bw == 3) return run_io_types<SparseMatrixBCSR<DT, IT, 2, 3>, CSR>(k, tag + "/bcsr2x3"); }
  if(kind == "cscr") return run_io_types<SparseMatrixCSCR<DT, IT>, DV>(k, tag + "/cscr");
  if(kind == "banded") return run_io_types<SparseMatrixBanded<DT, IT>, DV>(k, tag + "/banded");
  return k.fail("unsupported kind/block shape " + kind);
}

// ------------------------------------------------------------------------------------------------
// checkpoints
// ------------------------------------------------------------------------------------------------
struct ObjBase
{
  virtual ~ObjBase() {}
  virtual void add_to(Control::CheckpointControl& cp, const std::string& id) = 0;
  virtual void restore_from(Control::CheckpointControl& cp, const std::string& id) = 0;
  virtual void restore_reg(Control::CheckpointControl& cp, const std::string& id, bool add) = 0;   // restore_object(id, obj, add)
  virtual void assign(const vj::Value& c) = 0;                                                      // the user assigns new contents
  virtual vj::Value state(bool& ex) const = 0;
  virtual void write_bin(std::ostream& os) const = 0;
  virtual void read_bin(std::istream& is) = 0;
};
template<class CT> struct Obj : ObjBase
{
  CT obj;
  Obj() {}
  explicit Obj(CT&& o) : obj(std::move(o)) {}
  void add_to(Control::CheckpointControl& cp, const std::string& id) override { cp.add_object(String(id), obj); }
  void restore_from(Control::CheckpointControl& cp, const std::string& id) override { cp.restore_object(String(id), obj, false); }
  void restore_reg(Control::CheckpointControl& cp, const std::string& id, bool add) override { cp.restore_object(String(id), obj, add); }
  void assign(const vj::Value& c) override { obj = Ops<CT>::build(c); }
  vj::Value state(bool& ex) const override { return state_of(obj, ex); }
  void write_bin(std::ostream& os) const override { obj.write_out(FileMode::fm_binary, os); }
  void read_bin(std::istream& is) override { obj.read_from(FileMode::fm_binary, is); }
};
template<class DT, class IT>
std::unique_ptr<ObjBase> make_obj(const vj::Value& c, bool fresh)
{
  const std::string kind = c["kind"].as_str();
#define C05_MK(T) { if(fresh) return std::unique_ptr<ObjBase>(new Obj<T>()); return std::unique_ptr<ObjBase>(new Obj<T>(Ops<T>::build(c))); }
  typedef DenseVector<DT, IT> T1; typedef SparseMatrixCSR<DT, IT> T2; typedef SparseVector<DT, IT> T3; typedef DenseVectorBlocked<DT, IT, 2> T4;
  if(kind == "dv") C05_MK(T1)
  if(kind == "csr") C05_MK(T2)
  if(kind == "sv") C05_MK(T3)
  if(kind == "dvb") C05_MK(T4)
#undef C05_MK
  throw std::runtime_error("checkpoint palette kind " + kind);
}

template<class DT, class IT>
bool run_ckpt(Ctx& k, const std::string& tag)
{
  const vj::Value& c = k.c; const vj::Value& objs = c["objs"];
  Dist::Comm comm = Dist::Comm::world();
  Control::CheckpointControl cp(comm);
  std::vector<std::unique_ptr<ObjBase>> held;
  std::map<std::string, const vj::Value*> kind_of;
  for(std::size_t j = 0; j < objs.size(); ++j)
  {
    held.push_back(make_obj<DT, IT>(objs[j]["c"], false));
    bool ex = true; vj::Value pre = held.back()->state(ex);
    if(!ex || pre != objs[j]["arrays"]) return k.pre(tag + ": container state " + js(pre) + " is not the state the specification assumes " + js(objs[j]["arrays"]));
    held.back()->add_to(cp, objs[j]["id"].as_str());
    kind_of[objs[j]["id"].as_str()] = &objs[j]["c"];
  }
  BinaryStream bs;
  cp.save(bs);
  // parse the stream independently
  const char* data = bs.data(); std::size_t size = bs.container().size();
  if(size < 8) return k.fail(tag + ": checkpoint stream shorter than its length word");
  std::uint64_t total; std::memcpy(&total, data, 8);
  if((long long)total != c["total"].as_int() || size != std::size_t(total) + 8)
    return k.fail(tag + ": checkpoint stream: length word " + std::to_string(total) + ", stream size " + std::to_string(size) + ", the format prescribes " + std::to_string(c["total"].as_int()) + " (+8)");
  std::size_t p = 8; const vj::Value& ents = c["entries"];
  for(std::size_t e = 0; e < ents.size(); ++e)
  {
    if(p + 8 > size) return k.fail(tag + ": checkpoint stream ends before entry " + std::to_string(e));
    std::uint64_t il; std::memcpy(&il, data + p, 8); p += 8;
    const std::string id = ents[e]["id"].as_str();
    if(il != id.size() || p + il + 8 > size || std::string(data + p, std::size_t(il)) != id)
      return k.fail(tag + ": checkpoint entry " + std::to_string(e) + " is not identifier '" + id + "' (entries are stored in identifier order)");
    p += std::size_t(il);
    std::uint64_t dl; std::memcpy(&dl, data + p, 8); p += 8;
    if((long long)dl != ents[e]["len"].as_int() || p + dl > size) return k.fail(tag + ": checkpoint entry '" + id + "': data length " + std::to_string(dl) + " expected " + std::to_string(ents[e]["len"].as_int()));
    if(!check_bin(k, ents[e]["bin"], data + p, std::size_t(dl), tag + "/entry '" + id + "'")) return false;
    p += std::size_t(dl);
  }
  if(p != size) return k.fail(tag + ": trailing bytes in the checkpoint stream");
  // load into a fresh control object and restore in the given order
  Control::CheckpointControl cp2(comm);
  bs.seekg(0);
  cp2.load(bs);
  const vj::Value& rs = c["restore"];
  for(std::size_t j = 0; j < rs.size(); ++j)
  {
    const std::string id = rs[j]["id"].as_str();
    std::unique_ptr<ObjBase> fresh = make_obj<DT, IT>(*kind_of[id], true);
    fresh->restore_from(cp2, id);
    bool ex = true; vj::Value got = fresh->state(ex);
    if(!ex || got != rs[j]["arrays"]) return k.fail(tag + ": object restored for identifier '" + id + "' is " + js(got) + " expected " + js(rs[j]["arrays"]));
  }
  // the registered originals are untouched
  for(std::size_t j = 0; j < objs.size(); ++j) { bool ex = true; if(held[j]->state(ex) != objs[j]["arrays"]) return k.fail(tag + ": saving modified a registered object"); }
  return true;
}

// ------------------------------------------------------------------------------------------------
// histories over ONE BinaryStream object (spec/PersistStream.tla)
// ------------------------------------------------------------------------------------------------
static bool check_ckpt_bytes(Ctx& k, const vj::Value& ck, const char* data, std::size_t size, const std::string& tag)
{
  if(size < 8) return k.fail(tag + ": checkpoint shorter than its length word");
  std::uint64_t total; std::memcpy(&total, data, 8);
  if((long long)total != ck["total"].as_int() || size != std::size_t(total) + 8)
    return k.fail(tag + ": checkpoint length word " + std::to_string(total) + " in a segment of " + std::to_string(size) + " bytes, the format prescribes " + std::to_string(ck["total"].as_int()) + " (+8)");
  std::size_t p = 8; const vj::Value& ents = ck["entries"];
  for(std::size_t e = 0; e < ents.size(); ++e)
  {
    std::uint64_t il; std::memcpy(&il, data + p, 8); p += 8;
    const std::string id = ents[e]["id"].as_str();
    if(il != id.size() || p + il + 8 > size || std::string(data + p, std::size_t(il)) != id) return k.fail(tag + ": checkpoint entry " + std::to_string(e) + " is not identifier '" + id + "'");
    p += std::size_t(il);
    std::uint64_t dl; std::memcpy(&dl, data + p, 8); p += 8;
    if((long long)dl != ents[e]["len"].as_int() || p + dl > size) return k.fail(tag + ": checkpoint entry '" + id + "': data length " + std::to_string(dl) + " expected " + std::to_string(ents[e]["len"].as_int()));
    if(!check_bin(k, ents[e]["bin"], data + p, std::size_t(dl), tag + "/entry '" + id + "'")) return false;
    p += std::size_t(dl);
  }
  if(p != size) return k.fail(tag + ": trailing bytes in the checkpoint");
  return true;
}

template<class DT, class IT>
bool run_stream(Ctx& k, const std::string& tag0)
{
  const vj::Value& c = k.c; const vj::Value& pal = c["palette"]; const vj::Value& cks = c["ckpts"]; const vj::Value& ops = c["ops"];
  Dist::Comm comm = Dist::Comm::world();
  BinaryStream bs;                                   // the ONE stream object of the history
  for(std::size_t s = 0; s < ops.size(); ++s)
  {
    const vj::Value& o = ops[s]; const std::string op = o["op"].as_str();
    const std::string tag = tag0 + "/step " + std::to_string(s + 1) + " " + op;
    std::size_t arg = std::size_t(o["arg"].as_int()), off = std::size_t(o["off"].as_int());
    if(op == "write")
    {
      std::unique_ptr<ObjBase> obj = make_obj<DT, IT>(pal[arg - 1]["c"], false);
      bool ex = true; vj::Value pre = obj->state(ex);
      if(!ex || pre != pal[arg - 1]["arrays"]) return k.pre(tag + ": container state " + js(pre) + " is not the state the specification assumes");
      obj->write_bin(bs);
      if(bs.fail()) return k.fail(tag + ": stream in fail state after writing");
      std::size_t len = std::size_t(pal[arg - 1]["bin"]["len"].as_int());
      if(std::size_t(bs.size()) != std::size_t(o["size"].as_int())) return k.fail(tag + ": stream holds " + std::to_string(bs.size()) + " bytes, expected " + std::to_string(o["size"].as_int()) + " (the container must be written at byte " + std::to_string(off) + ")");
      if(!check_bin(k, pal[arg - 1]["bin"], bs.data() + off, len, tag)) return false;
    }
    else if(op == "seek0") { bs.seekg(0); if(bs.fail()) return k.fail(tag + ": seekg(0) failed"); }
    else if(op == "seekg") { bs.seekg(std::streamoff(arg)); if(bs.fail()) return k.fail(tag + ": seekg(" + std::to_string(arg) + ") failed"); }
    else if(op == "seekp") { bs.seekp(std::streamoff(arg)); if(bs.fail()) return k.fail(tag + ": seekp(" + std::to_string(arg) + ") failed"); }
    else if(op == "read")
    {
      std::unique_ptr<ObjBase> fresh = make_obj<DT, IT>(pal[arg - 1]["c"], true);
      fresh->read_bin(bs);
      if(bs.fail()) return k.fail(tag + ": stream in fail state after reading");
      bool ex = true; vj::Value got = fresh->state(ex);
      if(!ex || got != o["res"][0]) return k.fail(tag + ": container read at byte " + std::to_string(off) + " is " + js(got) + " expected " + js(o["res"][0]));
    }
    else if(op == "clear") bs.clear();
    else if(op == "save")
    {
      const vj::Value& ck = cks[arg - 1];
      Control::CheckpointControl cp(comm);
      std::vector<std::unique_ptr<ObjBase>> held;
      for(std::size_t e = 0; e < ck["entries"].size(); ++e)
      {
        held.push_back(make_obj<DT, IT>(pal[std::size_t(ck["entries"][e]["o"].as_int()) - 1]["c"], false));
        held.back()->add_to(cp, ck["entries"][e]["id"].as_str());
      }
      cp.save(bs);
      if(bs.fail()) return k.fail(tag + ": stream in fail state after saving");
      if(std::size_t(bs.size()) != std::size_t(o["size"].as_int())) return k.fail(tag + ": stream holds " + std::to_string(bs.size()) + " bytes, expected " + std::to_string(o["size"].as_int()) + " (the checkpoint must be written at byte " + std::to_string(off) + ")");
      if(!check_ckpt_bytes(k, ck, bs.data() + off, std::size_t(ck["total"].as_int()) + 8, tag)) return false;
    }
    else if(op == "load")
    {
      const vj::Value& ck = cks[arg - 1];
      Control::CheckpointControl cp2(comm);
      cp2.load(bs);
      for(std::size_t e = 0; e < ck["entries"].size(); ++e)
      {
        const std::string id = ck["entries"][e]["id"].as_str();
        std::unique_ptr<ObjBase> fresh = make_obj<DT, IT>(pal[std::size_t(ck["entries"][e]["o"].as_int()) - 1]["c"], true);
        fresh->restore_from(cp2, id);
        bool ex = true; vj::Value got = fresh->state(ex);
        if(!ex || got != o["res"][e]) return k.fail(tag + ": object restored for identifier '" + id + "' is " + js(got) + " expected " + js(o["res"][e]));
      }
    }
    else return k.fail("unknown stream operation " + op);
    // size and the single position of the stream after every call
    if(std::size_t(bs.size()) != std::size_t(o["size"].as_int())) return k.fail(tag + ": stream holds " + std::to_string(bs.size()) + " bytes, expected " + std::to_string(o["size"].as_int()));
    long long p = (long long)bs.tellg();
    if(p != o["pos"].as_int()) return k.fail(tag + ": stream position is " + std::to_string(p) + " expected " + std::to_string(o["pos"].as_int()));
  }
  return true;
}


// ------------------------------------------------------------------------------------------------
// the life of ONE CheckpointControl object (spec/PersistCkptLife.tla)
// ------------------------------------------------------------------------------------------------
// runs `call` in a forked child (the parent's control object is untouched): 0 = the call returned,
// otherwise the signal that ended the child (SIGABRT = refused by XASSERT/XABORT), -1 = fork/wait problem,
// -2 = the call ended with a C++ exception
static int in_child(const std::function<void()>& call)
{
  // FEAT's abort prints a back-trace: load the unwinder once in the parent, not in every child
  static bool warm = false; if(!warm) { void* b[4]; (void)::backtrace(b, 4); warm = true; }
  std::fflush(stdout); std::fflush(stderr); std::cout.flush(); std::cerr.flush();
  pid_t p = ::fork();
  if(p < 0) return -1;
  if(p == 0)
  {
    int fd = ::open("/dev/null", O_WRONLY); if(fd >= 0) { ::dup2(fd, 2); ::dup2(fd, 1); }
    ::alarm(60);
    { struct rlimit rl; rl.rlim_cur = rl.rlim_max = 0; ::setrlimit(RLIMIT_CORE, &rl); }
    try { call(); } catch(...) { ::_exit(3); }
    ::_exit(0);
  }
  int st = 0;
  if(::waitpid(p, &st, 0) != p) return -1;
  if(WIFSIGNALED(st)) return WTERMSIG(st);
  if(WIFEXITED(st) && WEXITSTATUS(st) == 3) return -2;
  return 0;
}
static std::string child_end(int rc)
{
  if(rc == 0) return "returned normally";
  if(rc == -2) return "ended with an exception";
  if(rc == -1) return "(fork failed)";
  return "was ended by signal " + std::to_string(rc);
}

// the bytes of a checkpoint stream against the layout predicted by the specification (entries refer to the palette)
static bool check_life_bytes(Ctx& k, const vj::Value& lay, const vj::Value& pal, const char* data, std::size_t size, const std::string& tag)
{
  if(size < 8) return k.fail(tag + ": checkpoint shorter than its length word");
  std::uint64_t total; std::memcpy(&total, data, 8);
  if((long long)total != lay["total"].as_int() || size != std::size_t(total) + 8)
    return k.fail(tag + ": checkpoint length word " + std::to_string(total) + " in a stream of " + std::to_string(size) + " bytes, the format prescribes " + std::to_string(lay["total"].as_int()) + " (+8)");
  std::size_t p = 8; const vj::Value& ents = lay["entries"];
  for(std::size_t e = 0; e < ents.size(); ++e)
  {
    if(p + 8 > size) return k.fail(tag + ": checkpoint ends before entry " + std::to_string(e));
    std::uint64_t il; std::memcpy(&il, data + p, 8); p += 8;
    const std::string id = ents[e]["id"].as_str();
    if(il != id.size() || p + il + 8 > size || std::string(data + p, std::size_t(il)) != id) return k.fail(tag + ": checkpoint entry " + std::to_string(e) + " is not identifier '" + id + "' (entries are stored in identifier order)");
    p += std::size_t(il);
    if((long long)(p - 8) != ents[e]["off"].as_int()) return k.fail(tag + ": data of '" + id + "' at byte " + std::to_string(p - 8) + " of the checkpoint, the format prescribes " + std::to_string(ents[e]["off"].as_int()));
    std::uint64_t dl; std::memcpy(&dl, data + p, 8); p += 8;
    if((long long)dl != ents[e]["len"].as_int() || p + dl > size) return k.fail(tag + ": checkpoint entry '" + id + "': data length " + std::to_string(dl) + " expected " + std::to_string(ents[e]["len"].as_int()));
    if(!check_bin(k, pal[std::size_t(ents[e]["o"].as_int()) - 1]["bin"], data + p, std::size_t(dl), tag + "/entry '" + id + "'")) return false;
    p += std::size_t(dl);
  }
  if(p != size) return k.fail(tag + ": trailing bytes in the checkpoint");
  return true;
}

template<class DT, class IT>
struct Life
{
  Ctx& k; const vj::Value& c; const vj::Value& pal; const vj::Value& ids;
  Dist::Comm comm;
  Control::CheckpointControl cp;                        // the ONE control object of the history
  std::map<std::size_t, std::unique_ptr<ObjBase>> regobj;   // identifier index -> the user's registered object
  std::vector<std::unique_ptr<BinaryStream>> slot;          // the user's streams (1..3 given, 4 own)
  int progress_fd;                                          // >= 0: the step about to be executed is announced there
  Life(Ctx& kk, int pfd = -1) : k(kk), c(kk.c), pal(kk.c["palette"]), ids(kk.c["ids"]), comm(Dist::Comm::world()), cp(comm), progress_fd(pfd) {}

  std::string idof(std::size_t i) const { return ids[i - 1].as_str(); }
  const vj::Value& pobj(long long o) const { return pal[std::size_t(o) - 1]; }

  std::unique_ptr<ObjBase> build(long long o, const std::string& tag, bool& good)
  {
    std::unique_ptr<ObjBase> obj = make_obj<DT, IT>(pobj(o)["c"], false);
    bool ex = true; vj::Value pre = obj->state(ex);
    good = ex && pre == pobj(o)["arrays"];
    if(!good) k.pre(tag + ": container state " + js(pre) + " is not the state the specification assumes " + js(pobj(o)["arrays"]));
    return obj;
  }

  // the three given checkpoints: written by OTHER (short-lived) control objects
  bool make_given()
  {
    slot.clear(); slot.resize(5);
    const vj::Value& gv = c["given"];
    for(std::size_t s = 0; s < gv.size(); ++s)
    {
      Control::CheckpointControl other(comm);
      std::vector<std::unique_ptr<ObjBase>> held;
      const vj::Value& ents = gv[s]["entries"];
      // registered in reverse identifier order (the stored order is the identifier order)
      for(std::size_t e = ents.size(); e-- > 0; )
      {
        bool good; held.push_back(build(ents[e]["o"].as_int(), "given checkpoint", good)); if(!good) return false;
        held.back()->add_to(other, ents[e]["id"].as_str());
      }
      slot[s + 1].reset(new BinaryStream());
      other.save(*slot[s + 1]);
      if(!check_life_bytes(k, gv[s], pal, slot[s + 1]->data(), slot[s + 1]->container().size(), "given checkpoint " + std::to_string(s + 1))) return false;
    }
    return true;
  }

  // ---- observation of the control object's state (none of these calls may change it) -------------------------
  bool probe(const vj::Value& st, const std::string& tag, bool misuse)
  {
    // (1) the registered identifiers
    std::string want;
    for(std::size_t i = 1; i <= ids.size(); ++i) if(st["reg"][i - 1].as_int() != 0) { if(!want.empty()) want += "\n"; want += idof(i); }
    std::string have = cp.get_identifier_list();
    if(have != want) return k.fail(tag + ": registered identifiers are '" + have + "' expected '" + want + "'");
    // (2) a save now writes exactly the CURRENT contents of the registered objects
    {
      BinaryStream tmp; cp.save(tmp);
      if(!check_life_bytes(k, st["img"], pal, tmp.data(), tmp.container().size(), tag + "/probe save")) return false;
    }
    // (3) the registered objects themselves are what the user put there
    for(auto& it : regobj)
    {
      bool ex = true; vj::Value got = it.second->state(ex); long long o = st["reg"][it.first - 1].as_int();
      if(o == 0) return k.fail(tag + ": harness holds an object for an unregistered identifier");
      if(!ex || got != pobj(o)["arrays"]) return k.fail(tag + ": the registered object '" + idof(it.first) + "' is " + js(got) + " expected " + js(pobj(o)["arrays"]));
    }
    // (4) restore_object of EVERY identifier: the object of the last loaded checkpoint, or refused
    for(std::size_t i = 1; i <= ids.size(); ++i)
    {
      long long o = st["rst"][i - 1].as_int(); const std::string id = idof(i);
      if(o > 0)
      {
        std::unique_ptr<ObjBase> fresh = make_obj<DT, IT>(pobj(o)["c"], true);
        try { fresh->restore_reg(cp, id, false); }
        catch(const std::exception& e) { return k.fail(tag + ": restore_object('" + id + "') of an identifier of the LAST loaded checkpoint ended with the exception " + e.what()); }
        bool ex = true; vj::Value got = fresh->state(ex);
        if(!ex || got != pobj(o)["arrays"]) return k.fail(tag + ": object restored for identifier '" + id + "' is " + js(got) + " expected " + js(pobj(o)["arrays"]) + " (what the LAST loaded checkpoint holds)");
      }
      else
      {
        int rc = in_child([&]() { std::unique_ptr<ObjBase> fresh = make_obj<DT, IT>(pal[0]["c"], true); fresh->restore_reg(cp, id, false); });
        if(rc != SIGABRT) return k.fail(tag + ": restore_object('" + id + "') must be refused (the loaded input does not contain it) but " + child_end(rc));
      }
    }
    // (5) a further load is refused while input is loaded
    if(st["loaded"].as_bool())
    {
      int rc = in_child([&]() { BinaryStream t; t.write(slot[1]->data(), std::streamsize(slot[1]->container().size())); cp.load(t); });
      if(rc != SIGABRT) return k.fail(tag + ": load while input is loaded must be refused but " + child_end(rc));
    }
    // (6) misuse of the registration calls
    if(misuse) for(std::size_t i = 1; i <= ids.size(); ++i)
    {
      const std::string id = idof(i);
      if(st["reg"][i - 1].as_int() != 0)
      {
        int rc = in_child([&]() { std::unique_ptr<ObjBase> o = make_obj<DT, IT>(pal[0]["c"], false); o->add_to(cp, id); });
        if(rc != SIGABRT) return k.fail(tag + ": add_object('" + id + "') of a registered identifier must be refused but " + child_end(rc));
      }
      else
      {
        int rc = in_child([&]() { cp.remove_object(String(id)); });
        if(rc != SIGABRT) return k.fail(tag + ": remove_object('" + id + "') of an unregistered identifier must be refused but " + child_end(rc));
      }
    }
    return true;
  }

  bool run(bool dense, const std::string& tag0)
  {
    if(!make_given()) return false;
    const vj::Value& ops = c["ops"];
    for(std::size_t s = 0; s < ops.size(); ++s)
    {
      const vj::Value& o = ops[s]; const std::string op = o["op"].as_str();
      const std::size_t i = std::size_t(o["i"].as_int()); const long long ov = o["o"].as_int(); const std::size_t sl = std::size_t(o["s"].as_int());
      const std::string tag = tag0 + "/step " + std::to_string(s + 1) + " " + op + (i ? " '" + idof(i) + "'" : std::string()) + (sl ? " stream " + std::to_string(sl) : std::string());
      if(progress_fd >= 0) { std::string m = "S " + std::to_string(s + 1) + "\n"; if(::write(progress_fd, m.data(), m.size())) {} }
      if(op == "add")
      {
        bool good; std::unique_ptr<ObjBase> obj = build(ov, tag, good); if(!good) return false;
        obj->add_to(cp, idof(i));
        regobj[i] = std::move(obj);
      }
      else if(op == "remove") { cp.remove_object(String(idof(i))); regobj.erase(i); }       // the user destroys the object afterwards
      else if(op == "assign") regobj.at(i)->assign(pobj(ov)["c"]);
      else if(op == "save")
      {
        slot[sl].reset(new BinaryStream());
        cp.save(*slot[sl]);
        if(slot[sl]->fail()) return k.fail(tag + ": stream in fail state after saving");
        if(!check_life_bytes(k, o["img"], pal, slot[sl]->data(), slot[sl]->container().size(), tag)) return false;
      }
      else if(op == "load")
      {
        if(!slot[sl]) return k.fail(tag + ": no such stream");
        // loaded from a COPY of the user's stream that is overwritten and destroyed right after the call: load owns its input
        std::unique_ptr<BinaryStream> t(new BinaryStream());
        t->write(slot[sl]->data(), std::streamsize(slot[sl]->container().size()));
        cp.load(*t);          // (a history that loads an EMPTY checkpoint runs in a child process as a whole, see run_life)
        for(char& ch : t->container()) ch = char(0xEE);
        t.reset();
      }
      else if(op == "clear") cp.clear_input();
      else if(op == "restore")
      {
        const long long want = o["res"].as_int(); const bool add = o["add"].as_bool();
        if(want < 1) return k.fail(tag + ": the specification does not define this restore");
        std::unique_ptr<ObjBase> fresh = make_obj<DT, IT>(pobj(want)["c"], true);
        try { fresh->restore_reg(cp, idof(i), add); }
        catch(const std::exception& e) { return k.fail(tag + ": restore_object('" + idof(i) + "') of an identifier of the LAST loaded checkpoint ended with the exception " + e.what()); }
        bool ex = true; vj::Value got = fresh->state(ex);
        if(!ex || got != pobj(want)["arrays"]) return k.fail(tag + ": object restored for identifier '" + idof(i) + "' is " + js(got) + " expected " + js(pobj(want)["arrays"]) + " (what the LAST loaded checkpoint holds)");
        if(add) regobj[i] = std::move(fresh);
      }
      else return k.fail("unknown life operation " + op);
      const bool lastStep = (s + 1 == ops.size());
      if((dense || lastStep) && !probe(o, tag + (dense ? "" : " (no probes before)"), lastStep)) return false;
    }
    return true;
  }
};

template<class DT, class IT>
bool run_life(Ctx& k, const std::string& tag)
{
  // pass 1: the state is observed after every call; pass 2 (a new control object): only after the last call
  const vj::Value& ops = k.c["ops"];
  std::size_t empty_load = 0;                                // first step that loads a checkpoint saved with NO registered object
  for(std::size_t s = 0; s < ops.size() && empty_load == 0; ++s) if(ops[s]["op"].as_str() == "load" && ops[s]["res"].as_int() == 1) empty_load = s + 1;
  if(empty_load == 0)
  {
    { Life<DT, IT> a(k); if(!a.run(true, tag)) return false; }
    { Life<DT, IT> b(k); if(!b.run(false, tag)) return false; }
    return true;
  }
  // Such a history runs as a whole in a child process which announces every step: a crash at or after the load of the empty
  // checkpoint is reported as THAT (narrow signature "[load-empty-checkpoint]"), whatever it destroys later in the process.
  int fds[2]; if(::pipe(fds) != 0) return k.fail(tag + ": pipe failed");
  std::fflush(stdout); std::fflush(stderr); std::cout.flush(); std::cerr.flush();
  { void* b[4]; (void)::backtrace(b, 4); }
  pid_t p = ::fork();
  if(p < 0) return k.fail(tag + ": fork failed");
  if(p == 0)
  {
    ::close(fds[0]);
    int fd = ::open("/dev/null", O_WRONLY); if(fd >= 0) { ::dup2(fd, 2); ::dup2(fd, 1); }
    ::alarm(120);
    { struct rlimit rl; rl.rlim_cur = rl.rlim_max = 0; ::setrlimit(RLIMIT_CORE, &rl); }
    bool ok = false;
    try
    {
      { Life<DT, IT> a(k, fds[1]); ok = a.run(true, tag); }
      if(ok) { if(::write(fds[1], "S 0\n", 4)) {} Life<DT, IT> b(k, fds[1]); ok = b.run(false, tag); }
    }
    catch(const std::exception& e) { ok = k.fail(tag + ": exception " + e.what()); }
    catch(...) { ok = k.fail(tag + ": unknown exception"); }
    std::string m = ok ? std::string("K\n") : (std::string(k.precond ? "P " : "F ") + k.why + "\n");
    if(::write(fds[1], m.data(), m.size())) {}
    ::_exit(0);
  }
  ::close(fds[1]);
  std::string buf; { char tmp[4096]; ssize_t n; while((n = ::read(fds[0], tmp, sizeof(tmp))) > 0) buf.append(tmp, std::size_t(n)); }
  ::close(fds[0]);
  int st = 0; if(::waitpid(p, &st, 0) != p) return k.fail(tag + ": waitpid failed");
  std::size_t reached = 0; bool second = false; std::string verdict;
  { std::istringstream is(buf); std::string l; while(std::getline(is, l)) { if(l.size() > 2 && l[0] == 'S') { std::size_t n = std::size_t(std::atol(l.c_str() + 2)); if(n == 0) second = true; else reached = n; } else verdict = l; } }
  if(WIFEXITED(st) && WEXITSTATUS(st) == 0 && verdict == "K") return true;
  if(WIFEXITED(st) && WEXITSTATUS(st) == 0 && verdict.size() > 2 && (verdict[0] == 'F' || verdict[0] == 'P'))
  {
    if(verdict[0] == 'P') return k.pre(verdict.substr(2));
    // a disagreement AFTER the empty checkpoint was loaded is a consequence of that load (undefined behaviour there)
    if(second || reached >= empty_load)
      return k.fail(tag + "/step " + std::to_string(empty_load) + " load stream " + std::to_string(ops[empty_load - 1]["s"].as_int()) +
                    ": load of an empty checkpoint (saved with no registered object), disagreement afterwards: " + verdict.substr(2) + " [load-empty-checkpoint]");
    return k.fail(verdict.substr(2));
  }
  const std::string how = WIFSIGNALED(st) ? "was ended by signal " + std::to_string(WTERMSIG(st)) : "ended abnormally";
  const std::string where = std::string(second ? "second pass, " : "") + "at step " + std::to_string(reached);
  if(second || reached >= empty_load)            // (in the second pass the empty checkpoint has already been loaded once in this process)
    return k.fail(tag + "/step " + std::to_string(empty_load) + " load stream " + std::to_string(ops[empty_load - 1]["s"].as_int()) +
                  ": load of an empty checkpoint (saved with no registered object): the process " + how + " (" + where + ") [load-empty-checkpoint]");
  return k.fail(tag + "/step " + std::to_string(reached) + " " + (reached ? ops[reached - 1]["op"].as_str() : std::string("start")) + ": the process " + how + " before the empty checkpoint was loaded");
}

vj::Value run_case(const vj::Value& c)
{
  Ctx k(c);
  bool ok; int cdt = int(c["cdt"].as_int());
  if(c["part"].as_str() == "life")
    ok = (cdt == 8) ? run_life<double, std::uint64_t>(k, "f64/u64") : run_life<float, std::uint32_t>(k, "f32/u32");
  else if(c["part"].as_str() == "stream")
    ok = (cdt == 8) ? run_stream<double, std::uint64_t>(k, "f64/u64") : run_stream<float, std::uint32_t>(k, "f32/u32");
  else if(c["part"].as_str() == "ckpt")
    ok = (cdt == 8) ? run_ckpt<double, std::uint64_t>(k, "f64/u64") : run_ckpt<float, std::uint32_t>(k, "f32/u32");
  else
    ok = (cdt == 8) ? run_io_kind<double, std::uint64_t>(k, "f64/u64") : run_io_kind<float, std::uint32_t>(k, "f32/u32");
  if(ok) return vh::ok();
  vj::Value r = vh::bad(k.why);
  if(k.precond) r["precond"] = true;
  return r;
}

int main(int argc, char** argv) { return vh::main_loop(argc, argv); }
