// C13 harness: MIRROR ASSEMBLY of the control layer on N MPI ranks (direction V: the real code dumps, TLC judges with spec/MirrorAsm.tla).
//
//   mpirun -np <N> c13_mirrorasm --cases FILE [--start K] [--timeout S]      (all ranks read FILE; rank 0 journals B k / R k)
//
// A case = one configuration of Control::Domain::PartiDomainControl (same conventions as harness/c12_pdc.cpp):
//   {"id","nr":N,"dim":2|3,"fam":"hypercube"|"simplex","nx","ny","nz",   base mesh over the grid 0..nx x 0..ny (x 0..nz) with INTEGER vertex
//    "raw":{"X","cells"} (optional)                                      coordinates; "raw" (triangles / any cell list whose cells lie inside one
//                                                                        unit square each) replaces the structured hypercube mesh
//    "levels":["2:4","1:2","0:1","0"], "args":[..], "multi":bool,        passed to PartiDomainControl exactly as an application does
//    "mode":"types"|"explicit", "owner":[world rank per grid square],    "explicit": every layer's elements-at-rank graph is prescribed (hook: the
//                                                                        virtual _check_parti files a cell under the child owning its grid square)
//    "keep_base":bool,                                                   DomainControl::keep_base_levels() (base splitter; single partitioning step)
//    "els":["lagrange1",...], "out":path}
// After create() every rank walks over its VIRTUAL levels exactly like the applications do and, for every requested finite element family,
// calls the code under test
//     Control::Asm::asm_gate      (halo mesh parts          -> Assembly::MirrorAssembler -> Global::Gate)     on the non-ghost levels
//     Control::Asm::asm_muxer     (child patch mesh parts   -> MirrorAssembler -> Global::Muxer)              on child / parent levels
//     Control::Asm::asm_splitter  (base-mesh patch parts    -> MirrorAssembler -> Global::Splitter)           on levels with a base level
// and dumps into <out>.r<rank>: the layers / levels / meshes / halos / patch parts (as c12_pdc), the base levels (world rank 0), the
// virtual level structure and per family and virtual level the ASSEMBLED mirrors (gate ranks + mirrors, muxer parent + child mirrors,
// splitter root + patch mirrors) and - for the families whose node functionals of an affine function are the value in the barycentre of
// the entity - the result of the real collective operations applied to the interpolant of  f(x) = 1 + x_1 + 64 x_2 + 4096 x_3 :
//     gate.sync_0(interp),  muxer.join / join_send (children -> parent),  muxer.split / split_recv (parent -> children),
//     splitter.split (base -> patches),  splitter.join (patches -> base)
// as integers  round(value * 24 * 2^K)  (K = finest level; every correct value lies on that lattice, the harness refuses a value that
// is further than 1e-6 away from it).  The harness only projects: what the mirrors and the numbers must be is decided by TLC.
// "tuples":["t2","t3"] (quadrilaterals only) additionally builds the SYSTEM gate / muxer / splitter of a tuple space from the component
// objects with Control::Asm::build_gate_tuple / build_muxer_tuple / build_splitter_tuple (2 and 3 components; t2 = (lagrange2,
// discontinuous1), t3 = (lagrange2, discontinuous0, lagrange1)) and dumps them component-wise in the same way ("tups").
#include "vmesh.hpp"
#include "vmpi.hpp"
#include <kernel/util/simple_arg_parser.hpp>
#include <kernel/trafo/standard/mapping.hpp>
#include <kernel/space/lagrange1/element.hpp>
#include <kernel/space/lagrange2/element.hpp>
#include <kernel/space/lagrange3/element.hpp>
#include <kernel/space/discontinuous/element.hpp>
#include <kernel/space/cro_rav_ran_tur/element.hpp>
#include <kernel/space/bernstein2/element.hpp>
#include <kernel/analytic/function.hpp>
#include <kernel/assembly/interpolator.hpp>
#include <kernel/global/gate.hpp>
#include <kernel/global/muxer.hpp>
#include <kernel/global/splitter.hpp>
#include <kernel/global/vector.hpp>
#include <kernel/lafem/tuple_vector.hpp>
#include <kernel/lafem/tuple_mirror.hpp>
#include <control/domain/parti_domain_control.hpp>
#include <control/asm/gate_asm.hpp>
#include <control/asm/muxer_asm.hpp>
#include <control/asm/splitter_asm.hpp>

using namespace vm;

// ---- the domain control with a prescribed partition (copy of the hook of harness/c12_pdc.cpp) --------------------------------------
template<class Shape_> struct Pdc : public Control::Domain::PartiDomainControl<Control::Domain::DomainLevel<MeshT<Shape_>>>
{
  typedef MeshT<Shape_> MeshType;
  typedef Control::Domain::DomainLevel<MeshType> LevelT;
  typedef Control::Domain::PartiDomainControl<LevelT> Base;
  typedef typename Base::Ancestor Ancestor;
  typedef typename Base::MeshNodeType MeshNodeType;
  static constexpr int dim = Shape_::dimension;

  bool explicit_mode = false;
  std::vector<long long> owner;      // world rank per grid square
  long long gn[3] = {1, 1, 1};

  Pdc(const Dist::Comm& c, bool multi) : Base(c, multi) {}

  const std::deque<std::shared_ptr<Control::Domain::DomainLayer>>& layers() const { return this->_layers; }
  const std::deque<std::deque<std::shared_ptr<LevelT>>>& layer_levels() const { return this->_layer_levels; }
  const std::deque<std::shared_ptr<LevelT>>& base_levels() const { return this->_base_levels; }
  std::size_t num_virt_local() const { return this->_virt_levels.size(); }

  // grid square that contains the cell c of mesh m
  long long base_cell_of(const MeshType& m, Index c) const
  {
    const auto& vs = m.get_vertex_set();
    const auto& is = m.template get_index_set<dim, 0>();
    long long g[3] = {0, 0, 0};
    for(int k(0); k < dim; ++k)
    {
      double lo = double(vs[is[c][0]][k]);
      for(int j(1); j < is.get_num_indices(); ++j) lo = std::min(lo, double(vs[is[c][j]][k]));
      g[k] = (long long)std::floor(lo);
      if(g[k] < 0 || g[k] >= gn[k]) throw std::runtime_error("cell outside the grid");
    }
    return g[0] + gn[0] * (g[1] + gn[1] * g[2]);
  }

#ifdef FEAT_HAVE_MPI
  virtual bool _check_parti(Ancestor& ancestor, const MeshNodeType& mesh_node, bool is_base_layer) override
  {
    if(!explicit_mode) return Base::_check_parti(ancestor, mesh_node, is_base_layer);
    const MeshType& m = *mesh_node.get_mesh();
    const Index ne = m.get_num_elements();
    const int stride = this->_comm.size() / ancestor.num_procs;
    std::vector<std::vector<Index>> cells((std::size_t)ancestor.num_parts);
    for(Index c(0); c < ne; ++c)
    {
      const long long child = owner.at(std::size_t(base_cell_of(m, c))) / stride - ancestor.progeny_group;
      if(child < 0 || child >= ancestor.num_parts) throw std::runtime_error("explicit owner map is not hierarchical");
      cells[std::size_t(child)].push_back(c);
    }
    Adjacency::Graph g(Index(ancestor.num_parts), ne, ne);
    Index* ptr = g.get_domain_ptr(); Index* idx = g.get_image_idx();
    Index k = 0; ptr[0] = 0;
    for(std::size_t r(0); r < cells.size(); ++r) { for(Index e : cells[r]) idx[k++] = e; ptr[r + 1] = k; }
    ancestor.parti_apriori = true;
    ancestor.parti_found = true;
    ancestor.parti_info = "explicit partition";
    ancestor.parti_level = 0;
    ancestor.parti_graph = std::move(g);
    return true;
  }
#endif
};

// ---- the affine test function -----------------------------------------------------------------------------------------------------
template<int dim_> class AffineFn : public Analytic::Function
{
public:
  static constexpr int domain_dim = dim_;
  typedef Analytic::Image::Scalar ImageType;
  static constexpr bool can_value = true, can_grad = false, can_hess = false;
  template<typename Traits_> class Evaluator : public Analytic::Function::Evaluator<Traits_>
  {
  public:
    typedef typename Traits_::PointType PointType; typedef typename Traits_::ValueType ValueType;
    explicit Evaluator(const AffineFn&) {}
    ValueType value(const PointType& p)
    {
      static const double w[3] = {1.0, 64.0, 4096.0};
      double r = 1.0;
      for(int a(0); a < dim_; ++a) r += w[a] * double(p[a]);
      return ValueType(r);
    }
  };
};

typedef LAFEM::DenseVector<double, Index> VecT;
typedef LAFEM::VectorMirror<double, Index> MirT;

static void put_mirror(FILE* f, const MirT& m)
{
  std::fputc('[', f);
  const Index* ix = m.indices();
  for(Index i(0); i < m.num_indices(); ++i) std::fprintf(f, i ? ",%llu" : "%llu", (unsigned long long)ix[i]);
  std::fputc(']', f);
}
// round(value * 24 * 2^K); false if a value is off the lattice
static bool put_vals(FILE* f, const VecT& v, int K)
{
  bool on = true;
  std::fputc('[', f);
  const double* x = v.elements();
  for(Index i(0); i < v.size(); ++i)
  {
    const double s = std::ldexp(x[i] * 24.0, K);
    const double r = std::nearbyint(s);
    if(!(std::fabs(s - r) <= 1e-6) || std::fabs(r) >= 2.0e9) on = false;
    std::fprintf(f, i ? ",%lld" : "%lld", (long long)r);
  }
  std::fputc(']', f);
  return on;
}

// ---- one finite element family over all virtual levels of this process -----------------------------------------------------------------
template<class Shape_, class Space_>
std::string dump_family(FILE* f, const char* name, bool values, Pdc<Shape_>& domain, int K)
{
  typedef MeshT<Shape_> MeshType;
  typedef typename Pdc<Shape_>::LevelT LevelT;
  typedef Trafo::Standard::Mapping<MeshType> TrafoT;
  constexpr int dim = Shape_::dimension;
  struct Bundle { TrafoT trafo; Space_ space; explicit Bundle(MeshType& m) : trafo(m), space(trafo) {} };
  std::map<const LevelT*, std::unique_ptr<Bundle>> cache;
  auto space_of = [&cache](const LevelT& l) -> const Space_*
  {
    auto it = cache.find(&l);
    if(it == cache.end()) it = cache.emplace(&l, std::unique_ptr<Bundle>(new Bundle(const_cast<MeshType&>(l.get_mesh())))).first;
    return &it->second->space;
  };
  AffineFn<dim> fn;
  bool onlat = true;
  std::fputs("{\"el\":", f); put_str(f, name);
  std::fprintf(f, ",\"values\":%s,\"virt\":[", values ? "true" : "false");
  const std::size_t nv = domain.num_virt_local();
  for(std::size_t i(0); i < nv; ++i)
  {
    auto& virt = domain.at(i);
    if(i) std::fputc(',', f);
    std::fprintf(f, "{\"vi\":%d", int(i));
    Global::Gate<VecT, MirT> gate;
    const bool ghost = virt.is_ghost();
    // ---- gate (every physical level, as the applications do) ----
    if(!ghost)
    {
      const Space_& space = *space_of(virt.level());
      Control::Asm::asm_gate(virt, space, gate, true);
      std::fprintf(f, ",\"ndofs\":%llu,\"gate\":{\"ranks\":[", (unsigned long long)space.get_num_dofs());
      const auto& rk = gate.get_ranks();
      for(std::size_t j(0); j < rk.size(); ++j) std::fprintf(f, j ? ",%d" : "%d", rk[j]);
      std::fputs("],\"mir\":[", f);
      const auto& mm = gate.get_mirrors();
      for(std::size_t j(0); j < mm.size(); ++j) { if(j) std::fputc(',', f); put_mirror(f, mm[j]); }
      std::fputs("]}", f);
      if(values)
      {
        VecT v(space.get_num_dofs());
        Assembly::Interpolator::project(v, fn, space);
        gate.sync_0(v);
        std::fputs(",\"sync0\":", f); onlat = put_vals(f, v, K) && onlat;
      }
    }
    // ---- coarse muxer (virtual levels below the finest one; a no-op unless the level is a child / parent) ----
    if(i >= 1)
    {
      Global::Muxer<VecT, MirT> muxer;
      Control::Asm::asm_muxer(virt, [&space_of](const LevelT& dl) { return space_of(dl); }, muxer);
      if(virt.is_child())
      {
        std::fprintf(f, ",\"mux\":{\"is_child\":%s,\"is_parent\":%s,\"is_ghost\":%s,\"parent_rank\":%d,\"pm\":",
          muxer.is_child() ? "true" : "false", muxer.is_parent() ? "true" : "false", muxer.is_ghost() ? "true" : "false", muxer.get_parent_rank());
        put_mirror(f, muxer.get_parent_mirror());
        std::fputs(",\"cm\":[", f);
        const auto& cm = muxer.get_child_mirrors();
        for(std::size_t j(0); j < cm.size(); ++j) { if(j) std::fputc(',', f); put_mirror(f, cm[j]); }
        std::fputs("]}", f);
        if(values)
        {
          const Space_& space_c = *space_of(virt.level_c());
          VecT vc(space_c.get_num_dofs()), vc2(space_c.get_num_dofs(), 0.0);
          Assembly::Interpolator::project(vc, fn, space_c);
          if(virt.is_parent())
          {
            const Space_& space_p = *space_of(virt.level_p());
            VecT vp(space_p.get_num_dofs(), 0.0), vpi(space_p.get_num_dofs());
            muxer.join(vc, vp);
            std::fputs(",\"join\":", f); onlat = put_vals(f, vp, K) && onlat;
            Assembly::Interpolator::project(vpi, fn, space_p);
            muxer.split(vc2, vpi);
          }
          else
          {
            muxer.join_send(vc);
            muxer.split_recv(vc2);
          }
          std::fputs(",\"split\":", f); onlat = put_vals(f, vc2, K) && onlat;
        }
      }
    }
    // ---- base splitter ----
    if(!ghost && virt.has_base())
    {
      Global::Splitter<VecT, MirT> splitter;
      Control::Asm::asm_splitter(virt, [&space_of](const LevelT& dl) { return space_of(dl); }, splitter);
      const auto& mux = splitter.get_muxer();
      std::fprintf(f, ",\"spl\":{\"single\":%s,\"root\":%s,\"nbase\":%llu,\"pm\":", splitter.is_single() ? "true" : "false",
        splitter.is_root() ? "true" : "false", (unsigned long long)splitter.get_base_vector_template().size());
      put_mirror(f, mux.get_parent_mirror());
      std::fputs(",\"cm\":[", f);
      const auto& cm = mux.get_child_mirrors();
      for(std::size_t j(0); j < cm.size(); ++j) { if(j) std::fputc(',', f); put_mirror(f, cm[j]); }
      std::fputs("]}", f);
      if(values && !splitter.is_single())
      {
        const Space_& space = *space_of(virt.level());
        VecT vl(space.get_num_dofs(), 0.0), vb;
        if(splitter.is_root())
        {
          const Space_& space_b = *space_of(virt.level_b());
          vb = VecT(space_b.get_num_dofs());
          Assembly::Interpolator::project(vb, fn, space_b);
        }
        splitter.split(vl, vb);
        std::fputs(",\"ssplit\":", f); onlat = put_vals(f, vl, K) && onlat;
        // join: the patch vectors are the (type-1) interpolants
        Global::Vector<VecT, MirT> gv(&gate, space.get_num_dofs());
        Assembly::Interpolator::project(gv.local(), fn, space);
        VecT vj;
        if(splitter.is_root()) vj = VecT(splitter.get_base_vector_template().size(), 0.0);
        splitter.join(vj, gv);
        if(splitter.is_root()) { std::fputs(",\"sjoin\":", f); onlat = put_vals(f, vj, K) && onlat; }
      }
    }
    std::fputc('}', f);
  }
  std::fputs("]}", f);
  if(!onlat) return std::string("family ") + name + ": a value of a collective operation is not on the lattice 1/(24*2^K)";
  return "";
}


// ---- tuple spaces: the system objects built from the component objects ----------------------------------------------------------------------
template<class Shape_, class Space_> struct Comp
{
  typedef MeshT<Shape_> MeshType;
  typedef typename Pdc<Shape_>::LevelT LevelT;
  typedef Trafo::Standard::Mapping<MeshType> TrafoT;
  struct Bundle { TrafoT trafo; Space_ space; explicit Bundle(MeshType& m) : trafo(m), space(trafo) {} };
  std::map<const LevelT*, std::unique_ptr<Bundle>> cache;
  bool bary;
  explicit Comp(bool b) : bary(b) {}
  const Space_* space_of(const LevelT& l)
  {
    auto it = cache.find(&l);
    if(it == cache.end()) it = cache.emplace(&l, std::unique_ptr<Bundle>(new Bundle(const_cast<MeshType&>(l.get_mesh())))).first;
    return &it->second->space;
  }
  // the interpolant (bary families) or zero
  void fill(VecT& v, const LevelT& l)
  {
    const Space_& sp = *space_of(l);
    v = VecT(sp.get_num_dofs(), 0.0);
    if(bary) { AffineFn<Shape_::dimension> fn; Assembly::Interpolator::project(v, fn, sp); }
  }
};

template<std::size_t i_ = 0, class TM_> void put_tmirror(FILE* f, const TM_& m)
{
  if constexpr (i_ == 0) std::fputc('[', f);
  if constexpr (i_ < std::size_t(TM_::num_blocks))
  {
    if(i_) std::fputc(',', f);
    put_mirror(f, m.template at<int(i_)>());
    put_tmirror<i_ + 1>(f, m);
  }
  else std::fputc(']', f);
}
template<std::size_t i_ = 0, class TV_> bool put_tvals(FILE* f, const TV_& v, int K, const bool* bary)
{
  bool on = true;
  if constexpr (i_ == 0) std::fputc('[', f);
  if constexpr (i_ < std::size_t(TV_::num_blocks))
  {
    if(i_) std::fputc(',', f);
    if(bary[i_]) on = put_vals(f, v.template at<int(i_)>(), K); else std::fputs("[]", f);
    on = put_tvals<i_ + 1>(f, v, K, bary) && on;
  }
  else std::fputc(']', f);
  return on;
}
template<std::size_t i_ = 0, class TM_, class TV_> bool tmirror_fits(const TM_& m, const TV_& v)
{
  if constexpr (i_ < std::size_t(TM_::num_blocks)) return (m.template at<int(i_)>().size() == v.template at<int(i_)>().size()) && tmirror_fits<i_ + 1>(m, v);
  else return true;
}
template<std::size_t i_ = 0, class TV_> void put_tsizes(FILE* f, const TV_& v)
{
  if constexpr (i_ == 0) std::fputc('[', f);
  if constexpr (i_ < std::size_t(TV_::num_blocks))
  {
    std::fprintf(f, i_ ? ",%llu" : "%llu", (unsigned long long)v.template at<int(i_)>().size());
    put_tsizes<i_ + 1>(f, v);
  }
  else std::fputc(']', f);
}

template<class Shape_, class... Spaces_>
std::string dump_tuple(FILE* f, const char* name, const std::vector<std::string>& cnames, const std::vector<bool>& cbary, Pdc<Shape_>& domain, int K)
{
  typedef typename Pdc<Shape_>::LevelT LevelT;
  constexpr std::size_t nc = sizeof...(Spaces_);
  static_assert(nc == 2 || nc == 3, "two or three components");
  typedef std::tuple<Comp<Shape_, Spaces_>...> Comps;
  typedef typename std::conditional<nc == 2, LAFEM::TupleVector<VecT, VecT>, LAFEM::TupleVector<VecT, VecT, VecT>>::type TV;
  typedef typename std::conditional<nc == 2, LAFEM::TupleMirror<MirT, MirT>, LAFEM::TupleMirror<MirT, MirT, MirT>>::type TM;
  bool bary[3] = {cbary[0], cbary[1], nc > 2 ? bool(cbary[2]) : false};
  Comps comps{Comp<Shape_, Spaces_>(false)...};
  std::get<0>(comps).bary = bary[0]; std::get<1>(comps).bary = bary[1];
  if constexpr (nc == 3) std::get<2>(comps).bary = bary[2];
  auto& c0 = std::get<0>(comps); auto& c1 = std::get<1>(comps);
  // fill a tuple vector with the component interpolants on a level
  auto fill = [&](TV& v, const LevelT& l)
  {
    c0.fill(v.template at<0>(), l); c1.fill(v.template at<1>(), l);
    if constexpr (nc == 3) std::get<2>(comps).fill(v.template at<2>(), l);
  };
  bool onlat = true;
  std::fputs("{\"tu\":", f); put_str(f, name);
  std::fputs(",\"comps\":[", f);
  for(std::size_t k(0); k < nc; ++k) { if(k) std::fputc(',', f); put_str(f, cnames[k]); }
  std::fputs("],\"virt\":[", f);
  const std::size_t nv = domain.num_virt_local();
  for(std::size_t i(0); i < nv; ++i)
  {
    auto& virt = domain.at(i);
    if(i) std::fputc(',', f);
    std::fprintf(f, "{\"vi\":%d", int(i));
    const bool ghost = virt.is_ghost();
    Global::Gate<VecT, MirT> g0, g1, g2;
    Global::Gate<TV, TM> gs;
    if(!ghost)
    {
      Control::Asm::asm_gate(virt, *c0.space_of(virt.level()), g0, true);
      Control::Asm::asm_gate(virt, *c1.space_of(virt.level()), g1, true);
      if constexpr (nc == 2) Control::Asm::build_gate_tuple(gs, g0, g1);
      else
      {
        Control::Asm::asm_gate(virt, *std::get<2>(comps).space_of(virt.level()), g2, true);
        Control::Asm::build_gate_tuple(gs, g0, g1, g2);
      }
      std::fputs(",\"gate\":{\"ranks\":[", f);
      const auto& rk = gs.get_ranks();
      for(std::size_t j(0); j < rk.size(); ++j) std::fprintf(f, j ? ",%d" : "%d", rk[j]);
      std::fputs("],\"mir\":[", f);
      const auto& mm = gs.get_mirrors();
      for(std::size_t j(0); j < mm.size(); ++j) { if(j) std::fputc(',', f); put_tmirror(f, mm[j]); }
      std::fputs("]}", f);
      TV v; fill(v, virt.level());
      gs.sync_0(v);
      std::fputs(",\"sync0\":", f); onlat = put_tvals(f, v, K, bary) && onlat;
    }
    if(i >= 1)
    {
      Global::Muxer<VecT, MirT> m0, m1, m2;
      Global::Muxer<TV, TM> ms;
      Control::Asm::asm_muxer(virt, [&c0](const LevelT& dl) { return c0.space_of(dl); }, m0);
      Control::Asm::asm_muxer(virt, [&c1](const LevelT& dl) { return c1.space_of(dl); }, m1);
      TV tmpl; fill(tmpl, virt.is_child() ? virt.level_c() : virt.level());
      if constexpr (nc == 2) Control::Asm::build_muxer_tuple(ms, tmpl, m0, m1);
      else
      {
        Control::Asm::asm_muxer(virt, [&comps](const LevelT& dl) { return std::get<2>(comps).space_of(dl); }, m2);
        Control::Asm::build_muxer_tuple(ms, tmpl, m0, m1, m2);
      }
      if(virt.is_child())
      {
        std::fprintf(f, ",\"mux\":{\"is_child\":%s,\"is_parent\":%s,\"pm\":", ms.is_child() ? "true" : "false", ms.is_parent() ? "true" : "false");
        put_tmirror(f, ms.get_parent_mirror());
        std::fputs(",\"cm\":[", f);
        const auto& cm = ms.get_child_mirrors();
        for(std::size_t j(0); j < cm.size(); ++j) { if(j) std::fputc(',', f); put_tmirror(f, cm[j]); }
        std::fputs("]}", f);
        TV vc, vc2; fill(vc, virt.level_c()); fill(vc2, virt.level_c()); vc2.format();
        if(virt.is_parent())
        {
          TV vp, vpi; fill(vp, virt.level_p()); vp.format(); fill(vpi, virt.level_p());
          ms.join(vc, vp);
          std::fputs(",\"join\":", f); onlat = put_tvals(f, vp, K, bary) && onlat;
          ms.split(vc2, vpi);
        }
        else
        {
          ms.join_send(vc);
          ms.split_recv(vc2);
        }
        std::fputs(",\"split\":", f); onlat = put_tvals(f, vc2, K, bary) && onlat;
      }
    }
    if(!ghost && virt.has_base())
    {
      Global::Splitter<VecT, MirT> s0, s1, s2;
      Global::Splitter<TV, TM> ss;
      Control::Asm::asm_splitter(virt, [&c0](const LevelT& dl) { return c0.space_of(dl); }, s0);
      Control::Asm::asm_splitter(virt, [&c1](const LevelT& dl) { return c1.space_of(dl); }, s1);
      TV tmpl; fill(tmpl, virt.level());
      if constexpr (nc == 2) Control::Asm::build_splitter_tuple(ss, tmpl, s0, s1);
      else
      {
        Control::Asm::asm_splitter(virt, [&comps](const LevelT& dl) { return std::get<2>(comps).space_of(dl); }, s2);
        Control::Asm::build_splitter_tuple(ss, tmpl, s0, s1, s2);
      }
      const auto& mux = ss.get_muxer();
      std::fprintf(f, ",\"spl\":{\"single\":%s,\"root\":%s,\"nbase\":", ss.is_single() ? "true" : "false", ss.is_root() ? "true" : "false");
      put_tsizes(f, ss.get_base_vector_template());
      std::fputs(",\"pm\":", f); put_tmirror(f, mux.get_parent_mirror());
      std::fputs(",\"cm\":[", f);
      const auto& cm = mux.get_child_mirrors();
      for(std::size_t j(0); j < cm.size(); ++j) { if(j) std::fputc(',', f); put_tmirror(f, cm[j]); }
      std::fputs("]}", f);
      // the operations are called inside their documented precondition only (XASSERT of VectorMirror::gather / scatter_axpy: every
      // component mirror is made for the size of the component vector); all processes of the layer agree on whether it holds
      int enabled = 1;
      if(!ss.is_single())
      {
        TV vl, vb; fill(vl, virt.level());
        if(ss.is_root()) fill(vb, virt.level_b());
        if(!tmirror_fits(mux.get_parent_mirror(), vl)) enabled = 0;
        for(const auto& m : cm) if(!tmirror_fits(m, vb)) enabled = 0;
        int all = 0;
        virt.layer().comm().allreduce(&enabled, &all, std::size_t(1), Dist::op_min);
        enabled = all;
      }
      std::fprintf(f, ",\"spl_enabled\":%s", enabled ? "true" : "false");
      if(!ss.is_single() && enabled)
      {
        TV vl, vb; fill(vl, virt.level()); vl.format();
        if(ss.is_root()) fill(vb, virt.level_b());
        ss.split(vl, vb);
        std::fputs(",\"ssplit\":", f); onlat = put_tvals(f, vl, K, bary) && onlat;
        Global::Vector<TV, TM> gv(&gs);
        fill(gv.local(), virt.level());
        TV vj;
        if(ss.is_root()) { fill(vj, virt.level_b()); vj.format(); }
        ss.join(vj, gv);
        if(ss.is_root()) { std::fputs(",\"sjoin\":", f); onlat = put_tvals(f, vj, K, bary) && onlat; }
      }
    }
    std::fputc('}', f);
  }
  std::fputs("]}", f);
  if(!onlat) return std::string("tuple ") + name + ": a value of a collective operation is not on the lattice 1/(24*2^K)";
  return "";
}

template<class Shape_> std::string run_cfg(const vj::Value& c, const Dist::Comm& comm)
{
  typedef MeshT<Shape_> MeshType;
  typedef Geometry::MeshPart<MeshType> PartType;
  typedef Geometry::RootMeshNode<MeshType> NodeType;
  typedef Trafo::Standard::Mapping<MeshType> TrafoT;
  typedef std::vector<std::pair<std::string, const PartType*>> PartList;
  constexpr int dim = Shape_::dimension;
  constexpr bool cube = Fam<Shape_>::cube;
  const int me = comm.rank();
  const long long nx = c.get_int("nx", 1), ny = c.get_int("ny", 1), nz = (dim == 3 ? c.get_int("nz", 1) : 1);
  const std::string mode = c.get_str("mode", "types");
  const std::string out = c["out"].as_str() + ".r" + std::to_string(me);
  std::remove(out.c_str());

  // ---- base mesh: integer coordinates ----
  std::unique_ptr<NodeType> base;
  if(c.has("raw"))
  {
    base = NodeType::make_unique(build_raw<Shape_>(c["raw"]));
  }
  else
  {
    if constexpr (cube)
    {
      Geometry::StructUnitCubeFactory<MeshType> fac{Index(nx), Index(ny), Index(nz)};
      auto mesh = fac.make_unique();
      auto& vs = mesh->get_vertex_set();
      const long long n[3] = {nx, ny, nz};
      for(Index i(0); i < vs.get_num_vertices(); ++i)
        for(int k(0); k < dim; ++k) vs[i][k] = std::round(double(vs[i][k]) * double(n[k]));
      base = NodeType::make_unique(std::move(mesh));
    }
    else return "simplex configurations need a raw base mesh";
  }
  {
    Geometry::BoundaryFactory<MeshType> bf(*base->get_mesh());
    base->add_mesh_part("bnd", bf.make_unique());
  }

  Pdc<Shape_> domain(comm, c.has("multi") ? c["multi"].as_bool() : true);
  domain.gn[0] = nx; domain.gn[1] = ny; domain.gn[2] = nz;
  domain.set_adapt_mode(Geometry::AdaptMode::none);
  if(c.has("owner")) domain.owner = c["owner"].ints();
  domain.explicit_mode = (mode == "explicit");
  if(c.has("keep_base") && c["keep_base"].as_bool()) domain.keep_base_levels();
  {
    std::vector<std::string> av; av.push_back("c13_mirrorasm");
    if(c.has("args")) for(std::size_t i(0); i < c["args"].size(); ++i) av.push_back(c["args"][i].as_str());
    std::vector<const char*> argv; for(const auto& s : av) argv.push_back(s.c_str());
    SimpleArgParser args(int(argv.size()), argv.data());
    Control::Domain::add_supported_pdc_args(args);
    if(!domain.parse_args(args)) return "rank " + std::to_string(me) + ": parse_args refuses the command line";
  }
  {
    std::deque<String> lv;
    for(std::size_t i(0); i < c["levels"].size(); ++i) lv.push_back(String(c["levels"][i].as_str()));
    domain.set_desired_levels(lv);
  }
  domain.create(std::move(base));

  // ---- dump: layers / levels (format of c12_pdc) ----
  const int K = domain.max_level_index();
  FILE* f = std::fopen(out.c_str(), "w");
  if(!f) return "rank " + std::to_string(me) + ": cannot write " + out;
  bool exact = true;
  std::fprintf(f, "{\"rank\":%d,\"K\":%d,\"chosen\":", me, K); put_str(f, domain.format_chosen_levels());
  std::fprintf(f, ",\"size_virtual\":%llu,\"size_physical\":%llu,\"layers\":[", (unsigned long long)domain.size_virtual(), (unsigned long long)domain.size_physical());
  const auto& layers = domain.layers();
  const auto& laylev = domain.layer_levels();
  auto put_node = [&](const typename Pdc<Shape_>::LevelT& L)
  {
    const NodeType& node = *L.get_mesh_node();
    PartList pl;
    std::fprintf(f, "{\"lvl\":%d,\"mesh\":", L.get_level_index());
    exact = put_level(f, *node.get_mesh(), K, pl, false) && exact;
    std::fputs(",\"halos\":[", f);
    bool first = true;
    for(const auto& h : node.get_halo_map())
    {
      if(!h.second) continue;
      if(!first) std::fputc(',', f);
      first = false;
      std::fprintf(f, "{\"rank\":%d,\"t\":", h.first);
      put_tsh<dim>(f, h.second->get_target_set_holder());
      std::fputc('}', f);
    }
    std::fputs("],\"patches\":[", f);
    first = true;
    for(const auto& p : node.get_patch_map())
    {
      if(!p.second) continue;
      if(!first) std::fputc(',', f);
      first = false;
      std::fprintf(f, "{\"rank\":%d,\"t\":", p.first);
      put_tsh<dim>(f, p.second->get_target_set_holder());
      std::fputc('}', f);
    }
    std::fputs("]}", f);
  };
  for(std::size_t li(0); li < layers.size(); ++li)
  {
    if(li) std::fputc(',', f);
    const auto& L = *layers[li];
    const Dist::Comm* sc = L.sibling_comm_ptr();
    const bool has_sib = (sc != nullptr) && !sc->is_null();
    std::fprintf(f, "{\"layer\":%d,\"crank\":%d,\"csize\":%d,\"sibrank\":%d,\"sibsize\":%d,\"parent_rank\":%d,\"nbrs\":[",
      L.get_layer_index(), L.comm().rank(), L.comm().size(), has_sib ? sc->rank() : -1, has_sib ? sc->size() : 0, L.get_parent_rank());
    {
      const auto& nb = L.get_neighbor_ranks();
      for(std::size_t i(0); i < nb.size(); ++i) std::fprintf(f, i ? ",%d" : "%d", nb[i]);
    }
    std::fputs("],\"levels\":[", f);
    const auto& lv = laylev.at(li);
    for(std::size_t k(0); k < lv.size(); ++k) { if(k) std::fputc(',', f); put_node(*lv[k]); }
    std::fputs("]}", f);
  }
  std::fputs("],\"base\":[", f);
  {
    const auto& bl = domain.base_levels();
    for(std::size_t k(0); k < bl.size(); ++k) { if(k) std::fputc(',', f); put_node(*bl[k]); }
  }
  // ---- the virtual levels: which (layer, level) each of them refers to ----
  std::fputs("],\"virt\":[", f);
  for(std::size_t i(0); i < domain.num_virt_local(); ++i)
  {
    const auto& v = domain.at(i);
    if(i) std::fputc(',', f);
    std::fprintf(f, "{\"vi\":%d,\"lvl\":%d,\"layer\":%d,\"child\":%s,\"parent\":%s,\"ghost\":%s,\"base\":%s,\"layer_c\":%d,\"layer_p\":%d}",
      int(i), v.level().get_level_index(), v.layer().get_layer_index(), v.is_child() ? "true" : "false", v.is_parent() ? "true" : "false",
      v.is_ghost() ? "true" : "false", v.has_base() ? "true" : "false", v.is_child() ? v.layer_c().get_layer_index() : -1,
      v.is_parent() ? v.layer_p().get_layer_index() : -1);
  }
  // ---- the assembled mirrors per family ----
  std::fputs("],\"els\":[", f);
  std::string why;
  bool first = true;
  for(std::size_t e(0); e < c["els"].size(); ++e)
  {
    const std::string el = c["els"][e].as_str();
    if(!first) std::fputc(',', f);
    first = false;
    std::string w;
    if(el == "lagrange1") w = dump_family<Shape_, Space::Lagrange1::Element<TrafoT>>(f, "lagrange1", true, domain, K);
    else if(el == "lagrange2") w = dump_family<Shape_, Space::Lagrange2::Element<TrafoT>>(f, "lagrange2", true, domain, K);
    else if(el == "lagrange3") w = dump_family<Shape_, Space::Lagrange3::Element<TrafoT>>(f, "lagrange3", false, domain, K);
    else if(el == "discontinuous0") w = dump_family<Shape_, Space::Discontinuous::Element<TrafoT, Space::Discontinuous::Variant::StdPolyP<0>>>(f, "discontinuous0", true, domain, K);
    else if(el == "discontinuous1") w = dump_family<Shape_, Space::Discontinuous::Element<TrafoT, Space::Discontinuous::Variant::StdPolyP<1>>>(f, "discontinuous1", false, domain, K);
    else if(el == "crorav") w = dump_family<Shape_, Space::CroRavRanTur::Element<TrafoT>>(f, "crorav", true, domain, K);
    else if(el == "bernstein2")
    {
      if constexpr (cube) w = dump_family<Shape_, Space::Bernstein2::Element<TrafoT>>(f, "bernstein2", false, domain, K);
      else w = "bernstein2 exists on hypercubes only";
    }
    else w = "unknown family " + el;
    if(why.empty() && !w.empty()) why = "rank " + std::to_string(me) + ": " + w;
  }
  std::fputs("],\"tups\":[", f);
  if constexpr (std::is_same<Shape_, Shape::Hypercube<2>>::value)
  {
    typedef Space::Lagrange1::Element<TrafoT> L1; typedef Space::Lagrange2::Element<TrafoT> L2;
    typedef Space::Discontinuous::Element<TrafoT, Space::Discontinuous::Variant::StdPolyP<0>> D0;
    typedef Space::Discontinuous::Element<TrafoT, Space::Discontinuous::Variant::StdPolyP<1>> D1;
    for(std::size_t e(0); c.has("tuples") && e < c["tuples"].size(); ++e)
    {
      const std::string tu = c["tuples"][e].as_str();
      if(e) std::fputc(',', f);
      std::string w;
      if(tu == "t2") w = dump_tuple<Shape_, L2, D1>(f, "t2", {"lagrange2", "discontinuous1"}, {true, false}, domain, K);
      else if(tu == "t3") w = dump_tuple<Shape_, L2, D0, L1>(f, "t3", {"lagrange2", "discontinuous0", "lagrange1"}, {true, true, true}, domain, K);
      else w = "unknown tuple " + tu;
      if(why.empty() && !w.empty()) why = "rank " + std::to_string(me) + ": " + w;
    }
  }
  else if(c.has("tuples") && c["tuples"].size() > 0) { if(why.empty()) why = "tuple spaces are built on quadrilaterals only"; }
  std::fputs("]}\n", f);
  std::fclose(f);
  if(!exact) return "rank " + std::to_string(me) + ": a coordinate is not an integer at scale 2^K";
  return why;
}

static std::string run_one(const vj::Value& c, const Dist::Comm& comm)
{
  const int dim = (int)c.get_int("dim", 2);
  const bool simp = c.get_str("fam", "hypercube") == "simplex";
  if(dim == 2 && !simp) return run_cfg<Shape::Hypercube<2>>(c, comm);
  if(dim == 2 && simp) return run_cfg<Shape::Simplex<2>>(c, comm);
  if(dim == 3 && !simp) return run_cfg<Shape::Hypercube<3>>(c, comm);
  return "unsupported shape";
}

int main(int argc, char** argv) { return vmpi::main_loop(argc, argv, run_one); }
