// C08 replayer, square-blocked part: life-cycle histories generated from spec/PrecondBlk.tla are executed on the real
// preconditioner classes instantiated for SparseMatrixBCSR<double, Index, BS, BS> / DenseVectorBlocked<double, Index, BS>
// / FilterChain<UnitFilterBlocked, MeanFilterBlocked, UnitFilterBlocked> (the chain unit(F) ; mean(mp, md) ; unit(F2) of the
// specification, empty members being the identity), BS = 2, 3 (JacobiPrecond, SORPrecond, SSORPrecond, PolynomialPrecond, ILUPrecond,
// ScalePrecond, DiagonalPrecond, MatrixPrecond).  All values are dyadic rationals <<m, e>> = m / 2^e and every diagonal
// (ILU: pivot) block has determinant +-2^k, so every correct floating point evaluation is exact: each apply() result is
// compared with == against the results the specification allows in the current life-cycle state (case["tab"] holds the
// results of the defining operators, a step names the allowed ones).  Additionally: input vector unchanged, returned
// Status::success, filtered blocks zero, linearity on the implementation's own outputs, the ILU(p) block pattern of
// Intern::ILUCoreBlocked against the level-of-fill pattern.
// A result that equals none of the allowed ones is compared with the specification's NAMED DEVIATIONS (case["tab"]["d1"/"d2"],
// e.g. "ssor_unscaled", "ilu_left_mult"): a match only refines the clause reported with the mismatch (narrow signature).
#include "vharness.hpp"
#include <kernel/lafem/dense_vector.hpp>
#include <kernel/lafem/dense_vector_blocked.hpp>
#include <kernel/lafem/sparse_matrix_bcsr.hpp>
#include <kernel/lafem/unit_filter_blocked.hpp>
#include <kernel/lafem/mean_filter_blocked.hpp>
#include <kernel/lafem/filter_chain.hpp>
#include <kernel/solver/jacobi_precond.hpp>
#include <kernel/solver/sor_precond.hpp>
#include <kernel/solver/ssor_precond.hpp>
#include <kernel/solver/ilu_precond.hpp>
#include <kernel/solver/polynomial_precond.hpp>
#include <kernel/solver/scale_precond.hpp>
#include <kernel/solver/diagonal_precond.hpp>
#include <kernel/solver/matrix_precond.hpp>
#include <cmath>
#include <sstream>

using namespace FEAT;
typedef double DT;
typedef Index IT;
typedef std::vector<double> Flat;

static double dy(const vj::Value& v) { return v[1].as_int() < 0 ? std::nan("") : std::ldexp(double(v[0].as_int()), -int(v[1].as_int())); }
// block vector (n blocks of bs entries) -> flat vector
static Flat flat_vec(const vj::Value& v) { Flat r; for(std::size_t I = 0; I < v.size(); ++I) for(std::size_t k = 0; k < v[I].size(); ++k) r.push_back(dy(v[I][k])); return r; }
static bool has_nan(const Flat& v) { for(double x : v) if(x != x) return true; return false; }
static std::string show(const Flat& v) { std::ostringstream o; o.precision(17); o << "["; for(std::size_t i = 0; i < v.size(); ++i) o << (i ? "," : "") << v[i]; o << "]"; return o.str(); }

template<int BS>
class BlkProbe : public Solver::Intern::ILUCoreBlocked<DT, IT, BS>
{
public:
  std::vector<std::vector<int>> pattern() const
  {
    const IT n = this->_n;
    std::vector<std::vector<int>> p(n, std::vector<int>(n, 0));
    for(IT i = 0; i < n; ++i)
    {
      p[i][i] = 1;
      for(IT j = this->_row_ptr_l[i]; j < this->_row_ptr_l[i + 1]; ++j) p[i][this->_col_idx_l[j]] = 1;
      for(IT j = this->_row_ptr_u[i]; j < this->_row_ptr_u[i + 1]; ++j) p[i][this->_col_idx_u[j]] = 1;
    }
    return p;
  }
};

template<int BS>
vj::Value run_blk(const vj::Value& c)
{
  typedef LAFEM::SparseMatrixBCSR<DT, IT, BS, BS> MatT;
  typedef LAFEM::DenseVectorBlocked<DT, IT, BS> VecT;
  typedef LAFEM::UnitFilterBlocked<DT, IT, BS> UFilT;
  typedef LAFEM::MeanFilterBlocked<DT, IT, BS> MFilT;
  typedef LAFEM::FilterChain<UFilT, MFilT, UFilT> FilT;
  typedef Tiny::Vector<DT, BS> VBlk;

  const Index n = Index(c["n"].as_int());
  const Index N = n * Index(BS);
  const std::string kind = c["kind"].as_str();
  const double w = dy(c["w"]);
  const Index m = Index(c["m"].as_int());
  const int p = int(c["p"].as_int());
  const std::string devname = c["devname"].as_str();

  std::vector<std::vector<int>> pat(n, std::vector<int>(n, 0));
  Index nnz = 0;
  for(Index i = 0; i < n; ++i) for(Index j = 0; j < n; ++j) { pat[i][j] = int(c["pat"][i][j].as_int()); nnz += Index(pat[i][j]); }
  // raw block values in BCSR order for both value sets
  Flat vals[2]; Flat dgv[2];
  for(int which = 0; which < 2; ++which)
  {
    const vj::Value& A = c[which == 0 ? "A1" : "A2"];
    for(Index i = 0; i < n; ++i) for(Index j = 0; j < n; ++j) if(pat[i][j])
      for(int r = 0; r < BS; ++r) for(int s = 0; s < BS; ++s) vals[which].push_back(dy(A[i][j][r][s]));
    dgv[which] = flat_vec(c[which == 0 ? "dg1" : "dg2"]);
  }
  std::vector<Flat> tests; for(std::size_t k = 0; k < c["tests"].size(); ++k) tests.push_back(flat_vec(c["tests"][k]));
  const Index nt = Index(tests.size());
  // results of the specification by name
  std::map<std::string, std::vector<Flat>> tab;
  for(const char* nm : {"o1", "o2", "x12", "x21", "d1", "d2"})
  {
    const vj::Value& t = c["tab"][nm];
    std::vector<Flat> rs; for(std::size_t k = 0; k < t.size(); ++k) rs.push_back(flat_vec(t[k]));
    tab[nm] = rs;
  }

  LAFEM::DenseVector<IT, IT> rp(n + 1), ci(nnz); LAFEM::DenseVector<DT, IT> va(nnz * Index(BS * BS));
  {
    Index q = 0;
    for(Index i = 0; i < n; ++i) { rp(i, q); for(Index j = 0; j < n; ++j) if(pat[i][j]) { ci(q, j); ++q; } }
    rp(n, q);
    for(Index k = 0; k < va.size(); ++k) va(k, vals[0][k]);
  }
  MatT mat(n, n, ci, va, rp);
  VecT diag(n);
  // the filter chain  unit(F) ; mean ; unit(F2)
  FilT fil;
  const long long mk = c["mk"].as_int();
  std::vector<char> filtered(n, 0);      // blocks that must vanish in every result: those of the LAST unit filter of the chain
  {
    UFilT u1(n), u2(n);
    for(std::size_t k = 0; k < c["F"].size(); ++k) { Index idx = Index(c["F"][k].as_int() - 1); u1.add(idx, VBlk(DT(0))); if(mk == 0) filtered[idx] = 1; }
    for(std::size_t k = 0; k < c["F2"].size(); ++k) { Index idx = Index(c["F2"][k].as_int() - 1); u2.add(idx, VBlk(DT(0))); filtered[idx] = 1; }
    fil.template at<0>() = std::move(u1);
    fil.template at<2>() = std::move(u2);
    if(mk != 0)
    {
      Flat mp = flat_vec(c["mp"]), md = flat_vec(c["md"]);
      VecT vp(n), vd(n);
      DT* ep = vp.template elements<LAFEM::Perspective::pod>(); DT* ed = vd.template elements<LAFEM::Perspective::pod>();
      for(Index i = 0; i < N; ++i) { ep[i] = mp[i]; ed[i] = md[i]; }
      fil.template at<1>() = MFilT(std::move(vp), std::move(vd));
    }
  }
  int cur = 0;
  auto set_values = [&](int which)
  {
    DT* v = mat.template val<LAFEM::Perspective::pod>();
    for(std::size_t k = 0; k < vals[which].size(); ++k) v[k] = vals[which][k];
    DT* d = diag.template elements<LAFEM::Perspective::pod>();
    for(Index k = 0; k < N; ++k) d[k] = dgv[which][k];
    cur = which;
  };
  set_values(0);

  std::shared_ptr<Solver::SolverBase<VecT>> pre;
  if(kind == "jacobi") pre = Solver::new_jacobi_precond(mat, fil, w);
  else if(kind == "sor") pre = Solver::new_sor_precond(PreferredBackend::generic, mat, fil, w);
  else if(kind == "ssor") pre = Solver::new_ssor_precond(PreferredBackend::generic, mat, fil, w);
  else if(kind == "poly") pre = Solver::new_polynomial_precond(mat, fil, m, w);
  else if(kind == "ilu") pre = Solver::new_ilu_precond(PreferredBackend::generic, mat, fil, p);
  else if(kind == "scale") pre = Solver::new_scale_precond(fil, w);
  else if(kind == "diagonal") pre = Solver::new_diagonal_precond(diag, fil);
  else if(kind == "matrix") pre = Solver::new_matrix_precond(mat, fil);
  else return vh::bad("unknown kind " + kind);

  auto fail = [&](std::size_t step, const std::string& op, const std::string& clause, const std::string& why)
  {
    vj::Value r = vh::bad("bs=" + std::to_string(BS) + " step " + std::to_string(step) + " (" + op + "): " + why);
    r["clause"] = clause; r["step"] = (long long)step; r["op"] = op;
    return r;
  };

  if(kind == "ilu")
  {
    BlkProbe<BS> core; core.set_struct(mat); core.factorize_symbolic(p);
    auto got = core.pattern();
    for(Index i = 0; i < n; ++i) for(Index j = 0; j < n; ++j)
      if(got[i][j] != int(c["ilupat"][i][j].as_int()))
        return fail(0, "symbolic", "ilu_pattern", "ILU(" + std::to_string(p) + ") block pattern entry (" + std::to_string(i) + "," + std::to_string(j) + ") is " +
                    std::to_string(got[i][j]) + ", level-of-fill definition says " + std::to_string(c["ilupat"][i][j].as_int()));
  }

  // a deviation that is only classified: remembered, the history is continued, reported at the end
  bool deviated = false; std::string dev_clause, dev_why; std::size_t dev_step = 0; bool dev_stale = false; int dev_napply = 0;

  const vj::Value& steps = c["steps"];
  int napply = 0;
  for(std::size_t s = 0; s < steps.size(); ++s)
  {
    const std::string op = steps[s]["op"].as_str();
    if(op == "IS") pre->init_symbolic();
    else if(op == "IN") pre->init_numeric();
    else if(op == "DN") pre->done_numeric();
    else if(op == "DS") pre->done_symbolic();
    else if(op == "UP") set_values(1 - cur);
    else if(op == "SO") { }      // the blocked histories keep their relaxation parameter
    else if(op == "AP")
    {
      ++napply;
      const vj::Value& exp = steps[s]["exp"];
      const vj::Value& dev = steps[s]["dev"];
      std::vector<Flat> outs;
      for(Index k = 0; k < nt; ++k)
      {
        VecT def(n), cor(n);
        DT* pd = def.template elements<LAFEM::Perspective::pod>();
        DT* pc = cor.template elements<LAFEM::Perspective::pod>();
        for(Index i = 0; i < N; ++i) { pd[i] = tests[k][i]; pc[i] = 1e30 + double(i); }   // garbage in the output vector
        Solver::Status st = pre->apply(cor, def);
        Flat x(N), d2(N);
        for(Index i = 0; i < N; ++i) { x[i] = pc[i]; d2[i] = pd[i]; }
        outs.push_back(x);
        if(st != Solver::Status::success) return fail(s, op, "status", "apply returned a status other than success");
        if(d2 != tests[k]) return fail(s, op, "input_modified", "input vector modified: " + show(d2));
        bool any = false;
        for(std::size_t a = 0; a < exp.size() && !any; ++a) any = (tab[exp[a].as_str()][k] == x);
        if(!any)
        {
          std::string e; for(std::size_t a = 0; a < exp.size(); ++a) e += (a ? " or " : "") + show(tab[exp[a].as_str()][k]);
          // classification against the named deviations of the specification
          std::string cls = "result";
          if(dev.size() > 0)
          {
            bool hit = false, inexact = false;
            for(std::size_t a = 0; a < dev.size(); ++a)
            {
              const Flat& dv = tab[dev[a].as_str()][k];
              if(has_nan(dv)) inexact = true; else if(dv == x) hit = true;
            }
            if(hit) cls = "result_is_" + devname;
            else if(inexact) cls = "result_" + devname + "_inexact";
          }
          const std::string why = "apply #" + std::to_string(napply) + " test vector " + std::to_string(k) + " " + show(tests[k]) + ": got " + show(x) + " expected " + e +
                                  (cls != "result" ? " (" + cls + ")" : "");
          if(cls == "result")
          {
            vj::Value r = fail(s, op, exp.size() > 1 ? "stale_result" : "result", why);
            r["stale"] = bool(exp.size() > 1); r["napply"] = (long long)napply;
            return r;
          }
          if(!deviated || (dev_clause != cls && cls == "result_" + devname + "_inexact"))
          {
            if(!deviated) { dev_step = s; dev_why = why; dev_stale = exp.size() > 1; dev_napply = napply; }
            deviated = true; dev_clause = cls;
          }
        }
        for(Index i = 0; i < N; ++i) if(filtered[i / Index(BS)] && x[i] != 0.0) return fail(s, op, "filter", "filtered dof not zero");
      }
      // linearity on the implementation's outputs: P(2g - e1) = 2 P(g) - P(e1)
      // (not decidable exactly once the arithmetic has left the dyadic domain through a classified deviation)
      const bool left_exact_domain = deviated && dev_clause == "result_" + devname + "_inexact";
      for(Index i = 0; i < N && !left_exact_domain; ++i)
        if(outs[nt - 1][i] != 2.0 * outs[nt - 2][i] - outs[0][i]) return fail(s, op, "linearity", "P(2g - e1) differs from 2 P(g) - P(e1)");
    }
    else return vh::bad("unknown op " + op);
  }
  if(deviated)
  {
    vj::Value r = fail(dev_step, "AP", dev_clause, dev_why);
    r["stale"] = dev_stale; r["napply"] = (long long)dev_napply;
    return r;
  }
  return vh::ok();
}

vj::Value run_case(const vj::Value& c)
{
  const int bs = int(c["bs"].as_int());
  if(bs == 2) return run_blk<2>(c);
  if(bs == 3) return run_blk<3>(c);
  return vh::bad("unsupported block size " + std::to_string(bs));
}

int main(int argc, char** argv) { return vh::main_loop(argc, argv); }
