// C09 (floating part): Solver::MultiGrid on a real LAFEM hierarchy - Q1 Poisson on the refined unit square,
// assembled as in tutorials/tutorial_05_multigrid.cpp (mesh levels lmin..lmax, damped-Jacobi Richardson smoothing,
// PCG coarse solver).  A case {"lmax":n,"lmin":1,"runs":[{"cyc":0|1|2,"adapt":0|1|2,"peak":bool}...],"steps":s,"iters":k}
// builds the hierarchy once and performs, for every run, a defect-correction iteration
//      x := x + MG(b - A x)
// whose residuals are computed HERE (long double CSR product, Dirichlet rows identified from the vertex
// coordinates; nothing of FEAT's solver control is involved).  The result carries per run
//   - the residual reduction factors per cycle in permille (floor), the finite abstraction judged by
//     spec/MGCycleRate.tla (rate(L) < 1/2, rate(L) <= rate(2) + 0.15);
//   - the calls of smoothers / coarse solver of the FIRST cycle as recorded by FEAT's own
//     Statistics solver-expression log (Statistics::enable_solver_expressions), with every smoother wrapped
//     in a named pass-through solver so that the log entry identifies role and level: kind*16 + level.
#include "vharness.hpp"
#include <kernel/geometry/boundary_factory.hpp>
#include <kernel/geometry/conformal_mesh.hpp>
#include <kernel/geometry/common_factories.hpp>
#include <kernel/geometry/mesh_part.hpp>
#include <kernel/trafo/standard/mapping.hpp>
#include <kernel/space/lagrange1/element.hpp>
#include <kernel/cubature/dynamic_factory.hpp>
#include <kernel/assembly/symbolic_assembler.hpp>
#include <kernel/assembly/unit_filter_assembler.hpp>
#include <kernel/assembly/domain_assembler.hpp>
#include <kernel/assembly/domain_assembler_helpers.hpp>
#include <kernel/assembly/common_operators.hpp>
#include <kernel/assembly/grid_transfer.hpp>
#include <kernel/lafem/dense_vector.hpp>
#include <kernel/lafem/sparse_matrix_csr.hpp>
#include <kernel/lafem/unit_filter.hpp>
#include <kernel/lafem/transfer.hpp>
#include <kernel/solver/pcg.hpp>
#include <kernel/solver/richardson.hpp>
#include <kernel/solver/jacobi_precond.hpp>
#include <kernel/solver/multigrid.hpp>
#include <kernel/util/statistics.hpp>
#include <deque>

using namespace FEAT;

namespace
{
  typedef Shape::Quadrilateral ShapeType;
  typedef Geometry::ConformalMesh<ShapeType> MeshType;
  typedef Geometry::MeshPart<MeshType> MeshPartType;
  typedef Trafo::Standard::Mapping<MeshType> TrafoType;
  typedef Space::Lagrange1::Element<TrafoType> SpaceType;
  typedef double DataType;
  typedef Index IndexType;
  typedef LAFEM::DenseVector<DataType, IndexType> VectorType;
  typedef LAFEM::SparseMatrixCSR<DataType, IndexType> MatrixType;
  typedef LAFEM::UnitFilter<DataType, IndexType> FilterType;
  typedef LAFEM::Transfer<MatrixType> TransferType;

  struct Level
  {
    MeshType mesh; TrafoType trafo; SpaceType space; Assembly::DomainAssembler<TrafoType> domain_assembler;
    MatrixType matrix; FilterType filter; TransferType transfer;
    explicit Level(Geometry::Factory<MeshType>& f) : mesh(f), trafo(mesh), space(trafo), domain_assembler(trafo) {}
  };

  // pass-through solver with a name that identifies role and level in the Statistics expression log
  struct Named : public Solver::SolverBase<VectorType>
  {
    std::shared_ptr<Solver::SolverBase<VectorType>> s; String nm;
    Named(std::shared_ptr<Solver::SolverBase<VectorType>> ss, int kind, int level) : s(ss), nm("C09@" + stringify(kind * 16 + level)) {}
    virtual String name() const override { return nm; }
    virtual void init_symbolic() override { s->init_symbolic(); }
    virtual void init_numeric() override { s->init_numeric(); }
    virtual void done_numeric() override { s->done_numeric(); }
    virtual void done_symbolic() override { s->done_symbolic(); }
    virtual Solver::Status apply(VectorType& c, const VectorType& d) override { return s->apply(c, d); }
  };
}

vj::Value run_case(const vj::Value& c)
{
  const Index lmax = Index(c["lmax"].as_int()), lmin = Index(c["lmin"].as_int());
  const Index steps = Index(c["steps"].as_int());
  const int iters = int(c["iters"].as_int());
  const long long seed = c["seed"].as_int();

  std::deque<std::shared_ptr<Level>> levels;
  { Geometry::RefinedUnitCubeFactory<MeshType> f(lmin); levels.push_front(std::make_shared<Level>(f)); }
  for(Index l = lmin; l < lmax; ++l) { Geometry::StandardRefinery<MeshType> f(levels.front()->mesh); levels.push_front(std::make_shared<Level>(f)); }
  const String cub = "auto-degree:5";
  for(auto& lp : levels)
  {
    Level& lvl = *lp;
    lvl.domain_assembler.compile_all_elements();
    Assembly::SymbolicAssembler::assemble_matrix_std1(lvl.matrix, lvl.space);
    Assembly::Common::LaplaceOperator op;
    lvl.matrix.format();
    Assembly::assemble_bilinear_operator_matrix_1(lvl.domain_assembler, lvl.matrix, op, lvl.space, cub);
    Geometry::BoundaryFactory<MeshType> bf(lvl.mesh);
    MeshPartType boundary(bf);
    Assembly::UnitFilterAssembler<MeshType> ua; ua.add_mesh_part(boundary); ua.assemble(lvl.filter, lvl.space);
  }
  for(std::size_t i = 0; i + 1 < levels.size(); ++i)
  {
    Level& f = *levels[i]; Level& cr = *levels[i + 1];
    MatrixType& mp = f.transfer.get_mat_prol(); MatrixType& mr = f.transfer.get_mat_rest();
    Assembly::SymbolicAssembler::assemble_matrix_2lvl(mp, f.space, cr.space);
    mp.format();
    Assembly::GridTransfer::assemble_prolongation_direct(mp, f.space, cr.space, cub);
    mr = mp.transpose();
  }

  // fine level system, independent view: CSR arrays, Dirichlet dofs from the vertex coordinates
  Level& fine = *levels.front();
  const Index n = fine.matrix.rows();
  const IndexType* rp = fine.matrix.row_ptr(); const IndexType* ci = fine.matrix.col_ind(); const DataType* va = fine.matrix.val();
  std::vector<char> bnd(n, 0);
  {
    const auto& vtx = fine.mesh.get_vertex_set();
    if(vtx.get_num_vertices() != n) return vh::bad("Q1 dof count differs from vertex count");
    for(Index i = 0; i < n; ++i)
    {
      const double x = double(vtx[i][0]), y = double(vtx[i][1]);
      if(x == 0.0 || x == 1.0 || y == 0.0 || y == 1.0) bnd[i] = 1;
    }
  }
  std::vector<long double> b(n, 0.0L);
  {
    unsigned long long s = 88172645463325252ull ^ (unsigned long long)(seed * 2654435761ll);
    for(Index i = 0; i < n; ++i)
    {
      s ^= s << 13; s ^= s >> 7; s ^= s << 17;
      b[i] = bnd[i] ? 0.0L : ((long double)(s % 2000001ull) / 1000000.0L - 1.0L);
    }
  }

  vj::Value runs_out = vj::Value::array();
  const vj::Value& runs = c["runs"];
  const int nlev = int(levels.size());
  for(std::size_t q = 0; q < runs.size(); ++q)
  {
    const int cyc = int(runs[q]["cyc"].as_int()), adapt = int(runs[q]["adapt"].as_int());
    const bool have_peak = runs[q]["peak"].as_bool();
    auto hier = std::make_shared<Solver::MultiGridHierarchy<MatrixType, FilterType, TransferType>>(levels.size());
    for(std::size_t i = 0; i + 1 < levels.size(); ++i)
    {
      Level& lvl = *levels[i];
      std::shared_ptr<Solver::SolverBase<VectorType>> sm[3];
      for(int k = 0; k < 3; ++k)
      {
        if(k == 2 && !have_peak) break;
        auto jac = Solver::new_jacobi_precond(lvl.matrix, lvl.filter);
        auto ri = Solver::new_richardson(lvl.matrix, lvl.filter, DataType(0.8), jac);
        ri->set_max_iter(steps); ri->set_min_iter(steps);
        sm[k] = std::make_shared<Named>(ri, k + 1, int(i));
      }
      hier->push_level(lvl.matrix, lvl.filter, lvl.transfer, sm[0], sm[1], sm[2]);
    }
    {
      Level& lvl = *levels.back();
      auto pcg = Solver::new_pcg(lvl.matrix, lvl.filter);
      pcg->set_tol_rel(1e-12); pcg->set_max_iter(1000);
      hier->push_level(lvl.matrix, lvl.filter, std::make_shared<Named>(pcg, 4, nlev - 1));
    }
    auto mg = Solver::new_multigrid(hier, cyc == 0 ? Solver::MultiGridCycle::V : (cyc == 1 ? Solver::MultiGridCycle::F : Solver::MultiGridCycle::W));
    if(adapt == 1) mg->set_adapt_cgc(Solver::MultiGridAdaptCGC::MinEnergy);
    if(adapt == 2) mg->set_adapt_cgc(Solver::MultiGridAdaptCGC::MinDefect);
    hier->init(); mg->init();

    std::vector<long double> x(n, 0.0L), d(n);
    VectorType vdef(n), vcor(n);
    std::vector<long double> norms;
    vj::Value calls = vj::Value::array(); vj::Value shape = vj::Value::array();
    bool finite = true;
    for(int it = 0; it <= iters; ++it)
    {
      long double nn = 0.0L;
      for(Index i = 0; i < n; ++i)
      {
        long double s = b[i];
        for(IndexType k = rp[i]; k < rp[i + 1]; ++k) s -= (long double)va[k] * x[ci[k]];
        if(bnd[i]) s = 0.0L;
        d[i] = s; nn += s * s;
      }
      nn = std::sqrt(nn);
      if(!(nn == nn) || std::isinf((double)nn)) { finite = false; break; }
      norms.push_back(nn);
      if(it == iters || nn <= 1e-10L * norms[0]) break;
      for(Index i = 0; i < n; ++i) vdef(i, DataType(d[i]));
      vcor.format();
      if(it == 0) { Statistics::reset(); Statistics::enable_solver_expressions = true; }
      Solver::Status st = mg->apply(vcor, vdef);
      if(it == 0)
      {
        Statistics::enable_solver_expressions = false;
        // project FEAT's expression log onto the events of this multigrid object
        const String me = mg->name();
        for(const auto& e : Statistics::get_solver_expressions())
        {
          if(e->solver_name != me) continue;
          switch(e->get_type())
          {
          case Solver::ExpressionType::start_solve: shape.push("start"); break;
          case Solver::ExpressionType::end_solve: shape.push("end"); break;
          case Solver::ExpressionType::level_timings: shape.push("lt"); break;
          case Solver::ExpressionType::call_smoother:
          {
            auto t = std::dynamic_pointer_cast<Solver::ExpressionCallSmoother>(e);
            String nm = t->smoother_name; long long code = -1;
            if(nm.size() > 4 && nm.substr(0, 4) == "C09@") code = std::atoll(nm.substr(4).c_str());
            if(code / 16 < 1 || code / 16 > 3) return vh::bad("smoother expression names a non-smoother: " + nm);
            calls.push(code); shape.push("call"); break;
          }
          case Solver::ExpressionType::call_coarse_solver:
          {
            auto t = std::dynamic_pointer_cast<Solver::ExpressionCallCoarseSolver>(e);
            String nm = t->coarse_solver_name; long long code = -1;
            if(nm.size() > 4 && nm.substr(0, 4) == "C09@") code = std::atoll(nm.substr(4).c_str());
            if(code / 16 != 4) return vh::bad("coarse solver expression names a non-coarse-solver: " + nm);
            calls.push(code); shape.push("call"); break;
          }
          default: shape.push("other"); break;
          }
        }
        Statistics::reset();
      }
      if(st != Solver::Status::success) return vh::bad("MultiGrid::apply did not return success");
      for(Index i = 0; i < n; ++i) x[i] += (long double)vcor(i);
    }
    mg->done(); hier->done();

    vj::Value r = vj::Value::object();
    r["lmax"] = (long long)lmax; r["nlev"] = (long long)nlev; r["cyc"] = cyc; r["adapt"] = adapt; r["peak"] = have_peak; r["steps"] = (long long)steps;
    r["finite"] = finite; r["dofs"] = (long long)n;
    vj::Value pm = vj::Value::array(); vj::Value nv = vj::Value::array();
    for(std::size_t k = 0; k < norms.size(); ++k)
    {
      nv.push((double)norms[k]);
      if(k > 0)
      {
        long double ratio = norms[k - 1] > 0.0L ? norms[k] / norms[k - 1] : 0.0L;
        long long f = (long long)std::floor((double)(ratio * 1000.0L));
        if(f > 100000) f = 100000;
        pm.push(f);
      }
    }
    r["ratios_pm"] = pm; r["norms"] = nv; r["calls"] = calls; r["shape"] = shape;
    runs_out.push(r);
  }
  vj::Value res = vh::ok();
  res["runs"] = runs_out;
  return res;
}

int main(int argc, char** argv) { return vh::main_loop(argc, argv); }
