// C01 replayer: executes the post-states generated from spec/MatVec.tla on the real LAFEM containers.
// Every case is run for DT in {float,double} x IT in {uint32,uint64}; all values are small integers or
// dyadic, so every correct floating point evaluation is exact and the comparison is ==.
#include "vharness.hpp"
#include "vlafem.hpp"
#include <kernel/lafem/sparse_matrix_bwrappedcsr.hpp>

using namespace vl;

struct Ctx
{
  const vj::Value& c;
  std::string op; long long an, ad; bool alias; int bs;
  IVec x, y, r0, exp, mag; bool exactdom;
  std::string why;
  explicit Ctx(const vj::Value& cc) : c(cc)
  {
    op = c["op"].as_str(); an = c["an"].as_int(); ad = c["ad"].as_int(); alias = c["alias"].as_bool(); bs = (int)c["bs"].as_int();
    x = c["x"].ints(); y = c["y"].ints(); r0 = c["r0"].ints(); exp = c["exp"].ints(); mag = c["mag"].ints(); exactdom = c["exact"].as_bool();
  }
  bool fail(const std::string& w) { if(why.empty()) why = w; return false; }
};

template<class VT> static std::vector<double> read_real(const VT& v, long long scale)
{
  const auto* e = v.template elements<Perspective::pod>(); Index n = v.template size<Perspective::pod>();
  std::vector<double> r(n); for(Index i = 0; i < n; ++i) r[i] = double(e[i]) * double(scale); return r;
}
static std::string vs(const IVec& v) { return vj::dump(vj::from_vec(v)); }

// run the call on vectors of the given types; VR = result/y vector type, VX = x vector type, VY = y vector type
// TM: 0 = apply and apply_transposed both exist for these vector types (chosen at run time),
//     1 = only apply, 2 = only apply_transposed
template<int TM, class MT, class VR, class VX, class VY, class MK_R, class MK_X, class MK_Y>
bool run_call(Ctx& k, const MT& a, MK_R mkr, MK_X mkx, MK_Y mky, const std::string& tag)
{
  typedef typename MT::DataType DT;
  bool transposed = (k.op == "applyT" || k.op == "axpyT");
  if((TM == 1 && transposed) || (TM == 2 && !transposed)) return true;
  bool axpy = (k.op == "axpy" || k.op == "axpyT" || k.op == "axpysb");
  VX vx = mkx(k.x);
  const DT alpha = DT(double(k.an) / double(k.ad));
  bool exact = true;
  IVec got; std::vector<double> gotd;
  IVec ysnap;
  if(!axpy)
  {
    VR vr = mkr(k.r0);
    if constexpr (TM == 0) { if(transposed) a.apply_transposed(vr, vx); else a.apply(vr, vx); }
    else if constexpr (TM == 1) a.apply(vr, vx); else a.apply_transposed(vr, vx);
    got = read_pod(vr, 1, exact); gotd = read_real(vr, 1);
  }
  else if(k.alias)
  {
    // r and y are the same object
    VR vr = mkr(k.y);
    if constexpr (std::is_same<VR, VY>::value)
    {
      if constexpr (TM == 0) { if(transposed) a.apply_transposed(vr, vx, vr, alpha); else a.apply(vr, vx, vr, alpha); }
      else if constexpr (TM == 1) a.apply(vr, vx, vr, alpha); else a.apply_transposed(vr, vx, vr, alpha);
    }
    else return true; // aliasing impossible between different vector types
    got = read_pod(vr, k.ad, exact); gotd = read_real(vr, k.ad);
  }
  else
  {
    VR vr = mkr(k.r0); VY vy = mky(k.y);
    if constexpr (TM == 0) { if(transposed) a.apply_transposed(vr, vx, vy, alpha); else a.apply(vr, vx, vy, alpha); }
    else if constexpr (TM == 1) a.apply(vr, vx, vy, alpha); else a.apply_transposed(vr, vx, vy, alpha);
    got = read_pod(vr, k.ad, exact); gotd = read_real(vr, k.ad);
    bool e2 = true; ysnap = read_pod(vy, 1, e2);
    if(ysnap != k.y) return k.fail(tag + ": operand y modified: " + vs(ysnap));
    // the result is the caller's own vector: overwriting it afterwards must not reach the operands
    // (a result that was made to share the memory of y would modify y now)
    vr.format(DT(77));
    bool e4 = true;
    if(read_pod(vy, 1, e4) != k.y) return k.fail(tag + ": operand y modified by overwriting the result afterwards (result shares memory with y)");
    if(read_pod(vx, 1, e4) != k.x) return k.fail(tag + ": operand x modified by overwriting the result afterwards (result shares memory with x)");
  }
  bool e3 = true; IVec xs = read_pod(vx, 1, e3);
  if(xs != k.x) return k.fail(tag + ": operand x modified: " + vs(xs));
  if(k.exactdom)
  {
    if(!exact) return k.fail(tag + ": result not representable on the exact domain: " + vs(got));
    if(got != k.exp) return k.fail(tag + ": result " + vs(got) + " expected " + vs(k.exp));
    return true;
  }
  // alpha whose reciprocal is not dyadic: rounding bound  16 (len+2) eps (|alpha||A||x| + |y|), all scaled by ad
  if(gotd.size() != k.exp.size()) return k.fail(tag + ": result length");
  const double eps = double(std::numeric_limits<DT>::epsilon());
  for(std::size_t i = 0; i < gotd.size(); ++i)
  {
    double bound = 16.0 * double(k.x.size() + 2) * eps * double(k.mag[i]);
    if(!(std::fabs(gotd[i] - double(k.exp[i])) <= bound))
      return k.fail(tag + ": result[" + std::to_string(i) + "]*ad = " + std::to_string(gotd[i]) + " expected " + std::to_string(k.exp[i]) + " (bound " + std::to_string(bound) + ")");
  }
  return true;
}

template<class DT, class IT> using DV = DenseVector<DT, IT>;

template<class DT, class IT, class MT>
bool run_dense_vectors(Ctx& k, const MT& a, const std::string& tag)
{
  auto mk = [](const IVec& v) { return make_vec<DT, IT>(v); };
  return run_call<0, MT, DV<DT, IT>, DV<DT, IT>, DV<DT, IT>>(k, a, mk, mk, mk, tag);
}

template<class DT, class IT, int BS>
bool run_csr_sb(Ctx& k, const SparseMatrixCSR<DT, IT>& a, const std::string& tag)
{
  typedef DenseVectorBlocked<DT, IT, BS> BV;
  auto mk = [](const IVec& v) { return make_bvec<DT, IT, BS>(v); };
  if(!run_call<1, SparseMatrixCSR<DT, IT>, BV, BV, BV>(k, a, mk, mk, mk, tag + "/sb" + std::to_string(BS))) return false;
  // the same matrix behind the block-pretending wrapper (used for blocked multigrid transfers): A (x) I_BS
  typedef SparseMatrixBWrappedCSR<DT, IT, BS> WT;
  WT w(a.clone(CloneMode::Deep));
  static_assert(std::is_same<typename WT::VectorTypeL, BV>::value && std::is_same<typename WT::VectorTypeR, BV>::value, "wrapper vector types");
  if(w.create_vector_l().size() != a.rows() || w.create_vector_r().size() != a.columns()) return k.fail(tag + ": bwrapped create_vector sizes");
  return run_call<1, WT, BV, BV, BV>(k, w, mk, mk, mk, tag + "/bwrapped" + std::to_string(BS));
}

// compare matrix contents against the spec's Abs(rep)
static bool dense_matches(Ctx& k, const std::vector<IVec>& d, bool exact, const std::string& tag)
{
  std::vector<IVec> e = k.c["dense"].int_rows();
  if(!exact) return k.fail(tag + ": non-integral entry read back");
  // a 0 x n matrix has no rows in both
  if(d.size() != e.size()) return k.fail(tag + ": row count of represented matrix " + std::to_string(d.size()));
  for(std::size_t i = 0; i < d.size(); ++i) if(d[i] != e[i]) return k.fail(tag + ": container does not represent Abs(rep): row " + std::to_string(i) + " is " + vs(d[i]) + " expected " + vs(e[i]));
  return true;
}

template<class DT, class IT, int BH, int BW>
bool run_bcsr(Ctx& k, const std::string& tag0)
{
  typedef SparseMatrixBCSR<DT, IT, BH, BW> MT;
  Index mb = Index(k.c["mb"].as_int()), nb = Index(k.c["nb"].as_int());
  MT a = make_bcsr<DT, IT, BH, BW>(mb, nb, k.c["rep"]);
  std::string tag = tag0 + "/bcsr" + std::to_string(BH) + "x" + std::to_string(BW);
  if(a.rows() != mb || a.columns() != nb) return k.fail(tag + ": dimensions");
  bool exact = true; auto d = dense_of_bcsr(a, exact);
  if(!dense_matches(k, d, exact, tag)) return false;
  vj::Value snap = raw_snapshot(a);
  bool transposed = (k.op == "applyT" || k.op == "axpyT");
  auto mkd = [](const IVec& v) { return make_vec<DT, IT>(v); };
  bool ok = run_call<0, MT, DV<DT, IT>, DV<DT, IT>, DV<DT, IT>>(k, a, mkd, mkd, mkd, tag + "/dd");
  if constexpr (BH > 1 && BW > 1)
  {
    // r lives in the row space (block BH) for apply and in the column space (block BW) for the transposed call
    if(!transposed)
    {
      typedef DenseVectorBlocked<DT, IT, BH> BR; typedef DenseVectorBlocked<DT, IT, BW> BX;
      auto mkr = [](const IVec& v) { return make_bvec<DT, IT, BH>(v); };
      auto mkx = [](const IVec& v) { return make_bvec<DT, IT, BW>(v); };
      ok = ok && run_call<1, MT, BR, DV<DT, IT>, BR>(k, a, mkr, mkd, mkr, tag + "/bd");
      ok = ok && run_call<1, MT, DV<DT, IT>, BX, DV<DT, IT>>(k, a, mkd, mkx, mkd, tag + "/db");
      ok = ok && run_call<1, MT, BR, BX, BR>(k, a, mkr, mkx, mkr, tag + "/bb");
      if(k.op == "axpy") ok = ok && run_call<1, MT, BR, BX, DV<DT, IT>>(k, a, mkr, mkx, mkd, tag + "/bbd");
    }
    else
    {
      typedef DenseVectorBlocked<DT, IT, BW> BR; typedef DenseVectorBlocked<DT, IT, BH> BX;
      auto mkr = [](const IVec& v) { return make_bvec<DT, IT, BW>(v); };
      auto mkx = [](const IVec& v) { return make_bvec<DT, IT, BH>(v); };
      ok = ok && run_call<2, MT, BR, DV<DT, IT>, BR>(k, a, mkr, mkd, mkr, tag + "/bd");
      ok = ok && run_call<2, MT, DV<DT, IT>, BX, DV<DT, IT>>(k, a, mkd, mkx, mkd, tag + "/db");
      ok = ok && run_call<2, MT, BR, BX, BR>(k, a, mkr, mkx, mkr, tag + "/bb");
      if(k.op == "axpyT") ok = ok && run_call<2, MT, BR, BX, DV<DT, IT>>(k, a, mkr, mkx, mkd, tag + "/bbd");
    }
  }
  if(ok && raw_snapshot(a) != snap) return k.fail(tag + ": matrix arrays modified by the call");
  return ok;
}

template<class DT, class IT>
bool run_typed(Ctx& k, const std::string& tag)
{
  const std::string fmt = k.c["fmt"].as_str();
  Index m = Index(k.c["m"].as_int()), n = Index(k.c["n"].as_int());
  if(fmt == "csr")
  {
    bool ok = true;
    for(int em = 0; em < 2 && ok; ++em)
    {
      if(em == 1 && k.c["rep"]["ci"].size() > 0) break;
      auto a = make_csr<DT, IT>(m, n, k.c["rep"], em);
      if(a.rows() != m || a.columns() != n || a.used_elements() != Index(k.c["rep"]["ci"].size())) return k.fail(tag + ": csr dimensions");
      bool exact = true; auto d = dense_of(a, exact);
      if(!dense_matches(k, d, exact, tag + "/csr")) return false;
      vj::Value snap = raw_snapshot(a);
      if(k.bs == 1) ok = run_dense_vectors<DT, IT>(k, a, tag + "/csr" + (em ? "g" : ""));
      else if(k.bs == 2) ok = run_csr_sb<DT, IT, 2>(k, a, tag);
      else ok = run_csr_sb<DT, IT, 3>(k, a, tag);
      if(ok && raw_snapshot(a) != snap) return k.fail(tag + ": matrix arrays modified by the call");
    }
    return ok;
  }
  if(fmt == "cscr")
  {
    auto a = make_cscr<DT, IT>(m, n, k.c["rep"]);
    if(a.rows() != m || a.columns() != n) return k.fail(tag + ": cscr dimensions");
    bool exact = true; auto d = dense_of(a, exact);
    if(!dense_matches(k, d, exact, tag + "/cscr")) return false;
    vj::Value snap = raw_snapshot(a);
    bool ok = run_dense_vectors<DT, IT>(k, a, tag + "/cscr");
    if(ok && raw_snapshot(a) != snap) return k.fail(tag + ": matrix arrays modified by the call");
    return ok;
  }
  if(fmt == "banded")
  {
    auto a = make_banded<DT, IT>(m, n, k.c["rep"]);
    if(a.rows() != m || a.columns() != n) return k.fail(tag + ": banded dimensions");
    bool exact = true; auto d = dense_of(a, exact);
    if(!dense_matches(k, d, exact, tag + "/banded")) return false;
    vj::Value snap = raw_snapshot(a);
    bool ok = run_dense_vectors<DT, IT>(k, a, tag + "/banded");
    if(ok && raw_snapshot(a) != snap) return k.fail(tag + ": matrix arrays modified by the call");
    return ok;
  }
  if(fmt == "dense")
  {
    auto a = make_dense<DT, IT>(m, n, k.c["rep"]);
    if(a.rows() != m || a.columns() != n) return k.fail(tag + ": dense dimensions");
    bool exact = true; auto d = dense_of(a, exact);
    if(!dense_matches(k, d, exact, tag + "/dense")) return false;
    vj::Value snap = raw_snapshot(a);
    bool ok = run_dense_vectors<DT, IT>(k, a, tag + "/dense");
    if(ok && raw_snapshot(a) != snap) return k.fail(tag + ": matrix arrays modified by the call");
    return ok;
  }
  if(fmt == "bcsr")
  {
    int bh = (int)k.c["bh"].as_int(), bw = (int)k.c["bw"].as_int();
    if(bh == 1 && bw == 1) return run_bcsr<DT, IT, 1, 1>(k, tag);
    if(bh == 2 && bw == 2) return run_bcsr<DT, IT, 2, 2>(k, tag);
    if(bh == 2 && bw == 3) return run_bcsr<DT, IT, 2, 3>(k, tag);
    if(bh == 3 && bw == 2) return run_bcsr<DT, IT, 3, 2>(k, tag);
    return k.fail("unsupported block shape");
  }
  return k.fail("unknown format " + fmt);
}

vj::Value run_case(const vj::Value& c)
{
  Ctx k(c);
  bool ok = run_typed<double, std::uint64_t>(k, "f64/u64")
         && run_typed<double, std::uint32_t>(k, "f64/u32")
         && run_typed<float, std::uint64_t>(k, "f32/u64")
         && run_typed<float, std::uint32_t>(k, "f32/u32");
  if(ok) return vh::ok();
  return vh::bad(k.why);
}

int main(int argc, char** argv) { return vh::main_loop(argc, argv); }
