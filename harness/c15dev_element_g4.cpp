#define C15_GROUP 4
#include "c15dev_element.cpp"
